/* C10 - wire behaviour conforms to the RFCs: MatrixSSL interoperates with an independent stack.
 *
 * One case = one configuration (role, version, suite, server certificate incl. the identities whose chain is
 * signed with SHA-384 / SHA-512, key-exchange group incl. HelloRetryRequest, client authentication,
 * resumption mode, extended master secret, DTLS cookie length chosen by the OpenSSL server application,
 * DTLS flight to lose once + timer mode, payload plan, read-chunk size).  The MatrixSSL endpoint (the sanitizer build of /repo) and an
 * OpenSSL 3 endpoint run in one forked child and talk over in-memory queues (byte stream for TLS,
 * datagram queue for DTLS).  Both stacks draw their randomness from seeded streams, so a case replays
 * exactly.  MatrixSSL is driven like the reference applications: read at most `chunk` bytes, call
 * matrixSslReceivedData, flush the output whenever it answers MATRIXSSL_REQUEST_SEND.
 *
 * Oracle, for every configuration that both stacks support:
 *   - both complete the handshake;
 *   - both report the same version, cipher suite, (TLS 1.3) group, extended-master-secret use,
 *     and these equal what the configuration pins;
 *   - tagged payloads of every planned size round-trip bit-exact in both directions, also when
 *     written as many tiny records and when the ciphertext is delivered in odd-sized reads;
 *   - after a clean shutdown the next connection is resumed on BOTH stacks' view whenever both
 *     hold the state, and data still round-trips.
 * A configuration that one stack cannot do at all (suite unknown to OpenSSL, key file not loadable,
 * statically known feature gap, see static_gap()) is counted as not_mutually_supported_<why>, never
 * as pass or violation.  OpenSSL policy knobs are opened (security level 0, exact protocol version,
 * SSL_OP_LEGACY_SERVER_CONNECT, no wall-clock DTLS retransmission) so that only protocol conformance
 * is judged.
 *   - DTLS with a lost flight (loss=<flight>/<timer mode>): the handshake completes on both stacks within
 *     LOSS_TIMEOUT_ROUNDS logical timeout rounds (clauses dtls-loss-handshake-stalls / -fails, family = the
 *     flight), then everything above holds as well;
 *   - the OpenSSL server's cookie callbacks saw its cookie echoed bit-exact and never a wrong one.
 *
 * Violation key: c10:<clause>:<version>:<role>:<family>[+<dimension>...] where the dimensions are the
 * non-default settings that are NEEDED for the failure (found by re-running the case with one
 * dimension at a time reset to its default) - the key names the cause, not the accidental rest.
 * Debug aids for --case: C10_HEX=1 dumps handshake records, C10_FEEDTRACE=1 traces every read. */
#include "mx.h"
#include <openssl/ssl.h>
#include <openssl/err.h>
#include <openssl/x509.h>
#include <openssl/evp.h>
#include <openssl/pem.h>

/* ------------------------------------------------------------------ configuration space --- */
enum { R_MXC = 0, R_MXS = 1 };
static const char *rolename[] = { "mx-client", "mx-server" };

/* CT_BASE_N.. : identities whose CHAIN is signed with SHA-384 / SHA-512 (same keys as ec384 / ec521 / rsa2048).  Below TLS 1.3 MatrixSSL
 * takes the CertificateVerify / ServerKeyExchange hash from the certificate's own signature algorithm, so these reach the SHA-384 / SHA-512
 * handshake-hash snapshots that the SHA-256-signed sample chains never touch.  rsa2048-sha384 has no sample file: it is RSA/2048_RSA.pem
 * re-signed with sha384WithRSAEncryption by the sample CA key at start-up (mint_rsa_sha384). */
enum { CT_NONE = 0, CT_RSA, CT_RSA3072, CT_PSS, CT_EC256, CT_EC384, CT_EC521, CT_ED25519, CT_BASE_N,
       CT_EC384S384 = CT_BASE_N, CT_EC521S512, CT_RSAS384, CT_RSAS512, CT_N };
static char minted_rsa384[600];
static struct { const char *name, *cert, *key, *ca; int curve, chainhash; } certs[CT_N] = {
    { "none", NULL, NULL, NULL, 0, 0 },
    { "rsa2048", MX_TK "RSA/2048_RSA.pem", MX_TK "RSA/2048_RSA_KEY.pem", MX_TK "RSA/2048_RSA_CA.pem", 0 },
    { "rsa3072", MX_TK "RSA/3072_RSA.pem", MX_TK "RSA/3072_RSA_KEY.pem", MX_TK "RSA/3072_RSA_CA.pem", 0 },
    { "rsapss", MX_TK "RSA/2048_RSA_PSS.pem", MX_TK "RSA/2048_RSA_PSS_KEY.pem", MX_TK "RSA/2048_RSA_PSS_CA.pem", 0 },
    { "ec256", MX_TK "EC/256_EC.pem", MX_TK "EC/256_EC_KEY.pem", MX_TK "EC/256_EC_CA.pem", 23 },
    { "ec384", MX_TK "EC/384_EC.pem", MX_TK "EC/384_EC_KEY.pem", MX_TK "EC/384_EC_CA.pem", 24 },
    { "ec521", MX_TK "EC/521_EC.pem", MX_TK "EC/521_EC_KEY.pem", MX_TK "EC/521_EC_CA.pem", 25 },
    { "ed25519", MX_TK "EC/ED25519.pem", MX_TK "EC/ED25519_KEY.pem", MX_TK "EC/ED25519_CA.pem", 0 },
    { "ec384-sha384", MX_TK "EC/384_EC_SHA384.pem", MX_TK "EC/384_EC_KEY.pem", MX_TK "EC/384_EC_CA_SHA384.pem", 24, 384 },
    { "ec521-sha512", MX_TK "EC/521_EC_SHA512.pem", MX_TK "EC/521_EC_KEY.pem", MX_TK "EC/521_EC_CA_SHA512.pem", 25, 512 },
    { "rsa2048-sha384", minted_rsa384, MX_TK "RSA/2048_RSA_KEY.pem", MX_TK "RSA/2048_RSA_CA.pem", 0, 384 },
    { "rsa2048-sha512", MX_TK "RSA/2048_RSA_SHA512.pem", MX_TK "RSA/2048_RSA_KEY.pem", MX_TK "RSA/2048_RSA_SHA512_CA.pem", 0, 512 },
};
static int cert_is_rsa(int c) { return c == CT_RSA || c == CT_RSA3072 || c == CT_PSS || c == CT_RSAS384 || c == CT_RSAS512; }
static int cert_is_ecdsa(int c) { return c == CT_EC256 || c == CT_EC384 || c == CT_EC521 || c == CT_EC384S384 || c == CT_EC521S512; }
static int cert_is_rsa_encryption(int c) { return c == CT_RSA || c == CT_RSA3072 || c == CT_RSAS384 || c == CT_RSAS512; }
/* The SHA-384 / SHA-512 sample chains come with their own self-signed root files: same CA name and key as the SHA-256 root, other
 * signature.  When the two ends of one connection use identities from both files, OpenSSL (which completes its chain from its verify
 * store) sends a root certificate that differs from the one MatrixSSL was given as anchor, and MatrixSSL answers bad_certificate.
 * That is chain building with a re-issued root (C03 / C04 territory), not a protocol matter: such pairs are not run. */
static int two_roots_one_ca(int a, int b)
{
    static const int fam[CT_N] = { [CT_RSA] = 1, [CT_RSAS384] = 1, [CT_RSAS512] = 1, [CT_EC384] = 2, [CT_EC384S384] = 2, [CT_EC521] = 3, [CT_EC521S512] = 3 };
    return a != b && fam[a] && fam[a] == fam[b] && strcmp(certs[a].ca, certs[b].ca);
}

/* named groups (IANA ids); 0 = leave both stacks on their defaults */
static const struct { int id; const char *name, *oname; int ecflag; } groups[] = {
    { 0, "default", NULL, 0 },
    { 23, "p256", "P-256", IS_SECP256R1 }, { 24, "p384", "P-384", IS_SECP384R1 }, { 25, "p521", "P-521", IS_SECP521R1 },
    { 29, "x25519", "X25519", 0 }, { 0x100, "ffdhe2048", "ffdhe2048", 0 }, { 0x101, "ffdhe3072", "ffdhe3072", 0 },
};
#define NGROUPS ((int) (sizeof groups / sizeof groups[0]))
static int group_idx(int id) { for (int i = 0; i < NGROUPS; i++) if (groups[i].id == id) return i; return 0; }
static int group_by_name(const char *n) { for (int i = 0; i < NGROUPS; i++) if (!strcmp(groups[i].name, n)) return groups[i].id; return -1; }

enum { RS_NONE = 0, RS_SID, RS_TICKET, RS_PSK13, RS_EXTPSK, RS_N };
static const char *resname[] = { "none", "sid", "ticket", "psk13", "extpsk" };

static const int tls_sizes[] = { 1, 100, 16383, 16384, 16385, 40000, 200000 };
static const int dtls_sizes[] = { 1, 100, 1000, 1200 };
#define PLAN_SPLIT 0x80
#define PLAN_PAD 0x200      /* TLS 1.3: both stacks pad application records to 1024-byte blocks (padding runs >= 256 zero octets) */
#define PLAN_LONG 0x100     /* more than 256 records per direction under one key (record sequence numbers cross a byte boundary) */
static const int chunks[] = { 0, 3, 17, 1399, 4096, 16389 };

/* DTLS HelloVerifyRequest cookie of the OpenSSL server (mx-client): length in bytes, 0 = no cookie exchange.  RFC 6347 4.2.1 allows 0..255
 * (RFC 4347: 0..32 - DTLS 1.0 configurations with longer cookies are not conforming and not run). */
#define COOKIE_DEFAULT 24
static const int cookie_lens[] = { 1, 16, 32, 33, 64, 255 };
/* DTLS loss dimension: the first transmission of one handshake flight (all its datagrams) is lost; both stacks then retransmit on
 * timers that the harness fires in logical time (see pump_lossy).  The flight is named by content, not by position, so that the name
 * means the same with and without cookie exchange and in full and resumed handshakes. */
enum { FL_NONE = 0, FL_CH1, FL_HVR, FL_CH2, FL_SHELLO, FL_CFIN, FL_SFIN, FL_N };
static const char *flightname[] = { "none", "client-hello", "hello-verify-request", "client-hello-with-cookie", "server-hello-flight", "client-finished-flight", "server-finished-flight" };
/* which timers fire in the first timeout round (afterwards always both): both, only OpenSSL's, only the MatrixSSL application's */
enum { LM_BOTH = 0, LM_OSSL_FIRST, LM_MX_FIRST, LM_N };
typedef struct {
    int role, ver, suite /* index into mx_suites */, cert, g0 /* first share / only offer */, g1 /* group to end up with */;
    int cauth /* cert type the client authenticates with, CT_NONE = off */, res, ems, cookie, plan, chunk;
    int loss /* FL_* */, lossmode /* LM_* */;
} cfg_t;

static const char *kxname(const mx_suite_t *s)
{
    if (s->tls13) return s->id == 0x1302 ? "tls13-sha384" : "tls13-sha256";   /* the key-schedule hash is what distinguishes TLS 1.3 handshakes */
    if (s->auth == MX_AUTH_PSK) return "psk";
    if (s->auth == MX_AUTH_ECDSA) return "ecdhe-ecdsa";
    return (s->id & 0xff00) == 0xc000 ? "ecdhe-rsa" : "rsa";
}
static int suite_is_ecdhe(const mx_suite_t *s) { return !s->tls13 && (s->id & 0xff00) == 0xc000; }
static const char *ciphername(const mx_suite_t *s)
{
    switch (s->id) {
    case 0x002f: case 0xc013: case 0xc009: case 0x008c: return "aes128cbc-sha1";
    case 0x0035: case 0xc014: case 0xc00a: case 0x008d: return "aes256cbc-sha1";
    case 0x003c: case 0xc027: case 0xc023: case 0x00ae: return "aes128cbc-sha256";
    case 0x003d: return "aes256cbc-sha256";
    case 0xc028: case 0xc024: case 0x00af: return "aes256cbc-sha384";
    case 0x009c: case 0xc02f: case 0xc02b: case 0x1301: return "aes128gcm";
    case 0x009d: case 0xc030: case 0xc02c: case 0x1302: return "aes256gcm";
    case 0x1303: return "chacha20poly1305";
    }
    return "other";
}

static void cfg_spec(const cfg_t *c, char *out, size_t cap)
{
    int n = snprintf(out, cap, "role=%s,ver=%s,suite=%04x,cert=%s,group=%s>%s,cauth=%s,res=%s,ems=%d,cookie=%d,plan=0x%x,chunk=%d",
        c->role ? "mxs" : "mxc", mx_vername[c->ver], mx_suites[c->suite].id, certs[c->cert].name, groups[group_idx(c->g0)].name,
        groups[group_idx(c->g1)].name, certs[c->cauth].name, resname[c->res], c->ems, c->cookie, c->plan, c->chunk);
    if (c->loss) snprintf(out + n, cap - n, ",loss=%s/%d", flightname[c->loss], c->lossmode);
}
static int cfg_parse(const char *s, cfg_t *c)
{
    char role[8], ver[16], cert[16], ga[16], gb[16], ca[16], res[16], fl[32] = ""; unsigned suite, plan; int lm = 0;
    int nf = sscanf(s, "role=%7[^,],ver=%15[^,],suite=%x,cert=%15[^,],group=%15[^>]>%15[^,],cauth=%15[^,],res=%15[^,],ems=%d,cookie=%d,plan=0x%x,chunk=%d,loss=%31[^/]/%d",
            role, ver, &suite, cert, ga, gb, ca, res, &c->ems, &c->cookie, &plan, &c->chunk, fl, &lm);
    if (nf != 12 && nf != 14) return -1;
    c->loss = FL_NONE; c->lossmode = lm;
    if (nf == 14) { c->loss = -1; for (int i = 0; i < FL_N; i++) if (!strcmp(fl, flightname[i])) c->loss = i; if (c->loss < 0 || lm < 0 || lm >= LM_N) return -1; }
    c->role = !strcmp(role, "mxs"); c->plan = plan; c->ver = c->suite = c->cert = c->cauth = c->res = -1;
    for (int i = 0; i < MX_NVER; i++) if (!strcmp(ver, mx_vername[i])) c->ver = i;
    for (int i = 0; i < MX_NSUITES; i++) if (mx_suites[i].id == suite) c->suite = i;
    for (int i = 0; i < CT_N; i++) { if (!strcmp(cert, certs[i].name)) c->cert = i; if (!strcmp(ca, certs[i].name)) c->cauth = i; }
    for (int i = 0; i < RS_N; i++) if (!strcmp(res, resname[i])) c->res = i;
    c->g0 = group_by_name(ga); c->g1 = group_by_name(gb);
    return (c->ver < 0 || c->suite < 0 || c->cert < 0 || c->cauth < 0 || c->res < 0 || c->g0 < 0 || c->g1 < 0) ? -1 : 0;
}

/* which server certificate types fit a suite at all (RFC semantics, not stack limits) */
static int cert_fits(const mx_suite_t *s, int ct, int ver)
{
    if (s->auth == MX_AUTH_PSK) return ct == CT_NONE;
    if (ct == CT_NONE) return 0;
    /* RSASSA-PSS keys and Ed25519 have no defined signature format before TLS 1.2 (RFC 8446 4.2.3, RFC 8422 5.10) */
    if ((ver == MX_TLS11 || ver == MX_DTLS10) && (ct == CT_PSS || ct == CT_ED25519)) return 0;
    if (s->tls13) return 1;
    if (s->auth == MX_AUTH_ECDSA) return cert_is_ecdsa(ct) || ct == CT_ED25519;
    if (suite_is_ecdhe(s)) return cert_is_rsa(ct);
    return cert_is_rsa_encryption(ct);                 /* RSA key transport needs an rsaEncryption key */
}
static int default_cert(const mx_suite_t *s) { return s->auth == MX_AUTH_PSK ? CT_NONE : s->auth == MX_AUTH_ECDSA ? CT_EC256 : CT_RSA; }

/* ------------------------------------------------------------------ queue BIO --- */
typedef struct qnode { struct qnode *next; int n, off; unsigned char d[]; } qnode;
typedef struct { qnode *h, *t; } q_t;
static void q_push(q_t *q, const void *d, int n) { qnode *x = malloc(sizeof *x + n + 1); x->next = NULL; x->n = n; x->off = 0; memcpy(x->d, d, n); if (q->t) q->t->next = x; else q->h = x; q->t = x; }
static void q_pop(q_t *q) { qnode *x = q->h; q->h = x->next; if (!q->h) q->t = NULL; free(x); }
static void q_clear(q_t *q) { while (q->h) q_pop(q); }
typedef struct { q_t in, out; int dgram; } qb_t;   /* in: towards OpenSSL, out: written by OpenSSL */
static int qb_write(BIO *b, const char *d, int n) { qb_t *Q = BIO_get_data(b); BIO_clear_retry_flags(b); if (n <= 0) return 0; q_push(&Q->out, d, n); return n; }
static int qb_read(BIO *b, char *d, int n)
{
    qb_t *Q = BIO_get_data(b); BIO_clear_retry_flags(b);
    if (!Q->in.h) { BIO_set_retry_read(b); return -1; }
    qnode *x = Q->in.h; int k = x->n - x->off; if (k > n) k = n;
    memcpy(d, x->d + x->off, k);
    if (Q->dgram) q_pop(&Q->in); else { x->off += k; if (x->off == x->n) q_pop(&Q->in); }
    return k;
}
static long qb_ctrl(BIO *b, int cmd, long num, void *ptr)
{
    (void) b; (void) ptr;
    switch (cmd) {
    case BIO_CTRL_FLUSH: case BIO_CTRL_PUSH: case BIO_CTRL_POP: case BIO_CTRL_DUP: return 1;
    case BIO_CTRL_DGRAM_QUERY_MTU: case BIO_CTRL_DGRAM_GET_FALLBACK_MTU: return 1400;
    case BIO_CTRL_DGRAM_SET_MTU: return num;
    case BIO_CTRL_DGRAM_GET_MTU_OVERHEAD: return 28;
    case BIO_CTRL_DGRAM_SET_NEXT_TIMEOUT: return 1;
    default: return 0;
    }
}
static int qb_create(BIO *b) { BIO_set_init(b, 1); return 1; }
static BIO_METHOD *qb_meth;
static BIO *qb_new(qb_t *Q)
{
    if (!qb_meth) { qb_meth = BIO_meth_new(BIO_TYPE_SOURCE_SINK | 100, "vfq"); BIO_meth_set_write(qb_meth, qb_write); BIO_meth_set_read(qb_meth, qb_read); BIO_meth_set_ctrl(qb_meth, qb_ctrl); BIO_meth_set_create(qb_meth, qb_create); }
    BIO *b = BIO_new(qb_meth); BIO_set_data(b, Q); return b;
}

/* ------------------------------------------------------------------ deterministic OpenSSL randomness ---
 * Cases must replay exactly, so OpenSSL's randoms, ephemeral keys, IVs and tickets come from a seeded
 * stream as well (RAND_set_rand_method covers RAND_bytes and RAND_priv_bytes). */
#include <openssl/rand.h>
static vf_rng o_rng;
static int o_rand_bytes(unsigned char *b, int n) { vf_fill(&o_rng, b, (size_t) n); return 1; }
static int o_rand_status(void) { return 1; }
static int o_rand_seed(const void *b, int n) { (void) b; (void) n; return 1; }
static int o_rand_add(const void *b, int n, double e) { (void) b; (void) n; (void) e; return 1; }
static const RAND_METHOD o_rand_meth = { o_rand_seed, o_rand_bytes, NULL, o_rand_add, o_rand_bytes, o_rand_status };

/* ------------------------------------------------------------------ OpenSSL's DTLS timer in logical time ---
 * libssl reads the wall clock through gettimeofday (ssl/d1_lib.c get_current_time).  This definition in the executable takes precedence
 * over libc's for the shared libraries, so OpenSSL's retransmission timer runs on a clock that only the harness advances: it never
 * fires on a loaded machine and fires exactly when a timeout round says so.  (MatrixSSL's own references are redirected to
 * __wrap_gettimeofday by the linker and are not affected.) */
#include <sys/time.h>
static long o_clock_s;
int gettimeofday(struct timeval *restrict tv, void *restrict tz) { (void) tz; if (tv) { tv->tv_sec = mx_now + o_clock_s; tv->tv_usec = 0; } return 0; }

/* ------------------------------------------------------------------ one connection --- */
typedef struct {
    const cfg_t *c; const mx_suite_t *s; int dtls; int connno;
    mx_ep M; SSL *O; qb_t Q;
    int odone, ofail, oclosed; char oerr[300];
    unsigned char *ogot; size_t ogotlen, ogotcap;
    int stalled;
    /* DTLS loss dimension (active while the handshake of the lossy connection runs) */
    int lossy, dropped, forceSend, trounds, mretx, oretx, mGotInput; char lostdesc[120];
} conn_t;

static char SPEC[400];
static const cfg_t *CUR;
static int LOSS_VACUOUS;   /* the flight to lose does not occur in this configuration's handshake: the case says nothing about loss */
/* Failures of one execution are collected first: the responsible configuration dimensions are then
 * isolated by re-running reduced configurations, so that the violation key names the cause and stays
 * the same whatever other dimensions the failing case happened to carry. */
typedef struct { char clause[40], family[48], msg[1500]; } failure_t;
static failure_t FAILS[8]; static int nfails;
static int sample_this = 1;
static int counting;   /* 1 while executing the configuration under test, 0 while probing reduced ones */
static void fail(const char *clause, const char *family, const char *fmt, ...)
{
    if (nfails < 8) {
        failure_t *f = &FAILS[nfails];
        va_list ap; va_start(ap, fmt); vsnprintf(f->msg, sizeof f->msg, fmt, ap); va_end(ap);
        snprintf(f->clause, sizeof f->clause, "%s", clause); snprintf(f->family, sizeof f->family, "%s", family);
        if (vf_verbose && counting) fprintf(stderr, "  FAIL %s (%s): %s\n", clause, family, f->msg);
    }
    nfails++;
}
#define STAT(k, n) do { if (counting) vf_stat(k, n); } while (0)
#define STATF(n, ...) do { if (counting) vf_statf(n, __VA_ARGS__); } while (0)
/* every dimension of c that is not at its default, as a key fragment */
static const char *deviations(const cfg_t *c, int rechunk_sensitive, int skip_res)
{
    static char f[200]; const mx_suite_t *s = &mx_suites[c->suite]; int n = 0; f[0] = 0;
    if (c->cert != default_cert(s)) n += snprintf(f + n, sizeof f - n, "+cert-%s", certs[c->cert].name);
    if (c->g0 != c->g1) n += snprintf(f + n, sizeof f - n, "+hello-retry-request");
    else if (c->g1) n += snprintf(f + n, sizeof f - n, "+group-%s", groups[group_idx(c->g1)].name);
    if (c->cauth) n += snprintf(f + n, sizeof f - n, "+clientauth-%s", certs[c->cauth].name);
    if (!c->ems && !s->tls13) n += snprintf(f + n, sizeof f - n, "+no-ems");
    if (c->res != RS_NONE && !skip_res) n += snprintf(f + n, sizeof f - n, "+%s", c->loss ? "resumed" : c->res == RS_EXTPSK ? "external-psk" : resname[c->res]);   /* loss: the resumed handshake is the lossy one, whatever carried the state */
    if (MX_IS_DTLS(c->ver) && c->role == R_MXC && !c->cookie) n += snprintf(f + n, sizeof f - n, "+no-cookie");
    else if (MX_IS_DTLS(c->ver) && c->role == R_MXC && c->cookie != COOKIE_DEFAULT) n += snprintf(f + n, sizeof f - n, c->cookie > 32 ? "+cookie-over-32-bytes" : "+cookie-up-to-32-bytes");
    if (c->loss && c->lossmode) n += snprintf(f + n, sizeof f - n, c->lossmode == LM_OSSL_FIRST ? "+openssl-timer-first" : "+matrixssl-timer-first");
    if (rechunk_sensitive) n += snprintf(f + n, sizeof f - n, "+only-when-stream-is-rechunked");
    return f;
}

static void o_err(conn_t *k, const char *what, int e)
{
    unsigned long c = ERR_peek_last_error();
    char eb[200]; ERR_error_string_n(c, eb, sizeof eb);
    snprintf(k->oerr, sizeof k->oerr, "%s: SSL_get_error=%d %s", what, e, c ? eb : "(empty error queue)");
    if (vf_verbose) { fprintf(stderr, "  openssl: %s\n", k->oerr); ERR_print_errors_fp(stderr); }
    ERR_clear_error();
    k->ofail = 1;
}
/* let OpenSSL consume whatever is queued for it: handshake steps, then application data into ogot */
static void o_drive(conn_t *k)
{
    if (k->ofail) return;
    if (!k->odone) {
        int r = SSL_do_handshake(k->O);
        if (r == 1) k->odone = 1;
        else { int e = SSL_get_error(k->O, r); if (e != SSL_ERROR_WANT_READ && e != SSL_ERROR_WANT_WRITE) { o_err(k, "SSL_do_handshake", e); return; } }
    }
    if (k->odone && !k->oclosed) {
        for (;;) {
            if (k->ogotlen + 20000 > k->ogotcap) { k->ogotcap = (k->ogotlen + 20000) * 2; k->ogot = realloc(k->ogot, k->ogotcap); }
            int r = SSL_read(k->O, k->ogot + k->ogotlen, 16500);
            if (r > 0) { k->ogotlen += r; continue; }
            int e = SSL_get_error(k->O, r);
            if (e == SSL_ERROR_ZERO_RETURN) k->oclosed = 1;
            else if (e != SSL_ERROR_WANT_READ && e != SSL_ERROR_WANT_WRITE) o_err(k, "SSL_read", e);
            break;
        }
    }
}
/* verbose wire trace: one line per record */
static void trace_wire(conn_t *k, const char *dir, const unsigned char *b, int n)
{
    if (!vf_verbose) return;
    int off = 0; mx_rec r;
    while (off < n && mx_rec_at(b, n, off, k->dtls, &r)) {
        fprintf(stderr, "    %s rec type=%d ver=%02x%02x epoch=%d seq=%llu len=%d", dir, r.type, r.vmaj, r.vmin, r.epoch, r.seq, r.len);
        if (r.type == 22 && r.epoch == 0 && r.len >= 4) fprintf(stderr, " hs=%d", b[off + r.hdr]);
        if (r.type == 22 && r.epoch == 0 && r.len >= 4 && getenv("C10_HEX")) { fprintf(stderr, " "); for (int i = 0; i < r.len; i++) fprintf(stderr, "%02x", b[off + r.hdr + i]); }
        if (r.type == 21 && r.len == 2) fprintf(stderr, " alert=%d/%d", b[off + r.hdr], b[off + r.hdr + 1]);
        fprintf(stderr, "\n");
        off += r.hdr + r.len;
    }
    if (off < n) fprintf(stderr, "    %s +%d bytes (partial record)\n", dir, n - off);
}
/* Name a DTLS handshake flight by its content (first datagram decides hello kinds; a ChangeCipherSpec record anywhere makes it a
 * Finished flight).  Returns FL_NONE for anything that is not a handshake flight. */
static int flight_kind(int from_client, const unsigned char *d, int n, int prev)
{
    int off = 0, kind = prev; mx_rec r;
    while (off < n && mx_rec_at(d, n, off, 1, &r)) {
        if (r.type == 20) kind = from_client ? FL_CFIN : FL_SFIN;
        else if (r.type == 22 && r.epoch == 0 && r.len >= 12 && kind == FL_NONE) {
            const unsigned char *h = d + off + r.hdr; int t = h[0];
            if (t == 1 && from_client) {
                /* ClientHello body: version(2) random(32) session_id<0..32> cookie<0..255> */
                int p = 12 + 34, cl = -1;
                if (p < r.len) { p += 1 + h[p]; if (p < r.len) cl = h[p]; }
                kind = cl > 0 ? FL_CH2 : FL_CH1;
            } else if (t == 3 && !from_client) kind = FL_HVR;
            else if (t == 2 && !from_client) kind = FL_SHELLO;
            else if (from_client) kind = FL_CFIN;         /* Certificate / ClientKeyExchange open the client's second flight */
        }
        off += r.hdr + r.len;
    }
    return kind;
}
/* Loss decision for one batch of datagrams emitted in one turn (= one flight): the first flight of the configured kind is lost whole. */
static int lose_flight(conn_t *k, int from_client, int kind, int ndg, int nbytes)
{
    if (!k->lossy || k->dropped || kind != k->c->loss) return 0;
    k->dropped = 1;
    snprintf(k->lostdesc, sizeof k->lostdesc, "%s of the %s (%d datagram%s, %d bytes)", flightname[kind], (from_client == (k->c->role == R_MXC)) ? "MatrixSSL endpoint" : "OpenSSL endpoint", ndg, ndg == 1 ? "" : "s", nbytes);
    if (vf_verbose) fprintf(stderr, "    LOST: %s\n", k->lostdesc);
    return 1;
}
/* MatrixSSL -> OpenSSL: every GetOutdata result is one datagram (DTLS) or a piece of the stream.
 * timeout != 0: the application's retransmission timer fired - matrixDtlsGetOutdata is called although nothing is pending, which is how the
 * reference applications ask the library to rebuild its last flight. */
static int move_m2o_ex(conn_t *k, int timeout)
{
    int tot = 0; mx_ep *e = &k->M;
    q_t batch = { NULL, NULL }; int ndg = 0, kind = FL_NONE;
    for (int guard = 0; guard < 10000; guard++) {
        unsigned char *ob;
        if (k->dtls && e->ssl->outlen == 0 && !e->ssl->flightDone && !timeout && !k->forceSend) break;   /* an extra call would mean "timeout: resend" */
        timeout = 0; k->forceSend = 0;
        mx_actor = e->id; e->calls++;
        int n = k->dtls ? matrixDtlsGetOutdata(e->ssl, &ob) : matrixSslGetOutdata(e->ssl, &ob);
        if (n <= 0) { if (n < 0) { e->dead = 1; e->lastrc = n; } break; }
        trace_wire(k, "mx->os", ob, n);
        if (k->lossy) { q_push(&batch, ob, n); ndg++; kind = flight_kind(k->c->role == R_MXC, ob, n, kind); } else q_push(&k->Q.in, ob, n);
        tot += n;
        mx_actor = e->id; e->calls++;
        int rc = k->dtls ? matrixDtlsSentData(e->ssl, n) : matrixSslSentData(e->ssl, n);
        if (rc == MATRIXSSL_HANDSHAKE_COMPLETE) e->hsDone = 1;
        else if (rc == MATRIXSSL_REQUEST_CLOSE) e->closeReq = 1;
        else if (rc < 0) { e->dead = 1; e->lastrc = rc; break; }
    }
    if (ndg) {
        if (lose_flight(k, k->c->role == R_MXC, kind, ndg, tot)) q_clear(&batch);
        else while (batch.h) { q_push(&k->Q.in, batch.h->d, batch.h->n); q_pop(&batch); }
    }
    e->wantTake = 0;
    return tot;
}
static int move_m2o(conn_t *k) { return move_m2o_ex(k, 0); }
/* Deliver stream bytes the way the reference applications do: read at most `chunk` bytes into the read
 * buffer, hand them to matrixSslReceivedData, and whenever the library asks to send
 * (MATRIXSSL_REQUEST_SEND) flush its output before reading on. */
static void feed_like_an_app(conn_t *k, const unsigned char *d, int len, int chunk)
{
    mx_ep *e = &k->M; int off = 0;
    while (off < len && !e->dead) {
        unsigned char *rb, *pt = NULL; uint32 ptl = 0;
        mx_actor = e->id; e->calls++;
        int n = matrixSslGetReadbuf(e->ssl, &rb);
        if (n <= 0) { e->dead = 1; e->lastrc = n; return; }
        if (n > len - off) n = len - off;
        if (chunk > 0 && n > chunk) n = chunk;
        memcpy(rb, d + off, n); off += n;
        mx_actor = e->id; e->calls++; e->wantTake = 1;
        int rc = matrixSslReceivedData(e->ssl, n, &pt, &ptl);
        rc = mx_process_rc(e, rc, pt, ptl);
        if (getenv("C10_FEEDTRACE")) fprintf(stderr, "        fed %d (off %d/%d) rc=%d hsState=%d inlen=%d outlen=%d bFlags=%x flags=%x\n", n, off, len, rc, e->ssl->hsState, e->ssl->inlen, e->ssl->outlen, (unsigned) e->ssl->bFlags, (unsigned) e->ssl->flags);
        if (rc == MATRIXSSL_REQUEST_SEND) move_m2o(k);
    }
}
/* OpenSSL -> MatrixSSL; the TLS byte stream is re-chunked (cfg.chunk), DTLS datagrams stay whole */
static int move_o2m(conn_t *k)
{
    int tot = 0;
    if (k->dtls) {
        if (k->lossy && k->Q.out.h) {
            int kind = FL_NONE, ndg = 0, nb = 0;
            for (qnode *x = k->Q.out.h; x; x = x->next) { kind = flight_kind(k->c->role == R_MXS, x->d, x->n, kind); ndg++; nb += x->n; }
            if (lose_flight(k, k->c->role == R_MXS, kind, ndg, nb)) { for (qnode *x = k->Q.out.h; x; x = x->next) trace_wire(k, "os->(lost)", x->d, x->n); q_clear(&k->Q.out); return nb; }
        }
        while (k->Q.out.h) {
            qnode *x = k->Q.out.h; tot += x->n; trace_wire(k, "os->mx", x->d, x->n);
            if (!k->M.dead) {
                k->mGotInput = 1;
                int rc = mx_feed(&k->M, x->d, x->n);
                /* reference applications: one datagram per matrixSslReceivedData, send whenever the library asks (a repeated flight of the
                   peer makes it answer MATRIXSSL_REQUEST_SEND with an empty outbuf: "call matrixDtlsGetOutdata, I will rebuild my flight") */
                if (k->lossy && rc == MATRIXSSL_REQUEST_SEND) { k->forceSend = 1; if (k->M.ssl->outlen == 0 && !k->M.ssl->flightDone) k->mretx++; move_m2o(k); }
            }
            q_pop(&k->Q.out);
        }
        return tot;
    }
    unsigned char *buf = NULL; int n = 0;
    while (k->Q.out.h) { qnode *x = k->Q.out.h; buf = realloc(buf, n + x->n + 1); memcpy(buf + n, x->d, x->n); n += x->n; q_pop(&k->Q.out); }
    if (n > 0 && n < 3000) trace_wire(k, "os->mx", buf, n);
    if (n > 0 && !k->M.dead) feed_like_an_app(k, buf, n, k->c->chunk);
    if (vf_verbose && n > 0) fprintf(stderr, "      mx after %d bytes: rc=%d hsState=%d inlen=%d insize=%d outlen=%d dead=%d\n", n, k->M.lastrc, k->M.ssl->hsState, k->M.ssl->inlen, k->M.ssl->insize, k->M.ssl->outlen, k->M.dead);
    free(buf);
    return n;
}
static int m_done(conn_t *k) { return k->M.hsDone && matrixSslHandshakeIsComplete(k->M.ssl); }
static int move_m2o_ex(conn_t *k, int timeout);
/* run until neither side has anything to say */
static void pump(conn_t *k)
{
    int idle = 0;
    for (int r = 0; r < 400 && idle < 2; r++) {
        int a = move_m2o(k);
        o_drive(k);
        int b = move_o2m(k);
        if (a + b == 0) idle++; else idle = 0;
        if (k->M.dead && k->ofail) break;
    }
}

/* DTLS handshake over a network that loses one flight.  Logical time: a timeout round happens only when nothing is in flight and the
 * handshake is not complete on both stacks.  In it the MatrixSSL application's timer fires exactly when the reference applications'
 * would (apps/dtls: a client that has seen HANDSHAKE_COMPLETE never resends; a server that completed a resumed handshake from
 * matrixSslReceivedData never resends) and OpenSSL's timer fires through DTLSv1_handle_timeout after its clock was moved past the
 * longest possible timeout.  lossmode decides which timer fires alone in the first round. */
#define LOSS_TIMEOUT_ROUNDS 6
static void fire_timeouts(conn_t *k)
{
    int first = k->trounds == 0, mfire = !(first && k->c->lossmode == LM_OSSL_FIRST), ofire = !(first && k->c->lossmode == LM_MX_FIRST);
    mx_ep *e = &k->M;
    k->trounds++; STAT("dtls_loss_timeout_rounds", 1);
    if (vf_verbose) fprintf(stderr, "    TIMEOUT round %d (matrixssl hsState=%d hsDone=%d, openssl %s)\n", k->trounds, e->ssl->hsState, e->hsDone, SSL_state_string_long(k->O));
    /* dtlsServer.c creates the session when the first datagram arrives: a server that has seen nothing has no timer */
    if (mfire && !e->dead && !(k->c->role == R_MXS && !k->mGotInput) && !(e->hsDone && (k->c->role == R_MXC || matrixSslIsResumedSession(e->ssl)))) {
        int n = move_m2o_ex(k, 1);
        if (n > 0) { k->mretx++; STAT("dtls_loss_matrixssl_timer_retransmissions", 1); }
    }
    if (ofire && !k->ofail) {
        o_clock_s += 70;
        int r = DTLSv1_handle_timeout(k->O);
        if (r > 0) { k->oretx++; STAT("dtls_loss_openssl_timer_retransmissions", 1); }
        else if (r < 0) o_err(k, "DTLSv1_handle_timeout", SSL_get_error(k->O, r));
        if (vf_verbose) fprintf(stderr, "    openssl timer: DTLSv1_handle_timeout = %d\n", r);
    }
}
static int m_done(conn_t *k);
static void pump_lossy(conn_t *k)
{
    int idle = 0;
    for (int r = 0; r < 400; r++) {
        int a = move_m2o(k);
        o_drive(k);
        int b = move_o2m(k);
        if (k->M.dead || k->ofail) break;
        if (a + b) { idle = 0; continue; }
        if (++idle < 2) continue;
        if (k->odone && m_done(k)) break;
        if (k->trounds >= LOSS_TIMEOUT_ROUNDS) { k->stalled = 1; break; }
        fire_timeouts(k); idle = 0;
    }
}

/* ---- OpenSSL callbacks ---- */
static unsigned int o_psk_server_cb(SSL *s, const char *identity, unsigned char *psk, unsigned int max)
{
    (void) s; if (!identity || strncmp(identity, (const char *) mx_psk_id, 15) || max < 16) return 0;
    memcpy(psk, mx_psk_key, 16); return 16;
}
static unsigned int o_psk_client_cb(SSL *s, const char *hint, char *identity, unsigned int maxid, unsigned char *psk, unsigned int max)
{
    (void) s; (void) hint; if (maxid < 16 || max < 16) return 0;
    memcpy(identity, mx_psk_id, 16); memcpy(psk, mx_psk_key, 16); return 16;
}
static unsigned char ext_psk[48];
static int ext_psk_len(const mx_suite_t *s) { return s->id == 0x1302 ? 48 : 32; }
static SSL_SESSION *o_ext_psk_session(SSL *ssl, const mx_suite_t *s)
{
    const unsigned char id[2] = { (unsigned char) (s->id >> 8), (unsigned char) s->id };
    const SSL_CIPHER *ci = SSL_CIPHER_find(ssl, id);
    SSL_SESSION *ss = SSL_SESSION_new();
    if (!ci || !ss || !SSL_SESSION_set1_master_key(ss, ext_psk, ext_psk_len(s)) || !SSL_SESSION_set_cipher(ss, ci) || !SSL_SESSION_set_protocol_version(ss, TLS1_3_VERSION)) { SSL_SESSION_free(ss); return NULL; }
    return ss;
}
static const mx_suite_t *cb_suite;
static int o_psk_use_session_cb(SSL *ssl, const EVP_MD *md, const unsigned char **id, size_t *idlen, SSL_SESSION **sess)
{
    (void) md; *sess = o_ext_psk_session(ssl, cb_suite); if (!*sess) return 0;
    *id = mx_tls13_psk_id; *idlen = sizeof(mx_tls13_psk_id) - 1; return 1;
}
static int o_psk_find_session_cb(SSL *ssl, const unsigned char *id, size_t idlen, SSL_SESSION **sess)
{
    *sess = NULL;
    if (idlen == sizeof(mx_tls13_psk_id) - 1 && !memcmp(id, mx_tls13_psk_id, idlen)) *sess = o_ext_psk_session(ssl, cb_suite);
    return 1;
}
static SSL_SESSION *o_saved;
static int o_new_session_cb(SSL *s, SSL_SESSION *sess) { (void) s; if (o_saved) SSL_SESSION_free(o_saved); o_saved = sess; return 1; }
/* the application-chosen cookie of the OpenSSL server: o_cookie_len bytes (1..255, the callback buffer holds DTLS1_COOKIE_LENGTH = 255) */
static unsigned int o_cookie_len = COOKIE_DEFAULT; static int o_cookie_verified, o_cookie_rejected;
static void o_cookie_bytes(unsigned char *b, unsigned int n) { for (unsigned int i = 0; i < n; i++) b[i] = (unsigned char) ("c10-hello-verify-cookie!"[i % 24] + 7 * (i / 24)); }
static int o_cookie_gen(SSL *s, unsigned char *cookie, unsigned int *len) { (void) s; o_cookie_bytes(cookie, o_cookie_len); *len = o_cookie_len; return 1; }
static int o_cookie_verify(SSL *s, const unsigned char *cookie, unsigned int len)
{
    unsigned char want[256]; (void) s; o_cookie_bytes(want, o_cookie_len);
    int ok = len == o_cookie_len && !memcmp(cookie, want, len);
    if (ok) o_cookie_verified++; else o_cookie_rejected++;
    return ok;
}

static unsigned int o_dtls_timer(SSL *s, unsigned int us) { (void) s; (void) us; return 4000000000u; }
static int o_version(int ver) { switch (ver) { case MX_TLS11: return TLS1_1_VERSION; case MX_TLS12: return TLS1_2_VERSION; case MX_TLS13: return TLS1_3_VERSION; case MX_DTLS10: return DTLS1_VERSION; default: return DTLS1_2_VERSION; } }
static int nid_to_group(int nid) { switch (nid) { case NID_X9_62_prime256v1: return 23; case NID_secp384r1: return 24; case NID_secp521r1: return 25; case NID_X25519: return 29; case NID_ffdhe2048: return 0x100; case NID_ffdhe3072: return 0x101; default: return -nid; } }

/* name OpenSSL uses for a suite id, or NULL when OpenSSL does not implement it */
static const char *o_suite_name(int dtls, int server, uint16_t id)
{
    static char name[80];
    SSL_CTX *t = SSL_CTX_new(dtls ? DTLS_method() : TLS_method());
    SSL_CTX_set_security_level(t, 0);
    SSL_CTX_set_cipher_list(t, "ALL:@SECLEVEL=0");
    (void) server;
    STACK_OF(SSL_CIPHER) *sk = SSL_CTX_get_ciphers(t); const char *r = NULL;
    for (int i = 0; sk && i < sk_SSL_CIPHER_num(sk); i++) {
        const SSL_CIPHER *c = sk_SSL_CIPHER_value(sk, i);
        if (SSL_CIPHER_get_protocol_id(c) == id) { snprintf(name, sizeof name, "%s", SSL_CIPHER_get_name(c)); r = name; break; }
    }
    SSL_CTX_free(t);
    return r;
}

/* Build the OpenSSL context for a configuration; returns NULL and sets *why when OpenSSL cannot do it */
static SSL_CTX *o_ctx_new(const cfg_t *c, const char **why)
{
    const mx_suite_t *s = &mx_suites[c->suite]; int dtls = MX_IS_DTLS(c->ver), server = c->role == R_MXC;
    const char *nm = o_suite_name(dtls, server, s->id);
    if (!nm) { *why = "openssl_lacks_suite"; return NULL; }
    SSL_CTX *ctx = SSL_CTX_new(dtls ? (server ? DTLS_server_method() : DTLS_client_method()) : (server ? TLS_server_method() : TLS_client_method()));
    SSL_CTX_set_security_level(ctx, 0);
    if (!SSL_CTX_set_min_proto_version(ctx, o_version(c->ver)) || !SSL_CTX_set_max_proto_version(ctx, o_version(c->ver))) { *why = "openssl_lacks_version"; SSL_CTX_free(ctx); return NULL; }
    if (s->tls13) { if (SSL_CTX_set_ciphersuites(ctx, nm) != 1) { *why = "openssl_lacks_suite"; SSL_CTX_free(ctx); return NULL; } }
    else { char l[120]; snprintf(l, sizeof l, "%s:@SECLEVEL=0", nm); if (SSL_CTX_set_cipher_list(ctx, l) != 1) { *why = "openssl_lacks_suite"; SSL_CTX_free(ctx); return NULL; } }
    uint64_t opts = 0;
    if (!server) opts |= SSL_OP_LEGACY_SERVER_CONNECT;     /* this MatrixSSL build has renegotiation compiled out and sends no renegotiation_info */
    if (!c->ems) opts |= SSL_OP_NO_EXTENDED_MASTER_SECRET;
    if (!s->tls13 && c->res != RS_TICKET) opts |= SSL_OP_NO_TICKET;
    if (dtls && server && c->cookie) { opts |= SSL_OP_COOKIE_EXCHANGE; o_cookie_len = (unsigned int) c->cookie; SSL_CTX_set_cookie_generate_cb(ctx, o_cookie_gen); SSL_CTX_set_cookie_verify_cb(ctx, o_cookie_verify); }
    SSL_CTX_set_options(ctx, opts);
    SSL_CTX_set_mode(ctx, SSL_MODE_AUTO_RETRY);
    if (server) {
        SSL_CTX_set_session_id_context(ctx, (const unsigned char *) "c10", 3);
        SSL_CTX_set_session_cache_mode(ctx, c->res == RS_SID ? SSL_SESS_CACHE_SERVER : SSL_SESS_CACHE_OFF);
        SSL_CTX_set_num_tickets(ctx, c->res == RS_PSK13 ? 2 : 0);
    } else {
        SSL_CTX_set_session_cache_mode(ctx, SSL_SESS_CACHE_CLIENT | SSL_SESS_CACHE_NO_INTERNAL);
        SSL_CTX_sess_set_new_cb(ctx, o_new_session_cb);
    }
    /* key exchange groups */
    if (c->g1) {
        char gl[64];
        if (server) snprintf(gl, sizeof gl, "%s", groups[group_idx(c->g1)].oname);                                          /* server: only the target group */
        else if (c->g0 != c->g1) snprintf(gl, sizeof gl, "%s:%s", groups[group_idx(c->g0)].oname, groups[group_idx(c->g1)].oname); /* client: share for g0 only */
        else snprintf(gl, sizeof gl, "%s", groups[group_idx(c->g1)].oname);
        /* TLS <= 1.2: the certificate's own curve must stay acceptable (RFC 8422 5.1.1) */
        int cc = cert_is_ecdsa(c->cert) ? certs[c->cert].curve : 0, ca = cert_is_ecdsa(c->cauth) ? certs[c->cauth].curve : 0;
        if (!s->tls13) for (int t = 0; t < 2; t++) { int cv = t ? ca : cc; if (cv && cv != c->g1 && !strstr(gl, groups[group_idx(cv)].oname)) { strcat(gl, ":"); strcat(gl, groups[group_idx(cv)].oname); } }
        if (SSL_CTX_set1_groups_list(ctx, gl) != 1) { *why = "openssl_lacks_group"; SSL_CTX_free(ctx); return NULL; }
    }
    /* credentials */
    int own = server ? c->cert : c->cauth, peer = server ? c->cauth : c->cert;
    if (own != CT_NONE) {
        if (SSL_CTX_use_certificate_chain_file(ctx, certs[own].cert) != 1 || SSL_CTX_use_PrivateKey_file(ctx, certs[own].key, SSL_FILETYPE_PEM) != 1 || SSL_CTX_check_private_key(ctx) != 1) {
            if (vf_verbose) ERR_print_errors_fp(stderr);
            ERR_clear_error(); *why = "openssl_cannot_load_key"; SSL_CTX_free(ctx); return NULL;
        }
    }
    if (peer != CT_NONE) {
        /* real chain verification, at the harness' virtual time (the sample certificates expire in 2027) */
        X509_VERIFY_PARAM_set_time(SSL_CTX_get0_param(ctx), (time_t) mx_now);
        if (SSL_CTX_load_verify_locations(ctx, certs[peer].ca, NULL) != 1) { *why = "openssl_cannot_load_ca"; SSL_CTX_free(ctx); return NULL; }
        SSL_CTX_set_verify(ctx, server ? (SSL_VERIFY_PEER | SSL_VERIFY_FAIL_IF_NO_PEER_CERT) : SSL_VERIFY_PEER, NULL);
        if (server) SSL_CTX_set_client_CA_list(ctx, SSL_load_client_CA_file(certs[peer].ca));
    }
    if (s->auth == MX_AUTH_PSK && !s->tls13) { if (server) SSL_CTX_set_psk_server_callback(ctx, o_psk_server_cb); else SSL_CTX_set_psk_client_callback(ctx, o_psk_client_cb); }
    if (c->res == RS_EXTPSK) { cb_suite = s; if (server) SSL_CTX_set_psk_find_session_callback(ctx, o_psk_find_session_cb); else SSL_CTX_set_psk_use_session_callback(ctx, o_psk_use_session_cb); }
    return ctx;
}

/* ---- MatrixSSL side ---- */
static int m_ticket_generation;
static sslKeys_t *m_keys_new(const cfg_t *c, const char **why)
{
    const mx_suite_t *s = &mx_suites[c->suite]; int server = c->role == R_MXS;
    int own = server ? c->cert : c->cauth, peer = server ? c->cauth : c->cert;
    sslKeys_t *k = NULL;
    if (matrixSslNewKeys(&k, NULL) < 0) { *why = "mx_newkeys"; return NULL; }
    if (own != CT_NONE || peer != CT_NONE) {
        int rc = matrixSslLoadKeys(k, own ? certs[own].cert : NULL, own ? certs[own].key : NULL, NULL, peer ? certs[peer].ca : NULL, NULL);
        if (rc < 0) { if (vf_verbose) fprintf(stderr, "  matrixSslLoadKeys(%s, ca %s) = %d\n", certs[own].name, certs[peer].name, rc); *why = "mx_cannot_load_key"; matrixSslDeleteKeys(k); return NULL; }
    }
    if (s->auth == MX_AUTH_PSK) {
        /* OpenSSL identities are C strings: the 15 printable bytes of the sample identity */
        if (matrixSslLoadPsk(k, mx_psk_key, 16, mx_psk_id, 15) < 0) { *why = "mx_cannot_load_psk"; matrixSslDeleteKeys(k); return NULL; }
    }
    if (c->res == RS_EXTPSK && matrixSslLoadTls13Psk(k, ext_psk, ext_psk_len(s), mx_tls13_psk_id, sizeof(mx_tls13_psk_id) - 1, NULL) < 0) { *why = "mx_cannot_load_tls13_psk"; matrixSslDeleteKeys(k); return NULL; }
    if (server && (c->res == RS_TICKET || c->res == RS_PSK13)) {
        static unsigned char name[16] = "c10-ticket-key-1"; unsigned char sym[32], mac[32];
        name[15] = (unsigned char) ('1' + m_ticket_generation); memset(sym, 0x5c + m_ticket_generation, 32); memset(mac, 0xa7 - m_ticket_generation, 32);   /* generation > 0: the keys of a "restarted" server */
        if (matrixSslLoadSessionTicketKeys(k, name, sym, 32, mac, 32) < 0) { *why = "mx_cannot_load_ticket_keys"; matrixSslDeleteKeys(k); return NULL; }
    }
    return k;
}
static int m_session_new(conn_t *k, sslKeys_t *keys, sslSessionId_t *sid, const char **why)
{
    const cfg_t *c = k->c; const mx_suite_t *s = k->s; mx_ep *e = &k->M; int server = c->role == R_MXS;
    sslSessOpts_t o; memset(&o, 0, sizeof o);
    psProtocolVersion_t v = mx_verflag(c->ver);
    if (k->dtls) o.versionFlag = SSL_FLAGS_DTLS | (c->ver == MX_DTLS12 ? SSL_FLAGS_TLS_1_2 : SSL_FLAGS_TLS_1_1);
    else if (server) matrixSslSessOptsSetServerTlsVersionRange(&o, v, v);
    else matrixSslSessOptsSetClientTlsVersionRange(&o, v, v);
    if (!server && c->res == RS_TICKET) o.ticketResumption = 1;
    if (!c->ems) o.extendedMasterSecret = -1;
    if (c->g1) {
        if (s->tls13) {
            uint16_t gl[2]; int n = 0;
            if (server) gl[n++] = c->g1;                                   /* server: only the target group -> HelloRetryRequest when the first share differs */
            else { gl[n++] = c->g0; if (c->g1 != c->g0) gl[n++] = c->g1; } /* client: one share, for g0 */
            if (matrixSslSessOptsSetKeyExGroups(&o, gl, n, 1) < 0) { *why = "mx_lacks_group"; return -1; }
        } else {
            int gi = group_idx(c->g1);
            o.ecFlags = groups[gi].ecflag;
            if (cert_is_ecdsa(c->cert)) o.ecFlags |= groups[group_idx(certs[c->cert].curve)].ecflag;
            if (cert_is_ecdsa(c->cauth)) o.ecFlags |= groups[group_idx(certs[c->cauth].curve)].ecflag;
        }
    }
    if (!s->tls13 && !server && c->cert == CT_PSS) {
        /* MatrixSSL's default TLS 1.2 signature_algorithms omit rsa_pss_pss_*; the public API opts in */
        uint16_t sa[] = { sigalg_rsa_pss_pss_sha256, sigalg_rsa_pss_pss_sha384, sigalg_rsa_pss_pss_sha512, sigalg_rsa_pss_rsae_sha256, sigalg_rsa_pkcs1_sha256, sigalg_rsa_pkcs1_sha384, sigalg_ecdsa_secp256r1_sha256 };
        if (matrixSslSessOptsSetSigAlgs(&o, sa, 7) < 0) { *why = "mx_lacks_rsa_pss_pss_sigalg"; return -1; }
    }
    memset(e, 0, sizeof *e); e->role = server ? MX_SERVER : MX_CLIENT; e->ver = c->ver; e->id = server ? 1 : 0; e->name = server ? "S" : "C";
    mx_actor = e->id;
    int rc;
    if (server) rc = matrixSslNewServerSession(&e->ssl, keys, c->cauth ? mx_cert_cb_strict : NULL, &o);
    else {
        psCipher16_t cs[1] = { s->id }; e->sid = sid;
        rc = matrixSslNewClientSession(&e->ssl, keys, sid, cs, 1, mx_cert_cb_strict, NULL, NULL, NULL, &o);
        e->wantTake = 1;
    }
    if (rc < 0) { if (vf_verbose) fprintf(stderr, "  matrixSslNew%sSession = %d\n", server ? "Server" : "Client", rc); *why = "mx_rejects_session_options"; e->ssl = NULL; return -1; }
    return 0;
}
static int m_version(ssl_t *ssl)
{
    psProtocolVersion_t v = matrixSslGetNegotiatedVersion(ssl);
    if (v & v_tls_1_3) return MX_TLS13; if (v & v_tls_1_2) return MX_TLS12; if (v & v_tls_1_1) return MX_TLS11; if (v & v_dtls_1_2) return MX_DTLS12; if (v & v_dtls_1_0) return MX_DTLS10;
    return -1;
}
static int o_ver_to_mx(int v) { switch (v) { case TLS1_1_VERSION: return MX_TLS11; case TLS1_2_VERSION: return MX_TLS12; case TLS1_3_VERSION: return MX_TLS13; case DTLS1_VERSION: return MX_DTLS10; case DTLS1_2_VERSION: return MX_DTLS12; } return -1; }

static void describe_failure(conn_t *k, char *out, size_t cap)
{
    mx_ep *e = &k->M;
    snprintf(out, cap, "matrixssl: hsDone=%d dead=%d lastrc=%d hsState=%d err(alert sent)=%d alertsIn=%d last alert in=%d/%d | openssl: done=%d fail=%d state=%s %s",
        e->hsDone, e->dead, e->lastrc, e->ssl ? e->ssl->hsState : -1, e->ssl ? e->ssl->err : -1, e->nAlertIn, e->alertLevel, e->alertDesc,
        k->odone, k->ofail, SSL_state_string_long(k->O), k->oerr);
}

/* send one payload MatrixSSL -> OpenSSL and compare */
static int data_m2o(conn_t *k, const unsigned char *p, int len, int piece, const char *what)
{
    size_t base = k->ogotlen;
    for (int off = 0; off < len; ) {
        int n = len - off; if (n > piece) n = piece;
        int rc = mx_send(&k->M, p + off, n);
        if (rc <= 0) { fail("data-send-fails", ciphername(k->s), "matrixSslEncodeToOutdata(%d bytes at %d of %d, %s) returned %d", n, off, len, what, rc); return -1; }
        off += n;
        if (piece >= 1000 || off == len) { move_m2o(k); o_drive(k); }
    }
    pump(k);
    size_t got = k->ogotlen - base;
    if (got != (size_t) len || memcmp(k->ogot + base, p, len)) {
        size_t d = 0; while (d < got && d < (size_t) len && k->ogot[base + d] == p[d]) d++;
        char st[700]; describe_failure(k, st, sizeof st);
        fail("data-corrupt", ciphername(k->s), "matrixssl->openssl %s: sent %d bytes, openssl delivered %zu, first difference at %zu | %s", what, len, got, d, st);
        return -1;
    }
    STAT("payloads_mx_to_openssl_ok", 1);
    return 0;
}
static int data_o2m(conn_t *k, const unsigned char *p, int len, int piece, const char *what)
{
    size_t base = k->M.gotlen;
    for (int off = 0; off < len; ) {
        int n = len - off; if (n > piece) n = piece;
        int r = SSL_write(k->O, p + off, n);
        if (r != n) { o_err(k, "SSL_write", SSL_get_error(k->O, r)); fail("data-send-fails", ciphername(k->s), "SSL_write(%d bytes, %s) returned %d: %s", n, what, r, k->oerr); return -1; }
        off += n;
        if (piece >= 1000 || off == len) move_o2m(k);
    }
    pump(k);
    size_t got = k->M.gotlen - base;
    if (got != (size_t) len || memcmp(k->M.got + base, p, len)) {
        size_t d = 0; while (d < got && d < (size_t) len && k->M.got[base + d] == p[d]) d++;
        char st[700]; describe_failure(k, st, sizeof st);
        fail("data-corrupt", ciphername(k->s), "openssl->matrixssl %s: sent %d bytes, matrixssl delivered %zu, first difference at %zu | %s", what, len, got, d, st);
        return -1;
    }
    STAT("payloads_openssl_to_mx_ok", 1);
    return 0;
}
static int data_phase(conn_t *k, int plan)
{
    const int *sz = k->dtls ? dtls_sizes : tls_sizes; int nsz = k->dtls ? 4 : 7, serial = 0;
    unsigned char *p = malloc(200001);
    int conn = (int) ((vf_seed * 31 + k->connno) & 0xffff);
    /* the client speaks first */
    for (int i = 0; i < nsz; i++) if (plan & (1 << i)) {
        int L = sz[i]; char what[40]; snprintf(what, sizeof what, "payload of %d", L);
        for (int t = 0; t < 2; t++) {
            int m2o = (k->c->role == R_MXC) == (t == 0);
            mx_payload(p, L, conn, m2o ? k->M.role : !k->M.role, serial++);
            int piece = k->dtls ? L : 16384;
            if ((m2o ? data_m2o(k, p, L, piece, what) : data_o2m(k, p, L, L, what)) < 0) { free(p); return -1; }
        }
        STATF(1, "size_%d_roundtrips", L);
    }
    if (plan & PLAN_SPLIT) {
        /* many tiny writes, one record each, delivered as one burst */
        for (int t = 0; t < 2; t++) {
            int m2o = (k->c->role == R_MXC) == (t == 0), L = k->dtls ? 40 : 160;
            mx_payload(p, L, conn, m2o ? k->M.role : !k->M.role, serial++);
            if (k->dtls) {
                /* datagrams: each write is delivered as its own message; compare the concatenation */
                for (int off = 0, i = 0; off < L; i++) { int n = 1 + i % 7; if (n > L - off) n = L - off; if ((m2o ? data_m2o(k, p + off, n, n, "tiny datagram") : data_o2m(k, p + off, n, n, "tiny datagram")) < 0) { free(p); return -1; } off += n; }
            } else {
                size_t base = m2o ? k->ogotlen : k->M.gotlen; int bad = 0;
                for (int off = 0, i = 0; off < L; i++) {
                    int n = 1 + i % 7; if (n > L - off) n = L - off;
                    if (m2o) { if (mx_send(&k->M, p + off, n) <= 0) bad = 1; } else if (SSL_write(k->O, p + off, n) != n) bad = 1;
                    off += n;
                }
                if (bad) { fail("data-send-fails", ciphername(k->s), "tiny write refused (%s)", m2o ? "matrixSslEncodeToOutdata" : "SSL_write"); free(p); return -1; }
                pump(k);
                size_t got = (m2o ? k->ogotlen : k->M.gotlen) - base; const unsigned char *g = (m2o ? k->ogot : k->M.got) + base;
                if (got != (size_t) L || memcmp(g, p, L)) { char st[700]; describe_failure(k, st, sizeof st); fail("data-corrupt", ciphername(k->s), "%s record-splitting writes: %d bytes in 1..7-byte records, %zu delivered or content differs | %s", m2o ? "matrixssl->openssl" : "openssl->matrixssl", L, got, st); free(p); return -1; }
            }
            STAT("split_write_bursts_ok", 1);
        }
    }
    if (plan & PLAN_LONG) {
        for (int t = 0; t < 2; t++) {
            int m2o = (k->c->role == R_MXC) == (t == 0), NREC = 300, L = 24;
            for (int i = 0; i < NREC; i++) {
                mx_payload(p, L, conn, m2o ? k->M.role : !k->M.role, serial++);
                if ((m2o ? data_m2o(k, p, L, L, "record of a 300-record stream") : data_o2m(k, p, L, L, "record of a 300-record stream")) < 0) { free(p); return -1; }
            }
            STAT("long_streams_ok", 1);
        }
    }
    free(p);
    return 0;
}

/* clean bidirectional shutdown; the client closes first */
static void shutdown_both(conn_t *k)
{
    if (k->c->role == R_MXC) {
        mx_actor = k->M.id; matrixSslEncodeClosureAlert(k->M.ssl); k->M.wantTake = 1;
        pump(k);
        for (int i = 0; i < 3 && SSL_shutdown(k->O) == 0; i++) pump(k);
        pump(k);
    } else {
        SSL_shutdown(k->O); pump(k);
        mx_actor = k->M.id; matrixSslEncodeClosureAlert(k->M.ssl); k->M.wantTake = 1;
        pump(k);
        SSL_shutdown(k->O);
    }
    ERR_clear_error();
}

typedef struct { int ok, mres, ores, mver, over, mgroup, ogroup, mems, oems; unsigned msuite, osuite; } hs_result;

static int run_connection(conn_t *k, const cfg_t *c, SSL_CTX *ctx, sslKeys_t *mkeys, sslSessionId_t *sid, int connno, int plan, hs_result *R)
{
    const char *why = NULL;
    memset(k, 0, sizeof *k); memset(R, 0, sizeof *R);
    k->c = c; k->s = &mx_suites[c->suite]; k->dtls = MX_IS_DTLS(c->ver); k->connno = connno; k->Q.dgram = k->dtls;
    if (m_session_new(k, mkeys, sid, &why) < 0) { STATF(1, "not_mutually_supported_%s", why); return -2; }
    k->O = SSL_new(ctx);
    BIO *b = qb_new(&k->Q); SSL_set_bio(k->O, b, b);
    /* the queue never loses a datagram: keep OpenSSL's wall-clock retransmission timer from firing on a loaded machine */
    /* the loss dimension applies to the first handshake, or to the resumed one when the configuration resumes */
    int lossy = k->dtls && c->loss && connno == ((c->res == RS_SID || c->res == RS_TICKET) ? 1 : 0);
    if (k->dtls) { SSL_set_options(k->O, SSL_OP_NO_QUERY_MTU); SSL_set_mtu(k->O, 1400); if (!lossy) DTLS_set_timer_cb(k->O, o_dtls_timer); }
    if (c->role == R_MXC) SSL_set_accept_state(k->O); else { SSL_set_connect_state(k->O); if (connno > 0 && o_saved) SSL_set_session(k->O, o_saved); }
    o_cookie_verified = o_cookie_rejected = 0;
    if (lossy) { k->lossy = 1; pump_lossy(k); k->lossy = 0; } else pump(k);
    int both = k->odone && !k->ofail && m_done(k) && !k->M.dead;
    if (lossy) {
        if (!k->dropped) { STATF(1, "dtls_loss_flight_not_in_this_handshake_%s", flightname[c->loss]); LOSS_VACUOUS = 1; }
        else if (both) { STATF(1, "dtls_loss_recovered_%s_%s", rolename[c->role], flightname[c->loss]); STATF(1, "dtls_loss_recovered_after_%d_timeout_rounds", k->trounds); }
    }
    if (!both && lossy && k->dropped) {
        /* a network that loses one flight must only delay the handshake */
        char st[900]; describe_failure(k, st, sizeof st);
        int stall = !k->M.dead && !k->ofail;
        fail(stall ? "dtls-loss-handshake-stalls" : "dtls-loss-handshake-fails", flightname[c->loss],
            "%s handshake: the first transmission of the %s was lost; %s after %d timeout rounds (retransmissions: matrixssl %d, openssl %d) | %s",
            connno ? "resumed" : "full", k->lostdesc, stall ? "neither stack reports an error but the handshake is not complete on both" : "a stack gave up with an error", k->trounds, k->mretx, k->oretx, st);
        return -1;
    }
    if (!both) {
        char st[900]; describe_failure(k, st, sizeof st);
        fail(connno == 2 ? "declined-resumption-handshake-fails" : connno ? "resumed-handshake-fails" : "handshake-fails", connno ? resname[c->res] : kxname(k->s), "%s handshake did not complete on both stacks | %s", connno == 2 ? "third (resumption state offered to a peer that cannot use it)" : connno ? "second (resumption)" : "first", st);
        return -1;
    }
    R->ok = 1;
    if (k->dtls && c->role == R_MXC && c->cookie) {
        /* the cookie exchange must really have happened with a cookie of the configured length echoed bit-exact */
        if (o_cookie_verified < 1 || o_cookie_rejected) fail("parameter-mismatch", "cookie", "openssl server with a %d-byte HelloVerifyRequest cookie completed after %d accepted / %d rejected cookie echoes", c->cookie, o_cookie_verified, o_cookie_rejected);
        else if (connno == 0) STATF(1, "cookie_%d_bytes_echoed", c->cookie);
    }
    R->mres = matrixSslIsResumedSession(k->M.ssl) ? 1 : 0; R->ores = SSL_session_reused(k->O) ? 1 : 0;
    R->mver = m_version(k->M.ssl); R->over = o_ver_to_mx(SSL_version(k->O));
    psCipher16_t id = 0; matrixSslGetNegotiatedCiphersuite(k->M.ssl, &id); R->msuite = id;
    R->osuite = SSL_CIPHER_get_protocol_id(SSL_get_current_cipher(k->O));
    R->mgroup = k->s->tls13 ? k->M.ssl->tls13NegotiatedGroup : 0;
    R->ogroup = nid_to_group(SSL_get_negotiated_group(k->O));
    R->mems = k->M.ssl->extFlags.extended_master_secret ? 1 : 0; R->oems = SSL_get_extms_support(k->O) == 1;
    if (vf_verbose) fprintf(stderr, "  conn %d: version %s/%s suite %04x/%04x group %d/%d ems %d/%d resumed %d/%d (matrixssl/openssl)\n", connno, mx_vername[R->mver < 0 ? 0 : R->mver], mx_vername[R->over < 0 ? 0 : R->over], R->msuite, R->osuite, R->mgroup, R->ogroup, R->mems, R->oems, R->mres, R->ores);
    if (R->mver != R->over || R->mver != c->ver) fail("parameter-mismatch", "version", "negotiated version: matrixssl %d openssl %d configured %d", R->mver, R->over, c->ver);
    if (R->msuite != R->osuite || R->msuite != k->s->id) fail("parameter-mismatch", "suite", "negotiated suite: matrixssl %04x openssl %04x configured %04x", R->msuite, R->osuite, k->s->id);
    if (k->s->tls13 && c->res != RS_EXTPSK && !(connno && R->ores && R->ogroup <= 0)) {
        if (R->mgroup != R->ogroup) fail("parameter-mismatch", "group", "TLS 1.3 group: matrixssl %d openssl %d", R->mgroup, R->ogroup);
        else if (c->g1 && R->mgroup != c->g1) fail("parameter-mismatch", "group", "TLS 1.3 group %d negotiated but only %d was possible", R->mgroup, c->g1);
    }
    if (suite_is_ecdhe(k->s) && c->g1 && !(connno && R->ores) && R->ogroup != c->g1 && !cert_is_ecdsa(c->cert) && !cert_is_ecdsa(c->cauth))
        fail("parameter-mismatch", "group", "ECDHE group: openssl reports %d but only %d was offered/acceptable", R->ogroup, c->g1);
    if (!k->s->tls13) {
        if (R->mems != R->oems) fail("parameter-mismatch", "extended-master-secret", "extended master secret in use: matrixssl %d openssl %d", R->mems, R->oems);
        else if (R->mems != c->ems) fail("parameter-mismatch", "extended-master-secret", "extended master secret in use %d, configured %d on both", R->mems, c->ems);
    }
    if (c->cauth) {
        /* the authenticating side must actually have seen the peer certificate */
        if (c->role == R_MXC && !(connno && R->ores)) { X509 *pc = SSL_get_peer_certificate(k->O); if (!pc) fail("parameter-mismatch", "client-certificate", "openssl server completed without a client certificate although it was required"); else { X509_free(pc); if (SSL_get_verify_result(k->O) != X509_V_OK) fail("parameter-mismatch", "client-certificate", "openssl verify result %ld", SSL_get_verify_result(k->O)); } }
    }
    if ((plan & PLAN_PAD) && c->ver == MX_TLS13) { SSL_set_block_padding(k->O, 1024); MX_ENTER(); matrixSslSetTls13BlockPadding(k->M.ssl, 1024); MX_LEAVE(); STAT("padded_tls13_connections", 1); }
    if (data_phase(k, plan) < 0) return -1;
    shutdown_both(k);
    return 0;
}
static void conn_free(conn_t *k)
{
    if (k->O) { SSL_free(k->O); k->O = NULL; }
    mx_ep_free(&k->M); q_clear(&k->Q.in); q_clear(&k->Q.out); free(k->ogot); k->ogot = NULL;
}

/* Statically known gaps: configurations one stack does not implement at all.  Each entry names the
 * reason; they are counted, never passed.  (Determined on the unchanged tree; see the report.) */
static const char *static_gap(const cfg_t *c)
{
    const mx_suite_t *s = &mx_suites[c->suite];
    if (!s->tls13) {
        /* tlsSigVer.c (the <= 1.2 signature code) knows RSA PKCS#1, RSA-PSS verification and ECDSA only:
           an Ed25519 certificate is answered with unsupported_certificate, an Ed25519 identity is never offered */
        if (c->cert == CT_ED25519 || c->cauth == CT_ED25519) return "mx_lacks_ed25519_below_tls13";
        /* an rsassaPss key is never selected as own credential below TLS 1.3 (server: handshake_failure,
           client: empty Certificate), and a <= 1.2 MatrixSSL server's CertificateRequest does not admit it */
        if (c->cert == CT_PSS && c->role == R_MXS) return "mx_no_rsa_pss_key_use_below_tls13";
        if (c->cauth == CT_PSS) return c->role == R_MXC ? "mx_no_rsa_pss_key_use_below_tls13" : "mx_no_rsa_pss_client_cert_below_tls13";
        /* OpenSSL 3.0 ssl_set_masks() enables aRSA for an RSA-PSS-only certificate only when TLS1_get_version()==TLS1_2_VERSION,
           which is never true for DTLS: its DTLS 1.2 server answers "no shared cipher" even to itself */
        if (c->cert == CT_PSS && MX_IS_DTLS(c->ver)) return "openssl_no_rsa_pss_cert_in_dtls";
        /* the <= 1.2 ClientHello never lists x25519 and the server never picks it (no ecFlags bit) */
        if (suite_is_ecdhe(s) && c->g1 == 29) return "mx_lacks_x25519_below_tls13";
    }
    /* tlsSelectKeys.c chooseFromLoadedKeys()/peerSupportsSigAlg() only know PKCS#1 and ECDSA certificate signatures: a client
       identity whose chain is signed with RSASSA-PSS is never selected and an empty Certificate is sent (legal, RFC 8446 4.4.2.3);
       the same key works as a TLS 1.3 server credential and OpenSSL's PSS client certificate is accepted by a MatrixSSL server */
    if (s->tls13 && c->role == R_MXC && c->cauth == CT_PSS) return "mx_client_skips_rsa_pss_signed_id";
    /* RFC 4347 4.2.1: opaque cookie<0..32> - a DTLS 1.0 server that sends more is not conforming, nothing is asserted about it */
    if (c->ver == MX_DTLS10 && c->role == R_MXC && c->cookie > 32) return "dtls10_cookie_limit_is_32_bytes";
    if (c->loss && !MX_IS_DTLS(c->ver)) return "loss_dimension_is_dtls_only";
    if (two_roots_one_ca(c->cert, c->cauth)) return "two_root_files_for_one_ca_name";
    return NULL;
}

/* Execute one configuration completely; failures go to FAILS[].  Returns 1 when both stacks support it
 * and every phase ran, 0 when it failed, -1 when it is not mutually supported. */
static hs_result R1, R2;
static int execute(const cfg_t *c)
{
    const mx_suite_t *s = &mx_suites[c->suite]; const char *why = NULL; char spec[400];
    CUR = c; cfg_spec(c, spec, sizeof spec); nfails = 0; LOSS_VACUOUS = 0; o_clock_s = 0;
    uint64_t h = vf_hash(spec, strlen(spec));
    mx_entropy_seed(vf_seed * 1000003ULL + h);
    vf_rng_init(&o_rng, vf_seed, h);
    for (int i = 0; i < 48; i++) ext_psk[i] = (unsigned char) (0x30 + i * 5);
    if ((why = static_gap(c))) { STAT("not_mutually_supported", 1); STATF(1, "not_mutually_supported_%s", why); return -1; }
    STAT("cases", 1);   /* executions: configurations actually run against OpenSSL */
    STATF(1, "cases_%s_%s", mx_vername[c->ver], rolename[c->role]);
    SSL_CTX *ctx = o_ctx_new(c, &why);
    if (!ctx) { STAT("not_mutually_supported", 1); STATF(1, "not_mutually_supported_%s", why); return -1; }
    sslKeys_t *mk = m_keys_new(c, &why);
    if (!mk) { STAT("not_mutually_supported", 1); STATF(1, "not_mutually_supported_%s", why); SSL_CTX_free(ctx); return -1; }
    sslSessionId_t *sid = NULL;
    if (c->role == R_MXC) matrixSslNewSessionId(&sid, NULL);
    conn_t K;
    int rc = run_connection(&K, c, ctx, mk, sid, 0, c->plan, &R1);
    if (rc == -2) { STAT("not_mutually_supported", 1); conn_free(&K); goto out; }
    if (rc == 0 && c->res == RS_EXTPSK) {
        /* external PSK: both must have used it (OpenSSL reports PSK handshakes as "reused"; no certificate is exchanged) */
        X509 *pc = c->role == R_MXS ? SSL_get_peer_certificate(K.O) : NULL;
        if (!R1.ores || pc) fail("parameter-mismatch", "external-psk", "external PSK configured on both stacks but openssl reports reused=%d peer-cert=%s (certificate handshake was used instead)", R1.ores, pc ? "yes" : "no");
        else STAT("external_psk_handshakes_ok", 1);
        if (pc) X509_free(pc);
    } else if (rc == 0 && (R1.mres || R1.ores)) fail("parameter-mismatch", "resumed-flag", "first connection reported as resumed: matrixssl %d openssl %d", R1.mres, R1.ores);
    int held = 0;
    if (rc == 0 && c->res != RS_NONE && c->res != RS_EXTPSK) {
        /* does the client side hold resumption state of the requested kind? */
        if (c->role == R_MXC) {
            if (c->res == RS_SID) held = matrixSslSessionIdGetSessionIdLen(sid) > 0;
            else if (c->res == RS_TICKET) held = matrixSslSessionIdGetSessionTicketLen(sid) > 0;
            else held = sid->psk != NULL;
        } else {
            if (!s->tls13 && !o_saved) o_saved = SSL_get1_session(K.O);
            held = o_saved && SSL_SESSION_is_resumable(o_saved);
            if (held && c->res == RS_TICKET) held = SSL_SESSION_has_ticket(o_saved);
        }
    }
    conn_free(&K);
    if (rc == 0 && c->res != RS_NONE && c->res != RS_EXTPSK) {
        if (!held) {
            /* the server side did not hand out state (allowed: a server MAY decline to issue a ticket); counted so that a mode that is never exercised shows up */
            STATF(1, "resume_state_not_issued_%s_%s", resname[c->res], rolename[c->role]);
            if (vf_verbose) fprintf(stderr, "  client holds no %s state after the first connection; resumption not exercised\n", resname[c->res]);
        } else {
            mx_now += 2;
            int plan2 = K.dtls ? 0x3 : (0x1 | 0x10);     /* 1 byte and 16385 bytes (TLS) / 1 and 100 (DTLS) after resumption */
            rc = run_connection(&K, c, ctx, mk, sid, 1, plan2 | PLAN_SPLIT, &R2);
            if (R2.ok) {
                if (!R2.mres || !R2.ores) fail("not-resumed", resname[c->res], "both stacks held %s state but the second handshake was resumed per matrixssl=%d openssl=%d", resname[c->res], R2.mres, R2.ores);
                else STATF(1, "resumed_%s_%s", resname[c->res], rolename[c->role]);
            }
            conn_free(&K);
            /* third connection: the same resumption state offered to a server that cannot use it (other ticket keys / empty session cache, e.g. a restarted
               or load-balanced peer).  Declining is the peer's right: the connection must fall back to a full handshake and work. */
            if (rc == 0 && R2.ok) {
                int declined = 0;
                if (c->role == R_MXC) { SSL_CTX *ctx2 = o_ctx_new(c, &why); if (ctx2) { mx_now += 2; rc = run_connection(&K, c, ctx2, mk, sid, 2, K.dtls ? 0x1 : 0x3, &R2); declined = 1; conn_free(&K); SSL_CTX_free(ctx2); } }
                else { m_ticket_generation = 1; sslKeys_t *mk2 = m_keys_new(c, &why); m_ticket_generation = 0; if (mk2) { MX_ENTER(); matrixSslClose(); matrixSslOpen(); MX_LEAVE(); mx_now += 2; rc = run_connection(&K, c, ctx, mk2, NULL, 2, K.dtls ? 0x1 : 0x3, &R2); declined = 1; conn_free(&K); matrixSslDeleteKeys(mk2); } }
                if (declined && R2.ok) { if (R2.mres && R2.ores) fail("parameter-mismatch", "resumed-flag", "a peer without the resumption state reports the third connection as resumed"); else STATF(1, "declined_resumption_fell_back_%s_%s", resname[c->res], rolename[c->role]); }
            }
        }
    }
out:
    if (counting) vf_flush();   /* keep this case's counters even if teardown trips a sanitizer */
    if (o_saved) { SSL_SESSION_free(o_saved); o_saved = NULL; }
    if (sid) matrixSslDeleteSessionId(sid);
    matrixSslDeleteKeys(mk);
    SSL_CTX_free(ctx);
    return rc == -2 ? -1 : (nfails ? 0 : 1);
}

/* does the reduced configuration still fail with the same clause? */
static int still_fails(const cfg_t *t, const char *clause)
{
    failure_t keep[8]; int nkeep = nfails; memcpy(keep, FAILS, sizeof keep);
    int r = execute(t), same = 0;
    if (r == 0) for (int i = 0; i < nfails && i < 8; i++) if (!strcmp(FAILS[i].clause, clause)) same = 1;
    memcpy(FAILS, keep, sizeof keep); nfails = nkeep;
    return same;
}

static void run_config(void *arg)
{
    const cfg_t *c = arg; const mx_suite_t *s = &mx_suites[c->suite];
    cfg_spec(c, SPEC, sizeof SPEC);
    if (vf_verbose) fprintf(stderr, "CASE %s\n", SPEC);
    if (RAND_set_rand_method(&o_rand_meth) != 1) { vf_incon("RAND_set_rand_method failed"); return; }
    counting = 1;
    int r = execute(c);
    counting = 0;
    if (r == 1 && LOSS_VACUOUS) vf_stat("configurations_without_the_flight_to_lose", 1);
    else if (r == 1) {
        vf_stat("configurations_interoperated", 1);
        if (c->loss) vf_stat("dtls_loss_configurations_recovered", 1);
        if (certs[c->cert].chainhash || certs[c->cauth].chainhash) vf_statf(1, "chain_hash_cells_%s_%s_prf%s", rolename[c->role], c->cauth ? (certs[c->cauth].chainhash == 384 ? "clientauth-sha384" : "clientauth-sha512") : (certs[c->cert].chainhash == 384 ? "servercert-sha384" : "servercert-sha512"),
            (s->id == 0x1302 || s->id == 0x009d || s->id == 0xc030 || s->id == 0xc02c || s->id == 0xc028 || s->id == 0xc024 || s->id == 0x00af) ? "384" : "256");
        vf_distinct("%s", SPEC);
        if (sample_this) vf_sample("%s -> version %s suite %04x group %d ems %d, resumed(second) %s", SPEC, mx_vername[R1.mver], R1.msuite, s->tls13 ? R1.mgroup : R1.ogroup, R1.mems, (c->res != RS_NONE && c->res != RS_EXTPSK) ? "yes" : "n/a");
    }
    if (r != 0) return;
    /* isolate the responsible dimensions: reset one at a time to its default, keep the reset if the same clause still fails */
    failure_t mine[8]; int nmine = nfails > 8 ? 8 : nfails; memcpy(mine, FAILS, sizeof mine);
    int verbose = vf_verbose; vf_verbose = 0;
    for (int i = 0; i < nmine; i++) {
        int dup = 0; for (int j = 0; j < i; j++) if (!strcmp(mine[j].clause, mine[i].clause) && !strcmp(mine[j].family, mine[i].family)) dup = 1;
        if (dup) continue;
        const char *clause = mine[i].clause; cfg_t m = *c, t; int rechunk = 0;
        int resume_clause = !strcmp(clause, "resumed-handshake-fails") || !strcmp(clause, "not-resumed");
        if (m.chunk && MX_IS_DTLS(m.ver)) m.chunk = 0;      /* datagrams are never re-chunked */
        if (m.chunk) { t = m; t.chunk = 0; if (still_fails(&t, clause)) m = t; else rechunk = 1; }
        if (!strcmp(clause, "handshake-fails") || resume_clause || !strncmp(clause, "dtls-loss-", 10)) { t = m; t.plan = 1; if (still_fails(&t, clause)) m = t; }
        if (m.res != RS_NONE && !resume_clause && strcmp(mine[i].family, "external-psk")) { t = m; t.res = RS_NONE; if (still_fails(&t, clause)) m = t; }
        if (m.cauth) { t = m; t.cauth = CT_NONE; if (still_fails(&t, clause)) m = t; }
        if (m.cert != default_cert(s)) { t = m; t.cert = default_cert(s); if (still_fails(&t, clause)) m = t; }
        if (m.g1 || m.g0) { t = m; t.g0 = t.g1 = 0; if (still_fails(&t, clause)) m = t; }
        if (!m.ems) { t = m; t.ems = 1; if (still_fails(&t, clause)) m = t; }
        if (m.cookie != COOKIE_DEFAULT) { t = m; t.cookie = COOKIE_DEFAULT; if (still_fails(&t, clause)) m = t; }
        if (m.loss && m.lossmode) { t = m; t.lossmode = LM_BOTH; if (still_fails(&t, clause)) m = t; }
        char key[320], mspec[400]; cfg_spec(&m, mspec, sizeof mspec);
        snprintf(key, sizeof key, "c10:%s:%s:%s:%s%s", clause, mx_vername[c->ver], rolename[c->role], mine[i].family, deviations(&m, rechunk, resume_clause || !strcmp(mine[i].family, "external-psk")));
        CUR = c;
        vf_violation(key, SPEC, "%s | case: %s | smallest configuration still failing this way: %s%s", mine[i].msg, SPEC, mspec, rechunk ? " (passes when whole flights are delivered in one read)" : "");
    }
    vf_verbose = verbose;
}

/* ------------------------------------------------------------------ enumeration --- */
static cfg_t *CF; static int ncf, capcf;
static int force_chunk = -1;
static void add_cfg(cfg_t c)
{
    /* payload plan and chunking are functions of the position only (seed-stable) */
    int i = ncf;
    if (MX_IS_DTLS(c.ver)) c.plan = vf_thorough ? (0xf | PLAN_SPLIT) : ((1 << (i % 4)) | (1 << ((i + 1) % 4)) | ((i % 3) ? 0 : PLAN_SPLIT));
    else c.plan = vf_thorough ? (0x7f | PLAN_SPLIT) : ((1 << (i % 7)) | (1 << ((i + 3) % 7)) | (1 << ((i + 5) % 7)) | ((i % 3) ? 0 : PLAN_SPLIT));
    if (i % (vf_thorough ? 4 : 7) == 0) c.plan |= PLAN_LONG;
    if (c.ver == MX_TLS13 && (i % 2) == 0) c.plan |= PLAN_PAD;
    c.chunk = force_chunk >= 0 ? force_chunk : chunks[(i / 2) % 6];
    if (ncf == capcf) { capcf = capcf ? capcf * 2 : 1024; CF = realloc(CF, capcf * sizeof *CF); }
    CF[ncf++] = c;
}
static cfg_t base_cfg(int role, int ver, int si)
{
    cfg_t c; memset(&c, 0, sizeof c);
    c.role = role; c.ver = ver; c.suite = si; c.cert = default_cert(&mx_suites[si]); c.ems = 1; c.cookie = COOKIE_DEFAULT;
    return c;
}
static const int hrr_pairs[][2] = { { 29, 23 }, { 23, 24 }, { 24, 25 }, { 25, 29 }, { 23, 29 }, { 29, 24 } };

static void enumerate_quick(void)
{
    /* 1. every (role, version, suite) with everything else at its default */
    for (int role = 0; role < 2; role++) for (int v = 0; v < MX_NVER; v++) for (int si = 0; si < MX_NSUITES; si++)
        if (mx_suite_ok_for(&mx_suites[si], v)) add_cfg(base_cfg(role, v, si));
    /* 2. one-factor deviations around one representative suite per (role, version, key-exchange family) */
    for (int role = 0; role < 2; role++) for (int v = 0; v < MX_NVER; v++) {
        int rot = role + 2 * v;
        const char *fams[] = { "rsa", "ecdhe-rsa", "ecdhe-ecdsa", "psk", "tls13" };   /* prefix match: tls13-sha256/-sha384 are one family here */
        for (int f = 0; f < 5; f++) {
            int cand[16], nc = 0;
            for (int si = 0; si < MX_NSUITES; si++) if (mx_suite_ok_for(&mx_suites[si], v) && !strncmp(kxname(&mx_suites[si]), fams[f], strlen(fams[f])) && (f != 0 || !strcmp(kxname(&mx_suites[si]), "rsa"))) cand[nc++] = si;
            if (!nc) continue;
            int pick = 0;
#define REP() base_cfg(role, v, cand[(rot + pick++) % nc])
            const mx_suite_t *s0 = &mx_suites[cand[0]]; cfg_t c;
            for (int ct = 1; ct < CT_BASE_N; ct++) if (ct != CT_RSA3072 && cert_fits(s0, ct, v) && ct != default_cert(s0)) { c = REP(); c.cert = ct; add_cfg(c); }
            if (s0->tls13 || suite_is_ecdhe(s0)) for (int g = 1; g <= 4; g++) { c = REP(); c.g0 = c.g1 = groups[g].id; add_cfg(c); }
            /* TLS 1.3: HelloRetryRequest and both PSK modes once per suite (the transcript / binder hash differs) */
            if (s0->tls13) for (int i = 0; i < nc; i++) for (int h = 0; h < 2; h++) { c = base_cfg(role, v, cand[i]); c.g0 = hrr_pairs[h][0]; c.g1 = hrr_pairs[h][1]; add_cfg(c); }
            if (s0->auth != MX_AUTH_PSK) { c = REP(); c.cauth = CT_RSA; add_cfg(c); c = REP(); c.cauth = CT_EC256; add_cfg(c); }
            if (s0->tls13) for (int i = 0; i < nc; i++) { c = base_cfg(role, v, cand[i]); c.res = RS_PSK13; add_cfg(c); c = base_cfg(role, v, cand[i]); c.res = RS_EXTPSK; add_cfg(c); }
            else { c = REP(); c.res = RS_SID; add_cfg(c); c = REP(); c.res = RS_TICKET; add_cfg(c); c = REP(); c.ems = 0; add_cfg(c); }
            if (MX_IS_DTLS(v) && role == R_MXC && f == 1) { c = REP(); c.cookie = 0; add_cfg(c); }
#undef REP
        }
    }
}
/* 3. a few many-factor TLS 1.3 configurations (HelloRetryRequest + client certificate + ticket resumption make the
 *    largest ClientHello/flights), delivered in 3- and 17-byte reads */
static void enumerate_quick_combined(void)
{
    for (int role = 0; role < 2; role++) for (int si = 0; si < MX_NSUITES; si++) if (mx_suites[si].tls13) for (int k = 0; k < 2; k++) {
        cfg_t c = base_cfg(role, MX_TLS13, si);
        c.g0 = hrr_pairs[(si + k) % 6][0]; c.g1 = hrr_pairs[(si + k) % 6][1]; c.cauth = k ? CT_EC256 : CT_RSA; c.res = RS_PSK13; c.cert = k ? CT_EC384 : CT_RSA;
        force_chunk = k ? 17 : 3; add_cfg(c); force_chunk = -1;
    }
}
/* 4. identities whose chain is signed with SHA-384 / SHA-512, as server certificate and as client-authentication certificate, in both roles,
 *    crossed with the PRF / key-schedule hash of the suite (SHA-256, SHA-384) on TLS 1.2, DTLS 1.2 and TLS 1.3 */
static int suite_idx(uint16_t id) { for (int i = 0; i < MX_NSUITES; i++) if (mx_suites[i].id == id) return i; return -1; }
static int hash_cell_suite(int v, int ct, int prf384, int alt)
{
    if (v == MX_TLS13) return suite_idx(prf384 ? 0x1302 : (alt ? 0x1303 : 0x1301));
    int gcm = (v == MX_TLS12) != (alt != 0);             /* TLS 1.2 cells use the AEAD suites, DTLS 1.2 cells the CBC ones; alt swaps */
    if (cert_is_ecdsa(ct)) return suite_idx(prf384 ? (gcm ? 0xc02c : 0xc024) : (gcm ? 0xc02b : 0xc023));
    return suite_idx(prf384 ? (gcm ? 0xc030 : 0xc028) : (gcm ? 0xc02f : 0xc027));
}
static void enumerate_chain_hashes(int alt)
{
    static const int vs[] = { MX_TLS12, MX_DTLS12, MX_TLS13 };
    for (int role = 0; role < 2; role++) for (int vi = 0; vi < 3; vi++) for (int ct = CT_BASE_N; ct < CT_N; ct++) for (int prf = 0; prf < 2; prf++) {
        int si = hash_cell_suite(vs[vi], ct, prf, alt);
        if (si < 0 || !mx_suite_ok_for(&mx_suites[si], vs[vi])) continue;
        /* quick: TLS 1.2 gets both uses in both roles; DTLS 1.2 and TLS 1.3 the uses in which MatrixSSL is the signer (own server certificate / own client certificate) */
        int both = vf_thorough || vs[vi] == MX_TLS12;
        cfg_t c = base_cfg(role, vs[vi], si); c.cert = ct; if (both || role == R_MXS) add_cfg(c);
        c = base_cfg(role, vs[vi], si); if (!mx_suites[si].tls13) c.cert = cert_is_ecdsa(ct) ? CT_EC256 : CT_RSA; c.cauth = ct;
        if (two_roots_one_ca(c.cert, c.cauth)) c.cert = CT_RSA3072;
        if (both || role == R_MXC) add_cfg(c);
    }
}
/* 5. DTLS HelloVerifyRequest cookie lengths chosen by the OpenSSL server application (MatrixSSL client) */
static void enumerate_cookies(void)
{
    static const uint16_t ids[] = { 0xc02f, 0x00ae, 0xc02b, 0x009c, 0xc014, 0x008c, 0xc00a, 0x002f };
    for (int v = MX_DTLS10; v <= MX_DTLS12; v++) for (unsigned li = 0; li < sizeof cookie_lens / sizeof cookie_lens[0]; li++) {
        if (v == MX_DTLS10 && cookie_lens[li] > 32) continue;
        int si = -1; for (int t = 0; t < 8 && si < 0; t++) { int x = suite_idx(ids[(li + t) % 8]); if (x >= 0 && mx_suite_ok_for(&mx_suites[x], v)) si = x; }
        cfg_t c = base_cfg(R_MXC, v, si); c.cookie = cookie_lens[li]; add_cfg(c);
        /* the cookie exchange is repeated in the resumed handshake (no client certificate here: OpenSSL's ticket would carry it, and a ClientHello
           that outgrows the path MTU is beyond what the library does by design - only Certificate messages are fragmented) */
        if (cookie_lens[li] >= 32) { c.res = (li & 1) ? RS_SID : RS_TICKET; add_cfg(c); }
    }
}
/* 6. DTLS loss: every flight lost once, both roles, both DTLS versions, full handshakes (PSK and certificate suites, with client
 *    authentication once) and resumed ones; the single-timer-first modes once per flight */
static void enumerate_loss(void)
{
    for (int role = 0; role < 2; role++) for (int v = MX_DTLS10; v <= MX_DTLS12; v++) for (int fl = 1; fl < FL_N; fl++) {
        int psk = suite_idx(v == MX_DTLS12 ? 0x00ae : 0x008c), rsa = suite_idx(v == MX_DTLS12 ? 0xc02f : 0xc013), ec = suite_idx(v == MX_DTLS12 ? 0xc02c : 0xc00a);
        cfg_t c = base_cfg(role, v, psk); c.loss = fl; add_cfg(c);
        c = base_cfg(role, v, rsa); c.loss = fl; c.lossmode = 1 + (fl + role) % 2; add_cfg(c);
        if (vf_thorough) { c.lossmode = 1 + (fl + role + 1) % 2; add_cfg(c); c.lossmode = LM_BOTH; add_cfg(c); }
        /* quick: client authentication and the no-cookie variant on DTLS 1.2 only; session-id and ticket resumption alternate over the flights */
        if (vf_thorough || v == MX_DTLS12) { c = base_cfg(role, v, ec); c.loss = fl; c.cauth = CT_EC256; add_cfg(c); }
        if (fl != FL_SHELLO && (vf_thorough || ((fl + v) & 1))) { c = base_cfg(role, v, (fl & 1) ? rsa : psk); c.loss = fl; c.res = RS_SID; add_cfg(c); }
        if (fl != FL_SHELLO && (vf_thorough || !((fl + v) & 1))) { c = base_cfg(role, v, rsa); c.loss = fl; c.res = RS_TICKET; add_cfg(c); }
        if (role == R_MXC && fl != FL_HVR && fl != FL_CH2 && (vf_thorough || v == MX_DTLS12)) { c = base_cfg(role, v, psk); c.loss = fl; c.cookie = 0; add_cfg(c); }
        if (vf_thorough) for (int si = 0; si < MX_NSUITES; si++) if (mx_suite_ok_for(&mx_suites[si], v) && si != psk && si != rsa) for (int lm = 0; lm < LM_N; lm++) { c = base_cfg(role, v, si); c.loss = fl; c.lossmode = lm; add_cfg(c); }
    }
}
static void enumerate_thorough(void)
{
    for (int role = 0; role < 2; role++) for (int v = 0; v < MX_NVER; v++) for (int si = 0; si < MX_NSUITES; si++) {
        const mx_suite_t *s = &mx_suites[si];
        if (!mx_suite_ok_for(s, v)) continue;
        for (int ct = 0; ct < CT_N; ct++) {
            if (!cert_fits(s, ct, v)) continue;
            /* groups: relevant for ECDHE and TLS 1.3 only */
            int gl[16][2], ng = 0;
            gl[ng][0] = gl[ng][1] = 0; ng++;
            if (s->tls13 || suite_is_ecdhe(s)) for (int g = 1; g < NGROUPS; g++) { if (groups[g].id >= 0x100 && !s->tls13) continue; gl[ng][0] = gl[ng][1] = groups[g].id; ng++; }
            if (s->tls13) for (int h = 0; h < 6; h++) { gl[ng][0] = hrr_pairs[h][0]; gl[ng][1] = hrr_pairs[h][1]; ng++; }
            for (int gi = 0; gi < ng; gi++) {
                static const int cauths[] = { CT_NONE, CT_RSA, CT_EC256, CT_PSS, CT_EC384, CT_EC521, CT_ED25519, CT_EC384S384, CT_EC521S512, CT_RSAS384, CT_RSAS512 };
                if (ct >= CT_BASE_N && gi != 0) continue;             /* SHA-384 / SHA-512 chains: default group only */
                for (int ai = 0; ai < 11; ai++) {
                    if (ct >= CT_BASE_N && ai >= 3 && cauths[ai] != ct) continue;
                    if (two_roots_one_ca(ct, cauths[ai])) continue;
                    if (s->auth == MX_AUTH_PSK && cauths[ai]) continue;
                    /* the less common client certificate types are crossed with the default group only */
                    if (ai >= 3 && gi != 0) continue;
                    for (int res = 0; res < RS_N; res++) {
                        if (s->tls13 ? (res == RS_SID || res == RS_TICKET) : (res == RS_PSK13 || res == RS_EXTPSK)) continue;
                        if (res == RS_EXTPSK && (ct != CT_RSA || cauths[ai])) continue;   /* no certificates in a PSK handshake */
                        for (int ems = 1; ems >= 0; ems--) {
                            if (s->tls13 && !ems) continue;
                            /* cookie: default length everywhere; none, and every other length, for the MatrixSSL DTLS client with default group and no client auth */
                            for (int ck = -2; ck < (int) (sizeof cookie_lens / sizeof cookie_lens[0]); ck++) {
                                int cookie = ck == -2 ? COOKIE_DEFAULT : ck == -1 ? 0 : cookie_lens[ck];
                                if (ck >= -1 && !(MX_IS_DTLS(v) && role == R_MXC && gi == 0 && ai == 0)) continue;
                                if (ck >= 0 && (ct >= CT_BASE_N || !ems || (res != RS_NONE && cookie != 33 && cookie != 255) || (v == MX_DTLS10 && cookie > 32))) continue;
                                cfg_t c = base_cfg(role, v, si); c.cert = ct; c.g0 = gl[gi][0]; c.g1 = gl[gi][1]; c.cauth = cauths[ai]; c.res = res; c.ems = ems; c.cookie = cookie;
                                add_cfg(c);
                            }
                        }
                    }
                }
            }
        }
    }
}

/* matrixsslConfig.h also enables the static-ECDH suites; OpenSSL 3 has none of them */
static void static_ecdh_suites(void *arg)
{
    static const uint16_t ids[] = { 0xc004, 0xc005, 0xc025, 0xc026, 0xc02d, 0xc02e, 0xc00e, 0xc00f, 0xc029, 0xc02a, 0xc031, 0xc032 };
    (void) arg;
    for (unsigned i = 0; i < sizeof ids / sizeof ids[0]; i++) {
        if (!o_suite_name(0, 0, ids[i])) { vf_stat("not_mutually_supported", 1); vf_stat("not_mutually_supported_openssl_lacks_static_ecdh", 1); }
        else vf_incon("OpenSSL implements static-ECDH suite %04x which this check does not exercise", ids[i]);
    }
}

/* RSA/2048_RSA.pem re-signed with sha384WithRSAEncryption by the sample CA key (PKCS#1 v1.5 is deterministic): the RSA identity whose
 * chain hash is SHA-384, which the sample set lacks.  Written next to the shard's output file; every child reads it from there. */
static void mint_rsa_sha384(void)
{
    const char *out = vf_arg("--out", NULL);
    if (out) snprintf(minted_rsa384, sizeof minted_rsa384, "%s.rsa2048-sha384.pem", out); else snprintf(minted_rsa384, sizeof minted_rsa384, "/tmp/c10-%d-rsa2048-sha384.pem", (int) getpid());
    FILE *f = fopen(MX_TK "RSA/2048_RSA.pem", "r"); X509 *x = f ? PEM_read_X509(f, NULL, NULL, NULL) : NULL; if (f) fclose(f);
    f = fopen(MX_TK "RSA/2048_RSA_CA_KEY.pem", "r"); EVP_PKEY *ca = f ? PEM_read_PrivateKey(f, NULL, NULL, NULL) : NULL; if (f) fclose(f);
    int ok = 0;
    if (x && ca) {
        ASN1_INTEGER_set(X509_get_serialNumber(x), 384);
        if (X509_sign(x, ca, EVP_sha384()) > 0 && (f = fopen(minted_rsa384, "w"))) { ok = PEM_write_X509(f, x) == 1; fclose(f); }
    }
    X509_free(x); EVP_PKEY_free(ca); ERR_clear_error();
    if (!ok) { vf_incon("cannot mint the SHA-384-signed RSA identity %s", minted_rsa384); minted_rsa384[0] = 0; }
}

int main(int argc, char **argv)
{
    vf_init(argc, argv);
    mx_global_init();
    if (vf_case) {
        cfg_t c;
        mint_rsa_sha384();
        if (cfg_parse(vf_case, &c) < 0) { vf_incon("cannot parse case '%s'", vf_case); vf_flush(); return 2; }
        vf_fork_case(run_config, &c, "interop", vf_case, 900);
        if (minted_rsa384[0]) unlink(minted_rsa384);
        vf_flush();
        return 0;
    }
    mint_rsa_sha384();
    if (vf_thorough) { enumerate_thorough(); enumerate_chain_hashes(1); enumerate_cookies(); enumerate_loss(); }
    else { enumerate_quick(); enumerate_quick_combined(); enumerate_chain_hashes(0); enumerate_cookies(); enumerate_loss(); }
    long lim = vf_argl("--limit", 0);
    for (int i = 0; i < ncf; i++) {
        if (lim && i >= lim) break;
        if (!vf_mine(i)) continue;
        char spec[400]; cfg_spec(&CF[i], spec, sizeof spec);
        sample_this = (i % (vf_thorough ? 997 : 41)) == 0;
        vf_fork_case(run_config, &CF[i], "interop", spec, 900);
    }
    if (minted_rsa384[0]) unlink(minted_rsa384);
    if (vf_shard == 0) { vf_stat("configurations_enumerated", ncf); vf_fork_case(static_ecdh_suites, NULL, "interop", "static-ecdh-suites", 60); }
    vf_flush();
    return 0;
}
