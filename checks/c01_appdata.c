/* C01 - application data flows only after an authenticated, completed handshake.
 *
 * For every scenario (role x version x key exchange x options) the honest handshake is stepped one
 * record at a time.  After every record delivered to the target ("cut point") the process is
 * fork()-cloned once per injection of the catalogue: the child delivers the attacker's record(s)
 * to the target, lets the honest handshake continue to its end, exchanges honest data, and the
 * monitors decide:
 *   (a) every MATRIXSSL_APP_DATA return happened on an endpoint whose handshake is complete
 *       (or legitimately accepted TLS 1.3 early data);
 *   (b) every delivered byte continues the honest peer's tagged stream for this connection and
 *       direction (so it came from a record that verified under this handshake's keys);
 *   (c) matrixSslEncodeToOutdata before completion does not succeed;
 *   (d) after any injection a keyless attacker can make (plaintext / random / foreign / reflected records, forged plaintext HANDSHAKE
 *       records of every message type) an endpoint that was not complete before is not complete afterwards
 *       (matrixSslHandshakeIsComplete, MATRIXSSL_HANDSHAKE_COMPLETE from any call) and still refuses to encode application data.
 * Positive control: on the un-attacked run honest data must arrive as APP_DATA after completion.
 * Second part (psk_keyless): peers that hold none of the configured RFC 4279 pre-shared keys (unknown / near-miss identities,
 * empty / all-zero / wrong keys) against PSK servers and clients; the victim must never complete, deliver or encode. */
#include "mx_surgeon.h"

#include "mx_scn.h"
typedef mx_scn scn_t;

/* ---- injections ---- */
enum { INJ_NONE = 0, INJ_PLAIN, INJ_RANDOM, INJ_FOREIGN, INJ_REFLECT, INJ_HSKEY, INJ_HSKEY_OUTER22, INJ_ENCODE, INJ_AUTH_APPDATA, INJ_HSPLAIN, INJ_REPLAY, INJ_N };
static const char *injname[] = { "none", "plaintext-record", "random-body-record", "foreign-connection-record", "reflected-record", "hs-key-sealed-appdata", "hs-key-sealed-appdata-outer22", "encode-before-complete", "peer-sealed-appdata-before-finished", "plaintext-handshake-record", "replayed-genuine-record" };
typedef struct { int kind; int vmaj, vmin; int len; int epoch; } inj_t;

static unsigned char **foreign; static int *foreignlen;   /* app-data records captured from another connection of the same scenario, per direction */

static int mk_header(unsigned char *o, int dtls, int type, int vmaj, int vmin, int epoch, unsigned long long seq, int len)
{
    o[0] = type; o[1] = vmaj; o[2] = vmin;
    if (dtls) { o[3] = epoch >> 8; o[4] = epoch; for (int i = 0; i < 6; i++) o[5 + i] = (unsigned char) (seq >> (8 * (5 - i))); o[11] = len >> 8; o[12] = len; return 13; }
    o[3] = len >> 8; o[4] = len; return 5;
}

/* ---- per-child monitor state ---- */
static struct {
    const scn_t *scn; int target; const inj_t *inj; int cut; char desc[256];
    unsigned char sent[2][70000]; int sentlen[2];          /* honest application streams per direction (0 = from client) */
    int injected;
} M;

static const char *verclass(int v) { return mx_vername[v]; }
static void report(const char *what, mx_ep *e, const char *fmt, ...)
{
    char key[200], msg[600]; va_list ap; va_start(ap, fmt); vsnprintf(msg, sizeof msg, fmt, ap); va_end(ap);
    snprintf(key, sizeof key, "c01:%s:%s:%s:%s", what, verclass(M.scn->cfg.ver), e->role == MX_SERVER ? "server" : "client", injname[M.inj->kind]);
    vf_violation(key, M.desc, "%s | hsState=%d flags=0x%x complete=%d cut=%d", msg, e->ssl->hsState, e->ssl->flags, matrixSslHandshakeIsComplete(e->ssl), M.cut);
}
static int early_data_legit(mx_ep *e)
{
    return e->role == MX_SERVER && e->ver == MX_TLS13 && M.scn->earlyResumed > 0 && M.scn->resumed && e->ssl->sec.tls13ChosenPsk != NULL
           && matrixSslGetEarlyDataStatus(e->ssl) == MATRIXSSL_EARLY_DATA_ACCEPTED;
}
static void on_app(mx_ep *e, const unsigned char *pt, uint32 len)
{
    int dir = e->role == MX_SERVER ? 0 : 1;   /* stream this endpoint receives */
    vf_stat("appdata_deliveries", 1);
    if (!matrixSslHandshakeIsComplete(e->ssl) && !early_data_legit(e))
        report("appdata-before-complete", e, "APP_DATA len=%u first=%.12s", len, len ? (const char *) pt : "");
    /* provenance: must continue the honest stream */
    size_t off = e->gotlen;
    if (MX_IS_DTLS(e->ver)) {
        /* datagram semantics: the delivered datagram must be byte-identical to one honest payload */
        int ok = 0; int p = 0;
        while (p < M.sentlen[dir]) { int l = atoi((const char *) M.sent[dir] + p + 14); if (l <= 0) break; if ((uint32) l == len && !memcmp(M.sent[dir] + p, pt, len)) { ok = 1; break; } p += l; }
        if (!ok) report("foreign-bytes-delivered", e, "datagram len=%u not among honest payloads; first=%.12s", len, len ? (const char *) pt : "");
        /* ... and the peer sent it once: it must not have been delivered before (e->got = everything delivered so far, also before the fork) */
        for (size_t q = 0; ok && q + 19 <= e->gotlen; ) { int l = atoi((const char *) e->got + q + 14); if (l <= 0) break;
            if ((uint32) l == len && q + l <= e->gotlen && !memcmp(e->got + q, pt, len)) { report("replayed-datagram-delivered-again", e, "datagram len=%u first=%.20s was already delivered once", len, (const char *) pt); break; } q += l; }
    } else if (off + len > (size_t) M.sentlen[dir] || memcmp(M.sent[dir] + off, pt, len))
        report("foreign-bytes-delivered", e, "delivered bytes at offset %zu len=%u do not continue the honest stream (sent %d); first=%.12s", off, len, M.sentlen[dir], len ? (const char *) pt : "");
}

static void honest_send(mx_conn *k, mx_ep *e, int len, int serial)
{
    int dir = e->role == MX_SERVER ? 1 : 0; unsigned char p[20000];
    mx_payload(p, len, 0x0c01, dir, serial);
    int rc = mx_send(e, p, len);
    if (rc > 0) { memcpy(M.sent[dir] + M.sentlen[dir], p, len); M.sentlen[dir] += len; }
}

/* ---- forged plaintext handshake messages: everything a peer WITHOUT any key can put on the wire ----
 * One well-formed (or at least plausibly framed) body per handshake message type; values an attacker reads off the wire (session id,
 * PSK identity, DTLS message / record sequence numbers) are taken from the connection, the rest is seeded noise. */
enum { HS_CCS_FINISHED = 0x100 };   /* pseudo type: plaintext ChangeCipherSpec record followed by a plaintext Finished */
static const struct { int type; const char *name; int v12, v13, dtlsonly; } hsforge[] = {
    { 0, "hello_request", 1, 1, 0 }, { 1, "client_hello", 1, 1, 0 }, { 2, "server_hello", 1, 1, 0 }, { 3, "hello_verify_request", 1, 0, 1 },
    { 4, "new_session_ticket", 1, 1, 0 }, { 5, "end_of_early_data", 0, 1, 0 }, { 8, "encrypted_extensions", 0, 1, 0 },
    { 11, "certificate_empty", 1, 1, 0 }, { 12, "server_key_exchange", 1, 0, 0 }, { 13, "certificate_request", 1, 1, 0 },
    { 14, "server_hello_done", 1, 0, 0 }, { 15, "certificate_verify", 1, 1, 0 }, { 16, "client_key_exchange", 1, 0, 0 },
    { 20, "finished", 1, 1, 0 }, { 24, "key_update", 0, 1, 0 }, { HS_CCS_FINISHED, "ccs+finished", 1, 1, 0 },
};
#define NHSFORGE ((int) (sizeof hsforge / sizeof hsforge[0]))
static const char *hsforge_name(int type) { for (int i = 0; i < NHSFORGE; i++) if (hsforge[i].type == type) return hsforge[i].name; return "?"; }
static const unsigned char p256_G[65] = { 0x04,
    0x6b, 0x17, 0xd1, 0xf2, 0xe1, 0x2c, 0x42, 0x47, 0xf8, 0xbc, 0xe6, 0xe5, 0x63, 0xa4, 0x40, 0xf2, 0x77, 0x03, 0x7d, 0x81, 0x2d, 0xeb, 0x33, 0xa0, 0xf4, 0xa1, 0x39, 0x45, 0xd8, 0x98, 0xc2, 0x96,
    0x4f, 0xe3, 0x42, 0xe2, 0xfe, 0x1a, 0x7f, 0x9b, 0x8e, 0xe7, 0xeb, 0x4a, 0x7c, 0x0f, 0x9e, 0x16, 0x2b, 0xce, 0x33, 0x57, 0x6b, 0x31, 0x5e, 0xce, 0xcb, 0xb6, 0x40, 0x68, 0x37, 0xbf, 0x51, 0xf5 };
#define PUT(p, n) do { memcpy(b + l, (p), (n)); l += (n); } while (0)
#define PUT1(v) do { b[l++] = (unsigned char) (v); } while (0)
#define PUT2(v) do { b[l++] = (unsigned char) ((v) >> 8); b[l++] = (unsigned char) (v); } while (0)
#define PUTRND(n) do { vf_fill(r, b + l, (n)); l += (n); } while (0)
static int forge_hs_body(int type, mx_conn *k, unsigned char *b, vf_rng *r)
{
    int ver = M.scn->cfg.ver, v13 = ver == MX_TLS13, dtls = MX_IS_DTLS(ver), l = 0; uint16_t suite = M.scn->cfg.suite;
    const mx_suite_t *su = mx_suite_by_id(suite); int psk = su && su->auth == MX_AUTH_PSK, ecdhe = su && su->name[0] == 'E';
    int wmaj = dtls ? 254 : 3, wmin = ver == MX_TLS11 ? 2 : ver == MX_DTLS10 ? 255 : ver == MX_DTLS12 ? 253 : 3;   /* TLS 1.3: legacy_version 0303 */
    unsigned char sid[32]; int sidlen = 0;
    { mx_rec rc0; int h = dtls ? 12 : 4;        /* session id of the honest ClientHello, if already on the wire */
      if (mx_rec_at(k->wire[0], k->wirelen[0], 0, dtls, &rc0) && rc0.type == 22 && rc0.len >= h + 35) {
          const unsigned char *ch = k->wire[0] + rc0.hdr + h; int sl = ch[34]; if (sl <= 32 && rc0.len >= h + 35 + sl) { memcpy(sid, ch + 35, sl); sidlen = sl; } } }
    switch (type) {
    case 0: case 5: case 14: break;
    case 1:
        PUT1(wmaj); PUT1(wmin); PUTRND(32);
        if (v13) { PUT1(32); PUTRND(32); } else PUT1(0);
        if (dtls) PUT1(0);
        PUT2(4); PUT2(suite); PUT2(0x00ff); PUT1(1); PUT1(0);
        if (v13) {
            PUT2(7 + 8 + 10 + 75);
            PUT2(0x002b); PUT2(3); PUT1(2); PUT2(0x0304);
            PUT2(0x000a); PUT2(4); PUT2(2); PUT2(0x0017);
            PUT2(0x000d); PUT2(6); PUT2(4); PUT2(0x0804); PUT2(0x0403);
            PUT2(0x0033); PUT2(71); PUT2(69); PUT2(0x0017); PUT2(65); PUT(p256_G, 65);
        }
        break;
    case 2:
        PUT1(wmaj); PUT1(wmin); PUTRND(32);
        if (v13) { PUT1(sidlen); PUT(sid, sidlen); } else { PUT1(32); PUTRND(32); }
        PUT2(suite); PUT1(0);
        if (v13) { PUT2(6 + 73); PUT2(0x002b); PUT2(2); PUT2(0x0304); PUT2(0x0033); PUT2(69); PUT2(0x0017); PUT2(65); PUT(p256_G, 65); }
        else { PUT2(5); PUT2(0xff01); PUT2(1); PUT1(0); }
        break;
    case 3: PUT1(254); PUT1(255); PUT1(16); PUTRND(16); break;
    case 4:
        PUT2(0); PUT2(3600);
        if (v13) { PUTRND(4); PUT1(0); PUT2(32); PUTRND(32); PUT2(0); } else { PUT2(32); PUTRND(32); }
        break;
    case 8: PUT2(0); break;
    case 11: if (v13) PUT1(0); PUT1(0); PUT2(0); break;
    case 12:
        if (psk) PUT2(0);
        else if (ecdhe) { PUT1(3); PUT2(0x0017); PUT1(65); PUT(p256_G, 65); if (ver == MX_TLS12 || ver == MX_DTLS12) PUT2(0x0401); PUT2(64); PUTRND(64); }
        else PUTRND(8);
        break;
    case 13:
        if (v13) { PUT1(0); PUT2(8); PUT2(0x000d); PUT2(4); PUT2(2); PUT2(0x0804); }
        else { PUT1(2); PUT1(1); PUT1(64); if (ver == MX_TLS12 || ver == MX_DTLS12) { PUT2(4); PUT2(0x0401); PUT2(0x0403); } PUT2(0); }
        break;
    case 15: if (v13) PUT2(0x0804); else if (ver == MX_TLS12 || ver == MX_DTLS12) PUT2(0x0401); PUT2(64); PUTRND(64); break;
    case 16:
        if (psk) { PUT2(16); PUT(mx_psk_id, 16); }
        else if (ecdhe) { PUT1(65); PUT(p256_G, 65); }
        else { PUT2(256); PUTRND(256); }
        break;
    case 20: PUTRND(v13 ? (suite == 0x1302 ? 48 : 32) : 12); break;
    case 24: PUT1(0); break;
    }
    return l;
}
/* DTLS: a record sequence number the target's replay window has not seen (the attacker reads the numbers in use off the wire) */
static unsigned long long next_rsn(mx_ep *tgt) { unsigned long long v = 0; for (int i = 0; i < 6; i++) v = (v << 8) | tgt->ssl->lastRsn[i]; return v + 1; }
/* one plaintext record (epoch 0 for DTLS) carrying one handshake message */
static int forge_hs_record(int type, mx_conn *k, mx_ep *tgt, int vmaj, int vmin, int seqadd, vf_rng *r, unsigned char *out)
{
    unsigned char b[1024], m[1100]; int dtls = k->dtls, bl = forge_hs_body(type, k, b, r), l = 0;
    m[l++] = type; m[l++] = 0; m[l++] = bl >> 8; m[l++] = bl;
    if (dtls) { int msn = tgt->ssl->lastMsn + 1; m[l++] = msn >> 8; m[l++] = msn; m[l++] = 0; m[l++] = 0; m[l++] = 0; m[l++] = 0; m[l++] = bl >> 8; m[l++] = bl; }
    memcpy(m + l, b, bl); l += bl;
    unsigned long long seq = dtls ? next_rsn(tgt) + seqadd : 0;
    int n = mk_header(out, dtls, 22, vmaj, vmin, 0, seq, l); memcpy(out + n, m, l); return n + l;
}

static int build_injection(mx_conn *k, mx_ep *tgt, const inj_t *in, unsigned char *out)
{
    int dtls = k->dtls, n = 0; unsigned char body[17000];
    mx_ep *peer = tgt->role == MX_SERVER ? &k->c : &k->s;
    switch (in->kind) {
    case INJ_PLAIN:
        memset(body, 'E', in->len); memcpy(body, "EVIL|", in->len < 5 ? in->len : 5);
        n = mk_header(out, dtls, 23, in->vmaj, in->vmin, in->epoch, 7, in->len); memcpy(out + n, body, in->len); return n + in->len;
    case INJ_RANDOM: {
        vf_rng r; vf_rng_init(&r, vf_seed, in->len * 977 + M.cut);
        vf_fill(&r, body, in->len);
        n = mk_header(out, dtls, 23, in->vmaj, in->vmin, in->epoch, 9, in->len); memcpy(out + n, body, in->len); return n + in->len; }
    case INJ_FOREIGN: {
        int d = tgt->role == MX_SERVER ? 0 : 1; if (!foreignlen[d]) return 0;
        memcpy(out, foreign[d], foreignlen[d]); return foreignlen[d]; }
    case INJ_REFLECT: {
        /* last record the target itself sent */
        int d = tgt->role == MX_SERVER ? 1 : 0; int off = 0, last = -1, lastn = 0; mx_rec r;
        while (mx_rec_at(k->wire[d], k->wirelen[d], off, dtls, &r)) { last = off; lastn = r.hdr + r.len; off += lastn; }
        if (last < 0) return 0;
        memcpy(out, k->wire[d] + last, lastn); return lastn; }
    case INJ_REPLAY: {
        /* copies of genuine records the attacker has seen pass: the record delivered to the target last (len 0) / every record delivered to it so
           far, oldest first (len 1, DTLS: one datagram each) */
        int d = tgt->role == MX_SERVER ? 0 : 1, off = 0, cnt = 0, last = -1, lastn = 0; mx_rec r;
        while (cnt < k->delivered[d] && mx_rec_at(k->wire[d], k->wirelen[d], off, dtls, &r)) { last = off; lastn = r.hdr + r.len; off += lastn; cnt++; }
        if (last < 0 || off > 39000) return 0;
        if (in->len == 0) { memcpy(out, k->wire[d] + last, lastn); return lastn; }
        memcpy(out, k->wire[d], off); return off; }
    case INJ_AUTH_APPDATA: {
        /* the (not yet verified) peer itself seals application records under the keys being negotiated, before its Finished was
           processed by the target; several in a row so that DTLS sequence numbers pass the replay window */
        if (matrixSslHandshakeIsComplete(tgt->ssl)) return 0;
        if (early_data_legit(tgt) || (tgt->role == MX_SERVER && tgt->ssl->tls13ServerEarlyDataEnabled)) return 0;   /* more 0-RTT data from the PSK holder is legitimate early data */
        int tot = 0;
        for (int i = 0; i < in->len; i++) { char msg[40]; int ml = snprintf(msg, sizeof msg, "EVIL|peer-early-%02d", i); int l = mx_seal_as(peer, 23, (unsigned char *) msg, ml, out + tot); if (l <= 0) return 0; tot += l; }
        return tot; }
    case INJ_HSPLAIN: {
        vf_rng r; vf_rng_init(&r, vf_seed, in->len * 7919 + M.cut * 31 + tgt->role);
        if (in->len == HS_CCS_FINISHED) {
            n = mk_header(out, dtls, 20, in->vmaj, in->vmin, 0, dtls ? next_rsn(tgt) : 0, 1); out[n++] = 1;
            return n + forge_hs_record(20, k, tgt, in->vmaj, in->vmin, 1, &r, out + n);
        }
        return forge_hs_record(in->len, k, tgt, in->vmaj, in->vmin, 0, &r, out); }
    case INJ_HSKEY: case INJ_HSKEY_OUTER22: {
        /* key-holding peer: a record sealed under the *handshake* traffic key of the honest peer with inner type 23 */
        if (tgt->ver != MX_TLS13) return 0;
        sslSec_t *ps = &peer->ssl->sec; int kl = mx13_keylen(M.scn->cfg.suite); int nz = 0;
        for (int i = 0; i < kl; i++) nz |= ps->tls13HsWriteKey[i];
        if (!nz) return 0;                                      /* peer has no handshake keys yet */
        if (matrixSslHandshakeIsComplete(peer->ssl) && matrixSslHandshakeIsComplete(tgt->ssl)) return 0;
        memcpy(body, "EVIL|under-hs-key", 17); body[17] = 23;
        unsigned long long seq = mx_seq8(tgt->ssl->sec.remSeq);
        return mx13_seal(M.scn->cfg.suite, ps->tls13HsWriteKey, ps->tls13HsWriteIv, seq, body, 18, in->kind == INJ_HSKEY ? 23 : 22, out); }
    }
    return 0;
}

/* one application encode attempt on an endpoint whose handshake is not complete; returns the library's answer */
static int encode_probe(mx_ep *tgt, const char *what, const char *when)
{
    unsigned char p[64]; mx_payload(p, 40, 0x0c01, tgt->role, 99);
    int rc = mx_send(tgt, p, 40);
    int earlyok = tgt->role == MX_CLIENT && tgt->ver == MX_TLS13 && tgt->ssl->sec.tls13DidEncodePsk && matrixSslGetMaxEarlyData(tgt->ssl) > 0;
    /* a TLS 1.3 server that accepted early data may send 0.5-RTT data: designed behaviour, not asserted either way */
    if (tgt->role == MX_SERVER && tgt->ver == MX_TLS13 && tgt->ssl->tls13ServerEarlyDataEnabled) earlyok = 1;
    if (rc >= 0 && !earlyok) report(what, tgt, "matrixSslEncodeToOutdata returned %d %s", rc, when);
    return rc;
}

typedef struct { mx_conn *k; int target; int cut; const inj_t *inj; } child_arg;
static void child_run(void *a_)
{
    child_arg *a = a_; mx_conn *k = a->k; mx_ep *tgt = a->target == MX_SERVER ? &k->s : &k->c;
    unsigned char rec[40000];
    k->c.on_app = on_app; k->s.on_app = on_app;
    vf_stat("cases", 1);
    if (vf_verbose) fprintf(stderr, "  child: now=%ld srv gotlen=%zu nApp=%d early status=%d enabled=%d sent0=%d sent1=%d cli gotlen=%zu\n", mx_now, k->s.gotlen, k->s.nApp, k->s.ssl->tls13EarlyDataStatus, k->s.ssl->tls13ServerEarlyDataEnabled, M.sentlen[0], M.sentlen[1], k->c.gotlen);
    if (a->inj->kind == INJ_ENCODE) {
        if (!matrixSslHandshakeIsComplete(tgt->ssl)) {
            vf_stat("encode_attempts_before_complete", 1);
            if (encode_probe(tgt, "encode-before-complete", "before handshake completion") >= 0) return;   /* state now carries the illegal record; nothing more to learn */
        }
    } else if (a->inj->kind != INJ_NONE) {
        int n = build_injection(k, tgt, a->inj, rec);
        if (n <= 0) { vf_stat("injection_not_applicable", 1); return; }
        int keyless = a->inj->kind == INJ_PLAIN || a->inj->kind == INJ_RANDOM || a->inj->kind == INJ_FOREIGN || a->inj->kind == INJ_REFLECT || a->inj->kind == INJ_HSPLAIN || a->inj->kind == INJ_REPLAY;
        int wasComplete = matrixSslHandshakeIsComplete(tgt->ssl) || tgt->hsDone, wasDead = tgt->dead;
        M.injected = 1; vf_stat("injections_delivered", 1);
        vf_distinct("%s|%s|ca%d|r%d|%s|cut%d|st%d|%s|%d.%d|%d", verclass(M.scn->cfg.ver), M.scn->name, M.scn->cfg.clientAuth, M.scn->resumed, a->target ? "S" : "C", a->cut, tgt->ssl->hsState, injname[a->inj->kind], a->inj->vmaj, a->inj->vmin, a->inj->len);
        if (k->dtls) { int off = 0; mx_rec r; while (off < n && mx_rec_at(rec, n, off, 1, &r)) { if (!tgt->dead) mx_feed(tgt, rec + off, r.hdr + r.len); off += r.hdr + r.len; } }
        else if (!tgt->dead) mx_feed(tgt, rec, n);
        if (keyless && !wasComplete && !wasDead) {
            /* (d) nothing a peer without keys sends turns an incomplete handshake into a complete one: probe both directions of the API
               right after the record was consumed and again after the target's answer (alert, flight) was handed to the transport */
            int bad = 0;
            for (int pass = 0; pass < 2 && !bad; pass++) {
                if (matrixSslHandshakeIsComplete(tgt->ssl) || tgt->hsDone) {
                    report("complete-after-keyless-record", tgt, "handshake reported complete (IsComplete=%d, HANDSHAKE_COMPLETE seen=%d, last rc=%d) after a forged record; it was not before",
                           matrixSslHandshakeIsComplete(tgt->ssl), tgt->hsDone, tgt->lastrc);
                    bad = 1;
                }
                if (pass == 0) mx_conn_collect(k);
            }
            vf_stat("keyless_completion_probes", 1);
            if (!tgt->dead && !tgt->closeReq && !(tgt->ssl->flags & SSL_FLAGS_ERROR)) vf_stat("keyless_target_survived_injection", 1);
            vf_stat("keyless_encode_probes", 1);
            if (encode_probe(tgt, "encode-after-keyless-record", "after a forged record on an incomplete handshake") >= 0 || bad) return;
        }
    }
    /* let the honest handshake continue, then honest traffic both ways */
    mx_conn_run(k, NULL, NULL, 300);
    for (int round = 0; round < 2; round++) {
        if (matrixSslHandshakeIsComplete(k->c.ssl) && !k->c.dead) honest_send(k, &k->c, 100 + 50 * round, round);
        if (matrixSslHandshakeIsComplete(k->s.ssl) && !k->s.dead) honest_send(k, &k->s, 300 + 70 * round, round);
        mx_conn_run(k, NULL, NULL, 100);
    }
    if (a->inj->kind == INJ_NONE) {
        /* positive control */
        if (M.scn->clientEarly > 0 && M.scn->earlyResumed == 0) { if (k->s.nApp == 0) vf_stat("positive_controls_ok", 1); }   /* 0-RTT sent to a server that has it disabled: refusal is the expected outcome */
        else if (!mx_conn_established(k)) vf_violation("c01:harness:honest-handshake-failed", M.desc, "honest scenario does not complete");
        else if (k->s.gotlen != (size_t) M.sentlen[0] || k->c.gotlen != (size_t) M.sentlen[1]) vf_violation("c01:harness:honest-data-not-delivered", M.desc, "got %zu/%d %zu/%d", k->s.gotlen, M.sentlen[0], k->c.gotlen, M.sentlen[1]);
        else vf_stat("positive_controls_ok", 1);
    }
}

static inj_t catalogue[96]; static int ncat;
static void build_catalogue(int ver)
{
    ncat = 0; int dtls = MX_IS_DTLS(ver);
    catalogue[ncat++] = (inj_t) { INJ_NONE };
    catalogue[ncat++] = (inj_t) { INJ_ENCODE };
    int vm[][2] = { { 3, 1 }, { 3, 2 }, { 3, 3 }, { 3, 4 }, { 254, 255 }, { 254, 253 } };
    int lens[] = { 1, 5, 64, 16384 };
    for (int v = 0; v < 6; v++) {
        if (dtls != (vm[v][0] == 254)) continue;
        for (int l = 0; l < 4; l++) for (int ep = 0; ep < (dtls ? 2 : 1); ep++)
            catalogue[ncat++] = (inj_t) { INJ_PLAIN, vm[v][0], vm[v][1], lens[l], ep };
    }
    int rl[] = { 24, 64, 300 };
    for (int l = 0; l < 3; l++) for (int ep = 0; ep < (dtls ? 2 : 1); ep++)
        catalogue[ncat++] = (inj_t) { INJ_RANDOM, dtls ? 254 : 3, dtls ? (ver == MX_DTLS10 ? 255 : 253) : 3, rl[l], ep };
    catalogue[ncat++] = (inj_t) { INJ_FOREIGN };
    catalogue[ncat++] = (inj_t) { INJ_REFLECT };
    catalogue[ncat++] = (inj_t) { INJ_REPLAY, 0, 0, 0 }; if (dtls) catalogue[ncat++] = (inj_t) { INJ_REPLAY, 0, 0, 1 };
    catalogue[ncat++] = (inj_t) { INJ_AUTH_APPDATA, 0, 0, 1 }; catalogue[ncat++] = (inj_t) { INJ_AUTH_APPDATA, 0, 0, 9 };
    if (ver == MX_TLS13) { catalogue[ncat++] = (inj_t) { INJ_HSKEY }; catalogue[ncat++] = (inj_t) { INJ_HSKEY_OUTER22 }; }
    for (int i = 0; i < NHSFORGE; i++) {
        if (ver == MX_TLS13 ? !hsforge[i].v13 : !hsforge[i].v12) continue;
        if (hsforge[i].dtlsonly && !dtls) continue;
        catalogue[ncat++] = (inj_t) { INJ_HSPLAIN, dtls ? 254 : 3, ver == MX_TLS11 ? 2 : ver == MX_DTLS10 ? 255 : ver == MX_DTLS12 ? 253 : 3, hsforge[i].type, 0 };
    }
}

static long g_case_idx;
static void at_cut(mx_walk *w, mx_conn *k, int cut)
{
    foreign = w->foreign; foreignlen = w->foreignlen;
    if (vf_verbose > 1 || getenv("C01_TRACE")) fprintf(stderr, "  parent %s target=%d cut=%d now=%ld srv: gotlen=%zu early status=%d enabled=%d\n", w->scn->name, w->target, cut, mx_now, k->s.gotlen, k->s.ssl ? k->s.ssl->tls13EarlyDataStatus : -1, k->s.ssl ? k->s.ssl->tls13ServerEarlyDataEnabled : -1);
    for (int j = 0; j < ncat; j++) {
        long idx = g_case_idx++;
        if (!vf_mine(idx)) continue;
        child_arg a = { k, w->target, cut, &catalogue[j] };
        M.scn = w->scn; M.target = w->target; M.inj = &catalogue[j]; M.cut = cut; M.injected = 0;
        for (int d = 0; d < 2; d++) { memcpy(M.sent[d], w->sent[d], w->sentlen[d]); M.sentlen[d] = w->sentlen[d]; }
        char sd[128]; mx_scn_desc(sd, sizeof sd, w->scn, w->target);
        if (catalogue[j].kind == INJ_HSPLAIN) snprintf(M.desc, sizeof M.desc, "scn=%s cut=%d inj=%s:%s:%d.%d", sd, cut, injname[catalogue[j].kind], hsforge_name(catalogue[j].len), catalogue[j].vmaj, catalogue[j].vmin);
        else snprintf(M.desc, sizeof M.desc, "scn=%s cut=%d inj=%s:%d.%d:len%d:ep%d", sd, cut, injname[catalogue[j].kind], catalogue[j].vmaj, catalogue[j].vmin, catalogue[j].len, catalogue[j].epoch);
        if (vf_case && strcmp(vf_case, M.desc)) continue;
        if (j == 1 && cut < 3) vf_sample("%s", M.desc);
        vf_fork_case(child_run, &a, "c01", M.desc, 60);
    }
}

static void run_scenario(const scn_t *s, int target)
{
    mx_walk w;
    build_catalogue(s->cfg.ver);
    int cuts = mx_scn_walk(&w, s, target, at_cut, NULL, 1);
    if (vf_shard == 0) {
        if (s->resumed) vf_stat(w.really_resumed ? "resumed_scenarios_really_resumed" : "resumed_scenarios_fell_back_to_full", 1);
        if (cuts > 0) vf_statf(cuts, "cuts_%s", verclass(s->cfg.ver));
        vf_stat("scenarios", 1);
    }
}

/* ==== keyless peers against RFC 4279 pre-shared-key suites ====
 * The victim holds a PSK table; the peer is a MatrixSSL endpoint that holds NONE of the table's keys: it presents an identity the victim
 * does not know (1, 15, 16, 128 octets), a near miss of a known one (prefix, one octet longer) or a known one, and derives its keys from
 * the empty key (length forced to 0 in the attacker's own key store - matrixSslLoadPsk refuses it), an all-zero key or a wrong key.
 * Whatever the attacker does, the victim must never report completion, never deliver a byte and never accept application data for
 * sending.  Controls: the right identity with the right key completes and delivers in every (version, suite, EMS) cell. */
static const unsigned char pskv_id2[5] = { 'd', 'e', 'v', '-', '7' }, pskv_key2[32] = { 0x91, 0x22, 0x5b, 0x07, 0xe4, 0x18, 0x6d, 0xaa, 0x3c, 0x50, 0x0f, 0xb3, 0x77, 0xc1, 0x2e, 0x88, 0x19, 0xd4, 0x63, 0xfe, 0x05, 0x9a, 0x4b, 0xe0, 0x36, 0x7d, 0xc8, 0x21, 0x5f, 0xa6, 0x12, 0xbd };
static unsigned char pskv_id3[128], pskv_key3[64];
enum { PID_UNK1 = 0, PID_UNK15, PID_UNK16, PID_UNK128, PID_PREFIX15, PID_LONGER17, PID_KNOWN16, PID_KNOWN128, PID_N };
static const char *pidname[] = { "unknown-1", "unknown-15", "unknown-16", "unknown-128", "known-prefix-15", "known-plus-one-17", "known-16", "known-128" };
enum { PKEY_EMPTY = 0, PKEY_ZERO1, PKEY_ZERO16, PKEY_ZERO64, PKEY_WRONG, PKEY_RANDOM, PKEY_RIGHT, PKEY_N };
static const char *pkeyname[] = { "empty", "zero-1", "zero-16", "zero-64", "wrong-bit", "random-16", "right" };
typedef struct { int ver; uint16_t suite; int ems; int victim; int id, key; char desc[160]; } pskcase;
static sslKeys_t *pskv_table(void)
{
    sslKeys_t *k = NULL; unsigned char kb[SSL_PSK_MAX_KEY_SIZE] = { 0 }, ib[SSL_PSK_MAX_ID_SIZE] = { 0 };
    if (matrixSslNewKeys(&k, NULL) < 0) return NULL;
    memcpy(kb, pskv_key2, 32); memcpy(ib, pskv_id2, 5); if (matrixSslLoadPsk(k, kb, 32, ib, 5) < 0) return NULL;
    memcpy(kb, mx_psk_key, 16); memcpy(ib, mx_psk_id, 16); if (matrixSslLoadPsk(k, kb, 16, ib, 16) < 0) return NULL;
    if (matrixSslLoadPsk(k, pskv_key3, 64, pskv_id3, 128) < 0) return NULL;
    return k;
}
static void psk_on_app(mx_ep *e, const unsigned char *pt, uint32 len) { (void) e; (void) pt; (void) len; vf_stat("appdata_deliveries", 1); }
static void psk_child(void *a_)
{
    pskcase *c = a_; unsigned char id[SSL_PSK_MAX_ID_SIZE] = { 0 }, key[SSL_PSK_MAX_KEY_SIZE] = { 0 }; int idl = 0, kl = 0;
    const unsigned char *kid = mx_psk_id, *kkey = mx_psk_key; int kidl = 16, kkl = 16;   /* the table entry the attacker aims at */
    vf_rng r; vf_rng_init(&r, vf_seed, c->id * 131 + c->key * 17 + c->suite);
    vf_stat("cases", 1); vf_stat("psk_keyless_cases", 1);
    if (c->id == PID_KNOWN128) { kid = pskv_id3; kkey = pskv_key3; kidl = 128; kkl = 64; }
    switch (c->id) {
    case PID_UNK1: idl = 1; id[0] = 'x'; break;
    case PID_UNK15: idl = 15; for (int i = 0; i < idl; i++) id[i] = 'a' + vf_below(&r, 26); break;
    case PID_UNK16: idl = 16; for (int i = 0; i < idl; i++) id[i] = 'a' + vf_below(&r, 26); break;
    case PID_UNK128: idl = 128; for (int i = 0; i < idl; i++) id[i] = 'a' + vf_below(&r, 26); break;
    case PID_PREFIX15: idl = 15; memcpy(id, mx_psk_id, 15); break;
    case PID_LONGER17: idl = 17; memcpy(id, mx_psk_id, 16); id[16] = 0; break;
    default: idl = kidl; memcpy(id, kid, kidl); break;
    }
    switch (c->key) {
    case PKEY_EMPTY: kl = 1; key[0] = 0x5a; break;                 /* length forced to 0 below */
    case PKEY_ZERO1: kl = 1; break;
    case PKEY_ZERO16: kl = 16; break;
    case PKEY_ZERO64: kl = 64; break;
    case PKEY_WRONG: kl = kkl; memcpy(key, kkey, kkl); key[5] ^= 0x40; break;
    case PKEY_RANDOM: kl = 16; vf_fill(&r, key, 16); break;
    case PKEY_RIGHT: kl = kkl; memcpy(key, kkey, kkl); break;
    }
    int control = c->key == PKEY_RIGHT && (c->id == PID_KNOWN16 || c->id == PID_KNOWN128);
    sslKeys_t *akeys = NULL, *vkeys = NULL;
    if (matrixSslNewKeys(&akeys, NULL) < 0) { vf_incon("psk: newkeys"); return; }
    if (c->victim == MX_SERVER) {
        /* attacker = client presenting (id, key); victim = server with the three-entry table */
        if (matrixSslLoadPsk(akeys, key, kl, id, idl) < 0) { vf_incon("psk: attacker loadpsk %s", c->desc); return; }
        vkeys = pskv_table();
    } else {
        /* attacker = server that lists the victim client's identity with (key); victim = client holding the real key of that identity */
        unsigned char kb[SSL_PSK_MAX_KEY_SIZE] = { 0 }, ib[SSL_PSK_MAX_ID_SIZE] = { 0 }; memcpy(kb, kkey, kkl); memcpy(ib, kid, kidl);
        if (matrixSslLoadPsk(akeys, key, kl, ib, kidl) < 0) { vf_incon("psk: attacker loadpsk %s", c->desc); return; }
        if (matrixSslNewKeys(&vkeys, NULL) < 0) { vf_incon("psk: newkeys"); return; }
        if (matrixSslLoadPsk(vkeys, kb, kkl, ib, kidl) < 0) { vf_incon("psk: victim loadpsk"); return; }
    }
    if (!vkeys) { vf_incon("psk: victim table"); return; }
    if (c->key == PKEY_EMPTY) akeys->pskKeys->pskLen = 0;
    mx_cfg cfg; memset(&cfg, 0, sizeof cfg); cfg.ver = c->ver; cfg.suite = c->suite; cfg.ems = c->ems ? 0 : -1;
    cfg.skeys = c->victim == MX_SERVER ? vkeys : akeys; cfg.ckeys = c->victim == MX_SERVER ? akeys : vkeys;
    mx_conn k; if (mx_conn_open(&k, &cfg, NULL) != 0) { vf_incon("psk: open %s", c->desc); return; }
    mx_ep *vic = c->victim == MX_SERVER ? &k.s : &k.c, *att = c->victim == MX_SERVER ? &k.c : &k.s;
    k.c.on_app = psk_on_app; k.s.on_app = psk_on_app;
    mx_conn_run(&k, NULL, NULL, 100);
    int attComplete = matrixSslHandshakeIsComplete(att->ssl) && !att->dead;
    /* the attacker's "application data"; then whatever the victim is willing to say */
    unsigned char msg[64]; int ml = snprintf((char *) msg, sizeof msg, "EVIL|keyless-psk-peer|%s", pkeyname[c->key]);
    if (mx_send(att, msg, ml) > 0) mx_conn_run(&k, NULL, NULL, 50);
    unsigned char p[64]; mx_payload(p, 40, 0x0c01, vic->role, 98);
    int enc = mx_send(vic, p, 40);
    if (enc > 0) mx_conn_run(&k, NULL, NULL, 50);
    int vicComplete = matrixSslHandshakeIsComplete(vic->ssl) || vic->hsDone;
    const char *vn = mx_vername[c->ver], *rn = vic->role == MX_SERVER ? "server" : "client";
    if (vf_verbose) fprintf(stderr, "  psk %s: victim complete=%d hsDone=%d nApp=%d enc=%d dead=%d alertOut? flags=0x%x hsState=%d | attacker complete=%d dead=%d alertIn=%d/%d\n", c->desc, matrixSslHandshakeIsComplete(vic->ssl), vic->hsDone, vic->nApp, enc, vic->dead, vic->ssl->flags, vic->ssl->hsState, attComplete, att->dead, att->alertLevel, att->alertDesc);
    if (control) {
        if (!vicComplete || !attComplete || vic->nApp != 1 || att->nApp != 1 || vic->gotlen != (size_t) ml || memcmp(vic->got, msg, ml))
            vf_violation("c01:harness:psk-control-failed", c->desc, "the peer with the right identity and key: victim complete=%d peer complete=%d deliveries=%d/%d", vicComplete, attComplete, vic->nApp, att->nApp);
        else vf_stat("psk_controls_ok", 1);
    } else {
        char key_[160];
        if (vicComplete) { snprintf(key_, sizeof key_, "c01:complete-with-keyless-psk-peer:%s:%s", vn, rn); vf_violation(key_, c->desc, "the victim reports a completed handshake (IsComplete=%d, HANDSHAKE_COMPLETE seen=%d) with a peer that presented identity class %s and holds key class %s; peer complete=%d", matrixSslHandshakeIsComplete(vic->ssl), vic->hsDone, pidname[c->id], pkeyname[c->key], attComplete); }
        if (vic->nApp) { snprintf(key_, sizeof key_, "c01:appdata-from-keyless-psk-peer:%s:%s", vn, rn); vf_violation(key_, c->desc, "%d application record(s) (%zu bytes, first=%.24s) delivered from a peer without any configured key", vic->nApp, vic->gotlen, vic->gotlen ? (const char *) vic->got : ""); }
        if (enc >= 0) { snprintf(key_, sizeof key_, "c01:encode-to-keyless-psk-peer:%s:%s", vn, rn); vf_violation(key_, c->desc, "matrixSslEncodeToOutdata returned %d on a victim whose peer holds no configured key", enc); }
        if (att->nApp) { snprintf(key_, sizeof key_, "c01:appdata-to-keyless-psk-peer:%s:%s", vn, rn); vf_violation(key_, c->desc, "the keyless peer decrypted %d application record(s) of the victim", att->nApp); }
        /* non-trivial = the victim got as far as evaluating the peer's key material: it parsed the ClientKeyExchange (server) / sent its own
           Finished (client), i.e. the refusal came from the key check and not from an earlier framing problem */
        int reached = vic->role == MX_SERVER ? (k.delivered[0] >= 2) : (k.delivered[1] >= 2);
        if (reached) { vf_stat("psk_keyless_reached_key_check", 1); vf_distinct("psk|%s|%04x|ems%d|%s|%s|%s", vn, c->suite, c->ems, rn, pidname[c->id], pkeyname[c->key]); }
    }
    mx_conn_close(&k);
    matrixSslDeleteKeys(akeys); matrixSslDeleteKeys(vkeys);
}
static void psk_keyless(void)
{
    static const uint16_t psuites[] = { 0x008c, 0x008d, 0x00ae, 0x00af };
    static const int vers[] = { MX_TLS11, MX_TLS12, MX_DTLS10, MX_DTLS12 };
    int full = vf_thorough || vf_flag("--psk-full") || vf_case != NULL;
    for (int i = 0; i < 128; i++) pskv_id3[i] = (unsigned char) ('A' + i % 26);
    for (int i = 0; i < 64; i++) pskv_key3[i] = (unsigned char) (i * 37 + 11);
    for (int vi = 0; vi < 4; vi++) for (int si = 0; si < 4; si++) for (int ems = 0; ems < 2; ems++) for (int victim = 1; victim >= 0; victim--)
        for (int id = 0; id < PID_N; id++) for (int key = 0; key < PKEY_N; key++) {
            const mx_suite_t *su = mx_suite_by_id(psuites[si]);
            if (!su || !mx_suite_ok_for(su, vers[vi])) continue;
            if (victim == MX_CLIENT && id < PID_KNOWN16) continue;          /* the client victim names its own identity */
            /* the sanitizer build's quick tier runs a sub-grid (EMS off only with the first suite of a version; no 1- / 64-octet zero keys);
               the full grid runs in its thorough tier and, in both tiers, in the stage built with the repository's default flags */
            if (!full && ((ems == 0 && si != (vers[vi] == MX_TLS12 || vers[vi] == MX_DTLS12 ? 2 : 0)) || key == PKEY_ZERO1 || key == PKEY_ZERO64)) continue;
            if (key == PKEY_RIGHT && id < PID_KNOWN16) { if (victim == MX_SERVER && id != PID_PREFIX15 && id != PID_LONGER17) continue; }   /* right key bytes under a near-miss identity stay in; under unknown identities they equal "random" */
            long idx = g_case_idx++;
            if (!vf_mine(idx)) continue;
            pskcase c = { vers[vi], psuites[si], ems, victim, id, key };
            snprintf(c.desc, sizeof c.desc, "psk ver=%s suite=%04x ems=%d victim=%s id=%s key=%s", mx_vername[vers[vi]], psuites[si], ems, victim ? "server" : "client", pidname[id], pkeyname[key]);
            if (vf_case && strcmp(vf_case, c.desc)) continue;
            if (id == PID_UNK16 && key == PKEY_EMPTY && ems == 1 && victim == MX_SERVER && si == 0) vf_sample("%s", c.desc);
            mx_entropy_seed(vf_seed + 7000 + idx);
            vf_fork_case(psk_child, &c, "c01", c.desc, 60);
        }
}

/* ==== Part 3: captured genuine DTLS datagrams re-injected by a keyless attacker ====
 * The one thing a network attacker without keys can always put on the wire is a copy of a datagram it has seen.  After the handshake the
 * sender emits N numbered, tagged datagrams; the attacker keeps a copy of every one (and of the sender's epoch >= 1 handshake records).
 * The datagrams reach the receiver in the order of an ARRIVAL PATTERN (in order, pairwise swapped, reversed blocks of 8/31/32/33, stragglers
 * held back by 3/31/32/33/63/64/65 positions, bursts of 31/32/33/40/63/64/65/70 datagrams lost for good or turning up late, seeded random
 * delays).  After EVERY arrival the attacker re-injects every datagram that has arrived so far and is at most 80 sequence numbers behind the
 * newest one (plus every 8th older one), i.e. a copy at every distance 0..80, in ascending and descending order of distance alternately.
 * (A forged record with a sequence number ahead of the newest one was tried as a further pattern: the library answers a record of the
 * current epoch that fails its MAC with a fatal alert, so the session is gone after the first one - nothing left to replay into.)
 * Oracle: every honest payload is reported to the application AT MOST ONCE, and whatever is reported is byte-identical to an honest payload
 * of this connection and direction (a second report is attacker-sent bytes reported as received application data: the peer produced that
 * record once).  Control: the receiver is still alive after the storm and a fresh honest datagram is delivered exactly once; in the
 * in-order pattern every one of the N payloads was delivered exactly once. */
enum { RP_INORDER = 0, RP_SWAP, RP_REV8, RP_REV31, RP_REV32, RP_REV33, RP_STRAGGLER_NEAR, RP_STRAGGLER_EDGE32, RP_STRAGGLER_EDGE64, RP_LOST, RP_LATE, RP_HSCOPIES, RP_RANDOM, RP_N };
static const char *rpname[] = { "in-order", "swapped-pairs", "reversed-blocks-8", "reversed-blocks-31", "reversed-blocks-32", "reversed-blocks-33", "stragglers-3",
                                "stragglers-31-32-33", "stragglers-63-64-65", "lost-bursts", "late-bursts", "in-order+handshake-flight-copies", "random-reordering" };
typedef struct { int ver; uint16_t suite; int rcv; int pat; int n; int rseed; char desc[160]; } rpcase;
#define RP_MAXN 480
static struct {
    const rpcase *c; int n; unsigned char *dg[RP_MAXN + 2]; int dglen[RP_MAXN + 2]; int plen[RP_MAXN + 2];   /* captured datagrams, payload lengths */
    int seen[RP_MAXN + 2]; int arrived[RP_MAXN + 2]; unsigned long long seq[RP_MAXN + 2];
    unsigned long long newest; int cur; int curIsCopy; unsigned long long curDist; int nviol; int afterArrivals; int dir;
} R;
static void rp_report(const char *what, mx_ep *e, const char *fmt, ...)
{
    char key[200], msg[600]; va_list ap; va_start(ap, fmt); vsnprintf(msg, sizeof msg, fmt, ap); va_end(ap);
    const mx_suite_t *su = mx_suite_by_id(R.c->suite);
    snprintf(key, sizeof key, "c01:%s:%s:%s:%s", what, mx_vername[R.c->ver], e->role == MX_SERVER ? "server" : "client", su && su->aead ? "aead" : "cbc");
    if (R.nviol++ < 4) vf_violation(key, R.c->desc, "%s | arrival pattern %s, %d arrivals so far, newest record sequence number %llu", msg, rpname[R.c->pat], R.afterArrivals, R.newest);
}
static void rp_on_app(mx_ep *e, const unsigned char *pt, uint32 len)
{
    vf_stat("appdata_deliveries", 1);
    if (!matrixSslHandshakeIsComplete(e->ssl)) rp_report("appdata-before-complete", e, "APP_DATA len=%u on an endpoint that is not complete", len);
    int serial = -1; unsigned char want[400];
    if (len >= 20 && len < sizeof want) serial = atoi((const char *) pt + 7);
    if (serial < 0 || serial > R.n + 1 || (int) len != R.plen[serial] || (mx_payload(want, len, 0x0c01, R.dir, serial), memcmp(want, pt, len))) {
        rp_report("foreign-bytes-delivered", e, "datagram len=%u is not an honest payload of this connection; first=%.20s", len, len ? (const char *) pt : ""); return; }
    if (++R.seen[serial] > 1)
        rp_report("replayed-datagram-delivered-again", e, "payload #%d (record sequence number %llu) was reported to the application %d times: the second report came from %s "
                  "injected %llu sequence numbers behind the newest record", serial, R.seq[serial], R.seen[serial], R.curIsCopy ? "a copy of the captured datagram" : "the honest datagram itself, after a copy of it had been accepted,", R.curDist);
    else if (R.curIsCopy) vf_stat("replay_copies_delivered_first", 1);   /* cannot happen: only datagrams that arrived before are copied */
}
static void rp_inject(mx_ep *rcv, int i, int copy)
{
    if (rcv->dead) return;
    R.cur = i; R.curIsCopy = copy; R.curDist = R.newest >= R.seq[i] ? R.newest - R.seq[i] : 0;
    if (copy) { vf_stat("replay_injections", 1); if (R.curDist <= 80) vf_distinct("replay|%s|%04x|%s|%s|d%llu", mx_vername[R.c->ver], R.c->suite, rcv->role ? "S" : "C", rpname[R.c->pat], R.curDist); }
    mx_feed(rcv, R.dg[i], R.dglen[i]);
    if (!copy && R.seq[i] > R.newest) R.newest = R.seq[i];
    if (rcv->wantTake) { unsigned char *b; mx_take(rcv, &b); free(b); }     /* whatever the receiver answers goes nowhere */
}
/* the arrival order of the N honest datagrams (index 1..N); datagrams that are not listed are lost */
static int rp_schedule(const rpcase *c, int *o)
{
    int n = c->n, m = 0;
    switch (c->pat) {
    case RP_INORDER: case RP_HSCOPIES: for (int i = 1; i <= n; i++) o[m++] = i; break;
    case RP_SWAP: for (int i = 1; i <= n; i += 2) { if (i + 1 <= n) o[m++] = i + 1; o[m++] = i; } break;
    case RP_REV8: case RP_REV31: case RP_REV32: case RP_REV33: {
        int b = c->pat == RP_REV8 ? 8 : c->pat == RP_REV31 ? 31 : c->pat == RP_REV32 ? 32 : 33;
        for (int s = 1; s <= n; s += b) { int e = s + b - 1 > n ? n : s + b - 1; for (int i = e; i >= s; i--) o[m++] = i; }
        break; }
    case RP_STRAGGLER_NEAR: case RP_STRAGGLER_EDGE32: case RP_STRAGGLER_EDGE64: {
        /* every 7th datagram is held back and turns up h positions late */
        static const int hs[3][3] = { { 3, 3, 3 }, { 31, 32, 33 }, { 63, 64, 65 } }; const int *h = hs[c->pat - RP_STRAGGLER_NEAR];
        int due[RP_MAXN + 80]; memset(due, 0, sizeof due);
        for (int i = 1; i <= n; i++) {
            if (i % 7 == 5) { int at = i + h[(i / 7) % 3]; if (at > n) at = n; due[at] = due[at] ? due[at] : i; if (due[at] != i) o[m++] = i; }
            else o[m++] = i;
            if (due[i] && due[i] != i) o[m++] = due[i];
        }
        break; }
    case RP_LOST: case RP_LATE: {
        /* runs of 6 delivered datagrams separated by bursts of g lost ones; RP_LATE: each lost burst turns up (in order) after the next run */
        static const int gs[] = { 31, 32, 33, 40, 63, 64, 65, 70 }; int i = 1, gi = 0;
        while (i <= n) {
            for (int j = 0; j < 6 && i <= n; j++) o[m++] = i++;
            int g = gs[gi++ % 8], s = i; i += g; if (i > n + 1) i = n + 1;
            if (c->pat == RP_LATE) { for (int j = 0; j < 6 && i <= n; j++) o[m++] = i++; for (int j = s; j < s + g && j <= n; j++) o[m++] = j; }
        }
        break; }
    case RP_RANDOM: {
        /* every datagram is delayed by a seeded number of positions (mostly small, sometimes across the window edges) */
        vf_rng r; vf_rng_init(&r, vf_seed, 0x5e9 + c->rseed); static int key_[RP_MAXN + 1];
        for (int i = 1; i <= n; i++) { int d = vf_below(&r, 10) < 7 ? (int) vf_below(&r, 4) : (int) vf_below(&r, 70); key_[i] = 2 * (i + d) + 1; o[m++] = i; }
        for (int a = 1; a < m; a++) { int v = o[a], b = a - 1; while (b >= 0 && key_[o[b]] > key_[v]) { o[b + 1] = o[b]; b--; } o[b + 1] = v; }
        break; }
    }
    return m;
}
static void rp_child(void *a_)
{
    const rpcase *c = a_; int n = c->n;
    vf_stat("cases", 1); vf_stat("replay_cases", 1);
    memset(&R, 0, sizeof R); R.c = c; R.n = n;
    mx_cfg cfg; memset(&cfg, 0, sizeof cfg); cfg.ver = c->ver; cfg.suite = c->suite;
    mx_conn k; if (mx_conn_open(&k, &cfg, NULL) != 0) { vf_incon("replay: open %s", c->desc); return; }
    mx_conn_run(&k, NULL, NULL, 200);
    if (!mx_conn_established(&k)) { vf_violation("c01:harness:honest-handshake-failed", c->desc, "honest DTLS handshake does not complete"); return; }
    mx_ep *rcv = c->rcv == MX_SERVER ? &k.s : &k.c, *snd = c->rcv == MX_SERVER ? &k.c : &k.s;
    int dir = c->rcv == MX_SERVER ? 0 : 1; R.dir = dir;
    k.c.on_app = rp_on_app; k.s.on_app = rp_on_app;
    /* index 0: the sender's protected handshake record(s) of the current epoch (its Finished), captured off the wire */
    { int off = 0; mx_rec r; R.dg[0] = NULL;
      while (mx_rec_at(k.wire[dir], k.wirelen[dir], off, 1, &r)) { if (r.epoch >= 1 && r.type == 22) { R.dg[0] = k.wire[dir] + off; R.dglen[0] = r.hdr + r.len; R.seq[0] = r.seq; } off += r.hdr + r.len; }
      R.plen[0] = -1; R.arrived[0] = R.dg[0] != NULL; }
    int hswire = k.wirelen[dir];
    /* the sender produces all N datagrams (+1 for the control); the attacker copies each as it passes */
    for (int i = 1; i <= n + 1; i++) {
        unsigned char p[400]; int len = 24 + (i * 7) % 90; mx_rec r;
        mx_payload(p, len, 0x0c01, dir, i);
        if (mx_send(snd, p, len) <= 0) { vf_incon("replay: honest encode failed %s", c->desc); return; }
        R.dglen[i] = mx_take(snd, &R.dg[i]); R.plen[i] = len;
        if (!mx_rec_at(R.dg[i], R.dglen[i], 0, 1, &r) || r.hdr + r.len != R.dglen[i] || r.type != 23) { vf_incon("replay: one send, not one record %s", c->desc); return; }
        R.seq[i] = r.seq;
    }
    int *o = malloc(sizeof(int) * (RP_MAXN + 200)), m = rp_schedule(c, o);
    for (int a = 0; a < m && !rcv->dead; a++) {
        rp_inject(rcv, o[a], 0); R.arrived[o[a]] = 1; R.afterArrivals++; vf_stat("replay_honest_arrivals", 1);
        if (c->pat == RP_HSCOPIES && a % 5 == 2) {
            /* first a copy of every record of the sender's handshake flights (all epochs: hellos, key exchange, ChangeCipherSpec, Finished), one datagram each */
            int off = 0; mx_rec r; R.cur = 0; R.curIsCopy = 1; R.curDist = 0;
            while (off < hswire && mx_rec_at(k.wire[dir], hswire, off, 1, &r) && !rcv->dead) {
                vf_stat("replay_handshake_record_copies", 1); mx_feed(rcv, k.wire[dir] + off, r.hdr + r.len); off += r.hdr + r.len;
                if (rcv->wantTake) { unsigned char *b; mx_take(rcv, &b); free(b); } }
        }
        /* the attacker's turn: a copy of everything that has arrived so far and is at most 80 sequence numbers behind the newest (and of every
           8th older one), nearest first / farthest first alternately */
        for (int j = 0; j <= n; j++) { int i = (a & 1) ? j : n - j; if (R.arrived[i] && (R.newest < R.seq[i] + 81 || i % 8 == 0)) rp_inject(rcv, i, 1); }
    }
    /* control */
    int alive = !rcv->dead && !rcv->closeReq && !(rcv->ssl->flags & SSL_FLAGS_ERROR), before = rcv->nApp;
    if (alive) { rp_inject(rcv, n + 1, 0); R.arrived[n + 1] = 1; rp_inject(rcv, n + 1, 1); }
    int delivered = 0, expected = 0; for (int i = 1; i <= n; i++) { delivered += R.seen[i] > 0; expected += R.arrived[i]; }
    if (vf_verbose) fprintf(stderr, "  replay %s: %d arrivals (%d scheduled), %d distinct payloads delivered, alive=%d control=%d violations=%d\n", c->desc, R.afterArrivals, m, delivered, alive, R.seen[n + 1], R.nviol);
    if (!R.nviol) {
        if (!alive || R.seen[n + 1] != 1 || rcv->nApp != before + 1) vf_violation("c01:harness:replay-control-failed", c->desc, "receiver alive=%d after the copies; fresh honest datagram delivered %d times", alive, R.seen[n + 1]);
        else if ((c->pat == RP_INORDER || c->pat == RP_HSCOPIES || c->pat == RP_SWAP || c->pat == RP_REV8 || c->pat == RP_STRAGGLER_NEAR) && delivered != n) vf_violation("c01:harness:replay-control-failed", c->desc, "%d of %d honest datagrams delivered although none arrived outside the window", delivered, n);
        else vf_stat("replay_controls_ok", 1);
    }
    vf_statf(delivered, "replay_payloads_delivered_once");
    free(o);
}
static void replay_part(void)
{
    static const struct { int ver; uint16_t suite; } q[] = { { MX_DTLS10, 0x008c }, { MX_DTLS12, 0x00ae }, { MX_DTLS12, 0x009c } };
    struct { int ver; uint16_t suite; } g[64]; int ng = 0;
    if (vf_thorough || vf_case) { for (int v = MX_DTLS10; v <= MX_DTLS12; v++) for (int i = 0; i < MX_NSUITES; i++) if (mx_suite_ok_for(&mx_suites[i], v) && ng < 64) { g[ng].ver = v; g[ng].suite = mx_suites[i].id; ng++; } }
    else for (int i = 0; i < 3; i++) { g[ng].ver = q[i].ver; g[ng].suite = q[i].suite; ng++; }
    for (int gi = 0; gi < ng; gi++) for (int rcv = 1; rcv >= 0; rcv--) for (int pat = 0; pat < RP_N; pat++) for (int rep = 0; rep < (pat == RP_RANDOM ? (vf_thorough ? 6 : 2) : 1); rep++) {
        long idx = g_case_idx++;
        if (!vf_mine(idx)) continue;
        rpcase c = { g[gi].ver, g[gi].suite, rcv, pat, pat == RP_LOST || pat == RP_LATE ? 450 : vf_thorough ? 150 : 76, rep };
        if (vf_case) { int n_ = 0; const char *p_ = strstr(vf_case, " n="); if (p_) n_ = atoi(p_ + 3); if (n_ > 0 && n_ <= RP_MAXN) c.n = n_; }
        snprintf(c.desc, sizeof c.desc, "replay ver=%s suite=%04x rcv=%s pat=%s rep=%d n=%d", mx_vername[c.ver], c.suite, rcv ? "server" : "client", rpname[pat], rep, c.n);
        if (vf_case && strcmp(vf_case, c.desc)) continue;
        if (gi == 0 && rcv == 1 && pat < 3) vf_sample("%s", c.desc);
        mx_entropy_seed(vf_seed + 9000 + idx);
        vf_fork_case(rp_child, &c, "c01", c.desc, 120);
    }
}

int main(int argc, char **argv)
{
    vf_init(argc, argv); mx_global_init(); mx_keys_load();
    mx_scn_build(vf_thorough);
    int pskonly = !strcmp(vf_arg("--part", "all"), "psk");
    int replayonly = !strcmp(vf_arg("--part", "all"), "replay");
    if (vf_case) { if (!strncmp(vf_case, "psk ", 4)) pskonly = 1; else if (!strncmp(vf_case, "replay ", 7)) replayonly = 1; else if (pskonly || replayonly) return 0; }
    for (int i = 0; i < mx_nscn && !pskonly && !replayonly; i++) for (int target = 0; target < 2; target++) {
        mx_entropy_seed(vf_seed + i * 2 + target);
        run_scenario(&mx_scns[i], target);
    }
    if ((!vf_case || pskonly) && !replayonly) psk_keyless();
    if ((!vf_case || replayonly) && !pskonly) replay_part();
    mx_keys_free(); matrixSslClose();
    vf_flush();
    return 0;
}
