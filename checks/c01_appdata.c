/* C01 - application data flows only after an authenticated, completed handshake.
 *
 * For every scenario (role x version x key exchange x options) the honest handshake is stepped one
 * record at a time.  After every record delivered to the target ("cut point") the process is
 * fork()-cloned once per injection of the catalogue: the child delivers the attacker's record(s)
 * to the target, lets the honest handshake continue to its end, exchanges honest data, and the
 * monitors decide:
 *   (a) every MATRIXSSL_APP_DATA return happened on an endpoint whose handshake is complete
 *       (or legitimately accepted TLS 1.3 early data);
 *   (b) every delivered byte continues the honest peer's tagged stream for this connection and
 *       direction (so it came from a record that verified under this handshake's keys);
 *   (c) matrixSslEncodeToOutdata before completion does not succeed.
 * Positive control: on the un-attacked run honest data must arrive as APP_DATA after completion. */
#include "mx_surgeon.h"

#include "mx_scn.h"
typedef mx_scn scn_t;

/* ---- injections ---- */
enum { INJ_NONE = 0, INJ_PLAIN, INJ_RANDOM, INJ_FOREIGN, INJ_REFLECT, INJ_HSKEY, INJ_HSKEY_OUTER22, INJ_ENCODE, INJ_AUTH_APPDATA, INJ_N };
static const char *injname[] = { "none", "plaintext-record", "random-body-record", "foreign-connection-record", "reflected-record", "hs-key-sealed-appdata", "hs-key-sealed-appdata-outer22", "encode-before-complete", "peer-sealed-appdata-before-finished" };
typedef struct { int kind; int vmaj, vmin; int len; int epoch; } inj_t;

static unsigned char **foreign; static int *foreignlen;   /* app-data records captured from another connection of the same scenario, per direction */

static int mk_header(unsigned char *o, int dtls, int type, int vmaj, int vmin, int epoch, unsigned long long seq, int len)
{
    o[0] = type; o[1] = vmaj; o[2] = vmin;
    if (dtls) { o[3] = epoch >> 8; o[4] = epoch; for (int i = 0; i < 6; i++) o[5 + i] = (unsigned char) (seq >> (8 * (5 - i))); o[11] = len >> 8; o[12] = len; return 13; }
    o[3] = len >> 8; o[4] = len; return 5;
}

/* ---- per-child monitor state ---- */
static struct {
    const scn_t *scn; int target; const inj_t *inj; int cut; char desc[256];
    unsigned char sent[2][70000]; int sentlen[2];          /* honest application streams per direction (0 = from client) */
    int injected;
} M;

static const char *verclass(int v) { return mx_vername[v]; }
static void report(const char *what, mx_ep *e, const char *fmt, ...)
{
    char key[200], msg[600]; va_list ap; va_start(ap, fmt); vsnprintf(msg, sizeof msg, fmt, ap); va_end(ap);
    snprintf(key, sizeof key, "c01:%s:%s:%s:%s", what, verclass(M.scn->cfg.ver), e->role == MX_SERVER ? "server" : "client", injname[M.inj->kind]);
    vf_violation(key, M.desc, "%s | hsState=%d flags=0x%x complete=%d cut=%d", msg, e->ssl->hsState, e->ssl->flags, matrixSslHandshakeIsComplete(e->ssl), M.cut);
}
static int early_data_legit(mx_ep *e)
{
    return e->role == MX_SERVER && e->ver == MX_TLS13 && M.scn->earlyResumed > 0 && M.scn->resumed && e->ssl->sec.tls13ChosenPsk != NULL
           && matrixSslGetEarlyDataStatus(e->ssl) == MATRIXSSL_EARLY_DATA_ACCEPTED;
}
static void on_app(mx_ep *e, const unsigned char *pt, uint32 len)
{
    int dir = e->role == MX_SERVER ? 0 : 1;   /* stream this endpoint receives */
    vf_stat("appdata_deliveries", 1);
    if (!matrixSslHandshakeIsComplete(e->ssl) && !early_data_legit(e))
        report("appdata-before-complete", e, "APP_DATA len=%u first=%.12s", len, len ? (const char *) pt : "");
    /* provenance: must continue the honest stream */
    size_t off = e->gotlen;
    if (MX_IS_DTLS(e->ver)) {
        /* datagram semantics: the delivered datagram must be byte-identical to one honest payload */
        int ok = 0; int p = 0;
        while (p < M.sentlen[dir]) { int l = atoi((const char *) M.sent[dir] + p + 14); if (l <= 0) break; if ((uint32) l == len && !memcmp(M.sent[dir] + p, pt, len)) { ok = 1; break; } p += l; }
        if (!ok) report("foreign-bytes-delivered", e, "datagram len=%u not among honest payloads; first=%.12s", len, len ? (const char *) pt : "");
    } else if (off + len > (size_t) M.sentlen[dir] || memcmp(M.sent[dir] + off, pt, len))
        report("foreign-bytes-delivered", e, "delivered bytes at offset %zu len=%u do not continue the honest stream (sent %d); first=%.12s", off, len, M.sentlen[dir], len ? (const char *) pt : "");
}

static void honest_send(mx_conn *k, mx_ep *e, int len, int serial)
{
    int dir = e->role == MX_SERVER ? 1 : 0; unsigned char p[20000];
    mx_payload(p, len, 0x0c01, dir, serial);
    int rc = mx_send(e, p, len);
    if (rc > 0) { memcpy(M.sent[dir] + M.sentlen[dir], p, len); M.sentlen[dir] += len; }
}

static int build_injection(mx_conn *k, mx_ep *tgt, const inj_t *in, unsigned char *out)
{
    int dtls = k->dtls, n = 0; unsigned char body[17000];
    mx_ep *peer = tgt->role == MX_SERVER ? &k->c : &k->s;
    switch (in->kind) {
    case INJ_PLAIN:
        memset(body, 'E', in->len); memcpy(body, "EVIL|", in->len < 5 ? in->len : 5);
        n = mk_header(out, dtls, 23, in->vmaj, in->vmin, in->epoch, 7, in->len); memcpy(out + n, body, in->len); return n + in->len;
    case INJ_RANDOM: {
        vf_rng r; vf_rng_init(&r, vf_seed, in->len * 977 + M.cut);
        vf_fill(&r, body, in->len);
        n = mk_header(out, dtls, 23, in->vmaj, in->vmin, in->epoch, 9, in->len); memcpy(out + n, body, in->len); return n + in->len; }
    case INJ_FOREIGN: {
        int d = tgt->role == MX_SERVER ? 0 : 1; if (!foreignlen[d]) return 0;
        memcpy(out, foreign[d], foreignlen[d]); return foreignlen[d]; }
    case INJ_REFLECT: {
        /* last record the target itself sent */
        int d = tgt->role == MX_SERVER ? 1 : 0; int off = 0, last = -1, lastn = 0; mx_rec r;
        while (mx_rec_at(k->wire[d], k->wirelen[d], off, dtls, &r)) { last = off; lastn = r.hdr + r.len; off += lastn; }
        if (last < 0) return 0;
        memcpy(out, k->wire[d] + last, lastn); return lastn; }
    case INJ_AUTH_APPDATA: {
        /* the (not yet verified) peer itself seals application records under the keys being negotiated, before its Finished was
           processed by the target; several in a row so that DTLS sequence numbers pass the replay window */
        if (matrixSslHandshakeIsComplete(tgt->ssl)) return 0;
        if (early_data_legit(tgt) || (tgt->role == MX_SERVER && tgt->ssl->tls13ServerEarlyDataEnabled)) return 0;   /* more 0-RTT data from the PSK holder is legitimate early data */
        int tot = 0;
        for (int i = 0; i < in->len; i++) { char msg[40]; int ml = snprintf(msg, sizeof msg, "EVIL|peer-early-%02d", i); int l = mx_seal_as(peer, 23, (unsigned char *) msg, ml, out + tot); if (l <= 0) return 0; tot += l; }
        return tot; }
    case INJ_HSKEY: case INJ_HSKEY_OUTER22: {
        /* key-holding peer: a record sealed under the *handshake* traffic key of the honest peer with inner type 23 */
        if (tgt->ver != MX_TLS13) return 0;
        sslSec_t *ps = &peer->ssl->sec; int kl = mx13_keylen(M.scn->cfg.suite); int nz = 0;
        for (int i = 0; i < kl; i++) nz |= ps->tls13HsWriteKey[i];
        if (!nz) return 0;                                      /* peer has no handshake keys yet */
        if (matrixSslHandshakeIsComplete(peer->ssl) && matrixSslHandshakeIsComplete(tgt->ssl)) return 0;
        memcpy(body, "EVIL|under-hs-key", 17); body[17] = 23;
        unsigned long long seq = mx_seq8(tgt->ssl->sec.remSeq);
        return mx13_seal(M.scn->cfg.suite, ps->tls13HsWriteKey, ps->tls13HsWriteIv, seq, body, 18, in->kind == INJ_HSKEY ? 23 : 22, out); }
    }
    return 0;
}

typedef struct { mx_conn *k; int target; int cut; const inj_t *inj; } child_arg;
static void child_run(void *a_)
{
    child_arg *a = a_; mx_conn *k = a->k; mx_ep *tgt = a->target == MX_SERVER ? &k->s : &k->c;
    unsigned char rec[40000];
    k->c.on_app = on_app; k->s.on_app = on_app;
    vf_stat("cases", 1);
    if (vf_verbose) fprintf(stderr, "  child: now=%ld srv gotlen=%zu nApp=%d early status=%d enabled=%d sent0=%d sent1=%d cli gotlen=%zu\n", mx_now, k->s.gotlen, k->s.nApp, k->s.ssl->tls13EarlyDataStatus, k->s.ssl->tls13ServerEarlyDataEnabled, M.sentlen[0], M.sentlen[1], k->c.gotlen);
    if (a->inj->kind == INJ_ENCODE) {
        if (!matrixSslHandshakeIsComplete(tgt->ssl)) {
            unsigned char p[64]; mx_payload(p, 40, 0x0c01, tgt->role, 99);
            int rc = mx_send(tgt, p, 40);
            int earlyok = tgt->role == MX_CLIENT && tgt->ver == MX_TLS13 && tgt->ssl->sec.tls13DidEncodePsk && matrixSslGetMaxEarlyData(tgt->ssl) > 0;
            /* a TLS 1.3 server that accepted early data may send 0.5-RTT data: designed behaviour, not asserted either way */
            if (tgt->role == MX_SERVER && tgt->ver == MX_TLS13 && tgt->ssl->tls13ServerEarlyDataEnabled) earlyok = 1;
            vf_stat("encode_attempts_before_complete", 1);
            if (rc >= 0 && !earlyok) report("encode-before-complete", tgt, "matrixSslEncodeToOutdata returned %d before handshake completion", rc);
            if (rc >= 0) return;   /* state now carries the illegal record; nothing more to learn */
        }
    } else if (a->inj->kind != INJ_NONE) {
        int n = build_injection(k, tgt, a->inj, rec);
        if (n <= 0) { vf_stat("injection_not_applicable", 1); return; }
        M.injected = 1; vf_stat("injections_delivered", 1);
        vf_distinct("%s|%s|ca%d|r%d|%s|cut%d|st%d|%s|%d.%d|%d", verclass(M.scn->cfg.ver), M.scn->name, M.scn->cfg.clientAuth, M.scn->resumed, a->target ? "S" : "C", a->cut, tgt->ssl->hsState, injname[a->inj->kind], a->inj->vmaj, a->inj->vmin, a->inj->len);
        if (k->dtls) { int off = 0; mx_rec r; while (off < n && mx_rec_at(rec, n, off, 1, &r)) { if (!tgt->dead) mx_feed(tgt, rec + off, r.hdr + r.len); off += r.hdr + r.len; } }
        else if (!tgt->dead) mx_feed(tgt, rec, n);
    }
    /* let the honest handshake continue, then honest traffic both ways */
    mx_conn_run(k, NULL, NULL, 300);
    for (int round = 0; round < 2; round++) {
        if (matrixSslHandshakeIsComplete(k->c.ssl) && !k->c.dead) honest_send(k, &k->c, 100 + 50 * round, round);
        if (matrixSslHandshakeIsComplete(k->s.ssl) && !k->s.dead) honest_send(k, &k->s, 300 + 70 * round, round);
        mx_conn_run(k, NULL, NULL, 100);
    }
    if (a->inj->kind == INJ_NONE) {
        /* positive control */
        if (M.scn->clientEarly > 0 && M.scn->earlyResumed == 0) { if (k->s.nApp == 0) vf_stat("positive_controls_ok", 1); }   /* 0-RTT sent to a server that has it disabled: refusal is the expected outcome */
        else if (!mx_conn_established(k)) vf_violation("c01:harness:honest-handshake-failed", M.desc, "honest scenario does not complete");
        else if (k->s.gotlen != (size_t) M.sentlen[0] || k->c.gotlen != (size_t) M.sentlen[1]) vf_violation("c01:harness:honest-data-not-delivered", M.desc, "got %zu/%d %zu/%d", k->s.gotlen, M.sentlen[0], k->c.gotlen, M.sentlen[1]);
        else vf_stat("positive_controls_ok", 1);
    }
}

static inj_t catalogue[64]; static int ncat;
static void build_catalogue(int ver)
{
    ncat = 0; int dtls = MX_IS_DTLS(ver);
    catalogue[ncat++] = (inj_t) { INJ_NONE };
    catalogue[ncat++] = (inj_t) { INJ_ENCODE };
    int vm[][2] = { { 3, 1 }, { 3, 2 }, { 3, 3 }, { 3, 4 }, { 254, 255 }, { 254, 253 } };
    int lens[] = { 1, 5, 64, 16384 };
    for (int v = 0; v < 6; v++) {
        if (dtls != (vm[v][0] == 254)) continue;
        for (int l = 0; l < 4; l++) for (int ep = 0; ep < (dtls ? 2 : 1); ep++)
            catalogue[ncat++] = (inj_t) { INJ_PLAIN, vm[v][0], vm[v][1], lens[l], ep };
    }
    int rl[] = { 24, 64, 300 };
    for (int l = 0; l < 3; l++) for (int ep = 0; ep < (dtls ? 2 : 1); ep++)
        catalogue[ncat++] = (inj_t) { INJ_RANDOM, dtls ? 254 : 3, dtls ? (ver == MX_DTLS10 ? 255 : 253) : 3, rl[l], ep };
    catalogue[ncat++] = (inj_t) { INJ_FOREIGN };
    catalogue[ncat++] = (inj_t) { INJ_REFLECT };
    catalogue[ncat++] = (inj_t) { INJ_AUTH_APPDATA, 0, 0, 1 }; catalogue[ncat++] = (inj_t) { INJ_AUTH_APPDATA, 0, 0, 9 };
    if (ver == MX_TLS13) { catalogue[ncat++] = (inj_t) { INJ_HSKEY }; catalogue[ncat++] = (inj_t) { INJ_HSKEY_OUTER22 }; }
}

static long g_case_idx;
static void at_cut(mx_walk *w, mx_conn *k, int cut)
{
    foreign = w->foreign; foreignlen = w->foreignlen;
    if (vf_verbose > 1 || getenv("C01_TRACE")) fprintf(stderr, "  parent %s target=%d cut=%d now=%ld srv: gotlen=%zu early status=%d enabled=%d\n", w->scn->name, w->target, cut, mx_now, k->s.gotlen, k->s.ssl ? k->s.ssl->tls13EarlyDataStatus : -1, k->s.ssl ? k->s.ssl->tls13ServerEarlyDataEnabled : -1);
    for (int j = 0; j < ncat; j++) {
        long idx = g_case_idx++;
        if (!vf_mine(idx)) continue;
        child_arg a = { k, w->target, cut, &catalogue[j] };
        M.scn = w->scn; M.target = w->target; M.inj = &catalogue[j]; M.cut = cut; M.injected = 0;
        for (int d = 0; d < 2; d++) { memcpy(M.sent[d], w->sent[d], w->sentlen[d]); M.sentlen[d] = w->sentlen[d]; }
        char sd[128]; mx_scn_desc(sd, sizeof sd, w->scn, w->target);
        snprintf(M.desc, sizeof M.desc, "scn=%s cut=%d inj=%s:%d.%d:len%d:ep%d", sd, cut, injname[catalogue[j].kind], catalogue[j].vmaj, catalogue[j].vmin, catalogue[j].len, catalogue[j].epoch);
        if (vf_case && strcmp(vf_case, M.desc)) continue;
        if (j == 1 && cut < 3) vf_sample("%s", M.desc);
        vf_fork_case(child_run, &a, "c01", M.desc, 60);
    }
}

static void run_scenario(const scn_t *s, int target)
{
    mx_walk w;
    build_catalogue(s->cfg.ver);
    int cuts = mx_scn_walk(&w, s, target, at_cut, NULL, 1);
    if (vf_shard == 0) {
        if (s->resumed) vf_stat(w.really_resumed ? "resumed_scenarios_really_resumed" : "resumed_scenarios_fell_back_to_full", 1);
        if (cuts > 0) vf_statf(cuts, "cuts_%s", verclass(s->cfg.ver));
        vf_stat("scenarios", 1);
    }
}

int main(int argc, char **argv)
{
    vf_init(argc, argv); mx_global_init(); mx_keys_load();
    mx_scn_build(vf_thorough);
    for (int i = 0; i < mx_nscn; i++) for (int target = 0; target < 2; target++) {
        mx_entropy_seed(vf_seed + i * 2 + target);
        run_scenario(&mx_scns[i], target);
    }
    mx_keys_free(); matrixSslClose();
    vf_flush();
    return 0;
}
