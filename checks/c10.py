import vflib
WRAPS = ("psGetEntropy", "gettimeofday", "time")
COOKIE_LENS = (1, 16, 32, 33, 64, 255)
LOSS_FLIGHTS = ("client-hello", "hello-verify-request", "client-hello-with-cookie", "server-hello-flight",
                "client-finished-flight", "server-finished-flight")


def run(ctx):
    st = [dict(variant="asan", name="c10", sources=["checks/c10_interop.c", "harness/mx_wraps.c"], wraps=WRAPS,
               libs=["-lssl", "-lcrypto"], shards=vflib.NCPU, timeout=7200 if ctx.thorough else 900)]
    rule = ("Each case = one configuration run in a forked child: the sanitizer build of MatrixSSL on one end, OpenSSL 3 on the other, "
            "over in-memory queues (TLS byte stream delivered in reads of 3/17/1399/4096/16389 bytes or whole flights; datagram queue for DTLS); both stacks "
            "use seeded randomness. Tuple = (role mx-client|mx-server, version TLS1.1/1.2/1.3/DTLS1.0/1.2, suite, server certificate type "
            "RSA-2048/3072, RSA-PSS, ECDSA P-256/384/521, Ed25519, and the identities whose chain is signed with SHA-384 / SHA-512 (EC/384_EC_SHA384, EC/521_EC_SHA512, RSA/2048_RSA_SHA512 and "
            "RSA/2048_RSA re-signed with sha384WithRSAEncryption by the sample CA key at start-up: below TLS 1.3 MatrixSSL signs ServerKeyExchange / CertificateVerify with the hash of its own certificate's signature), first key share > final group (HelloRetryRequest when different) over P-256/384/521/X25519/ffdhe, "
            "client-auth certificate type, resumption mode none/session-id/RFC5077 ticket/TLS1.3 ticket PSK/TLS1.3 external PSK, extended master secret on/off, "
            "DTLS HelloVerifyRequest cookie of the OpenSSL server application: none or 1/16/24/32/33/64/255 bytes (DTLS 1.0 only up to 32, RFC 4347), which must be echoed bit-exact exactly as often as OpenSSL asks, "
            "DTLS loss: none, or the first transmission of one handshake flight (named by content: client-hello, hello-verify-request, client-hello-with-cookie, server-hello-flight, client-finished-flight, "
            "server-finished-flight; of the full handshake, or of the resumed one when the configuration resumes) is lost whole and both stacks retransmit in logical time - a timeout round only when nothing is in flight and the "
            "handshake is incomplete; MatrixSSL's timer with the discipline of apps/dtls (extra matrixDtlsGetOutdata; never for a client that saw HANDSHAKE_COMPLETE or a server that completed a resumed handshake), OpenSSL's "
            "through DTLSv1_handle_timeout on a clock only the harness advances (gettimeofday is interposed for libssl); both timers per round, or OpenSSL's / MatrixSSL's alone in the first round; at most 6 rounds, "
            "payload plan). Oracle: both stacks complete; identical version/suite/(1.3) group/EMS that equal the pinned ones; tagged payloads "
            "of the planned sizes (1,100,16383,16384,16385,40000,200000 for TLS; 1,100,1000,1200 for DTLS) and bursts of 1..7-byte records round-trip bit-exact both ways, every second TLS 1.3 configuration makes both stacks pad application records to 1024-byte blocks, and every 7th (quick) / 4th (thorough) configuration also streams 300 one-record messages per direction (record sequence numbers cross a byte boundary under one key); "
            "after clean shutdown the second connection is resumed on both stacks' view and data round-trips again; a third connection offers the same resumption state to a peer that cannot use it (fresh OpenSSL context / MatrixSSL key set with other ticket keys and an emptied session cache) and must fall back to a full handshake that works. quick = every (role,version,suite) plus one-factor "
            "deviations per key-exchange family plus a few many-factor TLS 1.3 cases, plus one cell per (chain hash SHA-384/512 x key type, PRF hash SHA-256/384 of the suite, role, use as server / client-auth certificate) on TLS 1.2 "
            "and the MatrixSSL-signs cells on DTLS 1.2 / TLS 1.3, plus every cookie length on both DTLS versions (long ones also with session-id / ticket resumption), plus every flight lost once in both roles on both DTLS versions "
            "(PSK, ECDHE-RSA with a single-timer-first mode, ECDHE-ECDSA with client authentication, resumed, no cookie) (seed-independent set); thorough = the full product of the old dimensions, the chain-hash identities as server and "
            "client certificate for every suite and version, every cookie length for every suite, every flight x every suite x every timer mode. "
            "A lost flight must only delay the handshake: not complete on both stacks after 6 timeout rounds = dtls-loss-handshake-stalls, an error on either stack = dtls-loss-handshake-fails (family = the flight). "
            "evaluations = configurations executed against OpenSSL; distinct_nontrivial = distinct configuration tuples that both stacks support and that completed all "
            "phases; configurations one stack cannot do are counted under not_mutually_supported_<why> and are neither passes nor violations.")

    def post(res):
        if ctx.replay:
            return
        # every resumption mode must actually have been exercised in both roles, otherwise the not-resumed clause was vacuous
        for k in ("resumed_sid_mx-client", "resumed_sid_mx-server", "resumed_ticket_mx-client", "resumed_ticket_mx-server",
                  "resumed_psk13_mx-client", "resumed_psk13_mx-server", "external_psk_handshakes_ok"):
            if res.stats.get(k, 0) == 0 and not res.viol:
                res.incon.append("resumption mode never exercised: " + k)
        # the added dimensions must have been exercised as well; the known open finding (Finished resent under a new epoch) makes exactly the
        # flights that MatrixSSL has to resend together with a ChangeCipherSpec unrecoverable, every other (role, flight) must have recovered
        unrecoverable = {("mx-client", "client-finished-flight"), ("mx-server", "server-finished-flight")}
        for n in COOKIE_LENS:
            if res.stats.get("cookie_%d_bytes_echoed" % n, 0) == 0 and not res.viol:
                res.incon.append("cookie length never exercised: %d" % n)
        for role in ("mx-client", "mx-server"):
            for fl in LOSS_FLIGHTS:
                if (role, fl) not in unrecoverable and res.stats.get("dtls_loss_recovered_%s_%s" % (role, fl), 0) == 0 and not res.viol:
                    res.incon.append("no handshake recovered from the loss of the %s (%s)" % (fl, role))
            for use in ("servercert", "clientauth"):
                for h in ("sha384", "sha512"):
                    for prf in ("256", "384"):
                        k = "chain_hash_cells_%s_%s-%s_prf%s" % (role, use, h, prf)
                        if res.stats.get(k, 0) == 0 and not res.viol:
                            res.incon.append("chain-hash cell never interoperated: " + k)

    return vflib.std_run(ctx, st, "exploration", rule,
        ["conformance = agreement with OpenSSL 3.0; a deviation shared with OpenSSL is invisible",
         "OpenSSL policy knobs opened: security level 0, exact protocol version, SSL_OP_LEGACY_SERVER_CONNECT for the OpenSSL client "
         "(this MatrixSSL build has renegotiation compiled out and sends no renegotiation_info)",
         "DTLS datagrams are never reordered or duplicated and only whole first transmissions of a handshake flight are lost (C16 covers arbitrary schedules MatrixSSL-to-MatrixSSL); "
         "application datagrams are limited to what fits one record under the path MTU",
         "known open finding F-C10-dtls-finished-resent-under-new-epoch: whenever MatrixSSL has to retransmit a flight containing ChangeCipherSpec+Finished the handshake with OpenSSL stalls "
         "(keys c10:dtls-loss-handshake-stalls:...); the cases are executed and reported as KNOWN-FINDING",
         "pairs of identities that need two different root files for one CA name (rsa2048 with rsa2048-sha512, ec384 with ec384-sha384, ec521 with ec521-sha512) are not run: OpenSSL would complete its chain "
         "with a root that differs from MatrixSSL's anchor, which is certificate-path building (C03/C04), not wire conformance",
         "a DTLS ClientHello must fit the path MTU (the library fragments Certificate messages only): long cookies are not combined with tickets that carry a client certificate",
         "early data is not exercised"],
        min_nontrivial=3000 if ctx.thorough else 250, post=post)
