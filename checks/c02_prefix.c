/* C02 - the delivered stream is an exact prefix of what the peer sent, under any attack on the
 * ciphertext.
 *
 * Per (version, suite, direction): establish a connection, let the sender seal a burst of tagged
 * payloads (lengths around block/record boundaries), capture the ciphertext stream W with its
 * record boundaries, then fork()-clone the receiver once per edit script.  The child feeds the
 * edited stream and the monitor checks, at every delivery and at the end:
 *   TLS : delivered bytes == prefix of sent bytes; nothing from the first altered record or any
 *         later record is delivered; the receiver ends dead (fatal alert / negative return) unless
 *         the edit is a pure truncation or leaves it waiting for bytes its length field promises
 *         (then it is fed more and must die); body/tag/IV edits all yield bad_record_mac.
 *   DTLS: every delivered datagram is byte-identical to one the peer submitted, delivered from an
 *         unmodified record. */
#include "mx.h"

typedef struct { int ver; uint16_t suite; } scn_t;
static scn_t scns[64]; static int nscn;
static void build_scenarios(void)
{
    static const scn_t quick[] = {
        { MX_TLS11, 0x008c }, { MX_TLS11, 0x0035 },
        { MX_TLS12, 0x008d }, { MX_TLS12, 0x00ae }, { MX_TLS12, 0x00af }, { MX_TLS12, 0x009c }, { MX_TLS12, 0xc030 }, { MX_TLS12, 0x003d },
        { MX_TLS13, 0x1301 }, { MX_TLS13, 0x1302 }, { MX_TLS13, 0x1303 },
        { MX_DTLS10, 0x008c }, { MX_DTLS12, 0x00ae }, { MX_DTLS12, 0x009d },
    };
    if (!vf_thorough) { memcpy(scns, quick, sizeof quick); nscn = sizeof quick / sizeof quick[0]; return; }
    for (int v = 0; v < MX_NVER; v++) for (int i = 0; i < MX_NSUITES; i++) if (mx_suite_ok_for(&mx_suites[i], v)) {
        /* one key-exchange family per cipher+MAC is enough: skip ECDHE-ECDSA duplicates of ECDHE-RSA ciphers in the thorough grid too */
        if (mx_suites[i].auth == MX_AUTH_ECDSA) continue;
        scns[nscn++] = (scn_t) { v, mx_suites[i].id };
    }
}

/* ---- captured burst ---- */
#define MAXREC 40
static unsigned char *W; static int Wlen;
static struct { int off, len, hdr, ptoff, ptlen; } R[MAXREC]; static int nR;   /* ciphertext records and the plaintext range each carries */
static unsigned char *SENT; static int SENTLEN;   /* plaintext submitted in this burst */
static int payload_len[MAXREC], npayload;
static unsigned char *OTHER; static int OTHERLEN;  /* a record of the opposite direction (reflection) */
static unsigned char *FOREIGN; static int FOREIGNLEN; /* a record of another connection, same suite and direction */
static unsigned char *OLD; static int OLDLEN;       /* an earlier application record of this direction, already delivered */

enum { ED_FLIP = 0, ED_SETBYTE, ED_TRUNC, ED_APPEND, ED_LEN, ED_TYPE, ED_VER, ED_SWAP, ED_DROP, ED_DUP, ED_REPLAY_OLD, ED_REFLECT, ED_SPLICE, ED_XORBYTE, ED_NONE, ED_INSERT_CCS, ED_N };
static const char *edname[] = { "bitflip", "setbyte", "truncate", "insert-garbage", "length-field", "type-field", "version-field", "swap-records", "drop-record", "duplicate-record", "replay-old-record", "reflect-other-direction", "splice-other-connection", "xor-byte", "none", "insert-plaintext-ccs" };
typedef struct { int kind; int rec; int pos; int val; } edit_t;

static struct { const scn_t *scn; int dir; const edit_t *ed; char desc[256]; int firstBadRec; int allowedPt; int dtls; int pureTrunc; int region; } M;
static const char *region_name[] = { "header", "body", "structure" };

static void report(const char *clause, mx_ep *e, const char *fmt, ...)
{
    char key[200], msg[700]; va_list ap; va_start(ap, fmt); vsnprintf(msg, sizeof msg, fmt, ap); va_end(ap);
    const mx_suite_t *s = mx_suite_by_id(M.scn->suite);
    snprintf(key, sizeof key, "c02:%s:%s:%s:%s:%s", clause, mx_vername[M.scn->ver], s->aead == 0 ? "cbc" : s->aead == 1 ? "gcm" : "chacha", edname[M.ed->kind], region_name[M.region]);
    vf_violation(key, M.desc, "%s | suite=%s dir=%s rec=%d pos=%d val=%d err=%d lastrc=%d flags=0x%x", msg, s->name, M.dir ? "s->c" : "c->s", M.ed->rec, M.ed->pos, M.ed->val, e->ssl->err, e->lastrc, e->ssl->flags);
}
static int deliveredBase;
static void on_app(mx_ep *e, const unsigned char *pt, uint32 len)
{
    vf_stat("deliveries", 1);
    if (M.dtls) {
        int which = -1, p = 0;
        for (int i = 0; i < npayload; i++) { if ((uint32) payload_len[i] == len && !memcmp(SENT + p, pt, len)) { which = i; break; } p += payload_len[i]; }
        if (which < 0) report("altered-datagram-delivered", e, "datagram len=%u is not byte-identical to any submitted payload; first=%.16s", len, len ? (const char *) pt : "");
        else if (M.region != 2 && which == M.firstBadRec) report("data-from-modified-record", e, "payload of the modified record %d was delivered", M.firstBadRec);
        return;
    }
    size_t off = e->gotlen - deliveredBase;
    if (off + len > (size_t) SENTLEN || memcmp(SENT + off, pt, len))
        report("not-a-prefix", e, "delivery at offset %zu len=%u is not the continuation of the sent stream; first=%.16s", off, len, len ? (const char *) pt : "");
    else if ((int) (off + len) > M.allowedPt)
        report("data-from-modified-record", e, "plaintext up to offset %zu delivered but only %d bytes precede the first altered record (%d)", off + len, M.allowedPt, M.firstBadRec);
}

/* apply the edit to a copy of W; returns new length; sets M.firstBadRec / M.allowedPt / M.pureTrunc / M.region */
static int apply_edit(const edit_t *ed, unsigned char *out)
{
    int n = Wlen; memcpy(out, W, Wlen);
    int r = ed->rec; M.pureTrunc = 0; M.region = 2;
    M.firstBadRec = r;
    switch (ed->kind) {
    case ED_NONE: M.firstBadRec = -1; break;
    case ED_FLIP: out[R[r].off + ed->pos] ^= (unsigned char) (1 << ed->val); M.region = ed->pos < R[r].hdr ? 0 : 1; break;
    case ED_XORBYTE: out[R[r].off + ed->pos] ^= (unsigned char) ed->val; M.region = ed->pos < R[r].hdr ? 0 : 1; break;
    case ED_SETBYTE: if (out[R[r].off + ed->pos] == (unsigned char) ed->val) out[R[r].off + ed->pos] ^= 0x55; else out[R[r].off + ed->pos] = (unsigned char) ed->val; M.region = ed->pos < R[r].hdr ? 0 : 1; break;
    case ED_TRUNC: n = R[r].off + ed->pos; M.pureTrunc = 1; break;     /* cut inside / at start of record r */
    case ED_APPEND: {   /* insert val garbage bytes before record r */
        int at = r < nR ? R[r].off : Wlen; memmove(out + at + ed->val, out + at, Wlen - at); memset(out + at, 0x5a, ed->val); n += ed->val; break; }
    case ED_LEN: { int l = R[r].len + ed->val; if (l < 0) l = 0; out[R[r].off + R[r].hdr - 2] = l >> 8; out[R[r].off + R[r].hdr - 1] = l; M.region = 0; break; }
    case ED_TYPE: out[R[r].off] = (unsigned char) ed->val; M.region = 0; break;
    case ED_VER: out[R[r].off + 1] = (unsigned char) (ed->val >> 8); out[R[r].off + 2] = (unsigned char) ed->val; M.region = 0; break;
    case ED_SWAP: { int a = R[r].off, la = R[r].hdr + R[r].len, lb = R[r + 1].hdr + R[r + 1].len; memcpy(out + a, W + R[r + 1].off, lb); memcpy(out + a + lb, W + a, la); break; }
    case ED_DROP: { int a = R[r].off, la = R[r].hdr + R[r].len; memmove(out + a, out + a + la, Wlen - a - la); n -= la; break; }
    case ED_DUP: { int a = R[r].off, la = R[r].hdr + R[r].len; memmove(out + a + la, out + a, Wlen - a); n += la; M.firstBadRec = r + 1; break; }
    case ED_INSERT_CCS: {  /* val plaintext ChangeCipherSpec records in front of record r (same read) */
        int at = R[r].off, hl = M.dtls ? 13 : 5, one = hl + 1; unsigned char ccs[14]; memcpy(ccs, W + R[r].off, hl); ccs[0] = 20; ccs[hl - 2] = 0; ccs[hl - 1] = 1; ccs[hl] = 1;
        if (M.dtls) { ccs[3] = 0; ccs[4] = 0; }
        memmove(out + at + ed->val * one, out + at, Wlen - at); for (int i = 0; i < ed->val; i++) memcpy(out + at + i * one, ccs, one); n += ed->val * one;
        /* TLS 1.3 lets a receiver drop such records: then everything must still arrive intact; it may also refuse them */
        if (M.scn->ver == MX_TLS13) M.firstBadRec = -2;
        break; }
    case ED_REPLAY_OLD: case ED_REFLECT: case ED_SPLICE: {
        unsigned char *src = ed->kind == ED_REPLAY_OLD ? OLD : ed->kind == ED_REFLECT ? OTHER : FOREIGN;
        int sl = ed->kind == ED_REPLAY_OLD ? OLDLEN : ed->kind == ED_REFLECT ? OTHERLEN : FOREIGNLEN;
        if (sl <= 0) return -1;
        int at = R[r].off; memmove(out + at + sl, out + at, Wlen - at); memcpy(out + at, src, sl); n += sl; break; }
    }
    M.allowedPt = M.firstBadRec < 0 ? SENTLEN : (M.firstBadRec < nR ? R[M.firstBadRec].ptoff : SENTLEN);
    return n;
}

typedef struct { mx_ep *rcv; const edit_t *ed; } child_arg;
static void child_run(void *a_)
{
    child_arg *a = a_; mx_ep *T = a->rcv;
    unsigned char *buf = malloc(Wlen + 70000);
    vf_stat("cases", 1);
    int n = apply_edit(a->ed, buf);
    if (n < 0) { vf_stat("edit_not_applicable", 1); return; }
    T->on_app = on_app; deliveredBase = (int) T->gotlen;
    int rc;
    if (M.dtls) {
        /* datagram per record */
        int off = 0; mx_rec r; rc = 0;
        while (off < n) { int l; if (mx_rec_at(buf, n, off, 1, &r)) l = r.hdr + r.len; else l = n - off; if (!T->dead) rc = mx_feed(T, buf + off, l); off += l; }
    } else rc = mx_feed(T, buf, n);
    vf_distinct("%s|%04x|%d|%s|r%d|p%d|v%d", mx_vername[M.scn->ver], M.scn->suite, M.dir, edname[a->ed->kind], a->ed->rec, a->ed->pos, a->ed->val);
    int got = (int) T->gotlen - deliveredBase;
    if (a->ed->kind == ED_NONE) {
        if (M.dtls ? T->nApp < npayload : got != SENTLEN) vf_violation("c02:harness:honest-burst-not-delivered", M.desc, "got %d of %d", got, SENTLEN);
        else vf_stat("positive_controls_ok", 1);
        return;
    }
    if (M.dtls) { vf_statf(1, "dtls_%s", T->dead ? "fatal" : "discarded-or-ignored"); return; }
    if (M.firstBadRec == -2) { vf_statf(1, "tls13_ccs_%s", (T->dead || (T->ssl->flags & SSL_FLAGS_ERROR)) ? "refused" : "ignored"); return; }
    /* TLS: the session must be dead unless the edit only withheld bytes */
    if (M.firstBadRec >= nR && a->ed->kind == ED_TRUNC) return;
    int dead = T->dead || (T->ssl->flags & (SSL_FLAGS_ERROR | SSL_FLAGS_CLOSED));
    if (!dead && T->ssl->inlen > 0) {
        /* waiting for the bytes an (enlarged) length field promises: supply them */
        vf_stat("receiver_waiting_for_promised_bytes", 1);
        unsigned char *more = malloc(20000); memset(more, 0xA5, 20000);
        if (!M.pureTrunc) { rc = mx_feed(T, more, 20000); dead = T->dead || (T->ssl->flags & (SSL_FLAGS_ERROR | SSL_FLAGS_CLOSED)); }
        else dead = 1;   /* truncation inside a record: waiting is the correct behaviour */
        free(more);
    }
    if (M.pureTrunc) { vf_stat("truncations", 1); return; }
    if (!dead) report("session-survives-modification", T, "receiver is still alive after the altered stream was fed completely (delivered %d of %d plaintext bytes)", got, SENTLEN);
    else {
        vf_stat("modifications_fatal", 1);
        /* single alert type for decryption failures (no padding oracle by alert) */
        /* asserted for CBC only: padding and MAC failures must be indistinguishable by alert; AEAD suites use one (other) alert consistently */
        if (M.region == 1 && mx_suite_by_id(M.scn->suite)->aead == 0 && T->ssl->err != SSL_ALERT_BAD_RECORD_MAC && T->ssl->err != SSL_ALERT_NONE)
            report("decrypt-failure-alert-not-bad-record-mac", T, "body/tag/IV modification produced alert %d", T->ssl->err);
        if (T->ssl->err != SSL_ALERT_NONE) vf_statf(1, "alert_%d_%s", T->ssl->err, region_name[M.region]);
    }
    free(buf);
}

static long g_idx;
static void run_edit(mx_ep *rcv, const edit_t *ed)
{
    long idx = g_idx++;
    if (!vf_mine(idx)) return;
    M.ed = ed;
    snprintf(M.desc, sizeof M.desc, "%s/%04x/dir%d/%s:r%d:p%d:v%d", mx_vername[M.scn->ver], M.scn->suite, M.dir, edname[ed->kind], ed->rec, ed->pos, ed->val);
    if (vf_case && strcmp(vf_case, M.desc)) return;
    if ((idx % 977) == 0) vf_sample("%s (record len %d of burst %d records)", M.desc, ed->rec < nR ? R[ed->rec].len : 0, nR);
    child_arg a = { rcv, ed };
    vf_fork_case(child_run, &a, "c02", M.desc, 60);
}

static void enumerate_edits(mx_ep *rcv, int dtls, int aead, int nsmall)
{
    vf_rng g; vf_rng_init(&g, vf_seed, M.scn->suite * 16 + M.scn->ver * 2 + M.dir);
    edit_t e;
    e = (edit_t) { ED_NONE, 0, 0, 0 }; run_edit(rcv, &e);
    for (int r = 0; r < nR; r++) {
        int small = r < nsmall; int tot = R[r].hdr + R[r].len;
        /* header bits: exhaustive for the first three small records and one large one, sampled otherwise */
        for (int p = 0; p < R[r].hdr; p++) for (int b = 0; b < 8; b++) {
            if (!(r < 3 || r == nsmall || vf_thorough) && vf_below(&g, 8)) continue;
            e = (edit_t) { ED_FLIP, r, p, b }; run_edit(rcv, &e);
        }
        /* body bits */
        if (vf_thorough && tot <= 96 + R[r].hdr) { for (int p = R[r].hdr; p < tot; p++) for (int b = 0; b < 8; b++) { e = (edit_t) { ED_FLIP, r, p, b }; run_edit(rcv, &e); } }
        else if (vf_thorough) { for (int p = R[r].hdr; p < tot; p++) { e = (edit_t) { ED_FLIP, r, p, (int) vf_below(&g, 8) }; run_edit(rcv, &e); } }
        else {
            int nb = small ? 20 : 40;
            if (R[r].len > 0) {
                e = (edit_t) { ED_FLIP, r, R[r].hdr, 0 }; run_edit(rcv, &e);                 /* first body byte (explicit IV / nonce) */
                e = (edit_t) { ED_FLIP, r, tot - 1, 7 }; run_edit(rcv, &e);                  /* last byte (tag / MAC / padding) */
                if (R[r].len > 16) { e = (edit_t) { ED_FLIP, r, tot - 16, 3 }; run_edit(rcv, &e); e = (edit_t) { ED_FLIP, r, tot - 17, 0 }; run_edit(rcv, &e); }
                for (int i = 0; i < nb; i++) { e = (edit_t) { ED_FLIP, r, R[r].hdr + (int) vf_below(&g, R[r].len), (int) vf_below(&g, 8) }; run_edit(rcv, &e); }
                for (int i = 0; i < 4; i++) { e = (edit_t) { ED_SETBYTE, r, R[r].hdr + (int) vf_below(&g, R[r].len), i & 1 ? 0xff : 0 }; run_edit(rcv, &e); }
            }
        }
        if (r < 4 || r == nsmall || vf_thorough) {
            static const int dl[] = { 1, -1, 16, -16, 256, 17000 };
            for (int i = 0; i < 6; i++) { e = (edit_t) { ED_LEN, r, 0, dl[i] }; run_edit(rcv, &e); }
            static const int ty[] = { 20, 21, 22, 24, 0, 255 };
            for (int i = 0; i < 6; i++) { e = (edit_t) { ED_TYPE, r, 0, ty[i] }; run_edit(rcv, &e); }
            static const int vs[] = { 0x0300, 0x0301, 0x0302, 0x0303, 0x0304, 0xfeff, 0xfefd, 0x0000 };
            for (int i = 0; i < 8; i++) { if (vs[i] == ((W[R[r].off + 1] << 8) | W[R[r].off + 2])) continue; e = (edit_t) { ED_VER, r, 0, vs[i] }; run_edit(rcv, &e); }
            static const int tr[] = { 0, 1, 4, 5 };
            for (int i = 0; i < 4; i++) { e = (edit_t) { ED_TRUNC, r, tr[i], 0 }; run_edit(rcv, &e); }
            if (R[r].len > 2) { e = (edit_t) { ED_TRUNC, r, tot - 1, 0 }; run_edit(rcv, &e); }
            static const int ap[] = { 1, 5, 16, 21 };
            for (int i = 0; i < 4; i++) { e = (edit_t) { ED_APPEND, r, 0, ap[i] }; run_edit(rcv, &e); }
            if (r + 1 < nR) { e = (edit_t) { ED_SWAP, r, 0, 0 }; run_edit(rcv, &e); }
            if (r + 1 < nR) { e = (edit_t) { ED_DROP, r, 0, 0 }; run_edit(rcv, &e); }
            e = (edit_t) { ED_DUP, r, 0, 0 }; run_edit(rcv, &e);
            e = (edit_t) { ED_REPLAY_OLD, r, 0, 0 }; run_edit(rcv, &e);
            e = (edit_t) { ED_REFLECT, r, 0, 0 }; run_edit(rcv, &e);
            e = (edit_t) { ED_SPLICE, r, 0, 0 }; run_edit(rcv, &e);
            for (int c = 1; c <= 3; c++) { e = (edit_t) { ED_INSERT_CCS, r, 0, c }; run_edit(rcv, &e); }
        }
        /* CBC padding forgeries: every XOR delta on the byte that controls the padding length, and on the last byte */
        if (aead == 0 && (r == 1 || r == 2 || r == 4 || (vf_thorough && small)) && R[r].len >= 48) {
            for (int d = 1; d < 256; d++) { e = (edit_t) { ED_XORBYTE, r, tot - 17, d }; run_edit(rcv, &e); }
            for (int d = 1; d < 256; d += vf_thorough ? 1 : 5) { e = (edit_t) { ED_XORBYTE, r, tot - 1, d }; run_edit(rcv, &e); }
            /* padding CONTENT: the other bytes of the ciphertext block in front of the last one decide the plaintext bytes before the length byte - all of them padding when the
               pad is long enough; a receiver that only looks at the length byte accepts these */
            for (int p2 = tot - 32; p2 <= tot - 18; p2++) { static const int dd[] = { 0x01, 0x80, 0xff, 0x10 }; for (int i = 0; i < (vf_thorough ? 4 : 2); i++) { e = (edit_t) { ED_XORBYTE, r, p2, dd[i] }; run_edit(rcv, &e); } }
        }
        /* AEAD: every bit of explicit nonce (TLS 1.2 GCM) and of the tag for one record */
        if (aead && (r == 2 || (vf_thorough && small))) {
            for (int p = tot - 16; p < tot; p++) for (int b = 0; b < 8; b++) { e = (edit_t) { ED_FLIP, r, p, b }; run_edit(rcv, &e); }
            if (M.scn->ver != MX_TLS13 && R[r].len > 24) for (int p = R[r].hdr; p < R[r].hdr + 8; p++) for (int b = 0; b < 8; b++) { e = (edit_t) { ED_FLIP, r, p, b }; run_edit(rcv, &e); }
        }
    }
    e = (edit_t) { ED_APPEND, nR, 0, 7 }; run_edit(rcv, &e);
}

static void capture_records(mx_conn *k, int dir, int base)
{
    int off = base; mx_rec r; nR = 0; int pt = 0, pi = 0;
    Wlen = k->wirelen[dir] - base; W = malloc(Wlen + 1); memcpy(W, k->wire[dir] + base, Wlen);
    off = 0;
    while (mx_rec_at(W, Wlen, off, k->dtls, &r) && nR < MAXREC) {
        R[nR].off = off; R[nR].len = r.len; R[nR].hdr = r.hdr; R[nR].ptoff = pt; R[nR].ptlen = pi < npayload ? payload_len[pi] : 0;
        pt += R[nR].ptlen; pi++; nR++; off += r.hdr + r.len;
    }
}

static void run_scenario(const scn_t *s, int dir)
{
    mx_cfg cfg = { .ver = s->ver, .suite = s->suite }; mx_conn k, f; sslSessionId_t *sid, *sid2;
    const mx_suite_t *su = mx_suite_by_id(s->suite);
    M.scn = s; M.dir = dir; M.dtls = MX_IS_DTLS(s->ver);
    matrixSslNewSessionId(&sid, NULL); matrixSslNewSessionId(&sid2, NULL);
    if (mx_conn_open(&k, &cfg, sid) != 0 || (mx_conn_run(&k, NULL, NULL, 300), !mx_conn_established(&k))) { vf_incon("handshake failed %s %04x", mx_vername[s->ver], s->suite); return; }
    mx_ep *snd = dir ? &k.s : &k.c, *rcv = dir ? &k.c : &k.s, *other = rcv;
    unsigned char p[17000];
    /* an old record of this direction (delivered), one of the other direction, one of a foreign connection */
    int b0 = k.wirelen[dir]; mx_payload(p, 40, 0x0c02, dir, 900); mx_send(snd, p, 40); mx_conn_run(&k, NULL, NULL, 20);
    OLDLEN = k.wirelen[dir] - b0; OLD = malloc(OLDLEN + 1); memcpy(OLD, k.wire[dir] + b0, OLDLEN);
    int b1 = k.wirelen[!dir]; mx_payload(p, 40, 0x0c02, !dir, 901); mx_send(other, p, 40); mx_conn_run(&k, NULL, NULL, 20);
    OTHERLEN = k.wirelen[!dir] - b1; OTHER = malloc(OTHERLEN + 1); memcpy(OTHER, k.wire[!dir] + b1, OTHERLEN);
    FOREIGNLEN = 0;
    if (mx_conn_open(&f, &cfg, sid2) == 0) {
        mx_conn_run(&f, NULL, NULL, 300);
        if (mx_conn_established(&f)) { mx_ep *fs = dir ? &f.s : &f.c; int fb = f.wirelen[dir]; mx_payload(p, 40, 0x0f02, dir, 1); mx_send(fs, p, 40); mx_send(fs, p, 40); mx_conn_run(&f, NULL, NULL, 20);
            /* take the second record so that its sequence number equals the one expected next on the victim connection as closely as possible */
            FOREIGNLEN = (f.wirelen[dir] - fb) / 2; FOREIGN = malloc(FOREIGNLEN + 1); memcpy(FOREIGN, f.wire[dir] + fb + FOREIGNLEN, FOREIGNLEN); }
        mx_conn_close(&f);
    }
    /* the burst */
    static const int small[] = { 1, 15, 16, 17, 31, 32, 33, 255, 256 };
    int nsmall = 9; npayload = 0; SENTLEN = 0; SENT = malloc(80000);
    int base = k.wirelen[dir]; vf_rng g; vf_rng_init(&g, vf_seed, s->suite + dir);
    int maxbig = M.dtls ? 1100 : 16384;
    for (int i = 0; i < nsmall + 4; i++) {
        int l = i < nsmall ? small[i] : i == nsmall ? 40 + (int) vf_below(&g, 400) : i == nsmall + 1 ? maxbig - 1 : i == nsmall + 2 ? maxbig : 24;
        mx_payload(p, l, 0x0c02, dir, i);
        int rc = mx_send(snd, p, l);
        if (rc <= 0) { vf_incon("encode failed rc=%d len=%d", rc, l); continue; }
        memcpy(SENT + SENTLEN, p, l); SENTLEN += l; payload_len[npayload++] = l;
        if (M.dtls) mx_conn_collect(&k);
    }
    mx_conn_collect(&k);
    capture_records(&k, dir, base);
    if (nR != npayload) { vf_incon("record/payload count mismatch %d/%d for %s %04x", nR, npayload, mx_vername[s->ver], s->suite); }
    else {
        if (vf_shard == 0) { vf_stat("scenarios", 1); vf_stat("records_under_attack", nR); vf_stat("ciphertext_bytes_under_attack", Wlen); }
        k.qoff[dir] = k.qlen[dir];   /* the burst is delivered by the children only */
        enumerate_edits(rcv, M.dtls, su->aead, nsmall + 1);
    }
    free(W); free(SENT); free(OLD); free(OTHER); if (FOREIGNLEN) free(FOREIGN);
    mx_conn_close(&k); matrixSslDeleteSessionId(sid); matrixSslDeleteSessionId(sid2);
}

int main(int argc, char **argv)
{
    vf_init(argc, argv); mx_global_init(); mx_keys_load();
    build_scenarios();
    for (int i = 0; i < nscn; i++) for (int dir = 0; dir < 2; dir++) { mx_entropy_seed(vf_seed * 31 + i); run_scenario(&scns[i], dir); }
    mx_keys_free(); matrixSslClose();
    vf_flush();
    return 0;
}
