/* C04, stage 3 - the prover is OpenSSL.
 *
 * Stage 1 lets a MatrixSSL endpoint present the labelled credentials, but MatrixSSL refuses to LOAD several of them (unknown
 * critical extension, issuer that is not a CA, corrupt signature, mismatching key ...), so those labels never reach the
 * verifier's handshake path.  Here the peer presenting the minted chain is OpenSSL 3 (libssl, in-process over memory BIOs),
 * which sends whatever list of certificates it is given; the verifier stays the sanitizer build of MatrixSSL.
 *
 *   roles      MatrixSSL client verifying an OpenSSL server (TLS 1.2 RSA key transport, ECDHE-RSA, ECDHE-ECDSA; TLS 1.3 RSA /
 *              ECDSA / Ed25519) and MatrixSSL server verifying an OpenSSL client (TLS 1.2 / 1.3, RSA and ECDSA)
 *   labels     c04_mint.h: all of stage 1's plus chains that make validation fail with a return code instead of an authStatus
 *              (untrusted self-signed CA without keyUsage dated 1990 sent along, CA without keyCertSign, v1 intermediate,
 *              intermediate with an unknown critical extension, critical EKU without a TLS purpose, MD5 / SHA-1 signed
 *              intermediate, leaf signed by another key than its named issuer's, duplicates, wrong order, unrelated extras)
 *   callbacks  none / strict / permissive (+ allow-anon when the verifier is a server)
 *   oracle     complete  =>  label good, or label is order/duplicate/extra-only (either answer is fine), or a callback was
 *              registered, was shown a non-zero alert and returned 0 / SSL_ALLOW_ANON_CONNECTION;
 *              the wrong-key prover (certificate A, signs with a key whose public half is A's but whose private half is not)
 *              never completes; good credentials must complete and carry data both ways. */
#include "mx.h"
#include "c04_mint.h"
#include <openssl/ssl.h>
#include <openssl/err.h>
#include <openssl/rand.h>
#include <openssl/bn.h>
#include <openssl/ec.h>
#include <openssl/core_names.h>
#include <openssl/param_build.h>

typedef struct { const char *name; int ver; uint16_t suite; int leafType; int verifierIsServer; const char *ociph; } scn_t;
static const scn_t scns[] = {
    { "rsa-kx", MX_TLS12, 0x003c, CG_K_RSA2048, 0, "AES128-SHA256" }, { "ecdhe-rsa", MX_TLS12, 0xc02f, CG_K_RSA2048, 0, "ECDHE-RSA-AES128-GCM-SHA256" },
    { "ecdhe-ecdsa", MX_TLS12, 0xc02b, CG_K_P256, 0, "ECDHE-ECDSA-AES128-GCM-SHA256" },
    { "tls13-rsa", MX_TLS13, 0x1301, CG_K_RSA2048, 0, "TLS_AES_128_GCM_SHA256" }, { "tls13-ecdsa", MX_TLS13, 0x1302, CG_K_P256, 0, "TLS_AES_256_GCM_SHA384" },
    { "tls13-ed25519", MX_TLS13, 0x1303, CG_K_ED25519, 0, "TLS_CHACHA20_POLY1305_SHA256" },
    { "clientauth-rsa", MX_TLS12, 0x009c, CG_K_RSA2048, 1, "AES128-GCM-SHA256" }, { "clientauth-ecdsa", MX_TLS12, 0xc02b, CG_K_P256, 1, "ECDHE-ECDSA-AES128-GCM-SHA256" },
    { "clientauth-rsa", MX_TLS13, 0x1301, CG_K_RSA2048, 1, "TLS_AES_128_GCM_SHA256" }, { "clientauth-ecdsa", MX_TLS13, 0x1301, CG_K_P256, 1, "TLS_AES_128_GCM_SHA256" },
};
#define NSCN ((int) (sizeof scns / sizeof scns[0]))

/* OpenSSL draws its randomness from the case PRNG */
static vf_rng o_rng;
static int o_rand_bytes(unsigned char *b, int n) { vf_fill(&o_rng, b, (size_t) n); return 1; }
static int o_rand_status(void) { return 1; }
static int o_rand_seed(const void *b, int n) { (void) b; (void) n; return 1; }
static int o_rand_add(const void *b, int n, double e) { (void) b; (void) n; (void) e; return 1; }
static const RAND_METHOD o_rand_meth = { o_rand_seed, o_rand_bytes, NULL, o_rand_add, o_rand_bytes, o_rand_status };

typedef struct { SSL_CTX *ctx; SSL *ssl; BIO *rb, *wb; int done, failed, err; unsigned char got[256]; int gotlen; } ossl_t;
static void o_drive(ossl_t *o)
{
    if (o->failed) return;
    if (!o->done) { ERR_clear_error(); int r = SSL_do_handshake(o->ssl); if (r == 1) o->done = 1; else { int e = SSL_get_error(o->ssl, r); if (e != SSL_ERROR_WANT_READ && e != SSL_ERROR_WANT_WRITE) { o->failed = 1; o->err = e; } } }
    if (o->done) for (;;) { unsigned char b[512]; ERR_clear_error(); int r = SSL_read(o->ssl, b, sizeof b); if (r <= 0) { int e = SSL_get_error(o->ssl, r); if (e != SSL_ERROR_WANT_READ && e != SSL_ERROR_WANT_WRITE) { o->failed = 1; o->err = e; } break; }
        if (o->gotlen + r <= (int) sizeof o->got) { memcpy(o->got + o->gotlen, b, r); o->gotlen += r; } }
}
static void pump(mx_ep *M, ossl_t *O)
{
    static unsigned char buf[40000];
    for (int it = 0; it < 80; it++) {
        int moved = 0, n; o_drive(O);
        while ((n = BIO_read(O->wb, buf, sizeof buf)) > 0) { moved = 1; if (!M->dead) mx_feed(M, buf, n); }
        unsigned char *out; n = mx_take(M, &out); if (n > 0) { moved = 1; BIO_write(O->rb, out, n); } free(out);
        if (!moved) break;
    }
}

/* a private key object whose public half is `pub`'s and whose private half is `priv`'s: OpenSSL accepts it next to the certificate
 * (it compares public halves), every signature / decryption made with it is wrong - the prover that does not hold the leaf's key */
static EVP_PKEY *mismatched_key(const cg_key *pub, const cg_key *priv)
{
    if (cg_is_rsa(pub->type)) {
        BIGNUM *n = NULL, *e = NULL, *d = NULL; EVP_PKEY *out = NULL;
        if (!EVP_PKEY_get_bn_param(pub->pk, OSSL_PKEY_PARAM_RSA_N, &n) || !EVP_PKEY_get_bn_param(pub->pk, OSSL_PKEY_PARAM_RSA_E, &e) || !EVP_PKEY_get_bn_param(priv->pk, OSSL_PKEY_PARAM_RSA_D, &d)) return NULL;
        BN_CTX *bc = BN_CTX_new(); BN_mod(d, d, n, bc); BN_CTX_free(bc);
        OSSL_PARAM_BLD *bld = OSSL_PARAM_BLD_new(); OSSL_PARAM_BLD_push_BN(bld, OSSL_PKEY_PARAM_RSA_N, n); OSSL_PARAM_BLD_push_BN(bld, OSSL_PKEY_PARAM_RSA_E, e); OSSL_PARAM_BLD_push_BN(bld, OSSL_PKEY_PARAM_RSA_D, d);
        OSSL_PARAM *pr = OSSL_PARAM_BLD_to_param(bld); EVP_PKEY_CTX *px = EVP_PKEY_CTX_new_from_name(NULL, "RSA", NULL);
        if (EVP_PKEY_fromdata_init(px) <= 0 || EVP_PKEY_fromdata(px, &out, EVP_PKEY_KEYPAIR, pr) <= 0) out = NULL;
        EVP_PKEY_CTX_free(px); OSSL_PARAM_free(pr); OSSL_PARAM_BLD_free(bld); BN_free(n); BN_free(e); BN_clear_free(d);
        return out;
    }
    if (cg_is_ec(pub->type)) {
        const EC_KEY *kp = EVP_PKEY_get0_EC_KEY(pub->pk), *ks = EVP_PKEY_get0_EC_KEY(priv->pk); if (!kp || !ks) return NULL;
        EC_KEY *k = EC_KEY_new(); EVP_PKEY *out = EVP_PKEY_new();
        if (!EC_KEY_set_group(k, EC_KEY_get0_group(kp)) || !EC_KEY_set_private_key(k, EC_KEY_get0_private_key(ks)) || !EC_KEY_set_public_key(k, EC_KEY_get0_public_key(kp)) || !EVP_PKEY_assign_EC_KEY(out, k)) { EVP_PKEY_free(out); return NULL; }
        return out;
    }
    return NULL;   /* Ed25519: the public half is a function of the private one */
}

typedef struct { const scn_t *s; int label, cb, viaInt; } case_t;
static char cur_desc[240];
static void report(const case_t *c, const char *clause, const char *fmt, ...)
{
    char key[240], msg[700]; va_list ap; va_start(ap, fmt); vsnprintf(msg, sizeof msg, fmt, ap); va_end(ap);
    snprintf(key, sizeof key, "c04:%s:%s:%s:%s%s:%s:openssl-prover", clause, mx_vername[c->s->ver], c->s->verifierIsServer ? "server-verifies-client" : "client-verifies-server", lname[c->label], c->viaInt ? "+intermediate-sent" : "", cbname[c->cb]);
    vf_violation(key, cur_desc, "%s | scenario=%s suite=%04x", msg, c->s->name, c->s->suite);
}

static void run_case(void *a_)
{
    case_t *c = a_; const scn_t *s = c->s; mint_t m; ossl_t O; memset(&O, 0, sizeof O);
    vf_rng_init(&o_rng, vf_seed, vf_hash(cur_desc, strlen(cur_desc))); RAND_set_rand_method(&o_rand_meth);
    int mr = mint_der(s->leafType, s->verifierIsServer, c->label, c->viaInt, &m);
    if (mr > 0) { vf_statf(1, "o_not_expressible_%s", lname[c->label]); return; }
    EVP_PKEY *pkey = NULL;
    if (mr == 0 && m.proverKey != m.leafKey && !(pkey = mismatched_key(m.leafKey, m.proverKey))) { vf_statf(1, "o_not_expressible_%s_%s", lname[c->label], cg_ktname[s->leafType]); mint_free(&m); return; }
    vf_stat("cases", 1); vf_stat("openssl_prover_cases", 1);
    if (mr < 0) { vf_incon("openssl-prover: minting credentials failed (%s %s)", s->name, lname[c->label]); return; }
    int verdict = label_verdict(c->label);

    /* ---- the prover: OpenSSL with the minted chain, as given ---- */
    O.ctx = SSL_CTX_new(s->verifierIsServer ? TLS_client_method() : TLS_server_method());
    int ov = s->ver == MX_TLS13 ? TLS1_3_VERSION : TLS1_2_VERSION; int ok = O.ctx != NULL;
    if (ok) {
        SSL_CTX_set_security_level(O.ctx, 0); SSL_CTX_set_min_proto_version(O.ctx, ov); SSL_CTX_set_max_proto_version(O.ctx, ov);
        SSL_CTX_set_mode(O.ctx, SSL_MODE_NO_AUTO_CHAIN); SSL_CTX_set_options(O.ctx, SSL_OP_LEGACY_SERVER_CONNECT | SSL_OP_NO_TICKET); SSL_CTX_set_verify(O.ctx, SSL_VERIFY_NONE, NULL);
        SSL_CTX_set_session_cache_mode(O.ctx, SSL_SESS_CACHE_OFF);
        if (s->ver == MX_TLS13) ok = SSL_CTX_set_ciphersuites(O.ctx, s->ociph) == 1; else ok = SSL_CTX_set_cipher_list(O.ctx, s->ociph) == 1;
    }
    for (int i = 0; ok && i < m.nchain; i++) {
        const unsigned char *p = m.chain[i].der; X509 *x = d2i_X509(NULL, &p, m.chain[i].len);
        if (!x) { ok = 0; vf_statf(1, "o_prover_cannot_parse_%s", lname[c->label]); break; }
        if (i == 0) { ok = SSL_CTX_use_certificate(O.ctx, x) == 1; X509_free(x); } else ok = SSL_CTX_add_extra_chain_cert(O.ctx, x) == 1;   /* extra chain certificates are owned by the context */
    }
    if (ok) {
        if (m.proverKey == m.leafKey) ok = SSL_CTX_use_PrivateKey(O.ctx, m.leafKey->pk) == 1;
        else ok = SSL_CTX_use_PrivateKey(O.ctx, pkey) == 1;
    }
    if (ok) { O.ssl = SSL_new(O.ctx); O.rb = BIO_new(BIO_s_mem()); O.wb = BIO_new(BIO_s_mem()); ok = O.ssl && O.rb && O.wb; }
    if (!ok) { unsigned long e = ERR_peek_last_error(); char eb[160]; ERR_error_string_n(e, eb, sizeof eb);
        if (verdict == V_GOOD) vf_violation("c04:harness:openssl-prover-setup-failed", cur_desc, "OpenSSL could not be set up with good credentials: %s", eb); else vf_incon("openssl-prover: setup failed for %s: %s", cur_desc, eb);
        goto out; }
    BIO_set_mem_eof_return(O.rb, -1); BIO_set_mem_eof_return(O.wb, -1); SSL_set_bio(O.ssl, O.rb, O.wb);
    if (s->verifierIsServer) SSL_set_connect_state(O.ssl); else SSL_set_accept_state(O.ssl);

    /* ---- the verifier: MatrixSSL, trusting exactly the minted anchor ---- */
    {
        sslKeys_t *vk = NULL; int rc = 0; mx_ep V; memset(&V, 0, sizeof V); sslSessOpts_t o; sslSessionId_t *sid = NULL;
        const char *ownCert = s->leafType == CG_K_RSA2048 ? MX_TK "RSA/2048_RSA.pem" : MX_TK "EC/256_EC.pem", *ownKey = s->leafType == CG_K_RSA2048 ? MX_TK "RSA/2048_RSA_KEY.pem" : MX_TK "EC/256_EC_KEY.pem";
        char *caPem = cg_pem("CERTIFICATE", m.anchor.der, m.anchor.len);
        MX_ENTER(); matrixSslNewKeys(&vk, NULL);
        if (s->verifierIsServer) rc = matrixSslLoadKeys(vk, ownCert, ownKey, NULL, NULL, NULL);        /* server identity from the sample credentials */
        if (rc >= 0 && c->label != L_NO_TRUST) rc = matrixSslLoadKeysMem(vk, NULL, 0, NULL, 0, (unsigned char *) caPem, (int32) strlen(caPem), NULL);
        MX_LEAVE(); free(caPem);
        if (rc < 0) { vf_incon("openssl-prover: verifier key set failed to load rc=%d (%s)", rc, cur_desc); MX_ENTER(); matrixSslDeleteKeys(vk); MX_LEAVE(); goto out; }
        mx_cfg cfg = { .ver = s->ver, .suite = s->suite, .clientAuth = s->verifierIsServer, .expectedName = m.expected };
        sslCertCb_t vcb = cb_fn(c->cb);
        cb_reset();
        V.ver = s->ver; V.wantTake = 1;
        if (s->verifierIsServer) { mx_opts(&o, &cfg, MX_SERVER); V.role = MX_SERVER; V.id = 1; V.name = "S"; mx_actor = 1; MX_ENTER(); rc = matrixSslNewServerSession(&V.ssl, vk, vcb, &o); MX_LEAVE(); }
        else { mx_opts(&o, &cfg, MX_CLIENT); V.role = MX_CLIENT; V.id = 0; V.name = "C"; psCipher16_t cs[1] = { s->suite }; matrixSslNewSessionId(&sid, NULL);
               mx_actor = 0; MX_ENTER(); rc = matrixSslNewClientSession(&V.ssl, vk, sid, cs, 1, vcb, cfg.expectedName, NULL, NULL, &o); MX_LEAVE(); }
        if (rc < 0) { vf_incon("openssl-prover: verifier session rc=%d (%s)", rc, cur_desc); MX_ENTER(); matrixSslDeleteKeys(vk); MX_LEAVE(); goto out; }
        pump(&V, &O);
        int vdone = V.hsDone || matrixSslHandshakeIsComplete(V.ssl), alert = V.ssl->err;
        int both = vdone && !V.dead && O.done && !O.failed, data = 0;
        if (both) {   /* data both ways */
            unsigned char p[64], q[64]; mx_payload(p, 64, 0x0c04, 0, 3); mx_payload(q, 64, 0x0c04, 1, 4); mx_send(&V, p, 64); pump(&V, &O);
            if (O.gotlen == 64 && !memcmp(O.got, p, 64) && SSL_write(O.ssl, q, 64) == 64) { pump(&V, &O); data = V.gotlen == 64 && !memcmp(V.got, q, 64); }
        }
        if (vf_verbose) fprintf(stderr, "c04-ossl %s: chain=%d verifier done=%d dead=%d alert=%d cb calls=%d nonzero=%d last=%d chainlen-seen=%d | openssl done=%d failed=%d err=%d | data=%d\n", cur_desc, m.nchain, vdone, V.dead, alert, cb_calls, cb_nonzero, cb_last, cb_chainlen, O.done, O.failed, O.err, data);
        vf_distinct("ossl|%s|%s|%d|%s|%s|%d", mx_vername[s->ver], s->name, s->verifierIsServer, lname[c->label], cbname[c->cb], c->viaInt);
        vf_statf(1, "o_outcome_%s_%s", lname[c->label], vdone ? "complete" : "refused");
        if (!vdone) vf_statf(1, "o_alert_%s_%d", lname[c->label], alert);
        if (cb_calls) vf_stat(cb_chainlen == m.nchain ? "o_callback_saw_whole_chain" : "o_callback_saw_other_chain_length", 1);
        if (CB_REFUSES(c->cb)) vf_statf(1, "o_cbresult_%s_%s_%s", mx_vername[s->ver], cbname[c->cb] + 9, vdone ? "COMPLETE" : alert == SSL_ALERT_INTERNAL_ERROR ? "internal_error" : alert == SSL_ALERT_ACCESS_DENIED ? "that-alert" : cb_calls ? "other-alert" : "not-asked");
        if (CB_REFUSES(c->cb) && verdict != V_POP) {
            if (vdone) report(c, "completed-although-callback-refused", "verifier completed although its certificate callback (%s) refused: called %d times, last alert shown %d; sslCertCb_t: < 0 is a fatal internal error, > 0 is the alert to send", cbname[c->cb], cb_calls, cb_last);
            else vf_stat("o_refused_as_required", 1);
        } else if (verdict == V_GOOD) {
            if (!both) report(c, "good-credentials-refused", "handshake with a correct chain and key did not complete (verifier complete=%d alert %d, callback calls %d last alert %d; OpenSSL complete=%d error %d)", vdone, alert, cb_calls, cb_last, O.done, O.err);
            else if (!data) report(c, "good-credentials-refused", "no data after completion");
            else vf_stat("o_positive_controls_ok", 1);
        } else if (vdone) {
            if (verdict == V_POP) report(c, "completed-without-proof-of-possession", "verifier completed although the peer signs / decrypts with a private key that is not the certificate's (OpenSSL complete=%d)", O.done);
            else if (verdict == V_EITHER) { vf_stat("o_unordered_chain_accepted", 1); if (c->cb != CB_NONE && cb_nonzero) vf_stat("o_unordered_chain_accepted_by_override", 1); }
            else if (c->cb != CB_PERMISSIVE && c->cb != CB_ANON) report(c, "completed-despite-validation-failure", "verifier completed (callback calls %d, non-zero alerts %d, last %d; %d certificates presented)", cb_calls, cb_nonzero, cb_last, m.nchain);
            else if (cb_nonzero == 0) report(c, "failure-not-shown-to-callback", "verifier completed with a %s that was never shown a non-zero alert (calls %d, %d certificates presented)", cbname[c->cb], cb_calls, m.nchain);
            else vf_stat("o_application_override_honoured", 1);
        } else {
            if (verdict == V_EITHER) vf_stat("o_unordered_chain_refused", 1);
            else { if (c->cb != CB_NONE && verdict != V_POP && c->label != L_WRONG_NAME && cb_calls == 0) vf_stat("o_refused_before_callback", 1); vf_stat("o_refused_as_required", 1); }
        }
        mx_ep_free(&V); if (sid) matrixSslDeleteSessionId(sid); MX_ENTER(); matrixSslDeleteKeys(vk); MX_LEAVE();
    }
out:
    if (O.ssl) SSL_free(O.ssl); if (O.ctx) SSL_CTX_free(O.ctx); if (pkey) EVP_PKEY_free(pkey);
    mint_free(&m);
}

int main(int argc, char **argv)
{
    vf_init(argc, argv);
    if (vf_case && strncmp(vf_case, "ossl ", 5)) return 0;                      /* a replay of another stage's case */
    mx_global_init();
    /* key pool before fork()ing so that all children share it */
    for (int t = 0; t < 3; t++) for (int i = 0; i < 6; i++) if (!cg_key_get(t == 0 ? CG_K_RSA2048 : t == 1 ? CG_K_P256 : CG_K_ED25519, i)) { fprintf(stderr, "HARNESS: keygen failed\n"); return 2; }
    long idx = 0;
    for (int si = 0; si < NSCN; si++) for (int l = 0; l < L_NALL; l++) for (int cb = 0; cb < CB_NALL; cb++) for (int via = 0; via < 2; via++) {
        /* callback results outside the ordinary modes (refusing values; SSL_ALLOW_ANON_CONNECTION from a client): a few labels in the quick tier, all in thorough */
        if ((CB_REFUSES(cb) || (cb == CB_ANON && !scns[si].verifierIsServer)) && (via || (!vf_thorough && l != L_GOOD && l != L_UNTRUSTED && l != L_EXPIRED_LEAF && l != L_UNTRUSTED_SS_NOKU_1990))) continue;
        if (scns[si].verifierIsServer && (l == L_WRONG_NAME || cb == CB_NONE)) continue;   /* a server asks for a client certificate by registering a callback */
        if (via && !label_allows_via(l)) continue;
        if (!vf_mine(idx++)) continue;
        case_t c = { &scns[si], l, cb, via };
        snprintf(cur_desc, sizeof cur_desc, "ossl scn=%d(%s/%s/%s) label=%s cb=%s via=%d", si, mx_vername[scns[si].ver], scns[si].name, scns[si].verifierIsServer ? "server-verifies" : "client-verifies", lname[l], cbname[cb], via);
        if (vf_case && strcmp(vf_case, cur_desc)) continue;
        if (idx % 131 == 0) vf_sample("%s", cur_desc);
        mx_entropy_seed(vf_seed * 47 + idx);
        vf_fork_case(run_case, &c, "c04", cur_desc, 120);
    }
    matrixSslClose(); vf_flush();
    return 0;
}
