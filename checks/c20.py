"""C20 - concurrent sessions sharing keys and caches are race-free and serializable.

Driver: R independent process runs of checks/c20_threads.c (TSan build), each N worker threads x K operations
plus a ticket-key rotator thread and a CRL-cache churn thread.  Oracles:
  (1) ThreadSanitizer reports (data race, lock-order inversion, mutex misuse, ...), keyed
      tsan:<kind>:<funcA>|<funcB> by the unordered pair of innermost library functions of the two stacks;
  (2) every handshake with valid credentials completes, delivered == sent;
  (3) every resumption / refused resumption is explainable sequentially, per credential;
  (4) the run finishes: a progress watchdog (process CPU time stands still for 20 s) or a generous wall-clock
      deadline -> `gdb -batch -ex "thread apply all bt"` -> c20:deadlock at once when every worker waits in
      psLockMutex, otherwise re-run once and c20:deadlock only if the watchdog fires again (else inconclusive).
The history (one JSONL record per operation, call/return stamps from one global counter) is checked here.

Notes:
  * TSAN_OPTIONS uses history_size=7 (not 4): with 4 roughly every third report loses its second stack
    ("failed to restore the stack"), which makes the function-pair key unstable.  Reports that still lose it are
    folded into a complete report on the same function when one exists.
  * vflib.tsan_reports() expects clang's frame format ("#0 0x.. in fn file"); gcc's libtsan prints
    "#0 fn file:line (module+0x..)" and compiles crypto/ and core/ with relative paths, so the same key format
    (tsan:<kind>:<fnA>|<fnB>) is produced by tsan_keys() below.
  * A thorough run additionally drives the same workload under valgrind --tool=helgrind (prod build, 20 short
    runs); those reports are keyed helgrind:<kind>:<fnA>|<fnB>.
  * --replay: "seed=<n>,threads=<t>,ops=<k>[,empty=1]" is re-run 12 times (races vary from run to run).
  * One run in ten (quick) lets the rotator delete ALL ticket keys now and then ("--empty 1"): legal API use that
    switches ticket support off and on while handshakes are in flight.
  * Every ECDHE client offers exactly one curve (P-256 / P-384 / P-521, fixed per thread and logical client, never the
    same for neighbours), so handshakes of different clients keep regenerating the shared ephemeral-key cache of the
    server sslKeys_t while other sessions copy from it (seeded regression C20a).
  * CRL issuer class 2 ("pinned", CA + server certificate minted in make_pinned) is only ever refreshed with
    psCRL_Update(crl, 1) by CRLs that all revoke that certificate; workers query its status (revq) and run handshakes
    against a server presenting it (revhs).  After the first refresh returned, any answer but REVOKED_AND_AUTHENTICATED /
    any completed handshake is c20:crl-status-not-serializable:<query|handshake-with-revoked-certificate>: no order of
    refreshes and validations explains it, and there is no data race for TSan to see (seeded regression C20b).
  * The shared server key set has a session-ticket callback (matrixSslSetSessionTicketCallback).  The library releases
    g_sessTicketLock around it; the harness callback records (key name, cached flag), lingers there, and the rotator aims
    its deletes (+ immediate load of a new key) at the key a resumption inside the callback was told is cached, retrying a
    refused delete while anybody is still inside.  Rules: cached=1 => the resumption must happen
    (c20:ticket-callback-approved-but-not-resumed); cached=0 => it must not; a delete of a live key may fail only while
    a resumption that was told "cached" overlaps it (seeded regression C20c, and the in-use FLAG-not-count defect).
  * VERIF_C20_RUNS=<n> (development aid) truncates the run plan."""
import glob, hashlib, json, os, re, shutil, subprocess, sys, time
import vflib

PID = "C20"
TABLE = 32  # SSL_SESSION_TABLE_SIZE of the default configuration

# ------------------------------------------------------------------------------------------ run plans
def plan(tier):
    """(threads, operations per thread, empty) per run; empty=1: the rotator now and then deletes ALL ticket keys"""
    if tier == "quick":      # 40 runs, seed-stable shape
        p = [(16, 50)] * 6 + [(8, 50)] * 12 + [(4, 80)] * 12 + [(2, 120)] * 10
        return [(t, k, 1 if i % 10 == 9 else 0) for i, (t, k) in enumerate(p)]
    cyc = [(16, 50), (8, 50), (4, 100), (2, 200), (8, 50), (6, 60), (3, 100), (4, 50), (4, 60), (2, 300), (12, 50), (5, 80)]
    return [cyc[i % len(cyc)] + (1 if i % 12 in (5, 8) and (i // 12) % 2 == 0 else 0,) for i in range(1008)]


def derive(seed, i):
    return int(hashlib.sha256(("c20:%d:%d" % (seed, i)).encode()).hexdigest()[:12], 16)


# ------------------------------------------------------------------------------------------ CRLs
def make_crls(outdir, keydir):
    """Mint CRLs of the sample CAs with the openssl CLI (offline).  Returns the --crl argument
    ("<issuer class>:<path>,...") or None when openssl is unavailable."""
    d = os.path.join(outdir, "crl")
    os.makedirs(os.path.join(d, "ca"), exist_ok=True)
    cnf = os.path.join(d, "ca.cnf")
    open(cnf, "w").write("[ca]\ndefault_ca=myca\n[myca]\ndatabase=%s/ca/index.txt\ncrlnumber=%s/ca/crlnumber\ndefault_md=sha256\n"
                         "default_crl_days=3650\ncrl_extensions=crl_ext\n[crl_ext]\nauthorityKeyIdentifier=keyid:always\n" % (d, d))
    open(os.path.join(d, "ca", "crlnumber"), "w").write("01\n")
    out = []
    specs = [("rsa1", 0, "RSA/2048_RSA_CA", ""),
             ("rsa2", 0, "RSA/2048_RSA_CA", "R\t360101000000Z\t260101000000Z\t7FEE0C20\tunknown\t/CN=c20-unrelated\n"),
             ("rsa3", 0, "RSA/2048_RSA_CA", "".join("R\t360101000000Z\t260101000000Z\t7FEE%04X\tunknown\t/CN=c20-unrelated-%d\n" % (i, i) for i in range(40))),
             ("ec1", 1, "EC/256_EC_CA", "")]
    for name, cls, ca, index in specs:
        open(os.path.join(d, "ca", "index.txt"), "w").write(index)
        pem, der = os.path.join(d, name + ".pem"), os.path.join(d, name + ".der")
        try:
            p = subprocess.run(["openssl", "ca", "-config", cnf, "-gencrl", "-cert", "%s/%s.pem" % (keydir, ca),
                                "-keyfile", "%s/%s_KEY.pem" % (keydir, ca), "-out", pem], capture_output=True, text=True)
            if p.returncode == 0:
                p = subprocess.run(["openssl", "crl", "-in", pem, "-outform", "der", "-out", der], capture_output=True, text=True)
        except OSError:
            return None
        if p.returncode == 0 and os.path.getsize(der) > 0:
            out.append("%d:%s" % (cls, der))
    pin = make_pinned(d, cnf)
    if pin:
        out += pin
    return ",".join(out) if out else None


PIN_SERIAL = "5EED01"


def make_pinned(d, cnf):
    """Issuer class 2 ("pinned"): a CA with cRLSign minted here (of the sample CAs only the RSA-2048 one may sign CRLs, and
    that issuer is the churned class 0), a server certificate with serial PIN_SERIAL issued by it, and two CRLs that both
    revoke that serial.  Files pinca.pem / pinleaf.pem / pinleaf.key land in d (passed to the harness as --pin d)."""
    def sh(*cmd):
        p = subprocess.run(list(cmd), capture_output=True, text=True)
        if p.returncode:
            raise OSError(p.stderr[-400:])
    ext = os.path.join(d, "pin.ext")
    open(ext, "w").write("[ca]\nbasicConstraints=critical,CA:TRUE\nkeyUsage=critical,keyCertSign,cRLSign\nsubjectKeyIdentifier=hash\n"
                         "[leaf]\nbasicConstraints=CA:FALSE\nkeyUsage=critical,digitalSignature,keyEncipherment\nextendedKeyUsage=serverAuth\n"
                         "subjectKeyIdentifier=hash\nauthorityKeyIdentifier=keyid\n[req]\ndistinguished_name=dn\n[dn]\n")
    J = lambda f: os.path.join(d, f)
    try:
        sh("openssl", "genrsa", "-traditional", "-out", J("pinca.key"), "2048")
        sh("openssl", "req", "-new", "-x509", "-config", ext, "-extensions", "ca", "-key", J("pinca.key"), "-sha256", "-days", "3650",
           "-subj", "/C=FI/O=C20 check/CN=C20 pinned CRL issuer", "-out", J("pinca.pem"))
        sh("openssl", "genrsa", "-traditional", "-out", J("pinleaf.key"), "2048")
        sh("openssl", "req", "-new", "-config", ext, "-key", J("pinleaf.key"), "-subj", "/C=FI/O=C20 check/CN=localhost", "-out", J("pinleaf.csr"))
        sh("openssl", "x509", "-req", "-in", J("pinleaf.csr"), "-CA", J("pinca.pem"), "-CAkey", J("pinca.key"), "-set_serial", "0x" + PIN_SERIAL,
           "-sha256", "-days", "3650", "-extfile", ext, "-extensions", "leaf", "-out", J("pinleaf.pem"))
        out = []
        rev = "R\t360101000000Z\t260101000000Z\t%s\tunknown\t/CN=c20-revoked\n" % PIN_SERIAL
        fill = lambda tag, n: "".join("R\t360101000000Z\t260101000000Z\t7F%s%04X\tunknown\t/CN=c20-filler-%d\n" % (tag, i, i) for i in range(n))
        for name, index in (("pin1", rev + fill("AA", 250)), ("pin2", fill("BB", 500) + rev)):
            open(os.path.join(d, "ca", "index.txt"), "w").write(index)
            sh("openssl", "ca", "-config", cnf, "-gencrl", "-cert", J("pinca.pem"), "-keyfile", J("pinca.key"), "-out", J(name + ".pem"))
            sh("openssl", "crl", "-in", J(name + ".pem"), "-outform", "der", "-out", J(name + ".der"))
            out.append("2:" + J(name + ".der"))
        return out
    except OSError as e:
        vflib.log("[C20] could not mint the pinned CRL class: %s" % e)
        return None


# ------------------------------------------------------------------------------------------ TSan / helgrind logs
FRAME_GCC = re.compile(r"^\s*#(\d+) (\S+) (\S+?)(?::(\d+))?(?::\d+)? \((?:\S+\+0x[0-9a-f]+|BuildId[^)]*)\)")
FRAME_LLVM = re.compile(r"^\s*#(\d+) 0x[0-9a-f]+ in (\S+) (\S+?)(?::(\d+))?(?::\d+)?(?: \(.*\))?$")
INTERCEPT = {"malloc", "free", "calloc", "realloc", "memcpy", "memset", "memcmp", "memmove", "strlen", "read", "write", "pthread_mutex_lock",
             "pthread_mutex_unlock", "pthread_mutex_destroy", "pthread_mutex_init", "__interceptor_memcpy", "__tsan_memcpy", "__tsan_memset",
             "psFreeNoPool", "psMallocNoPool", "psFree", "psMalloc", "psCalloc", "psFreeAndClear", "Memcpy", "Memset", "Memcmp", "memzero_s", "memcmpct"}


def _frame(ln):
    m = FRAME_GCC.match(ln) or FRAME_LLVM.match(ln)
    if not m:
        return None
    return (m.group(2), m.group(3), m.group(4) or "?")


def _is_harness(path):
    return "/verif/checks/" in path or "/verif/harness/" in path or path.startswith("checks/")


def _inner(frames):
    """innermost library function of a stack ('?' when the stack could not be restored)"""
    if not frames:
        return "?"
    for fn, path, line in frames:
        if "libsanitizer" in path or "sanitizer_common" in path or fn in INTERCEPT or path.startswith("<null>") or _is_harness(path):
            continue
        return fn
    for fn, path, line in frames:
        if _is_harness(path):
            return "harness:" + fn
    return frames[0][0]


def tsan_parse(text):
    """-> list of (kind, [stack0, stack1], block) with stacks = list of (func, path, line)"""
    out = []
    for blk in re.split(r"={18}\n", text):
        m = vflib.TSAN_RE.search(blk)
        if not m:
            continue
        kind = m.group(1).strip().replace(" ", "-")
        sections, cur = [], None
        for ln in blk.split("\n"):
            f = _frame(ln)
            if f is not None:
                if cur is not None:
                    cur[1].append(f)
                continue
            s = ln.strip()
            if "[failed to restore the stack]" in s:
                continue
            if s.endswith(":") and ln.startswith("  ") and not s.startswith("SUMMARY"):
                cur = [s, []]
                sections.append(cur)
            elif not s:
                cur = None
        acc = [sec for sec in sections if not re.match(r"(Location|Mutex M\d+ \(|Thread T\d+|As if)", sec[0])]
        if kind == "lock-order-inversion-(potential-deadlock)":
            kind = "lock-order-inversion"
        out.append((kind, [sec[1] for sec in acc[:2]], blk))
    return out


def tsan_keys(text):
    """-> list of (key, excerpt, complete?)."""
    res = []
    for kind, stacks, blk in tsan_parse(text):
        while len(stacks) < 2:
            stacks.append([])
        fns = sorted(_inner(s) for s in stacks[:2])
        exc = []
        for ln in blk.split("\n"):
            if re.match(r"\s+(Location is|Mutex M\d+ \(|Thread T\d+ \()", ln):
                break
            exc.append(ln)
        res.append(("tsan:%s:%s" % (kind, "|".join(fns)), "\n".join(exc)[:3500], "?" not in fns))
    return res


def helgrind_keys(text):
    """Helgrind (--history-level=full): one block per report between dashed separators; the first stack is the
    access, the second ('This conflicts with a previous ...') the conflicting one."""
    res = []
    for b in re.split(r"==\d+== -{60,}\n", text):
        m = re.search(r"==\d+== (Possible data race|Thread #\d+: lock order|Thread #\d+ unlocked|Thread #\d+: Exiting thread still holds|Thread #\d+'s call to pthread_mutex_\w+ failed|Thread #\d+: Attempt to re-lock)", b)
        if not m:
            continue
        kind = "data-race" if "data race" in m.group(1) else "lock-order" if "lock order" in m.group(1) else "mutex-misuse"
        stacks, cur, keep = [], None, False
        for ln in b.split("\n"):
            mm = re.match(r"==\d+==\s+(?:at|by) 0x[0-9A-F]+: (\S+) \((?:in )?([^):]+)(?::(\d+))?\)", ln)
            if mm:
                if cur is not None:
                    cur.append((mm.group(1), mm.group(2), mm.group(3) or "?"))
                continue
            if re.search(r"Lock at 0x[0-9A-F]+ was first observed|Address 0x[0-9a-f]+ is|Block was alloc|Required order was established|followed by a later acquisition|was created|root thread", ln):
                cur = None      # stacks that describe locks / allocation sites, not accesses
            elif re.search(r"== (Possible data race|This conflicts with|Thread #\d+:|Thread #\d+ unlocked|Thread #\d+'s call)", ln):
                cur = []
                stacks.append(cur)
        stacks = [st for st in stacks if st]
        if kind == "data-race" and len(stacks) >= 2 and all("c20_threads.c" in st[0][1] for st in stacks[:2]):
            # both accesses are made by the harness itself: its relaxed-atomic pacing variables (g_tcb_serial, g_in_gap, ...),
            # plain loads/stores that helgrind cannot tell from unsynchronised ones.  Not library state.
            continue

        def inner(st):
            for fn, path, line in st:
                if fn in INTERCEPT or fn == "???" or "vgpreload" in path or "c20_threads.c" in path or fn.startswith(("mutex_lock_WRK", "pthread_")) or fn in ("psLockMutex", "psUnlockMutex"):
                    continue
                return fn
            return st[0][0] if st else "?"
        while len(stacks) < 2:
            stacks.append([])
        fns = sorted(inner(s) for s in stacks[:2])
        res.append(("helgrind:%s:%s" % (kind, "|".join(fns)), b[:3500]))
    return res


# ------------------------------------------------------------------------------------------ history checker
ECDHE = {0xc02f, 0xc027, 0xc030, 0xc02b, 0xc023, 0xc013, 0xc014, 0xc009, 0x1301, 0x1302, 0x1303}
CRLSUB = ["update", "update-auth", "insert", "delete", "delete-all", "query", "refresh-pinned"]


PRIMARY = {"id12": "id", "id11": "id", "tk12": "tk", "psk13": "psk"}


def cred_of(o, pre):
    """the logical client's primary credential before ('off') / after ('iss') the operation"""
    f = PRIMARY[o["lt"]]
    return f, o[pre + "_" + f]


def eff(o):
    """The credential the server could act on = what the client really put into its ClientHello ('wire' bits).
    A ticket overrides a session id.  A ticket client also holds a plain session id when a server without
    ticket keys answered it."""
    f = PRIMARY[o["lt"]]
    if (o["wire"] & 1) and o["off_" + f] != "0":
        return f, o["off_" + f]
    if o["lt"] == "tk12" and (o["wire"] & 2) and o["off_id"] != "0":
        return "id", o["off_id"]
    return None


def kind_of(o):
    k = o["k"]
    if k == "hs":
        sh = "+shared" if o["lc"] >= 4 else ""     # credential borrowed from another thread's logical client
        if o["mode"] != "normal":
            return "hs:%s:%s%s" % (o["lt"], o["mode"], sh)
        if o["res"]:
            e = eff(o)
            return "hs:%s:resumed%s%s" % (o["lt"], "-by-id" if e and e[0] == "id" and o["lt"] == "tk12" else "", sh)
        if eff(o):
            return "hs:%s:fallback-full" % o["lt"]
        if any(o["off_" + f] != "0" for f in ("id", "tk", "psk")):
            return "hs:%s:full-not-offered" % o["lt"]
        return "hs:%s:full:%s%s" % (o["lt"], ("ecdhe-p%d" % o["curve"] if o.get("curve") else "ecdhe") if o["suite"] in ECDHE else "rsa", "+cauth" if o["cauth"] else "")
    if k == "tkdel":
        return "tkdel" if o["rc"] == 0 else "tkdel:miss"
    if k == "crl":
        return "crl:" + CRLSUB[o["sub"] & 0x7f] if (o["sub"] & 0x7f) < len(CRLSUB) else "crl:?"
    return k


def brief(o):
    s = "T%d[%d,%d] %s" % (o["th"], o["c"], o["r"], kind_of(o))
    if o["k"] == "hs":
        f, c = eff(o) or (PRIMARY[o["lt"]] + "(held)", o["off_" + PRIMARY[o["lt"]]])
        f2, c2 = cred_of(o, "iss")
        s += " lc=%d suite=%04x offered=%s:%s key=%s done=%d res=%d data_ok=%d srv_ms=%s issued=%s:%s" % (
            o["lc"], o["suite"], f, c[:8], bytes.fromhex(o["off_key"])[:10].decode("latin1") if o["off_key"] else "-", o["done"], o["res"], o["data_ok"],
            o["srv_ms"][:8], f2, c2[:8])
    elif o["k"] in ("tkadd", "tkdel"):
        s += " name=%s rc=%d" % (bytes.fromhex(o["name"])[:10].decode("latin1"), o["rc"])
    elif "rc" in o:
        s += " rc=%d" % o["rc"]
    return s


class History:
    def __init__(self, path):
        self.run, self.ops, self.other, self.ended = None, [], [], False
        if not os.path.exists(path):
            return
        for ln in open(path, errors="replace"):
            ln = ln.strip()
            if not ln:
                continue
            try:
                r = json.loads(ln)
            except Exception:
                self.other.append({"t": "incon", "msg": "unparsable record: " + ln[:200]})
                continue
            t = r.get("t")
            if t == "op":
                self.ops.append(r)
            elif t == "run":
                self.run = r
            elif t == "end":
                self.ended = True
            else:
                self.other.append(r)


def check_history(h, res, replay, pairs, samples):
    """Applies oracles (2) and (3) to one run; returns number of overlapping op pairs seen."""
    ops = sorted(h.ops, key=lambda o: o["c"])
    nworkers = h.run["threads"]
    V = lambda key, msg: res.add_violation(key, msg + "  [run " + replay + "]", replay)
    st = res.add_stat

    # ---- overlap statistics (different threads, intervals intersect)
    active, noverlap = [], 0
    for o in ops:
        active = [a for a in active if a["r"] > o["c"]]
        ko = kind_of(o)
        for a in active:
            if a["th"] != o["th"]:
                noverlap += 1
                ka = kind_of(a)
                pairs.add((ko, ka) if ko <= ka else (ka, ko))
        active.append(o)
    st("overlapping_op_pairs", noverlap)

    hs = [o for o in ops if o["k"] == "hs"]
    dels = [o for o in ops if o["k"] == "tkdel" and o["rc"] == 0]
    del_by_name = {}
    for d in dels:
        del_by_name.setdefault(d["name"], []).append(d)
    del_ok_or_refused = {}
    for d in ops:
        if d["k"] == "tkdel" and d["expect"] == 0:
            del_ok_or_refused.setdefault(d["name"], []).append(d)
    approved = {}   # key name -> handshakes whose ticket callback was told "cached" (the key is pinned while they are inside)
    for o in hs:
        if o.get("tcb") and o["tcb_cached"]:
            approved.setdefault(o["tcb_key"], []).append(o)
    # issuers: first operation after which a client held the credential without having offered it
    issuer = {}
    for o in hs:
        for f in ("id", "tk", "psk"):
            c = o["iss_" + f]
            if c != "0" and o["off_" + f] != c and (f, c) not in issuer:
                issuer[(f, c)] = o
    invalid = {}
    for o in hs:
        if o["srv_err"] and o["srv_sid"] != "0":
            invalid.setdefault(o["srv_sid"], []).append(o)
    # every TLS <= 1.2 handshake may take or recycle a session-cache entry (ticket clients too while the server has no ticket keys)
    id_ops = [o for o in hs if o["lt"] != "psk13"] + [o for o in ops if o["k"] == "revhs"]
    uses = {}       # session id -> operations whose server session held that cache entry (any thread: credentials are also borrowed)
    for o in hs:
        if o["srv_sid"] != "0":
            uses.setdefault(("id", o["srv_sid"]), []).append(o)

    for o in hs:
        lt, mode = o["lt"], o["mode"]
        st("hs_ops", 1)
        st("hs_mode_" + mode, 1)
        e = eff(o)
        f, c = e if e else (PRIMARY[lt], "0")
        # ---- oracle 2
        if mode == "normal":
            if not o["done"]:
                V("c20:handshake-failed:%s:%s" % (lt, "with-" + f if c != "0" else "fresh"),
                  "handshake with valid credentials did not complete: " + brief(o) + " rc_c=%d rc_s=%d cli_alert=%d srv_alert=%d cb_alert=%d" % (
                      o["rc_c"], o["rc_s"], o["cli_alert"], o["srv_alert"], o["cb_alert"]))
                continue
            if not o["data_ok"]:
                V("c20:data-mismatch:" + lt, "delivered != sent: " + brief(o) + " sent_c=%d got_s=%d sent_s=%d got_c=%d" % (o["sent_c"], o["got_s"], o["sent_s"], o["got_c"]))
            if o["cb_alert"]:
                V("c20:cert-callback-alert:" + lt, "certificate callback saw alert %d although the credentials are valid: %s" % (o["cb_alert"], brief(o)))
            st("hs_completed", 1)
        elif mode in ("alert-hs", "alert-app"):
            if o["tampered"]:
                st("fatal_alerts_injected", 1)
                if not o["srv_err"] or (mode == "alert-app" and o["data_ok"]) or (mode == "alert-hs" and o["done"]):
                    V("c20:tampered-record-accepted:" + lt, "a damaged record did not put the server session into the error state: " + brief(o))
            if mode == "alert-app" and not o["done"]:
                V("c20:handshake-failed:%s:%s" % (lt, "with-" + f if c != "0" else "fresh"), "handshake (before the injected alert) did not complete: " + brief(o))
                continue
            if mode == "alert-hs":
                continue
        else:
            st("abandoned", 1)
            continue

        # ---- ticket callback (server key set has one registered): asked with cached=1 means the library found the key and pinned
        # it for this handshake before releasing the lock.  The only sequential reading is "lookup before any delete of that
        # key", so the resumption the callback approved must happen; asked with cached=0 it must not.
        if o.get("tcb"):
            st("ticket_callbacks", o["tcb"])
            if o["tcb_cached"] and not o["res"]:
                ds = [d for d in del_by_name.get(o["tcb_key"], []) if d["c"] < o["r"] and d["r"] > o["c"]]
                V("c20:ticket-callback-approved-but-not-resumed", "the ticket callback was told the key is cached and accepted it, yet the ticket was not honoured%s: %s" % (
                    "; overlapping delete of that key SUCCEEDED: " + brief(ds[0]) if ds else "", brief(o)))
            elif o["tcb_cached"]:
                st("ticket_callback_approved_and_resumed", 1)
                if any(d["c"] < o["r"] and d["r"] > o["c"] for d in del_ok_or_refused.get(o["tcb_key"], [])):
                    st("ticket_callback_overlapped_by_delete", 1)
            elif o["res"] and e and e[0] == "tk":
                V("c20:resumed-with-key-the-callback-declined", brief(o))
        # ---- oracle 3 (per credential)
        if o["res"]:
            st("resumptions_checked", 1)
            st("resumed_" + lt, 1)
            if e is None:
                V("c20:resumed-without-credential:" + lt, brief(o) + " wire=%d" % o["wire"])
                continue
            x = issuer.get((f, c))
            if x is None or x["c"] >= o["r"]:
                V("c20:resumed-unknown-credential:" + lt, "no operation that started before this one returned issued the credential: " + brief(o))
                continue
            want = x["iss_sec"] if lt == "psk13" else x["srv_ms"]
            if o["srv_ms"] != want or (lt != "psk13" and o["cli_ms"] != want) or want == "0":
                V("c20:resumed-secret-mismatch:" + lt, "resumed secret differs from the issuing session's: issuer " + brief(x) + " iss_sec=" + x["iss_sec"] + " | resumed " + brief(o) + " cli_ms=" + o["cli_ms"])
            if f == "id":
                for z in invalid.get(c, []):
                    if z["r"] < o["c"]:
                        V("c20:id-resumed-after-invalidation:" + lt, "session id was invalidated by " + brief(z) + " which returned before " + brief(o) + " started")
                        break
            else:
                for d in del_by_name.get(o["off_key"], []):
                    if d["r"] < o["c"]:
                        V("c20:%s-resumed-after-key-delete" % lt, "ticket key deleted by " + brief(d) + " which returned before " + brief(o) + " started")
                        break
            if o["lc"] >= 4:
                st("resumed_with_borrowed_credential", 1)
                if any(q is not o and q["th"] != o["th"] and q["c"] < o["r"] and q["r"] > o["c"] and q["res"] and eff(q) == (f, c) for q in hs):
                    st("same_credential_resumed_concurrently", 1)
            if len(samples) < 6 and (x["th"] == o["th"]) == (len(samples) % 2 == 0):
                mid = [q for q in ops if q["c"] < o["r"] and q["r"] > x["c"] and q["th"] != o["th"]][:3]
                samples.append("resumption explained: issuer {%s} ... overlapping {%s} ... resumed {%s}" % (brief(x), "; ".join(brief(q) for q in mid), brief(o)))
        elif e is None and any(o["off_" + g] != "0" for g in ("id", "tk", "psk")):
            st("credential_held_but_not_offered", 1)   # client-side choice (ticket state machine after an aborted handshake): nothing to explain
        elif e is not None:
            st("fallbacks_checked", 1)
            st("fallback_" + lt, 1)
            if f == "id" and lt == "tk12":
                # the id a ticket client holds may be the throw-away id of a ticket handshake (never cached): no must-resume claim
                st("fallback_tk12_session_id_unchecked", 1)
            elif f == "id":
                why = None
                if any(z["c"] < o["r"] for z in invalid.get(c, [])):
                    why = "invalidated"
                else:
                    # the entry went to the tail of the free list when its last user finished: window starts at that user's call
                    w0 = max([q["c"] for q in uses.get((f, c), []) if q is not o and q["c"] < o["c"]] or [0])
                    consumers = sum(1 for q in id_ops if q is not o and q["c"] < o["r"] and q["r"] > w0)
                    if consumers >= TABLE - nworkers - 1:
                        why = "evictable"
                if why is None:
                    V("c20:id-not-resumed:" + lt, "a cached session id was refused although nothing invalidated it and fewer than %d cache users ran since it was last used: %s" % (TABLE - nworkers - 1, brief(o)))
                else:
                    st("fallback_id_" + why, 1)
            else:
                ds = [d for d in del_by_name.get(o["off_key"], []) if d["c"] < o["r"]]
                if not ds:
                    V("c20:%s-not-resumed" % lt, "a ticket was refused although its key was never deleted before the handshake returned: " + brief(o))
                else:
                    st("fallback_ticket_key_deleted", 1)
                    if len(samples) < 8 and ds[0]["r"] > o["c"]:
                        samples.append("legal fallback (key deleted concurrently): {%s} overlaps {%s}" % (brief(ds[0]), brief(o)))
        else:
            st("full_handshakes", 1)

    # ---- other operations
    pins = [o["r"] for o in ops if o["k"] == "crl" and o["sub"] == 6 and o["rc"] == 1]
    pinned_since = min(pins) if pins else None
    seen = {}
    for o in ops:
        k = o["k"]
        if k == "prng":
            st("prng_draws", 1)
            if o["rc"] != o["expect"]:
                V("c20:prng-failed", brief(o))
            if o["h"] in seen:
                V("c20:prng-duplicate-output", "two draws returned identical bytes: " + brief(seen[o["h"]]) + " and " + brief(o))
            seen[o["h"]] = o
        elif k == "validate":
            st("validations", 1)
            if o["rc"] != 0:
                V("c20:validate-failed", "psX509AuthenticateCert of a valid chain against the shared CA list failed: " + brief(o))
        elif k in ("tkadd", "tkdel"):
            st("ticket_key_ops", 1)
            if k == "tkdel" and o["expect"] == 0 and o["rc"] == -1 and any(y["c"] < o["r"] and y["r"] > o["c"] for y in approved.get(o["name"], [])):
                st("ticket_key_delete_refused_key_in_use", 1)   # legal: a resumption that overlaps holds the key (inUse)
            elif o["rc"] != o["expect"]:
                V("c20:ticket-key-op-unexpected:" + k, "expected rc %d: %s" % (o["expect"], brief(o)))
        elif k == "crl":
            st("crl_ops", 1)
            sub = o["sub"]
            if sub & 0x80:
                V("c20:crl-parse-failed", brief(o))
                continue
            got = o["rc"]
            if sub == 5:
                got = 1 if o["rc"] in (7, 8) else 0 if o["rc"] in (5, 6) else -100 - o["rc"]
            if got != o["expect"]:
                V("c20:crl-op-unexpected:" + CRLSUB[sub], "expected %d: %s" % (o["expect"], brief(o)))
        elif k == "reset":
            st("credential_resets", 1)
        elif k == "revq":
            # the pinned issuer class is only ever refreshed (psCRL_Update) with CRLs that list the certificate: once the first
            # refresh has returned, "not revoked" / "no CRL" cannot be explained by any order of refreshes and queries
            st("revocation_queries", o["n"])
            if pinned_since is not None and o["c"] > pinned_since:
                st("revocation_queries_checked", o["n"])
                if o["bad"] or o["rc"] != 9:
                    V("c20:crl-status-not-serializable:query", "%d of %d psCRL_determineRevokedStatus answers for the revoked certificate were not REVOKED_AND_AUTHENTICATED "
                      "(first: %d) although a CRL listing it was cached before the operation started and is only ever replaced by psCRL_Update: %s" % (o["bad"], o["n"], o["rc"], brief(o)))
        elif k == "revhs":
            st("revoked_cert_handshakes", 1)
            if pinned_since is not None and o["c"] > pinned_since:
                st("revoked_cert_handshakes_checked", 1)
                if o["done"]:
                    V("c20:crl-status-not-serializable:handshake-with-revoked-certificate", "a handshake with a server certificate that every cached CRL of its issuer lists as revoked "
                      "completed: %s cb_alert=%d" % (brief(o), o["cb_alert"]))
                elif o["cb_alert"] == 44:
                    st("revoked_cert_handshakes_refused_as_revoked", 1)
    return noverlap


# ------------------------------------------------------------------------------------------ process runs
STALL_WINDOW, STALL_CPU = 20.0, 0.5     # seconds of wall clock, seconds of process CPU time


def proc_cpu(pid):
    try:
        f = open("/proc/%d/stat" % pid).read().rsplit(")", 1)[1].split()
        return (int(f[11]) + int(f[12])) / float(os.sysconf("SC_CLK_TCK"))
    except Exception:  # noqa
        return None


def gdb_stacks(pid):
    try:
        p = subprocess.run(["gdb", "-batch", "-ex", "thread apply all bt 40", "-p", str(pid)], capture_output=True, text=True, timeout=60)
        return (p.stdout or "")[-30000:]
    except Exception as e:  # noqa
        return "gdb failed: %r" % (e,)


class Run:
    def __init__(self, idx, seed, threads, ops, outdir, attempt=0, empty=0):
        self.idx, self.seed, self.threads, self.ops, self.attempt, self.empty = idx, seed, threads, ops, attempt, empty
        self.dir = os.path.join(outdir, "run%d%s" % (idx, "-retry" if attempt else ""))
        self.replay = "seed=%d,threads=%d,ops=%d" % (seed, threads, ops) + (",empty=1" if empty else "")
        self.proc = None
        self.stacks = None
        self.timed_out = False
        self.stalled = False
        self.cpu = []
        self.last_sample = 0.0

    def weight(self):
        return self.threads


def launch(run, binary, crlarg, keydir, tool, timeout):
    shutil.rmtree(run.dir, ignore_errors=True)
    os.makedirs(run.dir)
    env = dict(os.environ)
    env["TSAN_OPTIONS"] = "halt_on_error=0:log_path=%s/tsan:second_deadlock_stack=1:history_size=7" % run.dir
    cmd = [binary, "--seed", str(run.seed), "--threads", str(run.threads), "--ops", str(run.ops), "--out", os.path.join(run.dir, "out.jsonl"),
           "--keys", keydir]
    if crlarg:
        cmd += ["--crl", crlarg]
        if ",2:" in crlarg:
            cmd += ["--pin", os.path.dirname(crlarg.split(",2:")[1].split(",")[0])]
    if run.empty:
        cmd += ["--empty", "1"]
    if tool == "helgrind":
        cmd = ["valgrind", "--tool=helgrind", "--log-file=%s/helgrind.log" % run.dir, "--history-level=full", "-q"] + cmd
    run.err = open(os.path.join(run.dir, "stderr"), "w")
    run.t0 = time.time()
    run.deadline = run.t0 + timeout
    run.proc = subprocess.Popen(cmd, stdout=run.err, stderr=run.err, env=env, cwd=run.dir)


def execute(runs, binary, crlarg, keydir, tool, timeout_fn, capacity):
    """Runs all `runs`, several at a time so that the sum of worker threads stays <= capacity."""
    pending = sorted(runs, key=lambda r: -r.weight())
    running, done = [], []
    while pending or running:
        used = sum(r.weight() for r in running)
        i = 0
        while i < len(pending):
            r = pending[i]
            if used + r.weight() <= capacity or not running:
                launch(r, binary, crlarg, keydir, tool, timeout_fn(r))
                running.append(r)
                used += r.weight()
                pending.pop(i)
            else:
                i += 1
        time.sleep(0.05)
        now = time.time()
        for r in list(running):
            rc = r.proc.poll()
            if rc is None and now - r.last_sample >= 2.0:
                # progress watchdog: a live run burns at least one core; a deadlocked one only the pollers' crumbs
                r.last_sample = now
                r.cpu.append((now, proc_cpu(r.proc.pid)))
                old = [c for t, c in r.cpu if t <= now - STALL_WINDOW]
                if old and r.cpu[-1][1] is not None and old[-1] is not None and r.cpu[-1][1] - old[-1] < STALL_CPU:
                    r.stalled = True
            if rc is None and (now > r.deadline or r.stalled):
                r.timed_out = True
                r.stacks = gdb_stacks(r.proc.pid)
                r.proc.kill()
                r.proc.wait()
                rc = r.proc.returncode
            if rc is not None:
                r.rc = rc
                r.wall = time.time() - r.t0
                r.err.close()
                running.remove(r)
                done.append(r)
    return done


def blocked_in_locks(stacks, nthreads):
    """True when gdb shows every remaining worker thread waiting for a mutex (a real deadlock, not slowness)."""
    if not stacks:
        return False
    thr = [t for t in re.split(r"\nThread \d+ ", stacks) if "worker_main" in t]
    return len(thr) > 0 and all(("psLockMutex" in t or "pthread_mutex_lock" in t) for t in thr)


def run(ctx):
    t0 = ctx.t0
    binary = vflib.compile_harness("tsan", "c20", ["checks/c20_threads.c"], wraps=("psGetPrng",))
    outdir = os.path.join(vflib.SCRATCH, ".out", "C20-%d" % os.getpid())
    shutil.rmtree(outdir, ignore_errors=True)
    os.makedirs(outdir)
    keydir = os.path.join(vflib.REPO, "testkeys")
    crlarg = make_crls(outdir, keydir)
    res = vflib.Result(PID)
    res.extra["outdir"] = outdir
    if not crlarg or ",2:" not in crlarg:
        res.incon.append("could not mint CRLs with the openssl CLI; CRL cache churn / revocation serializability not exercised")

    if ctx.replay:
        rp = json.load(open(ctx.replay)) if os.path.exists(ctx.replay) else {"replay": ctx.replay}
        m = re.match(r"seed=(\d+),threads=(\d+),ops=(\d+)(,empty=1)?", rp.get("replay") or "")
        if not m:
            raise SystemExit("HARNESS-ERROR replay spec must be seed=<n>,threads=<t>,ops=<k>[,empty=1]")
        cfg = [(int(m.group(1)), int(m.group(2)), int(m.group(3)), 1 if m.group(4) else 0)] * 12   # races vary from run to run
    else:
        cfg = [(derive(ctx.seed, i), t, k, e) for i, (t, k, e) in enumerate(plan(ctx.tier))]
        if os.environ.get("VERIF_C20_RUNS"):        # development aid only: fewer runs of the same plan
            cfg = cfg[:int(os.environ["VERIF_C20_RUNS"])]
    runs = [Run(i, s, t, k, outdir, empty=e) for i, (s, t, k, e) in enumerate(cfg)]
    timeout_fn = lambda r: 300 + 3 * r.ops + 8 * r.threads      # generous: the progress watchdog catches real deadlocks in ~20 s
    done = execute(runs, binary, crlarg, keydir, "tsan", timeout_fn, vflib.NCPU)

    # ---- watchdog: re-run once, then deadlock
    why = lambda r: ("made no progress (< %.1fs CPU in %.0fs)" % (STALL_CPU, STALL_WINDOW)) if r.stalled else ("did not finish within %.0fs" % timeout_fn(r))
    retry = []
    for r in done:
        if r.timed_out:
            if blocked_in_locks(r.stacks, r.threads):
                res.add_violation("c20:deadlock", "run %s %s; every worker waits for a mutex:\n%s" % (r.replay, why(r), r.stacks), r.replay)
            else:
                retry.append(Run(r.idx, r.seed, r.threads, r.ops, outdir, attempt=1, empty=r.empty))
                retry[-1].first_stacks = r.stacks
    if retry:
        for r2 in execute(retry, binary, crlarg, keydir, "tsan", timeout_fn, vflib.NCPU):
            res.add_stat("watchdog_reruns", 1)
            if r2.timed_out:
                res.add_violation("c20:deadlock", "run %s hit the watchdog twice (%s).\nfirst attempt:\n%s\nsecond attempt:\n%s" % (
                    r2.replay, why(r2), r2.first_stacks, r2.stacks), r2.replay)
            else:
                res.incon.append("run %s exceeded the watchdog once and finished on the re-run (%.1fs); stacks of the first attempt:\n%s" % (r2.replay, r2.wall, (r2.first_stacks or "")[-1500:]))
                done.append(r2)

    # ---- collect
    pairs, samples = set(), []
    tsan_total, tsan_by_key, incomplete = 0, {}, {}
    nthreads_seen = set()
    for r in sorted(done, key=lambda r: r.idx):
        if r.timed_out:
            continue
        h = History(os.path.join(r.dir, "out.jsonl"))
        for rec in h.other:
            res.ingest(rec)
        logs = "".join(open(f, errors="replace").read() for f in sorted(glob.glob(os.path.join(r.dir, "tsan.*"))))
        for key, exc, complete in tsan_keys(logs):
            tsan_total += 1
            (tsan_by_key if complete else incomplete).setdefault(key, (exc, r.replay, []))[2].append(r.idx)
        if r.rc not in (0, 66) or not h.ended or h.run is None:
            err = open(os.path.join(r.dir, "stderr"), errors="replace").read()
            sig = "signal-%d" % -r.rc if r.rc < 0 else "exit-%d" % r.rc
            fn = "?"
            m = re.search(r"ERROR: ThreadSanitizer: (\S+) on .*?\n((?:.*\n){0,40})", logs + err)
            if m:
                sig = m.group(1)
                fn = _inner([f for f in (_frame(ln) for ln in m.group(2).split("\n")) if f])
            res.add_stat("runs_crashed", 1)
            res.add_violation("c20:crash:%s:%s" % (sig, fn), "run %s terminated abnormally (%s)\n%s\n%s" % (r.replay, sig, err[-3000:], logs[-3000:]), r.replay)
            continue
        nthreads_seen.add(r.threads)
        res.stats["run_wall_max_s"] = max(res.stats.get("run_wall_max_s", 0), int(r.wall + 0.5))
        res.add_stat("threads_total", r.threads + 2)
        if h.run and "cache_size" in h.run:
            res.add_stat("session_cache_capacity_probes", 1)
            if h.run["cache_probe_done"] != h.run["cache_size"]:
                res.incon.append("run %s: capacity probe completed %d of %d handshakes" % (r.replay, h.run["cache_probe_done"], h.run["cache_size"]))
            elif h.run["cache_probe_ids"] < h.run["cache_size"]:
                res.add_violation("c20:session-cache-entries-lost", "run %s: after every session of the run was deleted, %d sessions held open at once were given only %d session ids (table size %d): %d cache entries never returned to the pool - no sequential order of the same operations leaves the cache smaller" % (r.replay, h.run["cache_size"], h.run["cache_probe_ids"], h.run["cache_size"], h.run["cache_size"] - h.run["cache_probe_ids"]), r.replay)
        if h.run:
            res.add_stat("nst_gap_failpoint_waits", h.run.get("gap_hits", 0)); res.add_stat("nst_gap_failpoint_keys_emptied_meanwhile", h.run.get("gap_served", 0))
        before = sum(v["count"] for v in res.viol.values())
        n = check_history(h, res, r.replay, pairs, samples)
        if n == 0:
            res.incon.append("run %s observed no overlapping operations" % r.replay)
        elif not ctx.keep and before == sum(v["count"] for v in res.viol.values()):
            shutil.rmtree(r.dir, ignore_errors=True)    # keep only the histories of runs an oracle objected to (disk)
    # a report whose second stack was lost is folded into a complete report on the same function when there is one
    for key, (exc, replay, idxs) in incomplete.items():
        fn = [x for x in key.split(":", 2)[2].split("|") if x != "?"]
        kind = key.split(":")[1]
        match = [k for k in tsan_by_key if k.split(":")[1] == kind and fn and fn[0] in k.split(":", 2)[2].split("|")]
        if match:
            res.add_stat("tsan_reports_second_stack_lost", len(idxs))
        else:
            tsan_by_key[key] = (exc, replay, idxs)
    for key, (exc, replay, idxs) in sorted(tsan_by_key.items()):
        for _ in idxs:
            res.add_violation(key, exc + "\n(seen in %d run(s), first: %s)" % (len(idxs), replay), replay)
    res.add_stat("tsan_reports_total", tsan_total)
    res.add_stat("tsan_reports_distinct", len(tsan_by_key))

    # ---- thorough: the same workload under helgrind on a prod build
    if ctx.thorough and not ctx.replay and shutil.which("valgrind"):
        hb = vflib.compile_harness("prod", "c20", ["checks/c20_threads.c"], wraps=("psGetPrng",))
        hruns = [Run(5000 + i, derive(ctx.seed, 5000 + i), 4, 12, outdir) for i in range(20)]
        hdone = execute(hruns, hb, crlarg, keydir, "helgrind", lambda r: 900, vflib.NCPU)
        hk = {}
        for r in hdone:
            if r.timed_out:
                res.incon.append("helgrind run %s exceeded its watchdog" % r.replay)
                continue
            lg = os.path.join(r.dir, "helgrind.log")
            txt = open(lg, errors="replace").read() if os.path.exists(lg) else ""
            for key, exc in helgrind_keys(txt):
                res.add_stat("helgrind_reports_total", 1)
                hk.setdefault(key, (exc, r.replay))
            res.add_stat("helgrind_runs", 1)
        for key, (exc, replay) in sorted(hk.items()):
            res.add_violation(key, exc, replay)
        res.add_stat("helgrind_reports_distinct", len(hk))

    res.samples = samples[:8] + res.samples
    nruns = len([r for r in done if not r.timed_out])
    res.stats["runs"] = nruns
    rule = ("evaluations = operations executed over all runs (handshake+data+closure, injected-alert and abandoned handshakes, credential resets, direct chain validations, PRNG draws, "
            "ticket-key add/delete, CRL cache insert/update/delete/query). distinct_nontrivial = distinct unordered pairs (operation kind, operation kind) observed on two different threads "
            "with intersecting [call,return] stamp intervals; operation kind = category + logical-client type + outcome (full rsa/ecdhe[+client auth], resumed, fallback-full, alert-hs, "
            "alert-app, abandon). Thread counts used: %s." % sorted(nthreads_seen))
    assumptions = ["ThreadSanitizer judges only code that actually ran concurrently in some run; races on paths never overlapped are not seen",
                   "both endpoints of one connection are driven by the same thread; a single ssl_t is never shared between threads (the API forbids it)",
                   "real clock and /dev/urandom: the sample certificates must be inside their validity period (they expire March 2027)",
                   "eviction from the 32-entry session cache is treated as a legal reason for a refused session-id resumption only when at least 32-N-1 other cache users overlapped the idle window"]
    extra = {"runs": nruns, "threads_per_run": sorted(nthreads_seen), "overlap_pairs": sorted("%s || %s" % p for p in pairs)[:400],
             "tsan_reports_total": tsan_total, "tsan_reports_distinct": len(tsan_by_key),
             "tsan_keys": {k: len(v[2]) for k, v in sorted(tsan_by_key.items())}}
    return vflib.finish(PID, ctx.tier, ctx.seed, "exploration", res, t0, rule, len(pairs), res.stats.get("cases", 0),
                        10 if not ctx.replay else 0, assumptions, extra_cov=extra, keep_out=ctx.keep)
