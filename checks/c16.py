import vflib
WRAPS = ("psGetEntropy", "gettimeofday", "time")
def run(ctx):
    st = [dict(variant="asan", name="c16", sources=["checks/c16_dtls.c", "harness/mx_wraps.c"], wraps=WRAPS,
               shards=vflib.NCPU, timeout=10800 if ctx.thorough else 1500)]
    rule = ("Each case = (a) one delivery schedule - one fate per datagram in global send order: deliver, drop, duplicate, late duplicate, delay k rounds, swap with next, "
            "delayed-and-duplicated; optionally spurious timer expiries; optionally 'eager writers' (client, server or both write their first application datagram the moment their OWN "
            "handshake is reported complete, i.e. the sender of the final flight writes before its peer has seen that flight) - applied to a complete in-memory DTLS handshake (full / "
            "session-id resumed / client-auth / full with RFC 5077 ticket issued / resumed by ticket) plus a "
            "bidirectional data exchange, driven with the reference applications' discipline in logical rounds: all 2^m drop patterns over the first m datagrams (PSK: again with both sides "
            "eager, thorough also client-only / server-only), every single duplicate/swap/delay position (PSK: again with both eager), seeded random schedules (random eager mode), every single "
            "spurious-timeout point, loss of the final flight of the configuration's clean handshake followed by drop patterns over the next datagrams (no / final-flight sender / both eager) "
            "and, for ECDHE-ECDSA, every single datagram lost alone repeated under 2-3 (thorough 12) entropy variations, because ECDSA signature lengths vary and ServerKeyExchange / "
            "CertificateVerify flights are rebuilt around the cached signature; the entropy of every schedule case is a function of its spec and the seed; or (b) one replay case on a fork()ed clone of an established session "
            "(four establishment variants): each captured record / multi-record datagram (epoch 0 handshake, Finished, application data, superseded-epoch Finished) replayed at "
            "each position of a fresh exchange alone, after the peer's Finished, twice, or in pairs; and the sequence-gap family (g = 1..40 datagrams lost in a row, then replays "
            "of the post-gap, pre-gap, older and late in-window records). Suites PSK-CBC (0x008c, 0x00ae), RSA-CBC/GCM (0x002f, 0x009c), ECDHE-RSA-CBC/GCM (0xc013, 0xc02f), "
            "ECDHE-ECDSA-CBC/GCM (0xc009, 0xc02b; thorough also 0xc023, 0xc02c; P-256 sample identities on both sides for client-auth) x "
            "DTLS 1.0/1.2 x PMTU 1500/600/400 (256 for PSK). Mixed-version pairs (version token '<client>~<server>' in specs and keys): client enabling DTLS 1.2+1.0 against a server enabling only 1.0, "
            "and client enabling only 1.0 against a server enabling 1.2+1.0 - both negotiate 1.0 (checked at set-up), and in the first pairing every further copy of a ClientHello carries record "
            "version 1.2 to a server that has chosen 1.0 (counted in handshake_datagrams_above_negotiated_version_to_server) - run the same schedule classes (drop patterns, singles, random, "
            "spurious timers, final-flight loss, eager writers, ECDSA single drops), handshake kinds (incl. tickets) and the replay phase with the suites that exist in DTLS 1.0 "
            "(0x008c at PMTU 1500/256, 0x002f, 0xc013, 0xc009; quick: a subset of PMTUs/kinds, thorough: PMTU 1500/400, RSA also 600). distinct_nontrivial = distinct (version pair, suite, PMTU, handshake kind, fates actually consumed, options = spurious events + eager writers + entropy variation) for "
            "schedules and distinct (version, suite, PMTU, kind, establishment, mode, record identity (direction, epoch, sequence, datagram?), second record, position) or "
            "(…, gap, variant, direction) for replays.")
    return vflib.std_run(ctx, st, "fault_enumeration", rule,
        ["the transport drops, duplicates, delays and reorders whole datagrams but never forges, truncates or coalesces them (forgery is C02/C08)",
         "timers are logical: a retransmission timer fires only in a round with an empty network (reference-application discipline: server session created on first datagram, "
         "completed client never times out, resumed-complete server never resends), except in the explicitly generated spurious-timeout class",
         "a mixed-version pair is two endpoints whose sessOpts versionFlag differ (SSL_FLAGS_DTLS|SSL_FLAGS_TLS_1_2 = DTLS 1.2 and 1.0, SSL_FLAGS_DTLS|SSL_FLAGS_TLS_1_1 = DTLS 1.0 only); "
         "a resumed handshake between such peers resumes a session established between the same two configurations",
         "rehandshakes are compiled out in this configuration, so 'previous epoch' means epoch 0 and the epoch of a superseded (retransmitted) Finished",
         "PMTU 256 is only exercised with PSK suites: a 2048-bit RSA ClientKeyExchange/ServerKeyExchange/CertificateVerify does not fit one 256-byte datagram and the library answers internal_error by design",
         "an application datagram that the schedule itself delays across rounds carries no delivery obligation (a record of a superseded epoch may be discarded); at-most-once still applies",
         "an application datagram of an eager writer carries a delivery obligation only if it reaches a peer whose handshake is already complete and no datagram of a higher epoch of the same "
         "direction was delivered before it (RFC 6347 4.1: data arriving before the handshake completes may be buffered or discarded; this library discards); the handshake-completion, "
         "no-error and at-most-once oracles apply unchanged, and data written after both completions must be delivered"],
        min_nontrivial=2000)
