import vflib
WRAPS = ("psGetEntropy", "gettimeofday", "time", "clock_gettime")
def run(ctx):
    st = [dict(variant="asan", name="c06", sources=["checks/c06_sequence.c", "harness/mx_wraps.c"], wraps=WRAPS, libs=["-lcrypto"], shards=vflib.NCPU, timeout=7200 if ctx.thorough else 1500)]
    rule = ("Each case = one single-step deviation (delete / duplicate / swap adjacent / inject one of 16 handshake message types taken from the honest run where available / premature "
            "ChangeCipherSpec, at every position) of one flight addressed to the receiver, per mode (version x key exchange x resumed/ticket/client-auth) and role, executed on a fork()ed "
            "clone: the flight is re-framed to one handshake message per record (TLS 1.3 protected flights opened and re-sealed with the sender's handshake key) and fed message by "
            "message; a reference grammar per mode decides where the sequence becomes illegal. distinct_nontrivial = distinct (mode, role, flight, deviation, position, type) executed.")
    return vflib.std_run(ctx, st, "exploration", rule,
        ["the reference grammar is a reading of RFC 5246/6347/8446/5077 restricted to the messages this build can emit", "DTLS: only the completion clause is judged (duplicates and out-of-order messages may be ignored)",
         "a transcript-consistent deviant peer (recomputed Finished) is not built; a lax state machine shows as liveness after the illegal message"], min_nontrivial=500)
