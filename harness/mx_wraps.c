/* Link-time interposition (-Wl,--wrap=psGetEntropy,--wrap=gettimeofday,--wrap=time):
 * deterministic per-actor entropy streams and a virtual clock. */
#include <string.h>
#include <stdint.h>
#include <stdio.h>
#include <stdlib.h>
#include <sys/time.h>
#include <time.h>

int mx_actor = 0;
int mx_in_lib = 0;
long mx_now = 1790000000L;  /* 2026-09-21; inside the validity of the sample certificates */
unsigned long mx_entropy_calls, mx_entropy_bytes;
static uint64_t mx_st[8] = { 1, 2, 3, 4, 5, 6, 7, 8 };

static uint64_t nx(uint64_t *s) { uint64_t z = (*s += 0x9e3779b97f4a7c15ULL); z = (z ^ (z >> 30)) * 0xbf58476d1ce4e5b9ULL; z = (z ^ (z >> 27)) * 0x94d049bb133111ebULL; return z ^ (z >> 31); }
/* per-actor streams start at unrelated points of the generator's sequence (they used to be one stream shifted by one step per actor) */
void mx_entropy_seed(uint64_t seed) { for (int i = 0; i < 8; i++) { uint64_t t = seed * 0x2545F4914F6CDD1DULL + (uint64_t) (i + 1) * 0xD1342543DE82EF95ULL; mx_st[i] = nx(&t) ^ (nx(&t) << 1); } }
void mx_entropy_save(uint64_t out[8]) { memcpy(out, mx_st, sizeof mx_st); }
void mx_entropy_restore(const uint64_t in[8]) { memcpy(mx_st, in, sizeof mx_st); }

/* observers a check may install */
void (*mx_entropy_observer)(const unsigned char *bytes, uint32_t size) = 0;

int32_t __wrap_psGetEntropy(unsigned char *bytes, uint32_t size, void *userPtr)
{
    (void) userPtr;
    uint64_t *s = &mx_st[mx_actor & 7];
    for (uint32_t i = 0; i < size; i++) bytes[i] = (unsigned char) (nx(s) >> 24);
    mx_entropy_calls++; mx_entropy_bytes += size;
    if (mx_entropy_observer) mx_entropy_observer(bytes, size);
    return (int32_t) size;
}
int __wrap_gettimeofday(struct timeval *tv, void *tz) { (void) tz; if (tv) { tv->tv_sec = mx_now; tv->tv_usec = 0; } return 0; }
time_t __wrap_time(time_t *t) { if (t) *t = mx_now; return mx_now; }

/* The session cache / ticket code reads CLOCK_MONOTONIC through clock_gettime (USE_HIGHRES_TIME):
 * optional wrap (-Wl,--wrap=clock_gettime), weak so that a check can supply its own. */
__attribute__((weak)) int __wrap_clock_gettime(clockid_t id, struct timespec *ts) { (void) id; if (ts) { ts->tv_sec = mx_now; ts->tv_nsec = 0; } return 0; }
