/* C04, stage 4 - the right key over the wrong content.
 *
 * "The peer proved possession of the leaf certificate's private key" means: in THIS handshake.  The prover here is a MatrixSSL
 * endpoint that presents a genuine, valid chain and holds the genuine private key, but the signature it puts on the wire was
 * made over something else than this handshake's transcript.  Link-time wrappers around the signing entries the TLS layer uses
 * (psSign, tls13Sign, tlsPrepareSkeSignature) act only while the harness is inside the prover (mx_actor):
 *
 *   replay         the signature recorded in an earlier, honest connection of the same prover (same key, same algorithm)
 *   flipped-bit    the signature over this transcript with one bit flipped (TLS 1.3: in the transcript hash handed to
 *                  tls13Sign; TLS <= 1.2: in the handshake hash / signed_params hash handed to psSign)
 *   wrong-context  TLS 1.3: the other role's context string ("TLS 1.3, client CertificateVerify" for a server)
 *   other-randoms  TLS <= 1.2 ServerKeyExchange: client_random differs in one bit while signed_params is hashed
 *
 * Every signature is a genuine signature of the certified key (RSA PKCS#1 v1.5, RSA-PSS, ECDSA P-256 / P-384, Ed25519), the
 * certificate chain validates, the Finished messages are honest.  The verifier (client checking ServerKeyExchange /
 * CertificateVerify, server checking the client's CertificateVerify) must never complete, whatever its callback answers.
 * Controls: the same wrappers in passive mode must complete, and in every other case at least one substitution must have
 * happened (otherwise the case is vacuous and reported as inconclusive). */
#include "mx.h"
#include "c04_mint.h"

enum { M_NONE = 0, M_REPLAY, M_FLIP, M_CONTEXT, M_RANDOMS, M_N, M_RECORD };
static const char *mname[] = { "honest-control", "replayed-signature", "transcript-bit-flipped", "wrong-context-string", "other-randoms" };
static int st_mode, st_actor = -1, st_tls13, st_subst, st_signs;
static struct { int alg; int32_t rc; unsigned char sig[1024]; psSize_t len; } st_rec[8]; static int st_nrec, st_nplay;

extern int32_t __real_psSign(psPool_t *pool, psPubKey_t *privKey, int32_t sigAlg, const unsigned char *in, psSizeL_t inLen, unsigned char **out, psSize_t *outLen, psSignOpts_t *opts);
int32_t __wrap_psSign(psPool_t *pool, psPubKey_t *privKey, int32_t sigAlg, const unsigned char *in, psSizeL_t inLen, unsigned char **out, psSize_t *outLen, psSignOpts_t *opts)
{
    if (st_mode == M_NONE || mx_actor != st_actor) return __real_psSign(pool, privKey, sigAlg, in, inLen, out, outLen, opts);
    st_signs++;
    if (st_mode == M_RECORD) {
        int32_t rc = __real_psSign(pool, privKey, sigAlg, in, inLen, out, outLen, opts);
        if (rc >= 0 && st_nrec < 8 && *outLen <= sizeof st_rec[0].sig) { st_rec[st_nrec].alg = sigAlg; st_rec[st_nrec].rc = rc; st_rec[st_nrec].len = *outLen; memcpy(st_rec[st_nrec].sig, *out, *outLen); st_nrec++; }
        return rc;
    }
    if (st_mode == M_REPLAY && st_nplay < st_nrec && st_rec[st_nplay].alg == sigAlg) {
        int i = st_nplay++;
        if (opts && (opts->flags & PS_SIGN_OPTS_USE_PREALLOCATED_OUTBUF)) memcpy(*out, st_rec[i].sig, st_rec[i].len);
        else { unsigned char *b = psMalloc(pool, st_rec[i].len); if (!b) return PS_MEM_FAIL; memcpy(b, st_rec[i].sig, st_rec[i].len); *out = b; }
        *outLen = st_rec[i].len; st_subst++;
        return st_rec[i].rc;
    }
    if (st_mode == M_FLIP && !st_tls13 && inLen > 0 && inLen <= 512) {
        unsigned char tmp[512]; memcpy(tmp, in, inLen); tmp[inLen / 2] ^= 0x10; st_subst++;
        return __real_psSign(pool, privKey, sigAlg, tmp, inLen, out, outLen, opts);
    }
    return __real_psSign(pool, privKey, sigAlg, in, inLen, out, outLen, opts);
}
extern int32_t __real_tls13Sign(psPool_t *pool, psPubKey_t *privKey, uint16_t sigAlg, const unsigned char *trHash, psSize_t trHashLen, const char *ctx, psSize_t ctxLen, unsigned char **out, psSize_t *outLen);
int32_t __wrap_tls13Sign(psPool_t *pool, psPubKey_t *privKey, uint16_t sigAlg, const unsigned char *trHash, psSize_t trHashLen, const char *ctx, psSize_t ctxLen, unsigned char **out, psSize_t *outLen)
{
    if (mx_actor == st_actor && st_mode == M_FLIP && trHashLen <= 64) {
        unsigned char h[64]; memcpy(h, trHash, trHashLen); h[trHashLen / 2] ^= 0x10; st_subst++;
        return __real_tls13Sign(pool, privKey, sigAlg, h, trHashLen, ctx, ctxLen, out, outLen);
    }
    if (mx_actor == st_actor && st_mode == M_CONTEXT) {
        static const char sv[] = "TLS 1.3, server CertificateVerify", cl[] = "TLS 1.3, client CertificateVerify";
        const char *other = (ctxLen == sizeof sv - 1 && !memcmp(ctx, sv, ctxLen)) ? cl : sv; st_subst++;
        return __real_tls13Sign(pool, privKey, sigAlg, trHash, trHashLen, other, (psSize_t) (sizeof sv - 1), out, outLen);
    }
    return __real_tls13Sign(pool, privKey, sigAlg, trHash, trHashLen, ctx, ctxLen, out, outLen);
}
extern psRes_t __real_tlsPrepareSkeSignature(ssl_t *ssl, int32_t skeSigAlg, unsigned char *tbsStart, unsigned char *c, psBool_t needPreHash);
psRes_t __wrap_tlsPrepareSkeSignature(ssl_t *ssl, int32_t skeSigAlg, unsigned char *tbsStart, unsigned char *c, psBool_t needPreHash)
{
    if (mx_actor == st_actor && st_mode == M_RANDOMS) {
        ssl->sec.clientRandom[9] ^= 0x04; st_subst++;
        psRes_t rc = __real_tlsPrepareSkeSignature(ssl, skeSigAlg, tbsStart, c, needPreHash);
        ssl->sec.clientRandom[9] ^= 0x04;
        return rc;
    }
    return __real_tlsPrepareSkeSignature(ssl, skeSigAlg, tbsStart, c, needPreHash);
}

typedef struct { const char *name; int ver; uint16_t suite; int leafType; int verifierIsServer; const char *sigkind; } scn_t;
static const scn_t scns[] = {
    /* the server signs: ServerKeyExchange (TLS <= 1.2) / CertificateVerify (TLS 1.3) */
    { "ecdhe-rsa", MX_TLS11, 0xc013, CG_K_RSA2048, 0, "rsa-md5sha1" }, { "ecdhe-rsa", MX_TLS12, 0xc02f, CG_K_RSA2048, 0, "rsa-pkcs1" }, { "ecdhe-ecdsa", MX_TLS12, 0xc02b, CG_K_P256, 0, "ecdsa-p256" },
    { "ecdhe-ecdsa", MX_TLS12, 0xc02c, CG_K_P384, 0, "ecdsa-p384" }, { "ecdhe-rsa", MX_DTLS12, 0xc027, CG_K_RSA2048, 0, "rsa-pkcs1" },
    { "tls13", MX_TLS13, 0x1301, CG_K_RSA2048, 0, "rsa-pss" }, { "tls13", MX_TLS13, 0x1302, CG_K_P256, 0, "ecdsa-p256" }, { "tls13", MX_TLS13, 0x1301, CG_K_P384, 0, "ecdsa-p384" }, { "tls13", MX_TLS13, 0x1303, CG_K_ED25519, 0, "ed25519" },
    /* the client signs: CertificateVerify */
    { "clientauth", MX_TLS11, 0x002f, CG_K_RSA2048, 1, "rsa-md5sha1" }, { "clientauth", MX_TLS12, 0x009c, CG_K_RSA2048, 1, "rsa-pkcs1" }, { "clientauth", MX_TLS12, 0xc02b, CG_K_P256, 1, "ecdsa-p256" },
    { "clientauth", MX_DTLS12, 0x003c, CG_K_RSA2048, 1, "rsa-pkcs1" },
    { "clientauth", MX_TLS13, 0x1301, CG_K_RSA2048, 1, "rsa-pss" }, { "clientauth", MX_TLS13, 0x1301, CG_K_P256, 1, "ecdsa-p256" }, { "clientauth", MX_TLS13, 0x1302, CG_K_P384, 1, "ecdsa-p384" }, { "clientauth", MX_TLS13, 0x1301, CG_K_ED25519, 1, "ed25519" },
};
#define NSCN ((int) (sizeof scns / sizeof scns[0]))
typedef struct { const scn_t *s; int mode, cb; } case_t;
static char cur_desc[200];

/* one connection between the prover (minted good credentials) and the verifier; returns 1 when the VERIFIER reports completion */
static int connect_once(const scn_t *s, sslKeys_t *pk, sslKeys_t *vk, const char *expected, int cb, int mode, int *both, int *alert)
{
    mx_cfg cfg = { .ver = s->ver, .suite = s->suite, .clientAuth = s->verifierIsServer, .skeys = s->verifierIsServer ? vk : pk, .ckeys = s->verifierIsServer ? pk : vk, .expectedName = expected };
    mx_conn k; sslSessionId_t *sid; matrixSslNewSessionId(&sid, NULL); sslSessOpts_t o; int rc;
    memset(&k, 0, sizeof k); k.cfg = cfg; k.dtls = MX_IS_DTLS(s->ver);
    sslCertCb_t vcb = cb_fn(cb); cb_reset();
    mx_opts(&o, &cfg, MX_SERVER); k.s.role = MX_SERVER; k.s.ver = s->ver; k.s.id = 1; k.s.name = "S";
    mx_actor = 1; MX_ENTER(); rc = matrixSslNewServerSession(&k.s.ssl, cfg.skeys, s->verifierIsServer ? vcb : NULL, &o); MX_LEAVE();
    if (rc < 0) { matrixSslDeleteSessionId(sid); return -1; }
    mx_opts(&o, &cfg, MX_CLIENT); k.c.role = MX_CLIENT; k.c.ver = s->ver; k.c.id = 0; k.c.name = "C"; k.c.wantTake = 1; psCipher16_t cs[1] = { s->suite };
    mx_actor = 0; MX_ENTER(); rc = matrixSslNewClientSession(&k.c.ssl, cfg.ckeys, sid, cs, 1, s->verifierIsServer ? mx_cert_cb_accept : vcb, cfg.expectedName, NULL, NULL, &o); MX_LEAVE();
    if (rc < 0) { mx_ep_free(&k.s); matrixSslDeleteSessionId(sid); return -1; }
    st_actor = s->verifierIsServer ? 0 : 1; st_tls13 = s->ver == MX_TLS13; st_mode = mode; st_nplay = 0;
    mx_conn_run(&k, NULL, NULL, 300);
    st_mode = M_NONE;
    mx_ep *V = s->verifierIsServer ? &k.s : &k.c;
    int vdone = V->hsDone || matrixSslHandshakeIsComplete(V->ssl); *both = mx_conn_established(&k); *alert = V->ssl->err;
    if (*both && mode == M_NONE) { unsigned char p[64]; mx_payload(p, 64, 0x0c04, 0, 5); mx_send(&k.c, p, 64); mx_conn_run(&k, NULL, NULL, 20); if (k.s.gotlen != 64) *both = 0; }
    mx_ep_free(&k.c); mx_ep_free(&k.s); matrixSslDeleteSessionId(sid);
    return vdone;
}

static void run_case(void *a_)
{
    case_t *c = a_; const scn_t *s = c->s; mint_t m; char *chain = NULL, *key, *ca; sslKeys_t *pk = NULL, *vk = NULL; int rc, both = 0, alert = 0;
    vf_stat("cases", 1); vf_stat("stale_signature_cases", 1);
    if (mint_der(s->leafType, s->verifierIsServer, L_GOOD, 0, &m) != 0) { vf_incon("stale: minting credentials failed (%s)", cur_desc); return; }
    for (int i = 0; i < m.nchain; i++) { char *p = cg_pem("CERTIFICATE", m.chain[i].der, m.chain[i].len); size_t a = chain ? strlen(chain) : 0; chain = realloc(chain, a + strlen(p) + 1); strcpy(chain + a, p); free(p); }
    key = cg_key_priv_pem(m.proverKey, 0); ca = cg_pem("CERTIFICATE", m.anchor.der, m.anchor.len);
    const char *ownCert = s->leafType == CG_K_RSA2048 ? MX_TK "RSA/2048_RSA.pem" : MX_TK "EC/256_EC.pem", *ownKey = s->leafType == CG_K_RSA2048 ? MX_TK "RSA/2048_RSA_KEY.pem" : MX_TK "EC/256_EC_KEY.pem";
    MX_ENTER(); matrixSslNewKeys(&pk, NULL); matrixSslNewKeys(&vk, NULL);
    rc = matrixSslLoadKeysMem(pk, (unsigned char *) chain, (int32) strlen(chain), (unsigned char *) key, (int32) strlen(key), NULL, 0, NULL);
    if (rc >= 0 && s->verifierIsServer) rc = matrixSslLoadKeys(vk, ownCert, ownKey, NULL, NULL, NULL);
    if (rc >= 0) rc = matrixSslLoadKeysMem(vk, NULL, 0, NULL, 0, (unsigned char *) ca, (int32) strlen(ca), NULL);
    MX_LEAVE();
    if (rc < 0) { vf_violation("c04:harness:stale-prover-control-failed", cur_desc, "good credentials do not load (rc=%d)", rc); goto out; }
    st_nrec = 0; st_subst = 0; st_signs = 0;
    if (c->mode == M_REPLAY) {   /* an earlier honest connection of the same prover: its signature(s) are recorded */
        int v0 = connect_once(s, pk, vk, m.expected, c->cb == CB_NONE ? CB_NONE : CB_STRICT, M_RECORD, &both, &alert);
        if (v0 != 1 || !both || st_nrec == 0) { vf_violation("c04:harness:stale-prover-control-failed", cur_desc, "the recording connection did not complete (verifier=%d both=%d signatures recorded=%d alert=%d)", v0, both, st_nrec, alert); goto out; }
        mx_now += 60;
    }
    int vdone = connect_once(s, pk, vk, m.expected, c->cb, c->mode, &both, &alert);
    if (vdone < 0) { vf_incon("stale: session creation failed (%s)", cur_desc); goto out; }
    if (vf_verbose) fprintf(stderr, "c04-stale %s: verifier done=%d both=%d alert=%d substitutions=%d prover-signatures=%d recorded=%d cb calls=%d\n", cur_desc, vdone, both, alert, st_subst, st_signs, st_nrec, cb_calls);
    vf_distinct("stale|%s|%s|%d|%s|%s|%s", mx_vername[s->ver], s->name, s->verifierIsServer, s->sigkind, mname[c->mode], cbname[c->cb]);
    if (c->mode == M_NONE) {
        if (vdone && both) vf_stat("stale_controls_ok", 1);
        else vf_violation("c04:harness:stale-prover-control-failed", cur_desc, "with the signing wrappers passive the handshake did not complete (verifier=%d both=%d alert=%d)", vdone, both, alert);
        goto out;
    }
    if (st_subst == 0) { vf_incon("stale: no signature was substituted in %s (prover signatures seen: %d) - the case is vacuous", cur_desc, st_signs); goto out; }
    vf_statf(1, "stale_%s_%s_%s", mname[c->mode], s->sigkind, vdone ? "COMPLETE" : "refused");
    if (!vdone) vf_statf(1, "stale_alert_%s_%d", mx_vername[s->ver], alert);
    if (vdone) {
        char keyb[240]; snprintf(keyb, sizeof keyb, "c04:completed-with-stale-signature:%s:%s:%s:%s:%s", mx_vername[s->ver], s->verifierIsServer ? "server-verifies-client" : "client-verifies-server", s->sigkind, mname[c->mode], cbname[c->cb]);
        vf_violation(keyb, cur_desc, "the verifier completed although the peer's %s is a genuine %s signature of the certified key over OTHER content (%s): possession of the private key was not proved for this handshake (callback calls %d, last alert shown %d)",
                     s->ver == MX_TLS13 || s->verifierIsServer ? "CertificateVerify" : "ServerKeyExchange signature", s->sigkind, mname[c->mode], cb_calls, cb_last);
    } else vf_stat("stale_refused_as_required", 1);
out:
    MX_ENTER(); if (pk) matrixSslDeleteKeys(pk); if (vk) matrixSslDeleteKeys(vk); MX_LEAVE();
    free(chain); free(key); free(ca); mint_free(&m);
}

int main(int argc, char **argv)
{
    vf_init(argc, argv);
    if (vf_case && strncmp(vf_case, "stale ", 6)) return 0;                     /* a replay of another stage's case */
    mx_global_init();
    for (int t = 0; t < 4; t++) for (int i = 0; i < 6; i++) if (!cg_key_get(t == 0 ? CG_K_RSA2048 : t == 1 ? CG_K_P256 : t == 2 ? CG_K_ED25519 : CG_K_P384, i)) { fprintf(stderr, "HARNESS: keygen failed\n"); return 2; }
    long idx = 0;
    for (int si = 0; si < NSCN; si++) for (int mode = 0; mode < M_N; mode++) for (int cb = 0; cb < CB_N; cb++) {
        const scn_t *s = &scns[si];
        if (mode == M_CONTEXT && s->ver != MX_TLS13) continue;
        if (mode == M_RANDOMS && (s->ver == MX_TLS13 || s->verifierIsServer)) continue;
        if (s->verifierIsServer ? cb == CB_NONE : cb == CB_ANON) continue;
        if (mode == M_NONE && cb != CB_STRICT) continue;
        if (!vf_mine(idx++)) continue;
        case_t c = { s, mode, cb };
        snprintf(cur_desc, sizeof cur_desc, "stale scn=%d(%s/%s/%s/%s) mode=%s cb=%s", si, mx_vername[s->ver], s->name, s->verifierIsServer ? "server-verifies" : "client-verifies", s->sigkind, mname[mode], cbname[cb]);
        if (vf_case && strcmp(vf_case, cur_desc)) continue;
        if (idx % 37 == 0) vf_sample("%s", cur_desc);
        mx_entropy_seed(vf_seed * 59 + idx);
        vf_fork_case(run_case, &c, "c04", cur_desc, 120);
    }
    matrixSslClose(); vf_flush();
    return 0;
}
