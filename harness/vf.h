/* vf.h - common runtime for the /verif harness binaries: argument parsing,
 * seeded PRNG, JSONL record output (stats, distinct-case hashes, samples,
 * violations), and fork-per-case execution that turns sanitizer aborts,
 * crashes and hangs in the child into records for the driver. */
#ifndef VF_H
#define VF_H
#include <stdio.h>
#include <stdlib.h>
#include <string.h>
#include <stdint.h>
#include <stdarg.h>
#include <unistd.h>
#include <fcntl.h>
#include <signal.h>
#include <errno.h>
#include <sys/types.h>
#include <sys/wait.h>

static uint64_t vf_seed = 1;
static int vf_shard = 0, vf_nshards = 1, vf_thorough = 0;
static const char *vf_case = NULL;     /* --case <spec>: replay exactly one case */
static int vf_outfd = 1;
static int vf_argc; static char **vf_argv;
static int vf_verbose = 0;

/* ---- PRNG: splitmix64 / xoshiro-like, deterministic from seed ---- */
typedef struct { uint64_t s; } vf_rng;
static inline uint64_t vf_next(vf_rng *r) { uint64_t z = (r->s += 0x9e3779b97f4a7c15ULL); z = (z ^ (z >> 30)) * 0xbf58476d1ce4e5b9ULL; z = (z ^ (z >> 27)) * 0x94d049bb133111ebULL; return z ^ (z >> 31); }
static inline void vf_rng_init(vf_rng *r, uint64_t a, uint64_t b) { r->s = a * 0x9e3779b97f4a7c15ULL + b * 0xd1b54a32d192ed03ULL + 0x1234567; vf_next(r); vf_next(r); }
static inline uint32_t vf_below(vf_rng *r, uint32_t n) { return n ? (uint32_t) (vf_next(r) % n) : 0; }
static inline void vf_fill(vf_rng *r, unsigned char *p, size_t n) { for (size_t i = 0; i < n; i++) p[i] = (unsigned char) (vf_next(r) >> 32); }
static inline uint64_t vf_hash(const void *d, size_t n) { const unsigned char *p = d; uint64_t x = 1469598103934665603ULL; for (size_t i = 0; i < n; i++) { x ^= p[i]; x *= 1099511628211ULL; } return x; }

/* ---- output ---- */
static void vf_write(const char *s, size_t n) { while (n) { ssize_t w = write(vf_outfd, s, n); if (w <= 0) { if (errno == EINTR) continue; break; } s += w; n -= w; } }
static size_t vf_json_esc(char *dst, size_t cap, const char *src, size_t n)
{
    size_t o = 0;
    for (size_t i = 0; i < n && o + 8 < cap; i++) {
        unsigned char c = (unsigned char) src[i];
        if (c == '"' || c == '\\') { dst[o++] = '\\'; dst[o++] = c; }
        else if (c == '\n') { dst[o++] = '\\'; dst[o++] = 'n'; }
        else if (c == '\t') { dst[o++] = '\\'; dst[o++] = 't'; }
        else if (c < 0x20 || c >= 0x7f) { o += snprintf(dst + o, cap - o, "\\u%04x", c); }
        else dst[o++] = c;
    }
    dst[o] = 0;
    return o;
}
/* emit {"t":<type>,"<k1>":"<escaped formatted text>"} plus optional raw json tail */
static void vf_emit2(const char *type, const char *f1, const char *v1, const char *f2, const char *v2, const char *f3, const char *v3)
{
    size_t cap = 64 + 7 * ((v1 ? strlen(v1) : 0) + (v2 ? strlen(v2) : 0) + (v3 ? strlen(v3) : 0));
    char *b = malloc(cap), *e = malloc(cap);
    size_t o = snprintf(b, cap, "{\"t\":\"%s\"", type);
    if (f1) { vf_json_esc(e, cap, v1, strlen(v1)); o += snprintf(b + o, cap - o, ",\"%s\":\"%s\"", f1, e); }
    if (f2) { vf_json_esc(e, cap, v2, strlen(v2)); o += snprintf(b + o, cap - o, ",\"%s\":\"%s\"", f2, e); }
    if (f3) { vf_json_esc(e, cap, v3, strlen(v3)); o += snprintf(b + o, cap - o, ",\"%s\":\"%s\"", f3, e); }
    o += snprintf(b + o, cap - o, "}\n");
    vf_write(b, o);
    free(b); free(e);
}

#define VF_MAXSTAT 256
static struct { char k[64]; long v; int ismax; } vf_stats[VF_MAXSTAT];
static int vf_nstats;
static void vf_stat_(const char *k, long v, int ismax)
{
    for (int i = 0; i < vf_nstats; i++) if (!strcmp(vf_stats[i].k, k)) { if (ismax) { if (v > vf_stats[i].v) vf_stats[i].v = v; } else vf_stats[i].v += v; return; }
    if (vf_nstats < VF_MAXSTAT) { snprintf(vf_stats[vf_nstats].k, 64, "%s", k); vf_stats[vf_nstats].v = v; vf_stats[vf_nstats].ismax = ismax; vf_nstats++; }
}
static void vf_stat(const char *k, long v) { vf_stat_(k, v, 0); }
static void vf_statmax(const char *k, long v) { vf_stat_(k, v, 1); }
static void vf_statf(long v, const char *fmt, ...) { char k[64]; va_list ap; va_start(ap, fmt); vsnprintf(k, sizeof k, fmt, ap); va_end(ap); vf_stat_(k, v, 0); }

/* distinct-case set: open addressing over 64-bit hashes */
static uint64_t *vf_dset; static size_t vf_dcap, vf_dn;
static int vf_distinct_h(uint64_t h)
{
    if (!h) h = 1;
    if ((vf_dn + 1) * 2 > vf_dcap) {
        size_t nc = vf_dcap ? vf_dcap * 2 : 4096; uint64_t *n = calloc(nc, 8);
        for (size_t i = 0; i < vf_dcap; i++) if (vf_dset[i]) { size_t j = vf_dset[i] & (nc - 1); while (n[j]) j = (j + 1) & (nc - 1); n[j] = vf_dset[i]; }
        free(vf_dset); vf_dset = n; vf_dcap = nc;
    }
    size_t j = h & (vf_dcap - 1);
    while (vf_dset[j]) { if (vf_dset[j] == h) return 0; j = (j + 1) & (vf_dcap - 1); }
    vf_dset[j] = h; vf_dn++;
    return 1;
}
static int vf_distinct(const char *fmt, ...) { char k[512]; va_list ap; va_start(ap, fmt); int n = vsnprintf(k, sizeof k, fmt, ap); va_end(ap); if (n > 511) n = 511; return vf_distinct_h(vf_hash(k, n)); }

static int vf_nsamples, vf_maxsamples = 6;
static void vf_sample(const char *fmt, ...)
{
    if (vf_nsamples >= vf_maxsamples) return;
    vf_nsamples++;
    char k[2048]; va_list ap; va_start(ap, fmt); vsnprintf(k, sizeof k, fmt, ap); va_end(ap);
    vf_emit2("sample", "v", k, NULL, NULL, NULL, NULL);
}
static long vf_nviol;
static void vf_violation(const char *key, const char *replay, const char *fmt, ...)
{
    char k[4096]; va_list ap; va_start(ap, fmt); vsnprintf(k, sizeof k, fmt, ap); va_end(ap);
    vf_nviol++;
    if (vf_verbose) fprintf(stderr, "VIOL %s | %s | %s\n", key, replay ? replay : "", k);
    if (vf_nviol > 400) return; /* cap output volume */
    vf_emit2("viol", "key", key, "msg", k, "replay", replay ? replay : "");
}
static void vf_incon(const char *fmt, ...)
{
    char k[1024]; va_list ap; va_start(ap, fmt); vsnprintf(k, sizeof k, fmt, ap); va_end(ap);
    vf_emit2("incon", "msg", k, NULL, NULL, NULL, NULL);
}

/* flush stats + distinct hashes (additive records; call once per process that accumulated them) */
static void vf_flush(void)
{
    char b[256];
    for (int i = 0; i < vf_nstats; i++) {
        int n = snprintf(b, sizeof b, "{\"t\":\"%s\",\"k\":\"%s\",\"v\":%ld}\n", vf_stats[i].ismax ? "max" : "stat", vf_stats[i].k, vf_stats[i].v);
        vf_write(b, n);
    }
    vf_nstats = 0;
    if (vf_dn) {
        size_t cap = 32 + vf_dn * 20; char *o = malloc(cap); size_t n = 0, cnt = 0;
        for (size_t i = 0; i < vf_dcap; i++) if (vf_dset[i]) {
            if (cnt == 0) n = snprintf(o, cap, "{\"t\":\"dh\",\"v\":[");
            n += snprintf(o + n, cap - n, "%s\"%llx\"", cnt ? "," : "", (unsigned long long) vf_dset[i]);
            if (++cnt == 2000) { n += snprintf(o + n, cap - n, "]}\n"); vf_write(o, n); cnt = 0; }
        }
        if (cnt) { n += snprintf(o + n, cap - n, "]}\n"); vf_write(o, n); }
        free(o);
        memset(vf_dset, 0, vf_dcap * 8); vf_dn = 0;
    }
}

static const char *vf_arg(const char *name, const char *def)
{
    for (int i = 1; i + 1 < vf_argc; i++) if (!strcmp(vf_argv[i], name)) return vf_argv[i + 1];
    return def;
}
static long vf_argl(const char *name, long def) { const char *s = vf_arg(name, NULL); return s ? strtol(s, NULL, 0) : def; }
static int vf_flag(const char *name) { for (int i = 1; i < vf_argc; i++) if (!strcmp(vf_argv[i], name)) return 1; return 0; }

static void vf_init(int argc, char **argv)
{
    vf_argc = argc; vf_argv = argv;
    const char *s = vf_arg("--seed", getenv("VERIF_SEED"));
    if (s) vf_seed = strtoull(s, NULL, 0);
    s = vf_arg("--shard", NULL);
    if (s) sscanf(s, "%d/%d", &vf_shard, &vf_nshards);
    s = vf_arg("--tier", "quick");
    vf_thorough = !strcmp(s, "thorough");
    vf_case = vf_arg("--case", NULL);
    vf_verbose = vf_flag("-v") || vf_case;
    s = vf_arg("--out", NULL);
    if (s) { vf_outfd = open(s, O_WRONLY | O_CREAT | O_APPEND, 0644); if (vf_outfd < 0) { perror(s); exit(2); } }
    signal(SIGPIPE, SIG_IGN);
}
static int vf_mine(long idx) { return vf_nshards <= 1 || (idx % vf_nshards) == vf_shard; }

/* ---- fork-per-case ----
 * Runs fn(arg) in a child whose stderr goes to a temp file.  The child calls
 * vf_flush() and _exit(0) when fn returns.  Abnormal termination (sanitizer
 * report, signal, watchdog) is written as a "crash"/"hang" record carrying the
 * captured stderr; the driver derives the finding key from it. Returns 0 when
 * the child exited normally, 1 on crash, 2 on hang. */
static int vf_last_status;
static int vf_fork_case(void (*fn)(void *), void *arg, const char *cls, const char *casespec, int timeout_s)
{
    char tmpl[] = "/dev/shm/vfXXXXXX";
    int efd = mkstemp(tmpl);
    if (efd < 0) { char t2[] = "/var/tmp/vfXXXXXX"; efd = mkstemp(t2); if (efd >= 0) unlink(t2); } else unlink(tmpl);
    fflush(NULL);
    pid_t pid = fork();
    if (pid < 0) { vf_incon("fork failed: %s", strerror(errno)); if (efd >= 0) close(efd); return 1; }
    if (pid == 0) {
        if (efd >= 0) { dup2(efd, 2); }
        alarm(timeout_s > 0 ? timeout_s : 60);
        vf_nstats = 0; vf_dn = 0; if (vf_dset) memset(vf_dset, 0, vf_dcap * 8);
        fn(arg);
        vf_flush();
        fflush(NULL);
        _exit(0);
    }
    int st = 0;
    while (waitpid(pid, &st, 0) < 0 && errno == EINTR) ;
    vf_last_status = st;
    int rc = 0;
    if (vf_case && efd >= 0) { char eb[4096]; ssize_t n; lseek(efd, 0, SEEK_SET); while ((n = read(efd, eb, sizeof eb)) > 0) (void) !write(2, eb, n); }
    if (!(WIFEXITED(st) && WEXITSTATUS(st) == 0)) {
        char *buf = calloc(1, 24000);
        if (efd >= 0) { off_t sz = lseek(efd, 0, SEEK_END); off_t start = 0; lseek(efd, start, SEEK_SET); ssize_t n = read(efd, buf, 23000); (void) sz; if (n < 0) n = 0; buf[n] = 0; }
        char stb[64];
        if (WIFSIGNALED(st)) snprintf(stb, sizeof stb, "signal-%d", WTERMSIG(st)); else snprintf(stb, sizeof stb, "exit-%d", WEXITSTATUS(st));
        int hang = WIFSIGNALED(st) && WTERMSIG(st) == SIGALRM;
        size_t cap = 64 + 7 * (strlen(buf) + strlen(casespec) + 64);
        char *o = malloc(cap), *e = malloc(cap);
        size_t n = snprintf(o, cap, "{\"t\":\"%s\",\"cls\":\"%s\",\"status\":\"%s\"", hang ? "hang" : "crash", cls, stb);
        vf_json_esc(e, cap, casespec, strlen(casespec)); n += snprintf(o + n, cap - n, ",\"case\":\"%s\"", e);
        vf_json_esc(e, cap, buf, strlen(buf)); n += snprintf(o + n, cap - n, ",\"stderr\":\"%s\"}\n", e);
        vf_write(o, n);
        if (vf_verbose) fprintf(stderr, "CRASH case=%s status=%s\n%s\n", casespec, stb, buf);
        free(o); free(e); free(buf);
        rc = hang ? 2 : 1;
    }
    if (efd >= 0) close(efd);
    return rc;
}

static void vf_hex(char *dst, const unsigned char *p, size_t n) { for (size_t i = 0; i < n; i++) sprintf(dst + 2 * i, "%02x", p[i]); dst[2 * n] = 0; }
static int vf_unhex(unsigned char *dst, const char *s) { int n = 0; while (s[0] && s[1]) { unsigned v; if (sscanf(s, "%2x", &v) != 1) break; dst[n++] = v; s += 2; } return n; }

#endif
