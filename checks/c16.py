import vflib
WRAPS = ("psGetEntropy", "gettimeofday", "time")
def run(ctx):
    st = [dict(variant="asan", name="c16", sources=["checks/c16_dtls.c", "harness/mx_wraps.c"], wraps=WRAPS,
               shards=vflib.NCPU, timeout=10800 if ctx.thorough else 1500)]
    rule = ("Each case = (a) one delivery schedule - one fate per datagram in global send order: deliver, drop, duplicate, late duplicate, delay k rounds, swap with next, "
            "delayed-and-duplicated; optionally spurious timer expiries; optionally 'eager writers' (client, server or both write their first application datagram the moment their OWN "
            "handshake is reported complete, i.e. the sender of the final flight writes before its peer has seen that flight) - applied to a complete in-memory DTLS handshake (full / "
            "session-id resumed / client-auth / full with RFC 5077 ticket issued / resumed by ticket) plus a "
            "bidirectional data exchange, driven with the reference applications' discipline in logical rounds: all 2^m drop patterns over the first m datagrams (PSK: again with both sides "
            "eager, thorough also client-only / server-only), every single duplicate/swap/delay position (PSK: again with both eager), seeded random schedules (random eager mode), every single "
            "spurious-timeout point, loss of the final flight of the configuration's clean handshake followed by drop patterns over the next datagrams (no / final-flight sender / both eager) "
            "and, for ECDHE-ECDSA, every single datagram lost alone repeated under 2-3 (thorough 12) entropy variations, because ECDSA signature lengths vary and ServerKeyExchange / "
            "CertificateVerify flights are rebuilt around the cached signature; the entropy of every schedule case is a function of its spec and the seed; or (b) one replay case on a fork()ed clone of an established session "
            "(four establishment variants): each captured record / multi-record datagram (epoch 0 handshake, Finished, application data, superseded-epoch Finished) replayed at "
            "each position of a fresh exchange alone, after the peer's Finished, twice, or in pairs; and the sequence-gap family (g = 1..40 datagrams lost in a row, then replays "
            "of the post-gap, pre-gap, older and late in-window records). Suites PSK-CBC (0x008c, 0x00ae), RSA-CBC/GCM (0x002f, 0x009c), ECDHE-RSA-CBC/GCM (0xc013, 0xc02f), "
            "ECDHE-ECDSA-CBC/GCM (0xc009, 0xc02b; thorough also 0xc023, 0xc02c; P-256 sample identities on both sides for client-auth) x "
            "DTLS 1.0/1.2 x PMTU 1500/600/400 (256 for PSK). distinct_nontrivial = distinct (version, suite, PMTU, handshake kind, fates actually consumed, options = spurious events + eager writers + entropy variation) for "
            "schedules and distinct (version, suite, PMTU, kind, establishment, mode, record identity (direction, epoch, sequence, datagram?), second record, position) or "
            "(…, gap, variant, direction) for replays.")
    return vflib.std_run(ctx, st, "fault_enumeration", rule,
        ["the transport drops, duplicates, delays and reorders whole datagrams but never forges, truncates or coalesces them (forgery is C02/C08)",
         "timers are logical: a retransmission timer fires only in a round with an empty network (reference-application discipline: server session created on first datagram, "
         "completed client never times out, resumed-complete server never resends), except in the explicitly generated spurious-timeout class",
         "rehandshakes are compiled out in this configuration, so 'previous epoch' means epoch 0 and the epoch of a superseded (retransmitted) Finished",
         "PMTU 256 is only exercised with PSK suites: a 2048-bit RSA ClientKeyExchange/ServerKeyExchange/CertificateVerify does not fit one 256-byte datagram and the library answers internal_error by design",
         "an application datagram that the schedule itself delays across rounds carries no delivery obligation (a record of a superseded epoch may be discarded); at-most-once still applies",
         "an application datagram of an eager writer carries a delivery obligation only if it reaches a peer whose handshake is already complete and no datagram of a higher epoch of the same "
         "direction was delivered before it (RFC 6347 4.1: data arriving before the handshake completes may be buffered or discarded; this library discards); the handshake-completion, "
         "no-error and at-most-once oracles apply unchanged, and data written after both completions must be delivered"],
        min_nontrivial=2000)
