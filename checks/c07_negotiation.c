/* C07 - negotiated parameters are ones both sides enabled; downgrades and hello tampering refused.
 *
 * Reference-model monitor.  For every pair of client/server configurations the reference
 * negotiation function says whether the handshake may complete and, if so, which version must
 * result (highest common) and which sets the suite / group / signature scheme must come from;
 * both endpoints must report identical parameters and exchange data.  A man in the middle then
 * rewrites single fields of ClientHello / ServerHello (parsed and re-encoded with correct
 * lengths): neither side may complete.  fallback_scsv below the server's maximum and a TLS 1.3
 * downgrade sentinel must kill the handshake at the hello. */
#include "mx.h"

static const char *cur_class = "?"; static char cur_desc[256]; static int cur_v = -1;
static void report(const char *clause, const char *fmt, ...)
{
    char key[200], msg[700]; va_list ap; va_start(ap, fmt); vsnprintf(msg, sizeof msg, fmt, ap); va_end(ap);
    snprintf(key, sizeof key, "c07:%s:%s", clause, cur_class);
    vf_violation(key, cur_desc, "%s", msg);
}
static int vmask_max(int m) { for (int i = MX_NVER - 1; i >= 0; i--) if (m & (1 << i)) return i; return -1; }
static int wire_to_ver(psProtocolVersion_t v) { if (v & v_tls_1_3_any) return MX_TLS13; if (v & v_tls_1_2) return MX_TLS12; if (v & v_tls_1_1) return MX_TLS11; if (v & v_dtls_1_2) return MX_DTLS12; if (v & v_dtls_1_0) return MX_DTLS10; return -1; }

/* ---------------------------------------------------------------- hello parser / editor ---- */
typedef struct { int type, len; const unsigned char *data; } ext_t;
typedef struct {
    int isServer, dtls; unsigned char legacy[2], random[32]; int sidlen; unsigned char sid[32];
    int nsuites; uint16_t suites[200]; int ncomp; unsigned char comp[8]; int cookielen; unsigned char cookie[255];
    int next; ext_t ext[40]; int hasExt; int msgSeq;
} hello_t;
static int parse_hello(const unsigned char *rec, int n, int dtls, hello_t *h)
{
    int rh = dtls ? 13 : 5, hh = dtls ? 12 : 4; memset(h, 0, sizeof *h); h->dtls = dtls;
    if (n < rh + hh + 35 || rec[0] != 22) return -1;
    const unsigned char *p = rec + rh; int type = p[0]; if (type != 1 && type != 2) return -1;
    h->isServer = type == 2; if (dtls) h->msgSeq = (p[4] << 8) | p[5];
    int bl = (p[1] << 16) | (p[2] << 8) | p[3]; p += hh; const unsigned char *e = p + bl; if (e > rec + n) return -1;
    memcpy(h->legacy, p, 2); p += 2; memcpy(h->random, p, 32); p += 32;
    h->sidlen = *p++; if (h->sidlen > 32 || p + h->sidlen > e) return -1; memcpy(h->sid, p, h->sidlen); p += h->sidlen;
    if (!h->isServer) {
        if (dtls) { h->cookielen = *p++; memcpy(h->cookie, p, h->cookielen); p += h->cookielen; }
        int sl = (p[0] << 8) | p[1]; p += 2; if (sl / 2 > 200) return -1; for (int i = 0; i < sl / 2; i++) h->suites[h->nsuites++] = (p[2 * i] << 8) | p[2 * i + 1]; p += sl;
        h->ncomp = *p++; if (h->ncomp > 8) return -1; memcpy(h->comp, p, h->ncomp); p += h->ncomp;
    } else { h->nsuites = 1; h->suites[0] = (p[0] << 8) | p[1]; p += 2; h->ncomp = 1; h->comp[0] = *p++; }
    if (p + 2 <= e) { h->hasExt = 1; int el = (p[0] << 8) | p[1]; p += 2; const unsigned char *ee = p + el; if (ee > e) return -1;
        while (p + 4 <= ee && h->next < 40) { ext_t *x = &h->ext[h->next++]; x->type = (p[0] << 8) | p[1]; x->len = (p[2] << 8) | p[3]; x->data = p + 4; p += 4 + x->len; if (p > ee) return -1; } }
    return 0;
}
static int build_hello(const hello_t *h, unsigned char *out, const unsigned char *origrec)
{
    int rh = h->dtls ? 13 : 5, hh = h->dtls ? 12 : 4; unsigned char *b = out + rh + hh, *p = b;
    memcpy(p, h->legacy, 2); p += 2; memcpy(p, h->random, 32); p += 32; *p++ = h->sidlen; memcpy(p, h->sid, h->sidlen); p += h->sidlen;
    if (!h->isServer) {
        if (h->dtls) { *p++ = h->cookielen; memcpy(p, h->cookie, h->cookielen); p += h->cookielen; }
        *p++ = (h->nsuites * 2) >> 8; *p++ = (h->nsuites * 2) & 255; for (int i = 0; i < h->nsuites; i++) { *p++ = h->suites[i] >> 8; *p++ = h->suites[i] & 255; }
        *p++ = h->ncomp; memcpy(p, h->comp, h->ncomp); p += h->ncomp;
    } else { *p++ = h->suites[0] >> 8; *p++ = h->suites[0] & 255; *p++ = h->comp[0]; }
    if (h->hasExt) { unsigned char *lp = p; p += 2; for (int i = 0; i < h->next; i++) { *p++ = h->ext[i].type >> 8; *p++ = h->ext[i].type & 255; *p++ = h->ext[i].len >> 8; *p++ = h->ext[i].len & 255; memcpy(p, h->ext[i].data, h->ext[i].len); p += h->ext[i].len; }
        int el = (int) (p - lp - 2); lp[0] = el >> 8; lp[1] = el & 255; }
    int bl = (int) (p - b);
    memcpy(out, origrec, rh + hh);
    out[rh + 1] = bl >> 16; out[rh + 2] = bl >> 8; out[rh + 3] = bl;
    if (h->dtls) { out[rh + 9] = bl >> 16; out[rh + 10] = bl >> 8; out[rh + 11] = bl; }
    int rl = hh + bl; out[rh - 2] = rl >> 8; out[rh - 1] = rl;
    return rh + rl;
}

/* ---------------------------------------------------------------- configuration pairs ---- */
typedef struct {
    int cmask, smask;                 /* version sets (bit i = MX_ version i) */
    int nsu; uint16_t su[8];          /* client suite list (0 = library default) */
    uint16_t sdis[4]; int nsdis;      /* suites the server disables for its session */
    int ngroupsC, ngroupsS; uint16_t groupsC[4], groupsS[4]; int shares;
    int nsigC, nsigS; uint16_t sigC[4], sigS[4];
    int emsC, emsS, scsv, ecdsa;
    int ascC, ascS;                   /* version lists handed to the API lowest-first instead of highest-first */
} cfg_t;
typedef struct { int kind, field, arg, arg2; } tamper_t;   /* kind 0 = none, 1 = ClientHello edit, 2 = ServerHello edit */
enum { F_LEGACY = 0, F_RANDOM_TAIL, F_SID, F_SUITE_DROP, F_SUITE_INSERT, F_SUITE_SWAP, F_SUITE_SET, F_COMP, F_EXT_REMOVE, F_EXT_DUP, F_EXT_EDIT, F_EXT_APPEND, F_SV_DROP13, F_N };
static const char *fname[] = { "legacy-version", "random-tail", "session-id", "suite-drop", "suite-insert", "suite-swap", "suite-set", "compression", "ext-remove", "ext-duplicate", "ext-edit-byte", "ext-append-unknown", "supported-versions-drop-1.3" };

static void open_pair(mx_conn *k, const cfg_t *c, sslSessionId_t *sid, int *rcs, int *rcc)
{
    sslSessOpts_t so, co; memset(&so, 0, sizeof so); memset(&co, 0, sizeof co); memset(k, 0, sizeof *k);
    psProtocolVersion_t vs[8]; int n = 0; int dtls = (c->cmask | c->smask) & ((1 << MX_DTLS10) | (1 << MX_DTLS12));
    k->dtls = dtls != 0; k->cfg.ver = dtls ? MX_DTLS12 : MX_TLS12;
    if (!dtls) {
        for (int i = MX_NVER - 1; i >= 0; i--) { int j = c->ascS ? MX_NVER - 1 - i : i; if (c->smask & (1 << j)) vs[n++] = mx_verflag(j); }
        matrixSslSessOptsSetServerTlsVersions(&so, vs, n); n = 0;
        for (int i = MX_NVER - 1; i >= 0; i--) { int j = c->ascC ? MX_NVER - 1 - i : i; if (c->cmask & (1 << j)) vs[n++] = mx_verflag(j); }
        matrixSslSessOptsSetClientTlsVersions(&co, vs, n);
    } else {
        /* the version-list setters are TLS-only; DTLS is configured through versionFlag: DTLS|TLS_1_2 = {1.2, 1.0}, DTLS|TLS_1_1 = {1.0};
           "1.2 only" through the public supportedVersions array of the options struct */
        for (int side = 0; side < 2; side++) { sslSessOpts_t *o = side ? &so : &co; int m = (side ? c->smask : c->cmask) >> MX_DTLS10;
            if (m == 1) o->versionFlag = SSL_FLAGS_DTLS | SSL_FLAGS_TLS_1_1; else if (m == 3) o->versionFlag = SSL_FLAGS_DTLS | SSL_FLAGS_TLS_1_2;
            else { o->versionFlag = SSL_FLAGS_DTLS | SSL_FLAGS_TLS_1_2; o->supportedVersions[0] = v_dtls_1_2; o->supportedVersionsLen = 1; } }
    }
    if (c->ngroupsS) matrixSslSessOptsSetKeyExGroups(&so, (uint16_t *) c->groupsS, c->ngroupsS, 1);
    if (c->ngroupsC) matrixSslSessOptsSetKeyExGroups(&co, (uint16_t *) c->groupsC, c->ngroupsC, c->shares ? c->shares : 1);
    if (c->nsigS) matrixSslSessOptsSetSigAlgs(&so, (uint16_t *) c->sigS, c->nsigS);
    if (c->nsigC) matrixSslSessOptsSetSigAlgs(&co, (uint16_t *) c->sigC, c->nsigC);
    if (c->emsS < 0) so.extendedMasterSecret = -1; if (c->emsC < 0) co.extendedMasterSecret = -1;
    if (c->scsv) co.fallbackScsv = 1;
    memset(&k->s, 0, sizeof k->s); memset(&k->c, 0, sizeof k->c);
    k->s.role = MX_SERVER; k->s.id = 1; k->s.name = "S"; k->c.role = MX_CLIENT; k->c.id = 0; k->c.name = "C";
    k->s.ver = k->c.ver = dtls ? MX_DTLS12 : MX_TLS12;
    mx_actor = 1; MX_ENTER(); *rcs = matrixSslNewServerSession(&k->s.ssl, c->ecdsa ? mx_keys.srv_ec : mx_keys.srv_rsa, NULL, &so); MX_LEAVE();
    if (*rcs >= 0) for (int i = 0; i < c->nsdis; i++) { MX_ENTER(); matrixSslSetCipherSuiteEnabledStatus(k->s.ssl, c->sdis[i], PS_FALSE); MX_LEAVE(); }
    psCipher16_t cs[8]; for (int i = 0; i < c->nsu; i++) cs[i] = c->su[i];
    mx_actor = 0; MX_ENTER(); *rcc = matrixSslNewClientSession(&k->c.ssl, mx_keys.cli, sid, c->nsu ? cs : NULL, c->nsu, mx_cert_cb_accept, NULL, NULL, NULL, &co); MX_LEAVE();
    k->c.wantTake = 1; if (*rcc > 0) *rcc = 0;
}

typedef struct { cfg_t c; tamper_t t; const char *cls; } case_t;
static int tamper_applied;
static int apply_tamper(const tamper_t *t, unsigned char **buf, int *len, int dtls)
{
    hello_t h; static unsigned char out[20000]; static unsigned char scratch[600];
    mx_rec r; if (!mx_rec_at(*buf, *len, 0, dtls, &r)) return 0;
    int first = r.hdr + r.len;
    if (parse_hello(*buf, first, dtls, &h) != 0 || h.isServer != (t->kind == 2)) return 0;
    if (dtls && !h.isServer && h.cookielen == 0 && t->field != F_LEGACY) return 0;    /* tamper with the cookie-bearing ClientHello (the first is not in the transcript) */
    switch (t->field) {
    case F_LEGACY: h.legacy[1] ^= (unsigned char) t->arg; break;
    case F_RANDOM_TAIL: h.random[31 - (t->arg % 8)] ^= 0x01; break;
    case F_SID: if (h.sidlen == 0) { if (h.isServer) return 0; h.sidlen = 32; memset(h.sid, 0x5a, 32); } else h.sid[t->arg % h.sidlen] ^= 0x80; break;
    case F_SUITE_DROP: if (h.isServer || h.nsuites < 2) return 0; { int i = t->arg % h.nsuites; memmove(&h.suites[i], &h.suites[i + 1], (h.nsuites - i - 1) * 2); h.nsuites--; } break;
    case F_SUITE_INSERT: if (h.isServer) return 0; memmove(&h.suites[1], &h.suites[0], h.nsuites * 2); h.suites[0] = (uint16_t) t->arg; h.nsuites++; break;
    case F_SUITE_SWAP: if (h.isServer || h.nsuites < 2) return 0; { uint16_t x = h.suites[0]; h.suites[0] = h.suites[h.nsuites - 1]; h.suites[h.nsuites - 1] = x; if (h.suites[0] == x) return 0; } break;
    case F_SUITE_SET: if (!h.isServer || h.suites[0] == (uint16_t) t->arg) return 0; h.suites[0] = (uint16_t) t->arg; break;
    case F_COMP: if (h.isServer) h.comp[0] ^= 1; else { h.comp[h.ncomp] = 1; h.ncomp++; } break;
    case F_EXT_REMOVE: if (h.next == 0) return 0; { int i = t->arg % h.next; memmove(&h.ext[i], &h.ext[i + 1], (h.next - i - 1) * sizeof(ext_t)); h.next--; } break;
    case F_EXT_DUP: if (h.next == 0 || h.next >= 39) return 0; h.ext[h.next] = h.ext[t->arg % h.next]; h.next++; break;
    case F_EXT_EDIT: { if (h.next == 0) return 0; int i = t->arg % h.next; if (h.ext[i].len == 0 || h.ext[i].len > 600) return 0; memcpy(scratch, h.ext[i].data, h.ext[i].len); scratch[t->arg2 % h.ext[i].len] ^= 0x04; h.ext[i].data = scratch; } break;
    case F_EXT_APPEND: if (h.next >= 39) return 0; if (!h.hasExt) h.hasExt = 1; h.ext[h.next].type = 0xfe01 + (t->arg & 7); h.ext[h.next].len = 3; h.ext[h.next].data = (const unsigned char *) "abc"; h.next++; break;
    case F_SV_DROP13: { /* remove TLS 1.3 from supported_versions: both sides could have done 1.3 */
        int found = 0; for (int i = 0; i < h.next; i++) if (h.ext[i].type == 43 && !h.isServer) { int l = h.ext[i].data[0], o = 1; scratch[0] = 0; for (int j = 0; j + 1 < l; j += 2) { if (h.ext[i].data[1 + j] == 3 && h.ext[i].data[2 + j] == 4) { found = 1; continue; } scratch[o++] = h.ext[i].data[1 + j]; scratch[o++] = h.ext[i].data[2 + j]; } scratch[0] = o - 1; if (o == 1) return 0; h.ext[i].data = scratch; h.ext[i].len = o; }
        if (!found) return 0; } break;
    }
    int n = build_hello(&h, out, *buf);
    int rest = *len - first; unsigned char *nb = malloc(n + rest + 1); memcpy(nb, out, n); memcpy(nb + n, *buf + first, rest);
    if (n == first && !memcmp(nb, *buf, n)) { free(nb); return 0; }
    free(*buf); *buf = nb; *len = n + rest; tamper_applied = 1;
    return 1;
}

static int client_state_after_sh = -1, client_dead_after_sh = 0;
static void run_case(void *a_)
{
    case_t *cs = a_; cfg_t *c = &cs->c; mx_conn k; sslSessionId_t *sid; matrixSslNewSessionId(&sid, NULL); int rcs = 0, rcc = 0;
    cur_class = cs->cls; vf_stat("cases", 1);
    open_pair(&k, c, sid, &rcs, &rcc);
    int common = c->cmask & c->smask; int expectV = vmask_max(common);
    if (rcs < 0 || rcc < 0) { vf_stat("session_creation_refused", 1); if (rcs >= 0) mx_ep_free(&k.s); if (rcc >= 0) mx_ep_free(&k.c); return; }
    /* pump flight by flight with the tamper hook on the first flight of each direction */
    tamper_applied = 0; int done_t = 0; int shSeen = 0;
    for (int round = 0; round < 40; round++) {
        mx_ep *snd = (round & 1) ? &k.s : &k.c, *rcv = (round & 1) ? &k.c : &k.s;
        if (k.dtls && !snd->wantTake && snd->ssl->outlen == 0) { if (round > 6) break; continue; }
        unsigned char *b; int n = mx_take(snd, &b);
        if (n <= 0) { free(b); if (round > 3) break; continue; }
        if (!done_t && cs->t.kind == 1 + (round & 1)) { if (apply_tamper(&cs->t, &b, &n, k.dtls)) done_t = 1; }
        if (!rcv->dead) {
            if (k.dtls) { int off = 0; mx_rec r; while (off < n && mx_rec_at(b, n, off, 1, &r)) { if (!rcv->dead) mx_feed(rcv, b + off, r.hdr + r.len); off += r.hdr + r.len; } }
            else mx_feed(rcv, b, n);
        }
        if ((round & 1) && !shSeen && b[0] == 22) { shSeen = 1; client_dead_after_sh = k.c.dead || (k.c.ssl->flags & SSL_FLAGS_ERROR) != 0; client_state_after_sh = k.c.ssl->hsState; }
        free(b);
    }
    int cdone = matrixSslHandshakeIsComplete(k.c.ssl) && !k.c.dead, sdone = matrixSslHandshakeIsComplete(k.s.ssl) && !k.s.dead;
    vf_statf(1, "outcome_%s", cdone && sdone ? "both-complete" : (cdone || sdone) ? "one-side-complete" : "failed");
    if (cs->t.kind) {
        if (!tamper_applied) { vf_stat("tamper_not_applicable", 1); goto out; }
        vf_distinct("%s|%x|%x|%d|%d|%d|%d", cs->cls, c->cmask, c->smask, cs->t.kind, cs->t.field, cs->t.arg, cs->t.arg2);
        if (cdone && sdone) {
            /* both complete although a hello byte changed in flight */
            report("tampered-hello-accepted", "%s %s (arg %d/%d): both endpoints completed the handshake", cs->t.kind == 1 ? "ClientHello" : "ServerHello", fname[cs->t.field], cs->t.arg, cs->t.arg2);
        } else if (cdone || sdone) {
            /* one side believing the handshake done is possible only transiently (last flight lost); it must not deliver data */
            vf_stat("tampered_one_side_complete", 1);
        }
        if (cs->t.field == F_SV_DROP13 && (c->cmask & c->smask & (1 << MX_TLS13)) && shSeen && !client_dead_after_sh)
            report("downgrade-sentinel-ignored", "ClientHello stripped of TLS 1.3: server answered with an older version and the client did not abort at ServerHello (hsState %d)", client_state_after_sh);
        goto out;
    }
    vf_distinct("%s|%d%d|%x|%x|%d|%04x|%d|%d|%d|%d|%d|%d", cs->cls, c->ascC, c->ascS, c->cmask, c->smask, c->nsu, c->nsu ? c->su[0] : 0, c->nsdis, c->ngroupsC, c->ngroupsS, c->nsigC, c->emsC * 3 + c->emsS, c->scsv);
    /* ---- reference negotiation ---- */
    int mustFail = expectV < 0;
    if (c->scsv && vmask_max(c->cmask) < vmask_max(c->smask)) mustFail = 1;      /* RFC 7507: server supports a higher version than the client offers with the SCSV */
    /* with an explicit client suite list a version is only really on offer if the list holds a suite usable with it:
       the expected version is the highest common one for which such a suite exists */
    if (!mustFail && c->nsu) { int found = -1;
        for (int v = MX_NVER - 1; v >= 0 && found < 0; v--) { if (!(common & (1 << v))) continue;
            for (int i = 0; i < c->nsu; i++) { const mx_suite_t *s = mx_suite_by_id(c->su[i]); int dis = 0; for (int j = 0; j < c->nsdis; j++) if (c->sdis[j] == c->su[i]) dis = 1;
                if (s && !dis && mx_suite_ok_for(s, v) && (s->auth == MX_AUTH_PSK || s->tls13 || (s->auth == MX_AUTH_ECDSA) == (c->ecdsa != 0))) found = v; } }
        if (found < 0) mustFail = 2; else expectV = found; }
    if (!mustFail && expectV == MX_TLS13 && c->ngroupsC && c->ngroupsS) { int any = 0; for (int i = 0; i < c->ngroupsC; i++) for (int j = 0; j < c->ngroupsS; j++) if (c->groupsC[i] == c->groupsS[j]) any = 1; if (!any) mustFail = 3; }
    if (mustFail == 1 || mustFail < 0 || expectV < 0) { if (cdone && sdone) report(c->scsv ? "fallback-scsv-ignored" : "completed-without-common-version", "client versions 0x%x server versions 0x%x scsv=%d: handshake completed (negotiated %s)", c->cmask, c->smask, c->scsv, mx_vername[wire_to_ver(matrixSslGetNegotiatedVersion(k.c.ssl)) < 0 ? 0 : wire_to_ver(matrixSslGetNegotiatedVersion(k.c.ssl))]); goto out; }
    if (mustFail >= 2) { if (cdone && sdone) report(mustFail == 2 ? "completed-without-common-suite" : "completed-without-common-group", "handshake completed although the configurations share no usable %s", mustFail == 2 ? "cipher suite" : "key-exchange group"); goto out; }
    if (!(cdone && sdone)) {
        /* completeness is asserted only for the plain configurations (default lists): the reference model does not predict every legal refusal of exotic list combinations */
        if (!c->nsu && !c->nsdis && !c->ngroupsC && !c->ngroupsS && !c->nsigC && !c->nsigS && c->emsC >= 0 && c->emsS >= 0) report("no-handshake-despite-common-version", "client versions 0x%x server versions 0x%x share %s but the handshake failed (client alert-in %d, server alert-in %d)", c->cmask, c->smask, mx_vername[expectV], k.c.alertDesc, k.s.alertDesc);
        else vf_stat("refused_nondefault_configuration", 1);
        goto out;
    }
    int vc = wire_to_ver(matrixSslGetNegotiatedVersion(k.c.ssl)), vs_ = wire_to_ver(matrixSslGetNegotiatedVersion(k.s.ssl));
    psCipher16_t suc = 0, sus = 0; MX_ENTER(); matrixSslGetNegotiatedCiphersuite(k.c.ssl, &suc); matrixSslGetNegotiatedCiphersuite(k.s.ssl, &sus); MX_LEAVE();
    if (vc != vs_ || suc != sus) report("endpoints-disagree", "client reports %s/%04x, server %s/%04x", mx_vername[vc < 0 ? 0 : vc], suc, mx_vername[vs_ < 0 ? 0 : vs_], sus);
    if (!(common & (1 << vc))) report("version-not-mutually-enabled", "negotiated %s, client set 0x%x server set 0x%x", mx_vername[vc < 0 ? 0 : vc], c->cmask, c->smask);
    else if (vc != expectV && !c->ascC && !c->ascS) report("not-highest-common-version",   /* "by default": an application that lists its versions lowest-first has stated another preference */ "negotiated %s but %s is enabled on both sides (client 0x%x server 0x%x)", mx_vername[vc], mx_vername[expectV], c->cmask, c->smask);
    if (c->nsu) { int in = 0; for (int i = 0; i < c->nsu; i++) if (c->su[i] == suc) in = 1; if (!in) report("suite-not-offered", "negotiated suite %04x was not in the client's list", suc); }
    for (int j = 0; j < c->nsdis; j++) if (c->sdis[j] == suc) report("suite-disabled-on-server", "negotiated suite %04x had been disabled on the server session", suc);
    { const mx_suite_t *s = mx_suite_by_id(suc); if (!s || !mx_suite_ok_for(s, vc)) report("suite-not-usable-with-version", "suite %04x negotiated with %s", suc, mx_vername[vc]); }
    if (vc == MX_TLS13) {
        uint16_t g = k.s.ssl->tls13NegotiatedGroup, gc = k.c.ssl->tls13NegotiatedGroup;
        if (g != gc) report("endpoints-disagree", "key-exchange group client %u server %u", gc, g);
        if (c->ngroupsC) { int in = 0; for (int i = 0; i < c->ngroupsC; i++) if (c->groupsC[i] == g) in = 1; if (!in && g) report("group-not-offered", "group %u not in the client's list", g); }
        if (c->ngroupsS) { int in = 0; for (int i = 0; i < c->ngroupsS; i++) if (c->groupsS[i] == g) in = 1; if (!in && g) report("group-not-enabled-on-server", "group %u not in the server's list", g); }
        uint16_t sa = k.c.ssl->sec.tls13PeerCvSigAlg;
        if (c->nsigC && sa) { int in = 0; for (int i = 0; i < c->nsigC; i++) if (c->sigC[i] == sa) in = 1; if (!in) report("sigalg-not-offered", "server signed CertificateVerify with 0x%04x which the client did not offer", sa); }
    }
    /* same keys: data must round-trip */
    { unsigned char p[64]; mx_payload(p, 64, 0x0c07, 0, 1); mx_send(&k.c, p, 64); unsigned char *b; int n = mx_take(&k.c, &b); if (n > 0) mx_feed(&k.s, b, n); free(b);
      if (k.s.gotlen != 64 || memcmp(k.s.got, p, 64)) report("data-does-not-round-trip", "64 bytes client->server after completion: server got %zu", k.s.gotlen);
      mx_payload(p, 64, 0x0c07, 1, 1); mx_send(&k.s, p, 64); n = mx_take(&k.s, &b); if (n > 0) mx_feed(&k.c, b, n); free(b);
      if (k.c.gotlen != 64 || memcmp(k.c.got, p, 64)) report("data-does-not-round-trip", "64 bytes server->client after completion: client got %zu", k.c.gotlen); }
    vf_stat("negotiations_checked", 1);
out:
    mx_ep_free(&k.c); mx_ep_free(&k.s); matrixSslDeleteSessionId(sid);
}

static case_t *cases; static long ncases, capcases;
static void add_case(const cfg_t *c, const tamper_t *t, const char *cls) { if (ncases == capcases) { capcases = capcases ? capcases * 2 : 4096; cases = realloc(cases, capcases * sizeof *cases); } cases[ncases].c = *c; if (t) cases[ncases].t = *t; else memset(&cases[ncases].t, 0, sizeof(tamper_t)); cases[ncases].cls = cls; ncases++; }

int main(int argc, char **argv)
{
    vf_init(argc, argv); mx_global_init(); mx_keys_load();
    vf_rng g; vf_rng_init(&g, vf_seed, 7);
    cfg_t base; memset(&base, 0, sizeof base);
    /* 1. version subsets, exhaustive: 7x7 TLS and 3x3 DTLS, default suites */
    for (int cm = 1; cm < 8; cm++) for (int sm = 1; sm < 8; sm++) { cfg_t c = base; c.cmask = cm; c.smask = sm; add_case(&c, NULL, "tls-version-sets"); c.ecdsa = 1; if ((cm ^ sm) & 1) add_case(&c, NULL, "tls-version-sets");
        for (int ord = 1; ord < 4; ord++) { cfg_t d = base; d.cmask = cm; d.smask = sm; d.ascC = ord & 1; d.ascS = ord >> 1; add_case(&d, NULL, "tls-version-sets-listed-lowest-first"); } }
    for (int cm = 1; cm < 4; cm += 2) for (int sm = 1; sm < 4; sm += 2) { cfg_t c = base; c.cmask = cm << MX_DTLS10; c.smask = sm << MX_DTLS10; add_case(&c, NULL, "dtls-version-sets"); c.ecdsa = 1; add_case(&c, NULL, "dtls-version-sets"); }   /* {1.0} and {1.0,1.2}: the sets the API can express */
    /* 2. suites: every single suite on every version it fits, server with and without that suite disabled; random lists */
    for (int v = 0; v < MX_NVER; v++) for (int i = 0; i < MX_NSUITES; i++) { const mx_suite_t *s = &mx_suites[i]; if (!mx_suite_ok_for(s, v)) continue;
        cfg_t c = base; c.cmask = c.smask = v == MX_DTLS12 ? (3 << MX_DTLS10) : (1 << v); c.nsu = 1; c.su[0] = s->id; c.ecdsa = s->auth == MX_AUTH_ECDSA; add_case(&c, NULL, "single-suite");
        if (v == MX_TLS12 || v == MX_TLS13 || vf_thorough) { c.nsdis = 1; c.sdis[0] = s->id; add_case(&c, NULL, "suite-disabled-on-server"); } }
    for (int i = 0; i < (vf_thorough ? 1500 : 120); i++) { cfg_t c = base; c.cmask = 1 + vf_below(&g, 7); c.smask = 1 + vf_below(&g, 7); c.nsu = 1 + vf_below(&g, 6); c.ecdsa = vf_below(&g, 2);
        for (int j = 0; j < c.nsu; j++) c.su[j] = mx_suites[vf_below(&g, MX_NSUITES)].id; c.nsdis = vf_below(&g, 3); for (int j = 0; j < c.nsdis; j++) c.sdis[j] = c.su[vf_below(&g, c.nsu)]; add_case(&c, NULL, "suite-lists"); }
    /* 3. TLS 1.3 groups and signature algorithms; extended master secret */
    static const uint16_t grp[] = { 23, 24, 25, 29 };
    for (int a = 1; a < 16; a++) for (int b = 1; b < 16; b++) { if (!vf_thorough && ((a * 5 + b) % 4)) continue; cfg_t c = base; c.cmask = c.smask = 1 << MX_TLS13;
        for (int i = 0; i < 4; i++) { if (a & (1 << i)) c.groupsC[c.ngroupsC++] = grp[i]; if (b & (1 << i)) c.groupsS[c.ngroupsS++] = grp[3 - i]; } c.shares = 1; add_case(&c, NULL, "tls13-groups"); }
    static const uint16_t sigs[] = { 0x0401, 0x0804, 0x0501, 0x0805 };
    for (int a = 1; a < 16; a++) { cfg_t c = base; c.cmask = c.smask = 1 << MX_TLS13; for (int i = 0; i < 4; i++) if (a & (1 << i)) c.sigC[c.nsigC++] = sigs[i]; add_case(&c, NULL, "tls13-sigalgs"); }
    for (int e = 0; e < 4; e++) for (int v = MX_TLS11; v <= MX_TLS12; v++) { cfg_t c = base; c.cmask = c.smask = 1 << v; c.emsC = (e & 1) ? -1 : 0; c.emsS = (e & 2) ? -1 : 0; add_case(&c, NULL, "extended-master-secret"); }
    /* 4. fallback SCSV */
    for (int cm = 1; cm < 8; cm++) for (int sm = 1; sm < 8; sm++) for (int ord = 0; ord < 4; ord++) { cfg_t c = base; c.cmask = cm; c.smask = sm; c.scsv = 1; c.ascC = ord & 1; c.ascS = ord >> 1; if (vmask_max(cm) == MX_TLS13) continue; add_case(&c, NULL, "fallback-scsv"); }
    /* 5. hello tampering: every field, on several configurations */
    int tcfg[][2] = { { 7, 7 }, { 2, 7 }, { 3, 3 }, { 4, 4 }, { 1, 1 }, { 1 << MX_DTLS12, 3 << MX_DTLS10 }, { 6, 6 } };
    for (int ci = 0; ci < 7; ci++) for (int kind = 1; kind <= 2; kind++) for (int f = 0; f < F_N; f++) {
        int reps = (f == F_EXT_REMOVE || f == F_EXT_DUP) ? 12 : f == F_EXT_EDIT ? (vf_thorough ? 200 : 40) : (f == F_RANDOM_TAIL) ? 8 : (f == F_SUITE_DROP) ? 6 : 2;
        for (int r = 0; r < reps; r++) { cfg_t c = base; c.cmask = tcfg[ci][0]; c.smask = tcfg[ci][1]; if (ci == 6) c.ecdsa = 1;
            tamper_t t = { kind, f, r, (int) vf_below(&g, 600) };
            if (f == F_LEGACY) t.arg = r ? 2 : 1; if (f == F_SUITE_INSERT) t.arg = r ? 0x0005 : 0x002f; if (f == F_SUITE_SET) t.arg = r ? 0x002f : 0x1301; if (f == F_EXT_EDIT) t.arg = r;
            add_case(&c, &t, kind == 1 ? "clienthello-rewrite" : "serverhello-rewrite"); } }
    for (long i = 0; i < ncases; i++) {
        if (!vf_mine(i)) continue;
        case_t *cs = &cases[i];
        snprintf(cur_desc, sizeof cur_desc, "case=%ld cls=%s c=0x%x s=0x%x nsu=%d su0=%04x dis=%d t=%d/%s/%d/%d scsv=%d", i, cs->cls, cs->c.cmask, cs->c.smask, cs->c.nsu, cs->c.nsu ? cs->c.su[0] : 0, cs->c.nsdis, cs->t.kind, fname[cs->t.field], cs->t.arg, cs->t.arg2, cs->c.scsv);
        if (vf_case) { long want = -1; sscanf(vf_case, "case=%ld", &want); if (want != i) continue; }
        if (i % 211 == 0) vf_sample("%s", cur_desc);
        mx_entropy_seed(vf_seed * 7919 + i);
        vf_fork_case(run_case, cs, "c07", cur_desc, 120);
    }
    mx_keys_free(); matrixSslClose(); vf_flush();
    return 0;
}
