#!/usr/bin/env python3
"""seedrun.py <seeded/ID> <CHECK> [<CHECK>...] [--tier quick|thorough]: run checks against a scratch worktree of
/repo with the seeded patch applied (equivalent to `git -C /repo apply` + run + `git checkout -- .`, but safe
while other work uses /repo). Prints one line per check: caught / missed + the violation keys."""
import sys, os, subprocess, json, re, shutil
args = sys.argv[1:]; tier = "quick"
if "--tier" in args: i = args.index("--tier"); tier = args[i + 1]; del args[i:i + 2]
d = os.path.abspath(args[0]); sid = os.path.basename(d); checks = args[1:]
wt = "/var/tmp/seedrun-" + sid; scratch = "/var/tmp/vb-seedrun-" + sid
subprocess.run("git -C /repo worktree remove --force %s; rm -rf %s" % (wt, wt), shell=True, capture_output=True)
subprocess.run("git -C /repo worktree add --detach %s HEAD" % wt, shell=True, check=True, capture_output=True)
for f in ("crypto/cryptoConfig.h", "matrixssl/matrixsslConfig.h", "core/config/coreConfig.h"):
    if os.path.exists("/repo/" + f): shutil.copy("/repo/" + f, wt + "/" + f)
out = {}
try:
    p = subprocess.run(["git", "apply", d + "/patch.diff"], cwd=wt, capture_output=True, text=True)
    if p.returncode: print("PATCH DOES NOT APPLY:", p.stderr); sys.exit(2)
    env = dict(os.environ, VERIF_REPO=wt, VERIF_SCRATCH=scratch)
    for c in checks:
        p = subprocess.run(["./check", c, "--tier", tier], cwd="/verif", env=env, capture_output=True, text=True)
        keys = re.findall(r"^VIOLATION .*key=(\S+)", p.stdout, re.M)
        out[c] = {"exit": p.returncode, "keys": keys}
        print("%s vs %s [%s]: %s exit=%d %s" % (sid, c, tier, "CAUGHT" if p.returncode == 1 else "missed", p.returncode, keys[:6]))
finally:
    subprocess.run("git -C /repo worktree remove --force %s; rm -rf %s %s" % (wt, wt, scratch), shell=True, capture_output=True)
    # restore evidence files written by the mutated runs
    subprocess.run("git -C /verif checkout -- evidence 2>/dev/null", shell=True)
df = os.path.join(d, "detect-%s.json" % tier)
try: prev = json.load(open(df))
except Exception: prev = {}
prev.update(out)     # results of checks not run this time are kept
json.dump(prev, open(df, "w"), indent=1)
