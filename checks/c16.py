import vflib
WRAPS = ("psGetEntropy", "gettimeofday", "time")
def run(ctx):
    st = [dict(variant="asan", name="c16", sources=["checks/c16_dtls.c", "harness/mx_wraps.c"], wraps=WRAPS,
               shards=vflib.NCPU, timeout=7200 if ctx.thorough else 900)]
    rule = ("Each case = one delivery schedule (one fate per datagram in send order: deliver, drop, duplicate, late duplicate, delay k rounds, swap with next; optionally spurious "
            "timer expiries) applied to a complete in-memory DTLS handshake plus data exchange, or one replay position of one captured record/datagram in an established session. "
            "distinct_nontrivial = distinct (version, suite, PMTU, handshake kind, schedule signature = fates actually consumed + spurious-timeout events) for schedules and distinct "
            "(version, suite, PMTU, handshake kind, establishment variant, replay mode, record identity (direction, epoch, sequence), position) for replays.")
    return vflib.std_run(ctx, st, "fault_enumeration", rule,
        ["the transport drops, duplicates, delays and reorders whole datagrams but never forges or truncates them (forgery is C02/C08)",
         "timers are modelled as logical rounds: a retransmission timer fires only when the network is empty (reference-application discipline), except in the explicit spurious-timeout class",
         "rehandshakes are compiled out in this configuration, so 'previous epoch' means epoch 0 and the epoch of a superseded (retransmitted) Finished",
         "replay window behaviour beyond 32 records of reordering is not exercised (delays are at most 9 rounds)"],
        min_nontrivial=2000)
