#!/usr/bin/env python3
"""verify_seed.py <seeded/ID>: independently confirm a seeded change in a scratch worktree of /repo:
baseline builds + demo passes; with patch: builds, the repository test binaries still PASS exactly as
the baseline list, demo fails. Writes the result into <dir>/verified.json and removes the worktree."""
import sys, os, subprocess, json, re, shutil, time
d = os.path.abspath(sys.argv[1]); sid = os.path.basename(d)
wt = "/var/tmp/seedverify-" + sid
def sh(cmd, cwd=None, timeout=3600):
    p = subprocess.run(cmd, shell=True, cwd=cwd, capture_output=True, text=True, timeout=timeout)
    return p.returncode, (p.stdout + p.stderr)
subprocess.run("git -C /repo worktree remove --force %s; rm -rf %s" % (wt, wt), shell=True, capture_output=True)
rc, out = sh("git -C /repo worktree add --detach %s HEAD" % wt); assert rc == 0, out
res = {"seed": sid, "repo_head": sh("git -C /repo rev-parse --short HEAD")[1].strip(), "at": time.strftime("%Y-%m-%dT%H:%M:%SZ", time.gmtime())}
try:
    def build():
        return sh("make -j8 2>&1 | tail -5", cwd=wt)
    def tests():
        passed, failed = set(), set()
        for b in ("algorithmTest", "eccTest", "hmacTest", "rsaTest", "cryptoOpen"):
            rc, out = sh("./" + b, cwd=wt + "/crypto/test")
            for m in re.finditer(r"^\s*(.+?)\.\.\.\s*(?:.*?)(PASSED|FAILED)", out, re.M):
                (passed if m.group(2) == "PASSED" else failed).add(m.group(1).strip())
            if rc != 0: failed.add(b + " exit %d" % rc)
        return passed, failed
    def demo():
        bs = os.path.join(d, "build.sh")
        rc, out = sh("cd %s && sh %s %s 2>&1" % (d, bs, wt))
        exe = None
        for cand in ("demo", "demo_A", "demo_B", "demoA", "demoB"):
            if os.path.exists(os.path.join(d, cand)): exe = os.path.join(d, cand)
        if rc != 0 or not exe: return None, "build failed: " + out[-500:]
        rc, out = sh(exe, cwd=d, timeout=900)
        if rc == 2:   # demos that take the tree as argv[1] report a harness problem (exit 2) without it
            rc, out = sh(exe + " " + wt, cwd=d, timeout=900)
        return rc, out[-600:]
    rc, out = build(); res["baseline_build_rc"] = rc
    rc, out = demo(); res["baseline_demo_rc"] = rc; res["baseline_demo_tail"] = out[-300:]
    rc, out = sh("git apply %s/patch.diff" % d, cwd=wt); res["apply_rc"] = rc
    rc, out = build(); res["patched_build_rc"] = rc
    base = json.load(open("/root/.vp/BASELINE.json"))["stable_pass"]
    p, f = tests(); res["patched_tests_passed"] = len(p); res["patched_tests_failed"] = sorted(f); res["patched_baseline_missing"] = [t for t in base if t not in p]
    rc, out = demo(); res["patched_demo_rc"] = rc; res["patched_demo_tail"] = out[-400:]
    res["confirmed"] = bool(res["baseline_build_rc"] == 0 and res["baseline_demo_rc"] == 0 and res["apply_rc"] == 0 and res["patched_build_rc"] == 0
                            and not res["patched_tests_failed"] and not res["patched_baseline_missing"] and res["patched_demo_rc"] not in (0, None))
finally:
    for f in os.listdir(d):
        p = os.path.join(d, f)
        if os.path.isfile(p) and os.access(p, os.X_OK) and not f.endswith(".sh"): os.unlink(p)
    subprocess.run("git -C /repo worktree remove --force %s; rm -rf %s" % (wt, wt), shell=True, capture_output=True)
json.dump(res, open(os.path.join(d, "verified.json"), "w"), indent=1)
print(json.dumps(res, indent=1))
