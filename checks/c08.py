"""C08 - no memory fault, hang or leak on any network input in any state.

Engine: libFuzzer (clang-14, ASan+UBSan+LSan, `fuzz` build variant) over the in-process TLS/DTLS
harness checks/c08_netfuzz.c (+ record / handshake-message aware mutator checks/c08_mutator.c).
One target per (scenario group x role under attack); the structured input selects
(lane, flags, cut point, chunking seed) and carries the payload (raw bytes, or plaintext records
that the harness protects under the keys the target currently expects).  Oracles: the sanitizers,
libFuzzer's timeout / rss watchdogs, and the API-boundary oracle of the harness
("C08-ORACLE: c08:<what>": undocumented return codes, I/O buffers beyond SSL_MAX_BUF_SIZE or with a
negative / oversized fill level, handshake reassembly buffers beyond 64 KiB, application data or alerts
reported outside the input buffer, unbounded ReceivedData/ProcessedData loops).

Phases
  1. replay: every committed seed of every target (corpus/c08/<target>/) is executed once
     (libFuzzer "run these files" mode, restarted after a crashing seed) - complete and
     seed-independent.
  2. mutation: per target `-runs=N -seed=VERIF_SEED` from the seeds that survived phase 1
     (quick N=20k for the PSK targets and N/8 for the certificate targets; thorough N=1M); after a
     crash the key is recorded, the artifact kept, and the remaining budget is re-run with the
     next seed (bounded number of restarts).
  3. thorough only: a bounded number of files of the resulting corpora is replayed under valgrind
     memcheck on a standalone runner built from the same source against the `prod` variant
     (uninitialised reads are invisible to ASan), and the DTLS / TLS 1.3 corpora once more under ASan
     with detect_stack_use_after_return=1.

--replay: the replay file's "replay" field is "<target>:<input path>" ("vg/<target>:<path>" for a
memcheck finding).
"""
import glob
import hashlib
import json
import os
import re
import shutil
import subprocess
import time
from concurrent.futures import ThreadPoolExecutor

import vflib

PID = "C08"
CORPUS = os.path.join(vflib.VERIF, "corpus", "c08")
SRC = ["checks/c08_netfuzz.c", "harness/mx_wraps.c"]
DEPS = ["checks/c08_mutator.c"]
WRAPS = ("psGetEntropy", "gettimeofday", "time", "clock_gettime", "eccMulmod", "pstm_exptmod")

ASAN_OPTS = ("detect_leaks=1:malloc_context_size=12:allocator_may_return_null=1:"
             "detect_stack_use_after_return=0:print_summary=1")
STAT_RE = re.compile(r"^stat::(\w+):\s+(\d+)", re.M)
COV_RE = re.compile(r"^#(\d+)\s+\S+\s+cov: (\d+) ft: (\d+) corp: (\d+)/(\S+)", re.M)
ORACLE_RE = re.compile(r"^C08-ORACLE: (\S+)", re.M)
ART_RE = re.compile(r"Test unit written to (\S+)")
RUNNING_RE = re.compile(r"^Running: (.+)$", re.M)
RESULT_RE = re.compile(r"^C08-RESULT: (.+)$", re.M)
STATS_RE = re.compile(r"^C08-STATS: (.+)$", re.M)
HSHIST_RE = re.compile(r"^C08-HSHIST:(.*)$", re.M)
HARNESS_RE = re.compile(r"^C08-HARNESS: (.+)$", re.M)

HS_NAMES = {0: "HELLO_REQUEST", 1: "CLIENT_HELLO", 2: "SERVER_HELLO", 3: "HELLO_VERIFY_REQUEST", 4: "NEW_SESSION_TICKET",
            5: "END_OF_EARLY_DATA", 8: "ENCRYPTED_EXTENSIONS", 11: "CERTIFICATE", 12: "SERVER_KEY_EXCHANGE", 13: "CERTIFICATE_REQUEST",
            14: "SERVER_HELLO_DONE", 15: "CERTIFICATE_VERIFY", 16: "CLIENT_KEY_EXCHANGE", 20: "FINISHED", 22: "CERTIFICATE_STATUS",
            23: "TLS13_START", 24: "TLS13_RECVD_CH", 25: "TLS13_NEGOTIATED", 26: "TLS13_WAIT_FLIGHT_2", 27: "TLS13_WAIT_EOED",
            28: "TLS13_WAIT_CERT", 29: "TLS13_WAIT_CV", 30: "TLS13_WAIT_FINISHED", 31: "TLS13_SEND_NST", 32: "TLS13_WAIT_SH",
            33: "TLS13_WAIT_EE", 34: "TLS13_WAIT_CERT_CR", 35: "TLS13_SEND_FINISHED", 255: "DONE", 63: "DONE"}


def fenv(target, verbose=False, tuples=None, suar=False):
    e = dict(os.environ)
    e["C08_TARGET"] = target
    for k in ("C08_GEN", "C08_SELFCHECK", "C08_VERBOSE", "C08_TUPLES", "LSAN_OPTIONS"):
        e.pop(k, None)
    e["ASAN_OPTIONS"] = ASAN_OPTS.replace("detect_stack_use_after_return=0", "detect_stack_use_after_return=1") if suar else ASAN_OPTS
    e["UBSAN_OPTIONS"] = "print_stacktrace=1"
    if verbose:
        e["C08_VERBOSE"] = "1"
    if tuples:
        e["C08_TUPLES"] = tuples
    return e


def dep_hash():
    h = hashlib.sha256()
    for d in DEPS:
        h.update(open(os.path.join(vflib.VERIF, d), "rb").read())
    return h.hexdigest()[:12]


def fuzz_binary():
    return vflib.compile_harness("fuzz", "c08fuzz", SRC, wraps=WRAPS, extra_libs=("-lcrypto",),
                                 extra_cflags=("-DC08_DEP=" + dep_hash(),), cc="clang-14")


def standalone_binary():
    return vflib.compile_harness("prod", "c08sa", SRC, wraps=WRAPS, extra_libs=("-lcrypto",),
                                 extra_cflags=("-DC08_STANDALONE", "-DC08_DEP=" + dep_hash()))


def leak_keys(leak):
    """LeakSanitizer section -> keys; only *direct* leaks are keyed (see c09.py)."""
    if not leak:
        return []
    direct, indirect = [], []
    for blk in re.split(r"\n\s*\n", leak):
        m = re.match(r"\s*(Direct|Indirect) leak of", blk)
        if not m:
            continue
        frames = [(f.group(2), f.group(3)) for f in (vflib.FRAME_RE.match(l) for l in blk.split("\n")) if f]
        fn = vflib._lib_func(frames, skip_generic=True) or vflib._lib_func(frames) or (frames[0][0] if frames else "?")
        (direct if m.group(1) == "Direct" else indirect).append(("lsan:leak:" + fn, blk[:1800]))
    return direct or indirect or [("lsan:leak:?", leak[:1500])]


def crash_keys(target, text):
    """All violation keys in one libFuzzer process's stderr -> [(key, excerpt)]."""
    out = []
    if "verif-build" not in vflib.SCRATCH:
        # vflib.sanitizer_keys recognises library frames by the default scratch path
        text = text.replace(vflib.SCRATCH, "/var/tmp/verif-build")
    for m in ORACLE_RE.finditer(text):
        out.append((m.group(1), text[max(0, m.start() - 200):m.start() + 1800]))
    if not out:
        # an oracle abort also prints a 'deadly signal' report; do not key it twice
        li = text.find("ERROR: LeakSanitizer")
        head, leak = (text, "") if li < 0 else (text[:li], text[li:])
        head = "\n".join(l for l in head.split("\n") if ": note: " not in l)
        for k, ex in vflib.sanitizer_keys(head):
            out.append((k, ex))
        out += leak_keys(leak)
    m = re.search(r"ERROR: libFuzzer: timeout after", text)
    if m:
        out.append(("hang:" + target, text[m.start():m.start() + 2500]))
    m = re.search(r"ERROR: libFuzzer: out-of-memory", text)
    if m:
        out.append(("oom:" + target, text[m.start():m.start() + 2500]))
    if not out:
        m = re.search(r"ERROR: libFuzzer: (deadly signal|fuzz target exited|[a-z -]+)", text)
        if m:
            fr = [f for f in (vflib.FRAME_RE.match(l) for l in text[m.start():].split("\n")) if f]
            fn = vflib._lib_func([(f.group(2), f.group(3)) for f in fr]) or "?"
            out.append(("crash:%s:%s" % (m.group(1).replace(" ", "-"), fn), text[m.start():m.start() + 2500]))
    seen, res = set(), []
    for k, ex in out:
        if k not in seen:
            seen.add(k)
            res.append((k, ex))
    return res


def harness_only(keys):
    """A process that died without a sanitizer / oracle report and without any library frame on the stack
    (key crash:<what>:?) is a failure of the harness or of the machine (OOM kill, signal), not a verdict."""
    return bool(keys) and all(k.startswith("crash:") and k.endswith(":?") for k, _ in keys)


def hang_confirmed(binary, target, path, cwd):
    """libFuzzer's -timeout is wall-clock and so load-sensitive (other checks share the machine). A
    timeout only counts when re-running the input alone burns more than 10 s of *CPU* time."""
    if not path or not os.path.exists(path):
        return True
    import resource

    def lim():
        resource.setrlimit(resource.RLIMIT_CPU, (14, 15))
    try:
        pr = subprocess.Popen([binary, "-timeout=300", "-rss_limit_mb=4096", path], stdout=subprocess.DEVNULL,
                              stderr=subprocess.DEVNULL, env=fenv(target), cwd=cwd, preexec_fn=lim)
        _, status, ru = os.wait4(pr.pid, 0)
        pr.returncode = status
    except OSError:
        return True
    return (ru.ru_utime + ru.ru_stime) > 10.0 + 1.5   # ~1.5 s: keys, lanes and libFuzzer start-up


def filter_hangs(binary, target, keys, path, cwd, tr):
    out = []
    for k, ex in keys:
        if k.startswith("hang:") and not hang_confirmed(binary, target, path, cwd):
            tr.spurious_timeouts += 1
            continue
        out.append((k, ex))
    return out


class TargetRun:
    def __init__(self, name):
        self.name = name
        self.execs = 0
        self.cov = 0
        self.ft = 0
        self.corp = 0
        self.seeds = 0
        self.seed_crashes = 0
        self.restarts = 0
        self.wall = 0.0
        self.fuzz_wall = 0.0
        self.fuzz_execs = 0
        self.viol = []      # (key, excerpt, artifact path)
        self.incon = []
        self.samples = []
        self.blocked = None
        self.spurious_timeouts = 0
        self.stats = {}
        self.hshist = {}


def seed_dir(target):
    return os.path.join(CORPUS, target)


def keep_artifact(target, key, path):
    """Copy a crashing input to /verif/replays so the replay file stays valid."""
    os.makedirs(os.path.join(vflib.VERIF, "replays"), exist_ok=True)
    if not path or not os.path.exists(path):
        return "%s:%s" % (target, path or "?")
    if path.startswith(CORPUS + os.sep):
        return "%s:%s" % (target, path)
    dst = os.path.join(vflib.VERIF, "replays", "C08-%s-%s.bin" % (target, hashlib.sha1(key.encode()).hexdigest()[:10]))
    try:
        shutil.copyfile(path, dst)
    except OSError:
        return "%s:%s" % (target, path)
    return "%s:%s" % (target, dst)


def absorb_stats(tr, text):
    for m in STATS_RE.finditer(text):
        for kv in m.group(1).split():
            k, _, v = kv.partition("=")
            if v.isdigit() and k not in ("tuples",):
                tr.stats[k] = tr.stats.get(k, 0) + int(v)
    for m in HSHIST_RE.finditer(text):
        for kv in m.group(1).split():
            k, _, v = kv.partition("=")
            if v.isdigit():
                tr.hshist[int(k)] = tr.hshist.get(int(k), 0) + int(v)


def run_files(binary, target, files, tr, cwd, want_samples=0, origin=None, tuples=None, suar=False, tag="replay"):
    """libFuzzer 'execute these files' mode; restart after each crashing file. Returns surviving files."""
    remaining = list(files)
    good = []
    n = 0
    while remaining:
        n += 1
        errp = os.path.join(cwd, "%s%d.err" % (tag, n))
        with open(errp, "w") as ef:
            try:
                p = subprocess.run([binary, "-timeout=10", "-rss_limit_mb=4096", "-artifact_prefix=%s/art/" % cwd] + remaining,
                                   stdout=subprocess.DEVNULL, stderr=ef, env=fenv(target, True, tuples, suar), cwd=cwd, timeout=1800)
                rc = p.returncode
            except subprocess.TimeoutExpired:
                tr.incon.append("%s: seed replay exceeded the wall-clock watchdog" % target)
                break
        text = open(errp, errors="replace").read()
        absorb_stats(tr, text)
        for m in HARNESS_RE.finditer(text):
            tr.incon.append("%s: %s" % (target, m.group(1)))
        ran, results, pairs, cur = [], [], [], None
        for ln in text.split("\n"):
            m = RUNNING_RE.match(ln)
            if m:
                cur = m.group(1).strip()
                ran.append(cur)
                continue
            m = RESULT_RE.match(ln)
            if m:
                results.append(m.group(1))
                if cur is not None:
                    pairs.append((cur, m.group(1)))
                    cur = None
        tr.execs += len(pairs)      # one per file (libFuzzer re-executes a unit when it suspects a leak: not counted twice)
        for f, r in pairs:
            if len(tr.samples) < want_samples:
                src = (origin or {}).get(f, f)
                name = os.path.relpath(src, CORPUS) if src.startswith(CORPUS) else os.path.basename(src)
                tr.samples.append("%s <- %s: (lane, cut, mode, hsState/protection at the cut, outcome) = %s" % (target, name, r))
        if rc == 0:
            good += remaining
            break
        if HARNESS_RE.search(text):
            break
        bad = ran[-1].strip() if ran else remaining[0]
        keys = crash_keys(target, text)
        was_hang = bool(keys) and all(k.startswith("hang:") for k, _ in keys)
        keys = filter_hangs(binary, target, keys, bad, cwd, tr)
        if was_hang and not keys:
            if bad in remaining:
                i = remaining.index(bad)
                good += remaining[:i + 1]
                remaining = remaining[i + 1:]
                continue
            break
        if not keys or harness_only(keys):
            tr.incon.append("%s: replay of %s exited with status %s without a report: %s" % (target, bad, rc, text[-600:]))
            keys = []
        for k, ex in keys:
            tr.viol.append((k, ex, (origin or {}).get(bad, bad)))
        tr.seed_crashes += 1
        if bad in remaining:
            i = remaining.index(bad)
            good += remaining[:i]
            remaining = remaining[i + 1:]
        else:
            break
    return good


def run_target(binary, target, budget, seed, outroot, max_restarts, watchdog):
    tr = TargetRun(target)
    t0 = time.time()
    cwd = os.path.join(outroot, target)
    work, seeds, art = (os.path.join(cwd, d) for d in ("work", "seeds", "art"))
    for d in (work, seeds, art):
        os.makedirs(d)
    tuples = os.path.join(cwd, "tuples.txt")
    # scratch copy of the committed seeds (never write below /verif/corpus at run time)
    origin = {}
    d = seed_dir(target)
    if os.path.isdir(d):
        for f in sorted(os.listdir(d)):
            src = os.path.join(d, f)
            if os.path.isfile(src):
                dst = os.path.join(seeds, f)
                shutil.copyfile(src, dst)
                origin[dst] = src
    files = sorted(origin)
    tr.seeds = len(files)
    if not files:
        tr.incon.append("%s: no seed files under %s" % (target, d))
    # phase 1: complete seed replay
    good = run_files(binary, target, files, tr, cwd, want_samples=3, origin=origin, tuples=tuples)
    for f in files:
        if f not in good:
            os.unlink(f)
    # phase 2: bounded mutation from the surviving seeds
    remaining = budget
    k = 0
    tf = time.time()
    while remaining > 0 and k <= max_restarts and not tr.incon:
        errp = os.path.join(cwd, "fuzz%d.err" % k)
        cmd = [binary, "-runs=%d" % remaining, "-seed=%d" % (seed + 7919 * k), "-max_len=70000", "-timeout=10",
               "-rss_limit_mb=4096", "-print_final_stats=1", "-artifact_prefix=%s/" % art, "-max_total_time=%d" % watchdog,
               "-reload=0", work, seeds]
        with open(errp, "w") as ef:
            try:
                p = subprocess.run(cmd, stdout=subprocess.DEVNULL, stderr=ef, env=fenv(target, False, tuples), cwd=cwd, timeout=watchdog + 180)
                rc = p.returncode
            except subprocess.TimeoutExpired:
                tr.incon.append("%s: fuzz process exceeded the wall-clock watchdog (%ds)" % (target, watchdog + 180))
                break
        text = open(errp, errors="replace").read()
        absorb_stats(tr, text)
        st = dict((a, int(b)) for a, b in STAT_RE.findall(text))
        done = st.get("number_of_executed_units", 0)
        tr.execs += done
        tr.fuzz_execs += done
        covs = COV_RE.findall(text)
        if covs:
            tr.cov = max(tr.cov, max(int(c[1]) for c in covs))
            tr.ft = max(tr.ft, max(int(c[2]) for c in covs))
            tr.corp = max(tr.corp, int(covs[-1][3]))
        hm = HARNESS_RE.search(text)
        if hm:
            tr.incon.append("%s: %s" % (target, hm.group(1)))
            break
        if rc == 0:
            if done < remaining:
                tr.incon.append("%s: libFuzzer stopped after %d of %d runs (watchdog -max_total_time=%d)" % (target, done, remaining, watchdog))
            break
        keys = crash_keys(target, text)
        am = ART_RE.search(text)
        apath = am.group(1) if am else None
        was_hang = bool(keys) and all(kk.startswith("hang:") for kk, _ in keys)
        keys = filter_hangs(binary, target, keys, apath, cwd, tr)
        if was_hang and not keys:
            remaining -= max(done, 1)
            k += 1
            continue
        if not keys or harness_only(keys):
            tr.incon.append("%s: fuzz process exited with status %s without a report: %s" % (target, rc, text[-600:]))
            break
        for key, ex in keys:
            tr.viol.append((key, ex, apath))
        remaining -= max(done, 1)
        k += 1
        tr.restarts += 1
    if remaining > 0 and k > max_restarts:
        tr.blocked = "%d of %d runs not executed: restart limit (%d) reached, last keys %s" % (
            remaining, budget, max_restarts, ",".join(sorted(set(v[0] for v in tr.viol[-3:]))))
    tr.fuzz_wall = time.time() - tf
    tr.wall = time.time() - t0
    return tr


# ------------------------------------------------------------- memcheck ---

VG_ERR_RE = re.compile(r"^==\d+== (Invalid (?:read|write) of size \d+|Conditional jump or move depends on uninitialised value\(s\)|"
                       r"Use of uninitialised value of size \d+|Syscall param \S+ (?:points to|contains) uninitialised byte\(s\)|"
                       r"Invalid free\(\) / delete / delete\[\] / realloc\(\)|Mismatched free\(\) / delete / delete \[\]|"
                       r"Source and destination overlap in \w+.*|Process terminating with default action of signal \d+.*|"
                       r"Argument '\w+' of function \w+ has a fishy.*)$")
VG_FRAME_RE = re.compile(r"^==\d+==\s+(?:at|by) 0x[0-9A-F]+: (\S+) \((?:in )?([^)]*)\)")


def vg_kind(msg):
    m = msg.lower()
    if "uninitialised" in m:
        return "uninit"
    if "invalid read" in m:
        return "invalid-read"
    if "invalid write" in m:
        return "invalid-write"
    if "free" in m:
        return "invalid-free"
    if "overlap" in m:
        return "overlap"
    if "signal" in m:
        return "signal"
    return "other"


def vg_reports(text):
    """[(key, excerpt, file)] from a memcheck log interleaved with C08-FILE lines."""
    out = []
    cur = None
    lines = text.split("\n")
    i = 0
    while i < len(lines):
        ln = lines[i]
        if ln.startswith("C08-FILE: "):
            cur = ln[10:].strip()
        om = ORACLE_RE.match(ln)
        if om:
            out.append((om.group(1), "\n".join(lines[max(0, i - 6):i + 3]), cur))
        m = VG_ERR_RE.match(ln)
        if m:
            j = i + 1
            frames = []
            while j < len(lines) and VG_FRAME_RE.match(lines[j]):
                fm = VG_FRAME_RE.match(lines[j])
                frames.append((fm.group(1), fm.group(2)))
                j += 1
            fn = None
            for f, path in frames:
                if any(d in path for d in vflib.LIBDIRS) and "/verif/" not in path and ("verif-build" in path or "vb-" in path or path.startswith(vflib.SCRATCH)):
                    fn = f
                    break
            if fn is None:
                # harness / libcrypto / libc frames only: not attributable to the library under test
                if "signal" in m.group(1) and out and out[-1][2] == cur and out[-1][0].startswith("c08:"):
                    i = j
                    continue
                fn = frames[0][0] if frames else "?"
            out.append(("memcheck:%s:%s" % (vg_kind(m.group(1)), fn), "\n".join(lines[i:min(j, i + 16)]), cur))
            i = j
            continue
        i += 1
    return out


def memcheck_phase(outroot, runs, res, limit_total, per_proc=8):
    sa = standalone_binary()
    jobs = []
    per_target = max(4, limit_total // max(1, len(runs)))
    for tr in runs:
        cwd = os.path.join(outroot, tr.name)
        work = sorted(glob.glob(os.path.join(cwd, "work", "*")), key=lambda f: (os.path.getsize(f), f))
        seeds = sorted(glob.glob(os.path.join(cwd, "seeds", "*")))
        # half new corpus units (smallest first: cheapest under valgrind), half seeds spread over the lanes
        nw = min(len(work), per_target // 2)
        ns = per_target - nw
        step = max(1, len(seeds) // max(1, ns))
        files = work[:nw] + seeds[::step][:ns]
        files = [f for f in files if os.path.isfile(f)]
        for i in range(0, len(files), per_proc):
            jobs.append((tr.name, files[i:i + per_proc], os.path.join(cwd, "vg%d.log" % (i // per_proc))))

    def one(job):
        target, files, logp = job
        done = 0
        found = []
        rest = list(files)
        while rest:
            with open(logp, "w") as lf:
                try:
                    subprocess.run(["valgrind", "-q", "--error-exitcode=0", "--fullpath-after=", "--num-callers=24", "--leak-check=no",
                                    "--undef-value-errors=yes", sa, target] + rest, stdout=subprocess.DEVNULL, stderr=lf, timeout=3600,
                                   env=fenv(target))
                except subprocess.TimeoutExpired:
                    return target, done, found, "memcheck batch exceeded the wall-clock watchdog"
            text = open(logp, errors="replace").read()
            ranf = [l[10:].strip() for l in text.split("\n") if l.startswith("C08-FILE: ")]
            done += len(ranf)
            found += vg_reports(text)
            if "C08-DONE:" in text or not ranf:
                break
            last = ranf[-1]
            rest = rest[rest.index(last) + 1:] if last in rest else []
        return target, done, found, None

    total = 0
    with ThreadPoolExecutor(max_workers=vflib.NCPU) as ex:
        for target, done, found, err in ex.map(one, jobs):
            total += done
            if err:
                res.incon.append("%s: %s" % (target, err))
            for key, exc, f in found:
                # a report before the first file (lane set-up = honest handshakes) is reproduced by any seed of the target
                f = f or next(iter(sorted(glob.glob(os.path.join(seed_dir(target), "*")))), None)
                res.add_violation(key, "[memcheck, target %s] %s" % (target, exc), "vg/" + keep_artifact(target, key, f))
    res.add_stat("memcheck_files", total)
    return total


def suar_phase(binary, outroot, runs, res, per_target):
    """thorough: the DTLS / TLS 1.3 corpora once more under ASan with detect_stack_use_after_return=1"""
    jobs = [tr for tr in runs if any(x in tr.name for x in ("dtls", "tls13", "multi"))]

    def one(tr):
        cwd = os.path.join(outroot, tr.name)
        files = sorted(glob.glob(os.path.join(cwd, "work", "*")), key=lambda f: (os.path.getsize(f), f))[:per_target]
        t2 = TargetRun(tr.name)
        if files:
            run_files(binary, tr.name, files, t2, cwd, suar=True, tag="suar")
        return t2

    total = 0
    with ThreadPoolExecutor(max_workers=vflib.NCPU) as ex:
        for t2 in ex.map(one, jobs):
            total += t2.execs
            res.incon += t2.incon
            for key, excerpt, apath in t2.viol:
                res.add_violation(key, "[stack-use-after-return pass, target %s] %s" % (t2.name, excerpt), keep_artifact(t2.name, key, apath))
    res.add_stat("stack_use_after_return_pass_files", total)
    return total


def replay_one(ctx, binary):
    rp = json.load(open(ctx.replay)) if os.path.exists(ctx.replay) and ctx.replay.endswith(".json") else {"replay": ctx.replay}
    spec = rp.get("replay") or ""
    res = vflib.Result(PID)
    if ":" not in spec:
        res.incon.append("replay spec must be <target>:<path>, got %r" % spec)
        return res, 0
    target, path = spec.split(":", 1)
    outdir = os.path.join(vflib.SCRATCH, ".out", "C08-replay-%d" % os.getpid())
    shutil.rmtree(outdir, ignore_errors=True)
    os.makedirs(os.path.join(outdir, "art"))
    res.extra["outdir"] = outdir
    if not os.path.exists(path):
        res.incon.append("replay input %s does not exist" % path)
        return res, 0
    if target.startswith("vg/"):
        target = target[3:]
        sa = standalone_binary()
        p = subprocess.run(["valgrind", "-q", "--error-exitcode=0", "--fullpath-after=", "--num-callers=24", "--leak-check=no", sa, target, path],
                           capture_output=True, text=True, errors="replace", timeout=1800, env=fenv(target))
        if ctx.verbose:
            vflib.log(p.stderr[-6000:])
        for key, exc, f in vg_reports(p.stderr):
            res.add_violation(key, exc, spec)
        return res, 1
    tr = TargetRun(target)
    run_files(binary, target, [path], tr, outdir, want_samples=1)
    if ctx.verbose:
        vflib.log(open(os.path.join(outdir, "replay1.err"), errors="replace").read()[-6000:])
    for key, ex, f in tr.viol:
        res.add_violation(key, ex, spec)
    res.incon += tr.incon
    res.samples += tr.samples
    return res, tr.execs


LEVEL = "exploration"
RULE = ("evaluations = harness executions (committed seeds replayed once per target + libFuzzer stat::number_of_executed_units "
        "+ files replayed under memcheck); each execution = fresh honest client+server, honest prefix to the cut point, payload, "
        "honest epilogue, both sessions deleted. distinct_nontrivial = number of distinct tuples (target, lane, cut point, "
        "mode raw/sealed, hsState and record protection of the target at the cut, outcome class of the payload: error code / "
        "alert / state reached / app data / ignored, +epilogue result) observed by the harness (union over all processes); "
        "coverage_edges_sum and per_target give libFuzzer's edge coverage")
ASSUMPTIONS = [
    "default compile-time configuration of /repo; suites and versions of harness/mx.h (TLS 1.1/1.2/1.3, DTLS 1.0/1.2; PSK, RSA, ECDHE-RSA, ECDHE-ECDSA; client auth, session-id / ticket / TLS 1.3 PSK resumption, 0-RTT)",
    "the application follows the documented calling sequence: it stops reading after an error, REQUEST_CLOSE or a fatal/close_notify alert, calls matrixSslProcessedData after APP_DATA and warning alerts (after fatal alerts only when the input says so), and makes the DTLS 'timeout' GetOutdata call only when the input says the timer fired",
    "sealed mode = a peer that holds the session keys (a legitimate but malicious handshake participant); raw mode = any network attacker",
    "inputs up to 70000 bytes; one payload per execution (no second round of attacker input after the honest epilogue)",
    "entropy, clock and session cache are reset before every execution, so an artifact replays alone; state carried over between connections of one process is not explored here",
    "exploration is sampling: absence of a report is not absence of a defect; hang = a single input taking more than 10 s CPU",
]


def list_targets(binary):
    out = subprocess.run([binary], env=dict(os.environ, C08_TARGET="list"), capture_output=True, text=True).stdout.split("\n")
    res = []
    for ln in out:
        p = ln.split()
        if len(p) == 2:
            res.append((p[0], int(p[1])))
    return res


def run(ctx):
    binary = fuzz_binary()
    if ctx.replay:
        res, ev = replay_one(ctx, binary)
        return vflib.finish(PID, ctx.tier, ctx.seed, LEVEL, res, ctx.t0, RULE, ev, ev, 0, ASSUMPTIONS, keep_out=ctx.keep)

    targets = list_targets(binary)
    only = os.environ.get("C08_ONLY")
    if only:
        targets = [t for t in targets if t[0] in only.split(",")]
    # expensive targets first so the pool drains evenly
    targets.sort(key=lambda t: -t[1])
    budget = int(os.environ.get("C08_RUNS") or (1000000 if ctx.thorough else 20000))
    max_restarts = int(os.environ.get("C08_RESTARTS") or (60 if ctx.thorough else 8))
    watchdog = 6 * 3600 if ctx.thorough else 900   # safety net only: the budget is -runs
    outroot = os.path.join(vflib.SCRATCH, ".out", "C08-%d" % os.getpid())
    shutil.rmtree(outroot, ignore_errors=True)
    os.makedirs(outroot)

    res = vflib.Result(PID)
    res.extra["outdir"] = outroot
    runs = []
    with ThreadPoolExecutor(max_workers=vflib.NCPU) as ex:
        futs = [ex.submit(run_target, binary, t, max(500, budget // cost), ctx.seed, outroot, max_restarts, watchdog) for t, cost in targets]
        for f in futs:
            runs.append(f.result())

    per_target = {}
    blocked = {}
    tuples = set()
    hshist = {}
    for tr in runs:
        for key, excerpt, apath in tr.viol:
            res.add_violation(key, "[target %s] %s" % (tr.name, excerpt), keep_artifact(tr.name, key, apath))
        res.incon += tr.incon
        for s in tr.samples[:1]:
            if len(res.samples) < 12:
                res.samples.append(s)
        tp = os.path.join(outroot, tr.name, "tuples.txt")
        mine = set()
        if os.path.exists(tp):
            mine = set(l.strip() for l in open(tp, errors="replace") if l.strip())
        tuples |= mine
        for k, v in tr.hshist.items():
            hshist[k] = hshist.get(k, 0) + v
        res.add_stat("executions", tr.execs)
        res.add_stat("seed_files_replayed", tr.seeds)
        res.add_stat("seed_files_crashing", tr.seed_crashes)
        res.add_stat("restarts_after_crash", tr.restarts)
        res.add_stat("wallclock_timeouts_not_reproduced", tr.spurious_timeouts)
        for k in ("hsdone", "appdata", "alerts_in", "sealed_recs", "raw_recs", "apicalls", "continued", "dead"):
            res.add_stat("harness_" + k, tr.stats.get(k, 0))
        per_target[tr.name] = {"execs": tr.execs, "cov_edges": tr.cov, "features": tr.ft, "corpus_units": tr.corp, "tuples": len(mine),
                               "seeds": tr.seeds, "seed_crashes": tr.seed_crashes, "restarts": tr.restarts, "wall_s": round(tr.wall, 1),
                               "fuzz_exec_per_s": int(tr.fuzz_execs / tr.fuzz_wall) if tr.fuzz_wall > 0 else 0}
        if tr.blocked:
            blocked[tr.name] = tr.blocked
    evaluations = sum(tr.execs for tr in runs)
    if ctx.thorough and not os.environ.get("C08_NO_MEMCHECK"):
        evaluations += memcheck_phase(outroot, runs, res, int(os.environ.get("C08_MEMCHECK_FILES") or 480))
        evaluations += suar_phase(binary, outroot, runs, res, int(os.environ.get("C08_SUAR_FILES") or 200))
    digest = hashlib.sha256()
    for r, _, fs in sorted(os.walk(CORPUS)):
        for f in sorted(fs):
            digest.update(f.encode() + open(os.path.join(r, f), "rb").read())
    states = {}
    for t in tuples:
        p = t.split()
        if len(p) >= 6:
            m = re.match(r"hs(\d+)([sp])", p[4])
            if m:
                nm = "%s/%s" % (HS_NAMES.get(int(m.group(1)), m.group(1)), "protected" if m.group(2) == "s" else "plaintext")
                states[nm] = states.get(nm, 0) + 1
    for s in sorted(tuples)[:: max(1, len(tuples) // 6)][:6]:
        if len(res.samples) < 12:
            res.samples.append("tuple: " + s)
    extra = {"per_target": per_target, "targets": len(runs), "runs_per_target": budget, "corpus_digest": digest.hexdigest()[:16],
             "exploration_blocked": blocked, "coverage_edges_sum": sum(tr.cov for tr in runs),
             "states_at_cut_distinct_tuples": states,
             "hsState_at_cut_executions": dict((HS_NAMES.get(k, str(k)), v) for k, v in sorted(hshist.items()))}
    return vflib.finish(PID, ctx.tier, ctx.seed, LEVEL, res, ctx.t0, RULE, len(tuples), evaluations, 200 if not only else 1, ASSUMPTIONS,
                        extra_cov=extra, keep_out=ctx.keep)
