import hashlib, os, vflib
WRAPS = ("psGetEntropy", "gettimeofday", "time")
def run(ctx):
    gen = os.path.join(vflib.VERIF, "gen", "certgen.h")
    gh = hashlib.sha256(open(gen, "rb").read()).hexdigest()[:12]   # the generator is part of the harness: rebuild when it changes
    st = [dict(variant="asan", name="c03", sources=["checks/c03_chain.c", "harness/mx_wraps.c"], wraps=WRAPS, libs=["-lcrypto"],
               cflags=["-I" + os.path.join(vflib.VERIF, "gen"), "-DCERTGEN_REV=\"%s\"" % gh], shards=vflib.NCPU, timeout=7200 if ctx.thorough else 1200)]
    rule = ("Each case = one certificate universe minted by gen/certgen.h (own DER writer, libcrypto signs; RSA-2048 / P-256 / Ed25519 (+P-384) keys per level, "
            "path length 1-5 = root + 0-3 intermediates + leaf) with 0-2 mutation operators at chosen positions (signature corrupted / wrong key / copied from the anchor or the issuer / empty / "
            "outer!=inner algorithm / wrong family / wrong hash, SHA-1, MD5, issuer DN, expired, not yet valid, a validity-window grid (notBefore long ago / a minute ago / in 2 days / in 10 days x notAfter 10 or 2 days ago / "
            "in a year / after 2049 as GeneralizedTime / RFC 5280's no-expiry value 99991231235959Z, inverted window; inside the window = benign) on leaf and every intermediate, "
            "RSA signature values that are the issuer's private-key operation on a malformed PKCS#1 v1.5 block (one non-FF padding octet, random padding, block type 02, no 00 separator, garbage after an early separator, "
            "short padding with DigestInfo||H left-aligned and trailing garbage, garbage inside the DigestInfo parameters), and - below issuers whose RSA public exponent is 3 (key-type letter C, root or intermediate, honest chains "
            "below them must validate) - signature values forged from the PUBLIC key alone (a cube s^3 < n found with integer and 2-adic cube roots whose image is 00 01 FF FF FF FF <garbage> 00 DigestInfo||H, "
            "00 01 <random> 00 DigestInfo||H, 00 01 FFx{8,1,0} 00 DigestInfo||H <garbage>, or a DigestInfo with the garbage in its parameters; the harness re-computes value^e mod n with libcrypto to confirm the shape), unknown critical extension, revoked by an authenticated CRL, issuer not CA, "
            "basicConstraints absent, pathLen exceeded, keyUsage without keyCertSign, RSA-512 issuer key, v1 issuer; benign ones that must still validate: unknown non-critical extension, tight pathLen, "
            "CRL signed by a stranger, CRL for another serial, GeneralizedTime, RSA-PSS, SHA-384/512, no AKI/SKI), an anchor set (right root, none, wrong root, wrong root with the right DN, "
            "intermediate as anchor (presented or not), several anchors, leaf / middle intermediate as anchor), root pathLen absent/0/1/2/3, root presented or not, presentation order, and the API "
            "(matrixValidateCerts, matrixValidateCertsExt, +REVALIDATE_DATES). A reference path finder over the generator's ground truth decides validity; OpenSSL X509_verify_cert cross-checks the generator. "
            "distinct_nontrivial = distinct (key types per level, length, operators@positions, anchor set, root pathLen, order, root presented).")
    return vflib.std_run(ctx, st, "exploration", rule,
        ["the handshake-level consequences (alerts, completion) are C04's", "issuerCerts == NULL is the API's documented self-signed-chain test; its acceptances are recorded, not asserted",
         "name constraints, policy extensions and OCSP are not enabled in this configuration and not generated", "Ed25519-signed CRLs cannot be parsed by psX509ParseCRL, so revocation under Ed25519 issuers is not generated",
         "keys come from OpenSSL's RNG (not seed-derived); the seed varies names, serials and corrupted bit positions only",
         "RFC 8017 8.2.2 is the signature-validity rule: a value whose decoded block differs from EMSA-PKCS1-v1_5(H) anywhere is not the issuer's signature (DigestInfo without NULL parameters is not generated: the library accepts it by design)",
         "certificates in the validity grid that use GeneralizedTime use it for both dates (the generator has one encoding switch per certificate)"], min_nontrivial=800)
