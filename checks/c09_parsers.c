/* C09 - credential and PKI parsers are memory-safe and total on arbitrary bytes.
 *
 * One libFuzzer binary, many targets; the target is chosen by the environment
 * variable C09_TARGET (so that every target keeps its own corpus).  Each input
 * is copied into an exact-size heap block first: every entry point takes
 * (pointer, length), so the first byte past `len` is an ASan red zone and no
 * NUL terminator may be assumed.  The "_z" targets are the exception: they
 * emulate the library's *file* loaders (psGetFileBuf allocates size+1 and
 * zero-fills), i.e. the byte at [len] is an addressable NUL.  They exist so
 * the PEM code can be explored behind the known strstr over-read.
 *
 * On parse success a consistency walker visits the returned object (see
 * walk_*): every (ptr,len) pair lies inside a live allocation (a value that
 * cannot be a pointer at all - e.g. two enum values written over it - is
 * reported, not dereferenced), a NULL pointer has no length, documented C
 * strings are terminated, lists are bounded, scalar members have values of
 * their closed sets, attributeOrder[] of every parsed name (subject, issuer,
 * CRL issuer, authorityKeyIdentifier issuer) holds valid ids without gaps and
 * agrees with the stored values, and the name accessors / one-line printers
 * (both print orders) return what they report; then the object is freed with
 * its proper free function, and LeakSanitizer (libFuzzer -detect_leaks=1)
 * must stay silent.  A walker inconsistency prints "C09-WALKER: <key>" and
 * abort()s.
 *
 * -DC09_STANDALONE: no libFuzzer, no ASan needed: main(target, files...)
 * feeds files to the same LLVMFuzzerTestOneInput; used under valgrind
 * memcheck on the "prod" build to catch uninitialised reads.
 */
#include "crypto/cryptoApi.h"
#include "matrixssl/matrixsslApi.h"
#include "matrixssl/matrixssllib.h"
#include <stdint.h>
#include <stddef.h>
#include <stdlib.h>
#include <string.h>
#include <stdio.h>
#include <unistd.h>

#if defined(__has_feature)
# if __has_feature(address_sanitizer)
#  define C09_ASAN 1
# endif
#endif
#if defined(__SANITIZE_ADDRESS__) && !defined(C09_ASAN)
# define C09_ASAN 1
#endif
#ifdef C09_ASAN
# include <sanitizer/asan_interface.h>
#else
# if defined(__has_include)
#  if __has_include(<valgrind/memcheck.h>)
#   include <valgrind/memcheck.h>
#   define C09_VG 1
#  endif
# endif
#endif

/* ------------------------------------------------------------------ walker */

static const char *g_target = "?";
static volatile unsigned g_sink;
static unsigned long g_parse_ok, g_runs;
static int g_verbose, g_skip_empty;
#define PARSED() (g_parse_ok++)

static void wfail(const char *what)
{
    fprintf(stderr, "C09-WALKER: c09:walker:%s\n", what);
    fflush(stderr);
    abort();
}
#define CK(cond, what) do { if (!(cond)) wfail(what); } while (0)

/* non-zero when [p,p+n) is not entirely inside a live allocation.
   node != 0: a struct (padding may legitimately be undefined, so only
   addressability is required); node == 0: a byte buffer the API exposes (under
   memcheck every byte must also be defined) */
/* a value that cannot be a pointer into this process's application memory (small integers, two
   32-bit enum values written over a pointer, addresses in the sanitizer's shadow / gap, kernel
   half): reported as a walker finding instead of dereferencing it */
static int wild_ptr(const void *p)
{
    uintptr_t a = (uintptr_t) p;
    if (a < 0x10000u)
    {
        return 1;
    }
#if defined(__x86_64__)
    if (a >= 0x800000000000ull)
    {
        return 1;
    }
# ifdef C09_ASAN
    if (a >= 0x7fff8000ull && a < 0x10007fff8000ull)
    {
        return 1;   /* ASan x86-64 layout: shadow and shadow gap, never application memory */
    }
# endif
#endif
    return 0;
}

static int rg_bad(const void *p, size_t n, const char *what, int node)
{
    if (n == 0)
    {
        return 0;
    }
    if (p == NULL || wild_ptr(p))
    {
        return 1;
    }
#ifdef C09_ASAN
    (void) what;
    (void) node;
    return __asan_region_is_poisoned((void *) p, n) != NULL;
#else
# ifdef C09_VG
    if (RUNNING_ON_VALGRIND)
    {
        if (VALGRIND_CHECK_MEM_IS_ADDRESSABLE(p, n) != 0)
        {
            return 1;
        }
        if (!node && VALGRIND_CHECK_MEM_IS_DEFINED(p, n) != 0)
        {
            /* memcheck has printed the origin; name the field and go on */
            fprintf(stderr, "C09-WALKER: c09:walker:%s-undefined-bytes\n", what);
        }
        return 0;
    }
# endif
    (void) what;
    (void) node;
    {
        size_t i;
        unsigned s = 0;
        for (i = 0; i < n; i++)
        {
            s += ((const unsigned char *) p)[i];
        }
        if (s & 1)
        {
            g_sink++;
        }
    }
    return 0;
#endif
}
#define RG(p, n, what) CK(!rg_bad((p), (size_t) (n), (what), 0), what)
#define RGN(p, n, what) CK(!rg_bad((p), (size_t) (n), (what), 1), what)

/* C string without a recorded length: a NUL must be found inside the block */
static size_t cstr_len(const char *s, const char *what)
{
    size_t i;
    for (i = 0; i < (1u << 20); i++)
    {
        RG(s + i, 1, what);
        if (s[i] == 0)
        {
            return i;
        }
    }
    wfail(what);
    return 0;
}

static void walk_pstm(const pstm_int *a, const char *what)
{
    if (a->dp == NULL)
    {
        return;
    }
    CK(a->used <= a->alloc, what);
    RGN(a->dp, (size_t) a->alloc * sizeof(pstm_digit), what);
    RG(a->dp, (size_t) a->used * sizeof(pstm_digit), what);
}

#ifdef USE_RSA
static void walk_rsa(const psRsaKey_t *k)
{
    walk_pstm(&k->N, "rsa-bignum");
    walk_pstm(&k->e, "rsa-bignum");
    walk_pstm(&k->d, "rsa-bignum");
    walk_pstm(&k->p, "rsa-bignum");
    walk_pstm(&k->q, "rsa-bignum");
    walk_pstm(&k->dP, "rsa-bignum");
    walk_pstm(&k->dQ, "rsa-bignum");
    walk_pstm(&k->qP, "rsa-bignum");
    if (k->N.dp)
    {
        CK(k->size == pstm_unsigned_bin_size((pstm_int *) &k->N), "rsa-size-vs-modulus");
    }
}
#endif
#ifdef USE_ECC
static void walk_ecc(const psEccKey_t *k)
{
    walk_pstm(&k->k, "ecc-bignum");
    walk_pstm(&k->pubkey.x, "ecc-bignum");
    walk_pstm(&k->pubkey.y, "ecc-bignum");
    walk_pstm(&k->pubkey.z, "ecc-bignum");
    CK(k->curve != NULL, "ecc-curve-null");
    CK(k->curve->size > 0 && k->curve->size <= 72, "ecc-curve-size");
    (void) cstr_len(k->curve->name, "ecc-curve-name");
    CK(k->type == PS_PRIVKEY || k->type == PS_PUBKEY, "ecc-key-type");
}
#endif
static void walk_pubkey(const psPubKey_t *k)
{
    switch (k->type)
    {
#ifdef USE_RSA
    case PS_RSA:
        walk_rsa(&k->key.rsa);
        break;
#endif
#ifdef USE_ECC
    case PS_ECC:
        walk_ecc(&k->key.ecc);
        break;
#endif
    default:
        break;
    }
}

static int is_checked_string_type(int t)
{
    return t == ASN_PRINTABLESTRING || t == ASN_UTF8STRING || t == ASN_IA5STRING || t == ASN_T61STRING;
}

/* one DN attribute: value, type, stored length (which includes the
   DN_NUM_TERMINATING_NULLS terminators) */
static void walk_dn_attr(const char *v, int type, size_t len)
{
    if (v == NULL)
    {
        return;
    }
    CK(len >= DN_NUM_TERMINATING_NULLS, "dn-attr-len-below-terminators");
    RG(v, len, "dn-attr-region");
    CK(v[len - 1] == 0 && v[len - 2] == 0, "dn-attr-unterminated");
    if (is_checked_string_type(type))
    {
        CK(strlen(v) == len - DN_NUM_TERMINATING_NULLS, "dn-attr-strlen-mismatch");
    }
}

/* attributeOrder[] against the stored values.
   level 0: object of a failed parse kept in a partial bundle - memory checks only;
   level 1: order array well-formed and never ahead of the values (the authorityKeyIdentifier name: the
            extension may be repeated, the parser then restarts the order array but keeps the values);
   level 2: parsed exactly once into a zeroed struct (certificate issuer / subject, CRL issuer): the order
            array accounts for every stored value until it saturates at DN_NUM_ATTRIBUTES_MAX, and the
            accessors an application uses to print a name work */
static void walk_dn_order(const x509DNattributes_t *dn, int level, unsigned nou, unsigned ndc)
{
    /* id, value pointer (NULL for the two list types) */
    struct
    {
        int id;
        const char *val;
        unsigned seen;
    } single[] = {
        { ATTRIB_COUNTRY_NAME, dn->country, 0 }, { ATTRIB_ORGANIZATION, dn->organization, 0 },
        { ATTRIB_DN_QUALIFIER, dn->dnQualifier, 0 }, { ATTRIB_SERIALNUMBER, dn->serialNumber, 0 },
        { ATTRIB_STATE_PROVINCE, dn->state, 0 }, { ATTRIB_COMMON_NAME, dn->commonName, 0 },
#ifdef USE_EXTRA_DN_ATTRIBUTES_RFC5280_SHOULD
        { ATTRIB_LOCALITY, dn->locality, 0 }, { ATTRIB_TITLE, dn->title, 0 }, { ATTRIB_SURNAME, dn->surname, 0 },
        { ATTRIB_GIVEN_NAME, dn->givenName, 0 }, { ATTRIB_INITIALS, dn->initials, 0 },
        { ATTRIB_PSEUDONYM, dn->pseudonym, 0 }, { ATTRIB_GEN_QUALIFIER, dn->generationQualifier, 0 },
#endif
#ifdef USE_EXTRA_DN_ATTRIBUTES
        { ATTRIB_STREET_ADDRESS, dn->streetAddress, 0 }, { ATTRIB_POSTAL_ADDRESS, dn->postalAddress, 0 },
        { ATTRIB_TELEPHONE_NUMBER, dn->telephoneNumber, 0 }, { ATTRIB_UID, dn->uid, 0 },
        { ATTRIB_NAME, dn->name, 0 }, { ATTRIB_EMAIL, dn->email, 0 },
#endif
    };
    const unsigned nsingle = sizeof single / sizeof single[0];
    unsigned i, j, cnt = 0, ou_o = 0, dc_o = 0, stored = nou + ndc;
    int ended = 0;

    CK(sizeof dn->attributeOrder / sizeof dn->attributeOrder[0] == DN_NUM_ATTRIBUTES_MAX, "dn-order-capacity");
    for (i = 0; i < DN_NUM_ATTRIBUTES_MAX; i++)
    {
        int id = (int) dn->attributeOrder[i];
        if (id == 0)
        {
            ended = 1;
            continue;
        }
        CK(!ended, "dn-order-entry-behind-terminator");
        cnt++;
        if (id == ATTRIB_ORG_UNIT)
        {
            ou_o++;
            continue;
        }
        if (id == ATTRIB_DOMAIN_COMPONENT)
        {
            dc_o++;
            continue;
        }
        for (j = 0; j < nsingle && single[j].id != id; j++)
        {
        }
        CK(j < nsingle, "dn-order-invalid-attribute-id");
        CK(single[j].seen++ == 0, "dn-order-duplicate-single-attribute");
        CK(single[j].val != NULL, "dn-order-entry-without-value");
    }
    CK(cnt <= DN_NUM_ATTRIBUTES_MAX, "dn-order-count-above-capacity");
    CK(ou_o <= nou, "dn-order-more-orgunits-than-stored");
    CK(dc_o <= ndc, "dn-order-more-domaincomponents-than-stored");
    CK(psX509GetNumDNAttributes(dn) == (int32_t) cnt, "dn-num-attributes-vs-order");
    if (level < 2)
    {
        return;
    }
    for (j = 0; j < nsingle; j++)
    {
        if (single[j].val)
        {
            stored++;
            CK(single[j].seen || cnt == DN_NUM_ATTRIBUTES_MAX, "dn-value-missing-from-order");
        }
    }
    CK(cnt == (stored < DN_NUM_ATTRIBUTES_MAX ? stored : DN_NUM_ATTRIBUTES_MAX), "dn-order-count-vs-stored-values");
    if (cnt < DN_NUM_ATTRIBUTES_MAX)
    {
        CK(ou_o == nou && dc_o == ndc, "dn-order-list-count-mismatch");
    }
}

static void walk_dn(const x509DNattributes_t *dn, int level)
{
    const x509OrgUnit_t *ou;
    const x509DomainComponent_t *dc;
    unsigned n, nou = 0, ndc = 0;

    /* a value pointer that is NULL has no type / length either (the struct starts zeroed) */
#define DN_ATTR(f) do { walk_dn_attr(dn->f, dn->f ## Type, dn->f ## Len); \
        if (level >= 1 && dn->f == NULL) { CK(dn->f ## Len == 0 && dn->f ## Type == 0, "dn-attr-null-with-length"); } } while (0)
    DN_ATTR(country);
    DN_ATTR(organization);
    DN_ATTR(dnQualifier);
    DN_ATTR(serialNumber);
    DN_ATTR(state);
    DN_ATTR(commonName);
#ifdef USE_EXTRA_DN_ATTRIBUTES_RFC5280_SHOULD
    DN_ATTR(locality);
    DN_ATTR(title);
    DN_ATTR(surname);
    DN_ATTR(givenName);
    DN_ATTR(initials);
    DN_ATTR(pseudonym);
    DN_ATTR(generationQualifier);
#endif
#ifdef USE_EXTRA_DN_ATTRIBUTES
    DN_ATTR(streetAddress);
    DN_ATTR(postalAddress);
    DN_ATTR(telephoneNumber);
    DN_ATTR(uid);
    DN_ATTR(name);
    DN_ATTR(email);
#endif
#undef DN_ATTR
    for (n = 0, ou = dn->orgUnit; ou; ou = ou->next)
    {
        CK(++n <= 70000, "dn-orgunit-list-unbounded");
        RGN(ou, sizeof *ou, "dn-orgunit-node");
        CK(ou->name != NULL, "dn-orgunit-null-name");
        walk_dn_attr(ou->name, ou->type, ou->len);
    }
    nou = n;
    for (n = 0, dc = dn->domainComponent; dc; dc = dc->next)
    {
        CK(++n <= 70000, "dn-dc-list-unbounded");
        RGN(dc, sizeof *dc, "dn-dc-node");
        CK(dc->name != NULL, "dn-dc-null-name");
        walk_dn_attr(dc->name, dc->type, dc->len);
    }
    ndc = n;
    if (dn->dnenc)
    {
        RG(dn->dnenc, dn->dnencLen, "dn-dnenc-region");
    }
    else if (level >= 1)
    {
        CK(dn->dnencLen == 0, "dn-dnenc-null-with-length");
    }
    if (level >= 1)
    {
        walk_dn_order(dn, level, nou, ndc);
        CK(psX509GetNumOrganizationalUnits(dn) == (int32_t) nou, "dn-num-orgunits-accessor");
    }
    if (level >= 2)
    {
        /* the accessors an application uses to print a name */
        int32_t i, na = psX509GetNumDNAttributes(dn);
        CK(na >= 0 && na <= DN_NUM_ATTRIBUTES_MAX, "dn-num-attributes");
        for (i = 0; i < na; i++)
        {
            x509DNAttributeType_t at;
            short vt;
            psSize_t vl;
            char *val = NULL;
            CK(psX509GetDNAttributeTypeAndValue(dn, i, &at, &vt, &vl, &val) >= 0, "dn-accessor-fails-on-ordered-attribute");
            CK(val != NULL, "dn-accessor-null-value");
            CK(at == dn->attributeOrder[i], "dn-accessor-type-vs-order");
            RG(val, vl, "dn-accessor-value-region");
        }
#ifdef USE_FULL_CERT_PARSE
        {
            /* both print orders; the reported length is the length of the string, and the two strings
               hold the same fields (only the separator of the first field may differ) */
            char *s = NULL;
            size_t sl = 0, l0 = 0, l1 = 0;
            int got = 0;
            if (psX509GetOnelineDN(dn, &s, &sl, 0) >= 0 && s)
            {
                RG(s, sl + 1, "dn-oneline-region");
                l0 = cstr_len(s, "dn-oneline-unterminated");
                CK(l0 == sl, "dn-oneline-length-vs-strlen");
                psFree(s, NULL);
                got++;
            }
            s = NULL;
            sl = 0;
            if (psX509GetOnelineDN(dn, &s, &sl, CERT_DN_USE_ORIGINAL_ATTRIBUTE_ORDER) >= 0 && s)
            {
                RG(s, sl + 1, "dn-oneline-region");
                l1 = cstr_len(s, "dn-oneline-unterminated");
                CK(l1 == sl, "dn-oneline-length-vs-strlen");
                psFree(s, NULL);
                got++;
            }
            if (got == 2)
            {
                CK(l0 <= l1 + 2 && l1 <= l0 + 2, "dn-oneline-print-orders-disagree");
            }
            s = NULL;
            if (dn->domainComponent && psX509GetConcatenatedDomainComponent(dn, &s, &sl) >= 0 && s)
            {
                RG(s, sl, "dn-dcconcat-region");
                (void) cstr_len(s, "dn-dcconcat-unterminated");
                psFree(s, NULL);
            }
        }
#endif
    }
}

static void walk_gn(const x509GeneralName_t *g, const char *lst)
{
    unsigned n = 0;
    (void) lst;
    for (; g; g = g->next)
    {
        CK(++n <= 70000, "gn-list-unbounded");
        RGN(g, sizeof *g, "gn-node");
        CK(memchr(g->name, 0, sizeof g->name) != NULL, "gn-typename-unterminated");
        if (g->data)
        {
            /* parseGeneralNames: "This guarantees data is null terminated,
               even for non IA5Strings" */
            RG(g->data, (size_t) g->dataLen + 1, "gn-data-region");
            CK(g->data[g->dataLen] == 0, "gn-data-unterminated");
            if (g->id == GN_EMAIL || g->id == GN_DNS || g->id == GN_URI)
            {
                CK(strlen((const char *) g->data) == g->dataLen, "gn-data-strlen-mismatch");
            }
        }
        if (g->oidLen > 0)
        {
            RG(g->oid, g->oidLen, "gn-oid-region");
        }
    }
}

/* ok: the owning object parsed successfully (otherwise memory checks only); pool: the owner's pool */
static void walk_ext(const x509v3extensions_t *e, int ok, const psPool_t *pool)
{
    if (ok)
    {
        /* scalar members have small closed value sets; anything else was written by somebody else */
        CK(e->pool == pool, "ext-pool-vs-owner");
        CK(e->bc.cA == CA_FALSE || e->bc.cA == CA_UNDEFINED || e->bc.cA == CA_TRUE, "ext-basicconstraints-ca-value");
        CK((e->keyUsageFlags & ~0xffffu) == 0, "ext-keyusage-flags-value");
        CK((e->ekuFlags & ~(uint32) (EXT_KEY_USAGE_ANY | EXT_KEY_USAGE_TLS_SERVER_AUTH | EXT_KEY_USAGE_TLS_CLIENT_AUTH |
                                      EXT_KEY_USAGE_CODE_SIGNING | EXT_KEY_USAGE_EMAIL_PROTECTION |
                                      EXT_KEY_USAGE_TIME_STAMPING | EXT_KEY_USAGE_OCSP_SIGNING)) == 0, "ext-eku-flags-value");
    }
    walk_gn(e->san, "san");
    walk_gn(e->issuerAltName, "ian");
    if (e->sk.id)
    {
        RG(e->sk.id, e->sk.len, "ext-skid-region");
    }
    else if (ok)
    {
        CK(e->sk.len == 0, "ext-skid-null-with-length");
    }
    if (e->ak.keyId)
    {
        RG(e->ak.keyId, e->ak.keyLen, "ext-akid-region");
    }
    else if (ok)
    {
        CK(e->ak.keyLen == 0, "ext-akid-null-with-length");
    }
    if (e->ak.serialNum)
    {
        RG(e->ak.serialNum, e->ak.serialNumLen, "ext-akid-serial-region");
    }
    else if (ok)
    {
        CK(e->ak.serialNumLen == 0, "ext-akid-serial-null-with-length");
    }
    walk_dn(&e->ak.attribs, ok ? 1 : 0);
#if defined(USE_FULL_CERT_PARSE) || defined(USE_CERT_GEN)
    walk_gn(e->nameConstraints.permitted, "nc-permitted");
    walk_gn(e->nameConstraints.excluded, "nc-excluded");
    {
        const x509authorityInfoAccess_t *a;
        unsigned n = 0;
        for (a = e->authorityInfoAccess; a; a = a->next)
        {
            CK(++n <= 70000, "aia-list-unbounded");
            RGN(a, sizeof *a, "aia-node");
            if (a->ocsp)
            {
                RG(a->ocsp, a->ocspLen, "aia-ocsp-region");
            }
            if (a->caIssuers)
            {
                RG(a->caIssuers, a->caIssuersLen, "aia-caissuers-region");
            }
        }
    }
# ifdef USE_CERT_POLICY_EXTENSIONS
    {
        const x509PolicyInformation_t *p;
        const x509PolicyQualifierInfo_t *q;
        const x509policyMappings_t *m;
        unsigned n = 0, nq;
        char oidbuf[MAX_OID_PRINTED_LEN + 64];
        for (p = e->certificatePolicy.policy; p; p = p->next)
        {
            CK(++n <= 70000, "policy-list-unbounded");
            RGN(p, sizeof *p, "policy-node");
            if (p->policyAsnOid)
            {
                RG(p->policyAsnOid, sizeof(psAsnOid_t), "policy-oid-region");
                psSprintAsnOid(*p->policyAsnOid, oidbuf);
                (void) cstr_len(oidbuf, "policy-oid-string");
            }
            for (nq = 0, q = p->qualifiers; q; q = q->next)
            {
                CK(++nq <= 70000, "policy-qualifier-list-unbounded");
                RGN(q, sizeof *q, "policy-qualifier-node");
                if (q->cps)
                {
                    RG(q->cps, (size_t) q->cpsLen + 1, "policy-cps-region");
                    CK(q->cps[q->cpsLen] == 0, "policy-cps-unterminated");
                }
                if (q->unoticeOrganization)
                {
                    RG(q->unoticeOrganization, (size_t) q->unoticeOrganizationLen + 1, "policy-unotice-org-region");
                    CK(q->unoticeOrganization[q->unoticeOrganizationLen] == 0, "policy-unotice-org-unterminated");
                }
                if (q->unoticeExplicitText)
                {
                    RG(q->unoticeExplicitText, (size_t) q->unoticeExplicitTextLen + 1, "policy-unotice-text-region");
                    CK(q->unoticeExplicitText[q->unoticeExplicitTextLen] == 0, "policy-unotice-text-unterminated");
                }
                CK(q->unoticeNumbersLen <= MAX_UNOTICE_NUMBERS, "policy-unotice-numbers-count");
            }
        }
        for (n = 0, m = e->policyMappings; m; m = m->next)
        {
            CK(++n <= 70000, "policy-mapping-list-unbounded");
            RGN(m, sizeof *m, "policy-mapping-node");
            if (m->issuerDomainPolicy)
            {
                RG(m->issuerDomainPolicy, sizeof(psAsnOid_t), "policy-mapping-oid-region");
                psSprintAsnOid(*m->issuerDomainPolicy, oidbuf);
            }
            if (m->subjectDomainPolicy)
            {
                RG(m->subjectDomainPolicy, sizeof(psAsnOid_t), "policy-mapping-oid-region");
                psSprintAsnOid(*m->subjectDomainPolicy, oidbuf);
            }
        }
    }
# endif
#endif
#ifdef USE_CRL
    walk_gn(e->crlDist, "crldist");
    if (e->crlNum)
    {
        CK(e->crlNumLen >= 0, "ext-crlnum-negative-len");
        RG(e->crlNum, e->crlNumLen, "ext-crlnum-region");
    }
#endif
}

static void walk_cert_chain(psX509Cert_t *c)
{
    unsigned n = 0;
    static unsigned char derbuf[70000];

    for (; c; c = c->next)
    {
        CK(++n <= 70000, "cert-chain-unbounded");
        RGN(c, sizeof *c, "cert-node");
        if (c->signature)
        {
            RG(c->signature, c->signatureLen, "cert-signature-region");
        }
#ifdef USE_CERT_PARSE
        if (c->serialNumber)
        {
            RG(c->serialNumber, c->serialNumberLen, "cert-serial-region");
        }
        if (c->uniqueIssuerId)
        {
            RG(c->uniqueIssuerId, c->uniqueIssuerIdLen, "cert-issuer-uid-region");
        }
        if (c->uniqueSubjectId)
        {
            RG(c->uniqueSubjectId, c->uniqueSubjectIdLen, "cert-subject-uid-region");
        }
        if (c->notBefore)
        {
            (void) cstr_len(c->notBefore, "cert-notbefore-unterminated");
        }
        if (c->notAfter)
        {
            (void) cstr_len(c->notAfter, "cert-notafter-unterminated");
        }
        CK(c->sigHashLen <= MAX_HASH_SIZE, "cert-sighash-len");
        walk_dn(&c->issuer, c->parseStatus == PS_X509_PARSE_SUCCESS ? 2 : 0);
        walk_dn(&c->subject, c->parseStatus == PS_X509_PARSE_SUCCESS ? 2 : 0);
        walk_ext(&c->extensions, c->parseStatus == PS_X509_PARSE_SUCCESS, c->pool);
        if (c->parseStatus == PS_X509_PARSE_SUCCESS)
        {
            CK(c->notBefore != NULL && c->notAfter != NULL, "cert-validity-null");
            CK(c->notBeforeTimeType == ASN_UTCTIME || c->notBeforeTimeType == ASN_GENERALIZEDTIME, "cert-notbefore-time-type");
            CK(c->notAfterTimeType == ASN_UTCTIME || c->notAfterTimeType == ASN_GENERALIZEDTIME, "cert-notafter-time-type");
            CK(c->version >= 0 && c->version <= 2, "cert-version-value");
            CK((c->uniqueIssuerId != NULL) || c->uniqueIssuerIdLen == 0, "cert-issuer-uid-null-with-length");
            CK((c->uniqueSubjectId != NULL) || c->uniqueSubjectIdLen == 0, "cert-subject-uid-null-with-length");
        }
        if (c->parseStatus == PS_X509_PARSE_SUCCESS)
        {
            walk_pubkey(&c->publicKey);
# ifdef USE_CRL
            {
                char *url = NULL;
                uint32_t ul = 0;
                if (psX509GetCRLdistURL(c, &url, &ul) > 0 && url)
                {
                    RG(url, ul, "cert-crldist-url-region");
                }
            }
# endif
        }
# if defined(USE_ED25519) || defined(USE_ROT_ECC) || defined(USE_ROT_RSA) || (defined(USE_CL_RSA) && defined(USE_PKCS1_PSS))
        if (c->tbsCertStart)
        {
            RG(c->tbsCertStart, c->tbsCertLen, "cert-tbs-region");
        }
# endif
#endif
        if (c->unparsedBin)
        {
            RG(c->unparsedBin, c->binLen, "cert-unparsedbin-region");
#ifdef USE_CERT_PARSE
            if (c->parseStatus == PS_X509_PARSE_SUCCESS)
            {
                psSize_t dl = (psSize_t) 65535;
                CK((size_t) c->publicKeyDerOffsetIntoUnparsedBin + c->publicKeyDerLen <= c->binLen,
                   "cert-pubkeyder-outside-unparsedbin");
                CK(c->subjectKeyDerOffsetIntoUnparsedBin <= c->binLen, "cert-subjectder-outside-unparsedbin");
                (void) psX509GetCertPublicKeyDer(c, derbuf, &dl);
            }
#endif
        }
    }
}

#ifdef USE_CRL
static void walk_crl(const psX509Crl_t *crl)
{
    const x509revoked_t *r;
    unsigned n = 0;

    RGN(crl, sizeof *crl, "crl-node");
    if (crl->sig)
    {
        RG(crl->sig, crl->sigLen, "crl-signature-region");
    }
    if (crl->nextUpdate)
    {
        (void) cstr_len(crl->nextUpdate, "crl-nextupdate-unterminated");
    }
    CK(crl->sigHashLen <= MAX_HASH_SIZE, "crl-sighash-len");
    CK(crl->nextUpdate == NULL || crl->nextUpdateType == ASN_UTCTIME || crl->nextUpdateType == ASN_GENERALIZEDTIME,
       "crl-nextupdate-time-type");
    walk_dn(&crl->issuer, 2);
    walk_ext(&crl->extensions, 1, crl->pool);
    for (r = crl->revoked; r; r = r->next)
    {
        CK(++n <= 70000, "crl-revoked-list-unbounded");
        RGN(r, sizeof *r, "crl-revoked-node");
        if (r->serial)
        {
            RG(r->serial, r->serialLen, "crl-revoked-serial-region");
        }
    }
}
#endif

/* ----------------------------------------------------------------- targets */

typedef int (*tfn)(unsigned char *in, size_t n);

static int in_buf(const unsigned char *in, size_t n, const void *p, size_t len)
{
    const unsigned char *q = p;
    return q >= in && q <= in + n && len <= (size_t) (in + n - q);
}

#ifdef USE_X509
static int x509_flags(unsigned char *in, size_t n, int flags)
{
    psX509Cert_t *c = NULL;
    int32 rc = psX509ParseCert(NULL, in, (uint32) n, &c, flags);
    if (rc >= 0 && c)
    {
        PARSED();
        if (!(flags & CERT_ALLOW_BUNDLE_PARTIAL_PARSE))
        {
            CK((size_t) rc <= n, "x509-consumed-more-than-input");
        }
        walk_cert_chain(c);
    }
    psX509FreeCert(c);
    return 0;
}
static int t_x509_f0(unsigned char *in, size_t n) { return x509_flags(in, n, 0); }
static int t_x509_f1(unsigned char *in, size_t n) { return x509_flags(in, n, CERT_STORE_UNPARSED_BUFFER); }
static int t_x509_f2(unsigned char *in, size_t n) { return x509_flags(in, n, CERT_STORE_DN_BUFFER); }
static int t_x509_f7(unsigned char *in, size_t n)
{
    return x509_flags(in, n, CERT_STORE_UNPARSED_BUFFER | CERT_STORE_DN_BUFFER | CERT_ALLOW_BUNDLE_PARTIAL_PARSE);
}

static int certdata_flags(unsigned char *in, size_t n, int flags)
{
    psX509Cert_t *c = NULL;
    psRes_t rc = psX509ParseCertData(NULL, in, n, &c, flags);
    if (rc >= 0 && c)
    {
        PARSED();
        walk_cert_chain(c);
    }
    psX509FreeCert(c);
    return 0;
}
static int t_certdata(unsigned char *in, size_t n) { return certdata_flags(in, n, 0); }
static int t_certdata_f3(unsigned char *in, size_t n)
{
    return certdata_flags(in, n, CERT_STORE_UNPARSED_BUFFER | CERT_STORE_DN_BUFFER);
}
static int t_certdata_f7(unsigned char *in, size_t n)
{
    return certdata_flags(in, n, CERT_STORE_UNPARSED_BUFFER | CERT_STORE_DN_BUFFER | CERT_ALLOW_BUNDLE_PARTIAL_PARSE);
}

# ifdef USE_PEM_DECODE
static int t_pemcertlist(unsigned char *in, size_t n)
{
    psList_t *l = NULL, *e;
    unsigned cnt = 0;
    if (psPemCertBufToList(NULL, in, n, &l) >= 0)
    {
        PARSED();
        for (e = l; e; e = e->next)
        {
            CK(++cnt <= 70000, "pemlist-unbounded");
            RGN(e, sizeof *e, "pemlist-node");
            if (e->item)
            {
                RG(e->item, e->len, "pemlist-item-region");
            }
        }
        psFreeList(l, NULL);
    }
    return 0;
}
# endif

# ifdef USE_CRL
static int t_crl(unsigned char *in, size_t n)
{
    psX509Crl_t *crl = NULL;
    if (psX509ParseCRL(NULL, &crl, in, (int32) n) >= 0 && crl)
    {
        PARSED();
        walk_crl(crl);
        psX509FreeCRL(crl);
    }
    return 0;
}
# endif

# ifdef USE_OCSP_RESPONSE
static int t_ocsp(unsigned char *in, size_t n)
{
    psOcspResponse_t r;
    unsigned char *cp = in;
    int32_t rc;
    int i;

    memset(&r, 0, sizeof r);
    rc = psOcspParseResponse(NULL, (int32_t) n, &cp, in + n, &r);
    if (rc >= 0)
    {
        PARSED();
        /* every member points into the response buffer */
        CK(in_buf(in, n, cp, 0), "ocsp-cursor-outside-input");
        if (r.responseType)
        {
            CK(in_buf(in, n, r.responseType, 2), "ocsp-responsetype-outside-input");
        }
        if (r.responderName)
        {
            CK(in_buf(in, n, r.responderName, 2), "ocsp-respondername-outside-input");
        }
        if (r.responderKeyHash)
        {
            CK(in_buf(in, n, r.responderKeyHash, SHA1_HASH_SIZE), "ocsp-responderkeyhash-outside-input");
        }
        if (r.timeProduced)
        {
            CK(r.timeProducedLen >= 0 && in_buf(in, n, r.timeProduced, r.timeProducedLen),
               "ocsp-timeproduced-outside-input");
        }
        if (r.sig)
        {
            CK(in_buf(in, n, r.sig, r.sigLen), "ocsp-signature-outside-input");
        }
        CK(r.hashLen <= MAX_HASH_SIZE, "ocsp-hash-len");
        if (r.nonce.start)
        {
            CK(r.nonce.end >= r.nonce.start && in_buf(in, n, r.nonce.start, r.nonce.end - r.nonce.start),
               "ocsp-nonce-outside-input");
        }
        for (i = 0; i < MAX_OCSP_RESPONSES; i++)
        {
            const psOcspSingleResponse_t *s = &r.singleResponse[i];
            if (s->thisUpdate == NULL)
            {
                continue;
            }
            CK(s->thisUpdateLen >= 0 && in_buf(in, n, s->thisUpdate, s->thisUpdateLen),
               "ocsp-thisupdate-outside-input");
            if (s->nextUpdate)
            {
                CK(s->nextUpdateLen >= 0 && in_buf(in, n, s->nextUpdate, s->nextUpdateLen),
                   "ocsp-nextupdate-outside-input");
            }
            if (s->certIdSerial)
            {
                CK(s->certIdSerialLen >= 0 && in_buf(in, n, s->certIdSerial, s->certIdSerialLen),
                   "ocsp-certid-serial-outside-input");
            }
            /* psOcspResponseValidate compares SHA1_HASH_SIZE bytes at these
               when certIdHashAlg is SHA-1 */
            if (s->certIdHashAlg == OID_SHA1_ALG)
            {
                CK(in_buf(in, n, s->certIdNameHash, SHA1_HASH_SIZE), "ocsp-certid-namehash-outside-input");
                CK(in_buf(in, n, s->certIdKeyHash, SHA1_HASH_SIZE), "ocsp-certid-keyhash-outside-input");
            }
        }
        if (r.OCSPResponseCert)
        {
            walk_cert_chain(r.OCSPResponseCert);
        }
        if (r.singleResponse[0].thisUpdate)
        {
            psBrokenDownTime_t a, b, c;
            (void) psOcspResponseCheckDates(&r, 0, NULL, &a, &b, &c, PS_OCSP_TIME_LINGER);
        }
    }
    psOcspResponseUninit(&r);
    return 0;
}
# endif
#endif /* USE_X509 */

#ifdef USE_PRIVATE_KEY_PARSING
# ifdef USE_PKCS8
static int pkcs8_pw(unsigned char *in, size_t n, char *pw)
{
    psPubKey_t k;
    memset(&k, 0, sizeof k);
    if (psPkcs8ParsePrivBin(NULL, in, n, pw, &k) >= 0)
    {
        PARSED();
        walk_pubkey(&k);
        psClearPubKey(&k);
    }
    return 0;
}
static int t_pkcs8(unsigned char *in, size_t n) { return pkcs8_pw(in, n, NULL); }
static int t_pkcs8_pw(unsigned char *in, size_t n)
{
    char pw[] = "secret";
    return pkcs8_pw(in, n, pw);
}
#  if defined(USE_PKCS12) && defined(MATRIX_USE_FILE_SYSTEM)
static int t_pkcs12(unsigned char *in, size_t n)
{
    /* call protocol of matrixSslLoadPkcs12Mem */
    psX509Cert_t *c = NULL;
    psPubKey_t k;
    unsigned char pw[] = "secret";
    int32 rc;
    memset(&k, 0, sizeof k);
    rc = psPkcs12ParseMem(NULL, &c, &k, in, (int32) n, 0, pw, 6, pw, 6);
    if (rc >= 0)
    {
        PARSED();
        walk_cert_chain(c);
        walk_pubkey(&k);
    }
    psX509FreeCert(c);
    psClearPubKey(&k);
    return 0;
}
#  endif
# endif
# ifdef USE_RSA
static int t_rsa_priv(unsigned char *in, size_t n)
{
    psRsaKey_t k;
    memset(&k, 0, sizeof k);
    if (n > 65535)
    {
        return 0;
    }
    if (psRsaParsePkcs1PrivKey(NULL, in, (psSize_t) n, &k) >= 0)
    {
        PARSED();
        walk_rsa(&k);
        psRsaClearKey(&k);
    }
    return 0;
}
static int t_rsa_pubmem(unsigned char *in, size_t n)
{
    psRsaKey_t k;
    memset(&k, 0, sizeof k);
    if (psRsaParsePubKeyMem(NULL, in, n, NULL, &k) >= 0)
    {
        PARSED();
        walk_rsa(&k);
    }
    psRsaClearKey(&k);
    return 0;
}
# endif
# ifdef USE_ECC
static int t_ecc_priv(unsigned char *in, size_t n)
{
    psEccKey_t k;
    memset(&k, 0, sizeof k);
    if (n > 65535)
    {
        return 0;
    }
    if (psEccParsePrivKey(NULL, in, (psSize_t) n, &k, NULL) >= 0)
    {
        PARSED();
        walk_ecc(&k);
        psEccClearKey(&k);
    }
    return 0;
}
#  ifdef USE_ED25519
static int t_ed25519_priv(unsigned char *in, size_t n)
{
    psCurve25519Key_t k;
    memset(&k, 0, sizeof k);
    if (n > 65535)
    {
        return 0;
    }
    if (psEd25519ParsePrivKey(NULL, in, (psSize_t) n, &k) >= 0)
    {
        PARSED();
    }
    return 0;
}
static int t_ed25519_pub(unsigned char *in, size_t n)
{
    psCurve25519Key_t k;
    const unsigned char *p = in;
    unsigned char hash[64];
    memset(&k, 0, sizeof k);
    if (n > 65535)
    {
        return 0;
    }
    if (psEd25519ParsePubKey(NULL, &p, (psSize_t) n, &k, hash) >= 0)
    {
        PARSED();
        CK(in_buf(in, n, p, 0), "ed25519-cursor-outside-input");
    }
    return 0;
}
#  endif
# endif
# if defined(USE_RSA) || defined(USE_ECC)
static int t_privkey_unknown(unsigned char *in, size_t n)
{
    psPubKey_t k;
    memset(&k, 0, sizeof k);
    if (psParseUnknownPrivKeyMem(NULL, in, (int32) n, NULL, &k) >= 0)
    {
        PARSED();
        walk_pubkey(&k);
        psClearPubKey(&k);
    }
    return 0;
}
static int t_pubkey_unknown(unsigned char *in, size_t n)
{
    psPubKey_t k;
    memset(&k, 0, sizeof k);
    if (psParseUnknownPubKeyMem(NULL, in, (int32) n, NULL, &k) >= 0)
    {
        PARSED();
        walk_pubkey(&k);
        psClearPubKey(&k);
    }
    return 0;
}
static int t_spki(unsigned char *in, size_t n)
{
    int32_t alg = 0;
    unsigned char *params = NULL;
    psSizeL_t plen = 0;
    const unsigned char *bits = NULL;
    if (psParseSubjectPublicKeyInfo(NULL, in, n, &alg, &params, &plen, &bits) >= 0)
    {
        PARSED();
        CK(in_buf(in, n, bits, 1), "spki-bitstring-outside-input");
        if (params)
        {
            CK(in_buf(in, n, params, plen), "spki-params-outside-input");
        }
    }
    return 0;
}
# endif
#endif /* USE_PRIVATE_KEY_PARSING */

#ifdef USE_RSA
static int t_rsa_pub(unsigned char *in, size_t n)
{
    psRsaKey_t k;
    const unsigned char *p = in;
    unsigned char h[SHA1_HASH_SIZE];
    memset(&k, 0, sizeof k);
    if (n > 65535)
    {
        return 0;
    }
    if (psRsaParseAsnPubKey(NULL, &p, (psSize_t) n, &k, h) >= 0)
    {
        PARSED();
        CK(in_buf(in, n, p, 0), "rsa-pub-cursor-outside-input");
        walk_rsa(&k);
    }
    psRsaClearKey(&k);
    return 0;
}
#endif
#ifdef USE_ECC
static int t_ecc_pub(unsigned char *in, size_t n)
{
    psEccKey_t k;
    const unsigned char *p = in;
    unsigned char h[SHA1_HASH_SIZE];
    memset(&k, 0, sizeof k);
    if (n > 65535)
    {
        return 0;
    }
    if (getEcPubKey(NULL, &p, (psSize_t) n, &k, h) >= 0)
    {
        PARSED();
        CK(in_buf(in, n, p, 0), "ecc-pub-cursor-outside-input");
        walk_ecc(&k);
        psEccClearKey(&k);
    }
    return 0;
}
#endif
#ifdef USE_DH
static int t_dhparams(unsigned char *in, size_t n)
{
    psDhParams_t p;
    memset(&p, 0, sizeof p);
    if (n > 65535)
    {
        return 0;
    }
    if (psPkcs3ParseDhParamBin(NULL, in, (psSize_t) n, &p) >= 0)
    {
        PARSED();
        walk_pstm(&p.p, "dh-bignum");
        walk_pstm(&p.g, "dh-bignum");
        CK(p.size == pstm_unsigned_bin_size(&p.p), "dh-size-vs-prime");
        psPkcs3ClearDhParams(&p);
    }
    return 0;
}
#endif

#ifdef USE_PEM_DECODE
static int pem_pw(unsigned char *in, size_t n, const char *pw)
{
    unsigned char *out = NULL;
    psSizeL_t ol = 0;
    if (psPemDecode(NULL, in, n, pw, &out, &ol) >= 0 && out)
    {
        PARSED();
        RG(out, ol, "pem-output-region");
        psFree(out, NULL);
    }
    return 0;
}
static int t_pem(unsigned char *in, size_t n) { return pem_pw(in, n, NULL); }
static int t_pem_pw(unsigned char *in, size_t n) { return pem_pw(in, n, "secret"); }
#endif
#ifdef USE_BASE64_DECODE
static int t_base64(unsigned char *in, size_t n)
{
    psSize_t cap, ol;
    unsigned char *out;
    if (n > 65535)
    {
        return 0;
    }
    cap = (psSize_t) ((n / 4) * 3 + 3);
    out = malloc(cap);
    ol = cap;
    if (psBase64decode(in, (psSize_t) n, out, &ol) >= 0)
    {
        PARSED();
        CK(ol <= cap, "base64-outlen-above-capacity");
        RG(out, ol, "base64-output-region");
    }
    free(out);
    return 0;
}
#endif

/* ---- matrixSslLoadKeysMem / matrixSslLoadPkcs12Mem: the fuzzed buffer is
   one of the three inputs, the other two are fixed valid P-256 samples ---- */
#include "c09_fixed.h"

static void walk_keys(sslKeys_t *keys)
{
#ifdef USE_IDENTITY_CERTIFICATES
    sslIdentity_t *id;
    unsigned n = 0;
    for (id = keys->identity; id; id = id->next)
    {
        CK(++n <= 70000, "keys-identity-list-unbounded");
        RGN(id, sizeof *id, "keys-identity-node");
        walk_pubkey(&id->privKey);
        walk_cert_chain(id->cert);
    }
#endif
#if defined(USE_IDENTITY_CERTIFICATES) || defined(USE_CA_CERTIFICATES)
    walk_cert_chain(keys->CAcerts);
#endif
}

static int loadkeys(const unsigned char *cert, size_t cl, const unsigned char *key, size_t kl,
                    const unsigned char *ca, size_t cal)
{
    sslKeys_t *keys = NULL;
    if (matrixSslNewKeys(&keys, NULL) < 0)
    {
        return 0;
    }
    if (matrixSslLoadKeysMem(keys, cert, (int32) cl, key, (int32) kl, ca, (int32) cal, NULL) >= 0)
    {
        PARSED();
        walk_keys(keys);
    }
    matrixSslDeleteKeys(keys);
    return 0;
}
static int t_loadkeys_ca(unsigned char *in, size_t n) { return loadkeys(NULL, 0, NULL, 0, in, n); }
static int t_loadkeys_cert(unsigned char *in, size_t n)
{
    return loadkeys(in, n, c09_fixed_key, sizeof c09_fixed_key, NULL, 0);
}
static int t_loadkeys_key(unsigned char *in, size_t n)
{
    return loadkeys(c09_fixed_cert, sizeof c09_fixed_cert, in, n, NULL, 0);
}
#ifdef USE_PKCS12
static int t_loadpkcs12(unsigned char *in, size_t n)
{
    sslKeys_t *keys = NULL;
    if (matrixSslNewKeys(&keys, NULL) < 0)
    {
        return 0;
    }
    if (matrixSslLoadPkcs12Mem(keys, in, (int32) n, (const unsigned char *) "secret", 6, NULL, 0, 0) >= 0)
    {
        PARSED();
        walk_keys(keys);
    }
    matrixSslDeleteKeys(keys);
    return 0;
}
#endif

/* name, function, nulterm (1: "_z" file-loader emulation) */
static const struct target
{
    const char *name;
    tfn fn;
    int nulterm;
} targets[] = {
#ifdef USE_X509
    { "x509_f0", t_x509_f0, 0 },
    { "x509_f1", t_x509_f1, 0 },
    { "x509_f2", t_x509_f2, 0 },
    { "x509_f7", t_x509_f7, 0 },
    { "certdata", t_certdata, 0 },
    { "certdata_z", t_certdata_f3, 1 },
    { "certdata_f7_z", t_certdata_f7, 1 },
# ifdef USE_PEM_DECODE
    { "pemcertlist", t_pemcertlist, 0 },
    { "pemcertlist_z", t_pemcertlist, 1 },
# endif
# ifdef USE_CRL
    { "crl", t_crl, 0 },
# endif
# ifdef USE_OCSP_RESPONSE
    { "ocsp", t_ocsp, 0 },
# endif
#endif
#ifdef USE_PRIVATE_KEY_PARSING
# ifdef USE_PKCS8
    { "pkcs8", t_pkcs8, 0 },
    { "pkcs8_pw", t_pkcs8_pw, 0 },
#  if defined(USE_PKCS12) && defined(MATRIX_USE_FILE_SYSTEM)
    { "pkcs12", t_pkcs12, 0 },
#  endif
# endif
# ifdef USE_RSA
    { "rsa_priv", t_rsa_priv, 0 },
    { "rsa_pubmem", t_rsa_pubmem, 0 },
    { "rsa_pubmem_z", t_rsa_pubmem, 1 },
# endif
# ifdef USE_ECC
    { "ecc_priv", t_ecc_priv, 0 },
#  ifdef USE_ED25519
    { "ed25519_priv", t_ed25519_priv, 0 },
    { "ed25519_pub", t_ed25519_pub, 0 },
#  endif
# endif
# if defined(USE_RSA) || defined(USE_ECC)
    { "privkey_unknown", t_privkey_unknown, 0 },
    { "pubkey_unknown", t_pubkey_unknown, 0 },
    { "pubkey_unknown_z", t_pubkey_unknown, 1 },
    { "spki", t_spki, 0 },
# endif
#endif
#ifdef USE_RSA
    { "rsa_pub", t_rsa_pub, 0 },
#endif
#ifdef USE_ECC
    { "ecc_pub", t_ecc_pub, 0 },
#endif
#ifdef USE_DH
    { "dhparams", t_dhparams, 0 },
#endif
#ifdef USE_PEM_DECODE
    { "pem", t_pem, 0 },
    { "pem_z", t_pem, 1 },
    { "pem_pw_z", t_pem_pw, 1 },
#endif
#ifdef USE_BASE64_DECODE
    { "base64", t_base64, 0 },
#endif
    { "loadkeys_ca", t_loadkeys_ca, 0 },
    { "loadkeys_ca_z", t_loadkeys_ca, 1 },
    { "loadkeys_cert", t_loadkeys_cert, 0 },
    { "loadkeys_cert_z", t_loadkeys_cert, 1 },
    { "loadkeys_key", t_loadkeys_key, 0 },
    { "loadkeys_key_z", t_loadkeys_key, 1 },
#ifdef USE_PKCS12
    { "loadpkcs12", t_loadpkcs12, 0 },
#endif
};
#define NTARGETS (sizeof targets / sizeof targets[0])

static const struct target *g_t;
static unsigned long g_ok_runs;

static void print_stats(void)
{
    fprintf(stderr, "C09-STATS: target=%s runs=%lu parsed=%lu\n", g_target, g_runs, g_parse_ok);
}

static int select_target(const char *name)
{
    size_t i;
    if (name && strcmp(name, "list") == 0)
    {
        for (i = 0; i < NTARGETS; i++)
        {
            printf("%s\n", targets[i].name);
        }
        exit(0);
    }
    for (i = 0; name && i < NTARGETS; i++)
    {
        if (strcmp(name, targets[i].name) == 0)
        {
            g_t = &targets[i];
            g_target = g_t->name;
            return 0;
        }
    }
    fprintf(stderr, "C09: unknown target '%s' (set C09_TARGET; C09_TARGET=list prints them)\n", name ? name : "(null)");
    exit(3);
}

int LLVMFuzzerInitialize(int *argc, char ***argv)
{
    (void) argc;
    (void) argv;
    select_target(getenv("C09_TARGET"));
    g_verbose = getenv("C09_VERBOSE") != NULL;
    /* libFuzzer always executes the empty input first; the driver replays an
       explicit empty seed once per target and sets this for the mutation phase
       so that a known defect on the empty input does not mask everything else */
    g_skip_empty = getenv("C09_SKIP_EMPTY") != NULL;
    atexit(print_stats);
    if (matrixSslOpen() < 0)
    {
        fprintf(stderr, "C09: matrixSslOpen failed\n");
        exit(3);
    }
    return 0;
}

int LLVMFuzzerTestOneInput(const uint8_t *d, size_t n)
{
    unsigned char *in;

    if (n > 65536 || (n == 0 && g_skip_empty))
    {
        return 0;
    }
    /* exact-size block: [n] is a red zone, except for the _z (file-loader)
       targets where [n] is an addressable NUL. n == 0: valid pointer, len 0 */
    in = malloc(n + (g_t->nulterm ? 1 : 0) + ((n == 0 && !g_t->nulterm) ? 1 : 0));
    if (in == NULL)
    {
        return 0;
    }
    if (n)
    {
        memcpy(in, d, n);
    }
    if (g_t->nulterm)
    {
        in[n] = 0;
    }
#ifdef C09_ASAN
    if (n == 0 && !g_t->nulterm)
    {
        __asan_poison_memory_region(in, 1);
    }
#endif
    {
        unsigned long before = g_parse_ok;
        g_runs++;
        g_t->fn(in, n);
        if (g_verbose)
        {
            fprintf(stderr, "C09-RESULT: %s len=%lu\n", g_parse_ok != before ? "parsed" : "rejected", (unsigned long) n);
        }
    }
#ifdef C09_ASAN
    if (n == 0 && !g_t->nulterm)
    {
        __asan_unpoison_memory_region(in, 1);
    }
#endif
    free(in);
    g_ok_runs++;
    return 0;
}

#ifndef C09_STANDALONE
# include "c09_mutator.c"
#else
int main(int argc, char **argv)
{
    int i;
    static unsigned char buf[65537];

    if (argc < 2)
    {
        fprintf(stderr, "usage: %s <target> files...\n", argv[0]);
        return 3;
    }
    select_target(argv[1]);
    if (matrixSslOpen() < 0)
    {
        return 3;
    }
    for (i = 2; i < argc; i++)
    {
        FILE *f = fopen(argv[i], "rb");
        size_t n;
        if (!f)
        {
            continue;
        }
        n = fread(buf, 1, sizeof buf, f);
        fclose(f);
        if (n > 65536)
        {
            continue;
        }
        fprintf(stderr, "C09-FILE: %s\n", argv[i]);
        LLVMFuzzerTestOneInput(buf, n);
    }
    matrixSslClose();
    fprintf(stderr, "C09-DONE: %lu\n", g_ok_runs);
    return 0;
}
#endif
