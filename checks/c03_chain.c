/* C03 - X.509 validation succeeds only for a genuinely signed path to a trust anchor.
 *
 * Oracle BY CONSTRUCTION.  gen/certgen.h mints every certificate from a cg_spec the harness controls
 * (own DER writer, libcrypto only signs), so for every certificate the ground truth is known: which key
 * really signed it, whether the signature bytes are genuine for the declared algorithm, its names,
 * validity, CA flag, pathLen, keyUsage, unknown critical extension, revocation by an authenticated CRL.
 * A ~50-line reference path finder over that ground truth (never over the DER) decides whether a path
 * "presented end entity -> ... -> trust anchor" satisfying the rules of the property statement exists.
 *
 *   soundness    : the library reports success (read leniently: rc >= 0 AND every presented certificate
 *                  authStatus == PS_CERT_AUTH_PASS AND no authFailFlags) while the reference finds no
 *                  path                                     -> c03:accepts:<operator labels>
 *   completeness : reference finds a path, the chain is presented leaf-first, only benign operators and
 *                  supported features are involved, and the library does not report success
 *                                                           -> c03:rejects-good:<shape>
 *                  every such "good" chain is cross-checked with OpenSSL X509_verify_cert at the same
 *                  virtual time; if OpenSSL rejects it the GENERATOR is wrong -> inconclusive, never a
 *                  violation.  Conversely single-operator bad chains whose defect OpenSSL also knows
 *                  must be rejected by OpenSSL (defect really injected), else inconclusive.
 *
 * The clock is the virtual mx_now (harness/mx_wraps.c, --wrap=time,gettimeofday); certificates are minted
 * relative to it.  Anchors are loaded the way matrixSslLoadKeysMem does (psX509ParseCertData on a PEM
 * bundle with CERT_STORE_DN_BUFFER|CERT_ALLOW_BUNDLE_PARTIAL_PARSE), presented certificates the way the
 * handshake does (psX509ParseCert per certificate, linked leaf first), CRLs the way apps/ssl/client.c does
 * (psX509ParseCRL, psCRL_Update, psX509AuthenticateCRL against the issuer). */
#define _GNU_SOURCE
#include "vf.h"
#include "matrixsslApi.h"
#include "certgen.h"

extern long mx_now;

#define MAXL 5
enum { W1 = MAXL, W2, WS, NNODE };           /* extra nodes: two unrelated roots, one root with the right DN but another key */

/* ------------------------------------------------------------------ operators --- */
enum { CL_BAD = 0, CL_BENIGN, CL_RECORD };   /* labelled rule violation / must still validate / recorded only */
enum { T_SUBJ = 0, T_ISSUER, T_INTER, T_LEAF };   /* applies to cert p in 1..L-1 / issuer 0..L-2 / intermediate 1..L-2 / leaf only */
enum {
    OP_NONE = 0,
    OP_SIG_CORRUPT, OP_SIG_WRONG_KEY, OP_SIG_COPY_ANCHOR, OP_SIG_COPY_ANCHOR_SAMEDN, OP_SIG_COPY_ISSUER, OP_SIG_EMPTY,
    OP_SIG_ALG_OUTER, OP_SIG_ALG_WRONG, OP_SIG_HASH_SWAP, OP_SHA1_EQLEN, OP_SHA1_DIFFLEN, OP_MD5,
    OP_ISSUER_DN, OP_EXPIRED, OP_NOT_YET, OP_UNK_CRIT, OP_REVOKED,
    OP_NOT_CA, OP_BC_ABSENT, OP_PATHLEN, OP_KU_NOCERTSIGN, OP_KU_EMPTY_OLD, OP_WEAK_RSA512, OP_V1,
    /* validity-window grid (notBefore class x notAfter class), labelled */
    OP_NOT_YET_INDEF, OP_NOT_YET_2D_INDEF, OP_NOT_YET_FAR, OP_NOT_YET_2D, OP_EXPIRED_2D, OP_VALIDITY_INVERTED,
    /* RSA PKCS#1 v1.5 signature values that are the issuer's PRIVATE-key operation on a malformed encoded message */
    OP_EM_NONFF, OP_EM_RANDOM_PS, OP_EM_BT02, OP_EM_NO_SEP, OP_EM_EARLY_SEP, OP_EM_TRAILING, OP_EM_DI_PARAMS,
    /* signature values computed from the issuer's PUBLIC key alone (e = 3: a perfect cube below n whose cube has the wanted prefix / suffix) */
    OP_FORGE_NONFF, OP_FORGE_RANDOM_PS, OP_FORGE_PAD8_TRAILING, OP_FORGE_PAD1_TRAILING, OP_FORGE_PAD0_TRAILING, OP_FORGE_DI_PARAMS,
    /* benign */
    OP_UNK_NONCRIT, OP_PATHLEN_TIGHT, OP_BOGUS_CRL, OP_CRL_OTHER, OP_GENTIME, OP_PSS, OP_SHA384, OP_SHA512, OP_NO_AKI_SKI,
    OP_INDEF, OP_INDEF_FRESH, OP_FAR, OP_FRESH,
    /* recorded only */
    OP_KU_ABSENT, OP_AKI_MISMATCH, OP_EKU_CRIT_OTHER, OP_EXPIRED_ANCHOR, OP_CRL_UNAUTH, OP_LINGER, OP_ISSUER_DN_TYPE, OP_WEAK_LEAF512, OP_SIG_ENVELOPE,
    OP_N
};
static const struct { const char *name; int cls, target; } OPS[OP_N] = {
    [OP_NONE] = { "none", CL_BENIGN, T_SUBJ },
    [OP_SIG_CORRUPT] = { "sig-corrupt", CL_BAD, T_SUBJ }, [OP_SIG_WRONG_KEY] = { "sig-wrong-key", CL_BAD, T_SUBJ },
    [OP_SIG_COPY_ANCHOR] = { "sig-copied-from-anchor", CL_BAD, T_SUBJ }, [OP_SIG_COPY_ANCHOR_SAMEDN] = { "sig-copied-from-anchor-same-dn", CL_BAD, T_SUBJ },
    [OP_SIG_COPY_ISSUER] = { "sig-copied-from-issuer", CL_BAD, T_SUBJ }, [OP_SIG_EMPTY] = { "sig-empty", CL_BAD, T_SUBJ },
    [OP_SIG_ALG_OUTER] = { "sig-alg-mismatch", CL_BAD, T_SUBJ }, [OP_SIG_ALG_WRONG] = { "sig-wrong-alg-family", CL_BAD, T_SUBJ },
    [OP_SIG_HASH_SWAP] = { "sig-hash-swap", CL_BAD, T_SUBJ }, [OP_SHA1_EQLEN] = { "sha1-sig", CL_BAD, T_SUBJ }, [OP_SHA1_DIFFLEN] = { "sha1-sig-cn-length-differs", CL_BAD, T_SUBJ },
    [OP_MD5] = { "md5-sig", CL_BAD, T_SUBJ },
    [OP_ISSUER_DN] = { "issuer-dn-mismatch", CL_BAD, T_SUBJ }, [OP_EXPIRED] = { "expired", CL_BAD, T_SUBJ }, [OP_NOT_YET] = { "not-yet-valid", CL_BAD, T_SUBJ },
    [OP_UNK_CRIT] = { "unknown-critical-ext", CL_BAD, T_SUBJ }, [OP_REVOKED] = { "revoked", CL_BAD, T_SUBJ },
    [OP_NOT_CA] = { "issuer-not-ca", CL_BAD, T_ISSUER }, [OP_BC_ABSENT] = { "bc-absent", CL_BAD, T_ISSUER }, [OP_PATHLEN] = { "pathlen-exceeded", CL_BAD, T_ISSUER },
    [OP_KU_NOCERTSIGN] = { "ku-no-certsign", CL_BAD, T_ISSUER }, [OP_KU_EMPTY_OLD] = { "ku-empty-pre2002-issuer", CL_BAD, T_ISSUER },
    [OP_WEAK_RSA512] = { "weak-rsa-512", CL_BAD, T_ISSUER }, [OP_V1] = { "v1-issuer", CL_BAD, T_INTER },
    [OP_NOT_YET_INDEF] = { "not-yet-valid-no-expiry-9999", CL_BAD, T_SUBJ }, [OP_NOT_YET_2D_INDEF] = { "not-yet-valid-2d-no-expiry-9999", CL_BAD, T_SUBJ },
    [OP_NOT_YET_FAR] = { "not-yet-valid-expires-after-2050", CL_BAD, T_SUBJ }, [OP_NOT_YET_2D] = { "not-yet-valid-2d", CL_BAD, T_SUBJ },
    [OP_EXPIRED_2D] = { "expired-2d", CL_BAD, T_SUBJ }, [OP_VALIDITY_INVERTED] = { "validity-inverted", CL_BAD, T_SUBJ },
    [OP_EM_NONFF] = { "rsa-em-non-ff-padding-octet", CL_BAD, T_SUBJ }, [OP_EM_RANDOM_PS] = { "rsa-em-random-padding", CL_BAD, T_SUBJ }, [OP_EM_BT02] = { "rsa-em-block-type-02", CL_BAD, T_SUBJ },
    [OP_EM_NO_SEP] = { "rsa-em-no-separator", CL_BAD, T_SUBJ }, [OP_EM_EARLY_SEP] = { "rsa-em-garbage-after-separator", CL_BAD, T_SUBJ },
    [OP_EM_TRAILING] = { "rsa-em-short-padding-trailing-garbage", CL_BAD, T_SUBJ }, [OP_EM_DI_PARAMS] = { "rsa-em-garbage-in-digestinfo-params", CL_BAD, T_SUBJ },
    [OP_FORGE_NONFF] = { "forged-e3-garbage-padding-then-00", CL_BAD, T_SUBJ }, [OP_FORGE_RANDOM_PS] = { "forged-e3-random-padding", CL_BAD, T_SUBJ },
    [OP_FORGE_PAD8_TRAILING] = { "forged-e3-pad8-trailing-garbage", CL_BAD, T_SUBJ }, [OP_FORGE_PAD1_TRAILING] = { "forged-e3-pad1-trailing-garbage", CL_BAD, T_SUBJ },
    [OP_FORGE_PAD0_TRAILING] = { "forged-e3-pad0-trailing-garbage", CL_BAD, T_SUBJ }, [OP_FORGE_DI_PARAMS] = { "forged-e3-garbage-in-digestinfo-params", CL_BAD, T_SUBJ },
    [OP_INDEF] = { "no-expiry-9999", CL_BENIGN, T_SUBJ }, [OP_INDEF_FRESH] = { "no-expiry-9999-just-issued", CL_BENIGN, T_SUBJ },
    [OP_FAR] = { "expires-after-2050", CL_BENIGN, T_SUBJ }, [OP_FRESH] = { "just-issued", CL_BENIGN, T_SUBJ },
    [OP_UNK_NONCRIT] = { "unknown-noncritical-ext", CL_BENIGN, T_SUBJ }, [OP_PATHLEN_TIGHT] = { "pathlen-tight", CL_BENIGN, T_ISSUER },
    [OP_BOGUS_CRL] = { "bogus-crl", CL_BENIGN, T_SUBJ }, [OP_CRL_OTHER] = { "crl-other-serial", CL_BENIGN, T_SUBJ }, [OP_GENTIME] = { "generalized-time", CL_BENIGN, T_SUBJ },
    [OP_PSS] = { "rsa-pss", CL_BENIGN, T_SUBJ }, [OP_SHA384] = { "sha384", CL_BENIGN, T_SUBJ }, [OP_SHA512] = { "sha512", CL_BENIGN, T_SUBJ }, [OP_NO_AKI_SKI] = { "no-aki-ski", CL_BENIGN, T_SUBJ },
    [OP_KU_ABSENT] = { "ku-absent-on-ca", CL_RECORD, T_ISSUER }, [OP_AKI_MISMATCH] = { "aki-mismatch", CL_RECORD, T_SUBJ }, [OP_EKU_CRIT_OTHER] = { "eku-critical-not-tls", CL_RECORD, T_LEAF },
    [OP_EXPIRED_ANCHOR] = { "expired-anchor", CL_RECORD, T_ISSUER }, [OP_CRL_UNAUTH] = { "crl-not-authenticated-by-app", CL_RECORD, T_SUBJ }, [OP_LINGER] = { "expired-within-24h", CL_RECORD, T_SUBJ },
    [OP_ISSUER_DN_TYPE] = { "issuer-dn-other-string-type", CL_RECORD, T_SUBJ }, [OP_WEAK_LEAF512] = { "leaf-rsa-512", CL_RECORD, T_LEAF },
    [OP_SIG_ENVELOPE] = { "ecdsa-sig-der-length-damaged", CL_RECORD, T_SUBJ },
};
static int op_by_name(const char *s) { for (int i = 0; i < OP_N; i++) if (!strcmp(OPS[i].name, s)) return i; return -1; }

enum { A_RIGHT = 0, A_NONE, A_WRONG, A_WRONG_SAMEDN, A_INT, A_INT_NOTPRESENTED, A_MANY_RIGHT_LAST, A_MANY_RIGHT_FIRST, A_MANY_WRONG, A_LEAF, A_MIDINT, A_N };
static const char *ANC[A_N] = { "right-root", "none", "wrong-root", "wrong-root-same-dn", "intermediate-as-anchor", "intermediate-as-anchor-not-presented",
                                "many-right-last", "many-right-first", "many-wrong", "leaf-as-anchor", "middle-intermediate-as-anchor" };
static int anc_by_name(const char *s) { for (int i = 0; i < A_N; i++) if (!strcmp(ANC[i], s)) return i; return -1; }

typedef struct {
    int L; int kt[MAXL];        /* path length incl. root; key type per level (0 root .. L-1 leaf) */
    int op[2], pos[2];
    int anc, apl;               /* anchor set; pathLen of the root: -1 absent, >= 0 value */
    int ord;                    /* permutation of the presented list: 0 leaf-first, 1 reversed, 2 rotated, 3 last two swapped, 4 leaf moved to the end */
    int root_presented;         /* root certificate appended to the presented list */
    int api;                    /* 0 matrixValidateCerts, 1 matrixValidateCertsExt(opts 0), 2 Ext + VCERTS_FLAG_REVALIDATE_DATES */
} cdesc;

static const char KTC[] = "RPE3";                     /* key-type letters: RSA2048, P256, Ed25519, P384 (+ 'C': RSA2048 with public exponent 3) */
/* K_RSA_E3: pseudo key type of this harness - an RSA-2048 key whose public exponent is 3 (accepted by the library's default configuration and by OpenSSL).
 * The keys live in their own pool; their cg_key.type is CG_K_RSA2048, so certgen treats them as ordinary RSA keys. */
#define K_RSA_E3 CG_K_NTYPES
static cg_key *e3_pool[CG_POOL_MAX];
static cg_key *key_get(int kt, int idx)
{
    if (kt != K_RSA_E3) return cg_key_get(kt, idx);
    if (idx < 0 || idx >= CG_POOL_MAX) exit(2);
    if (!e3_pool[idx]) {
        EVP_PKEY_CTX *c = EVP_PKEY_CTX_new_id(EVP_PKEY_RSA, NULL); EVP_PKEY *pk = NULL; BIGNUM *e = BN_new(); BN_set_word(e, 3);
        if (!c || EVP_PKEY_keygen_init(c) <= 0 || EVP_PKEY_CTX_set_rsa_keygen_bits(c, 2048) <= 0 || EVP_PKEY_CTX_set1_rsa_keygen_pubexp(c, e) <= 0 || EVP_PKEY_keygen(c, &pk) <= 0) {
            fprintf(stderr, "c03: RSA e=3 key generation failed\n"); ERR_print_errors_fp(stderr); exit(2); }
        BN_free(e); EVP_PKEY_CTX_free(c);
        cg_key *k = calloc(1, sizeof *k); k->type = CG_K_RSA2048; k->idx = idx; k->pk = pk; k->spkilen = i2d_PUBKEY(pk, &k->spki);
        if (k->spkilen <= 0) exit(2);
        SHA1(k->spki, k->spkilen, k->skid); e3_pool[idx] = k;
    }
    return e3_pool[idx];
}
static int kt_rsa(int t) { return t == CG_K_RSA2048 || t == K_RSA_E3; }
static int kt_of(char c) { return c == 'R' ? CG_K_RSA2048 : c == 'P' ? CG_K_P256 : c == 'E' ? CG_K_ED25519 : c == '3' ? CG_K_P384 : c == 'C' ? K_RSA_E3 : -1; }
static char kt_ch(int t) { return t == CG_K_RSA2048 ? 'R' : t == CG_K_P256 ? 'P' : t == CG_K_ED25519 ? 'E' : t == K_RSA_E3 ? 'C' : '3'; }
static void desc_str(const cdesc *d, char *o, size_t n)
{
    char kp[MAXL + 1]; for (int i = 0; i < d->L; i++) kp[i] = kt_ch(d->kt[i]); kp[d->L] = 0;
    snprintf(o, n, "L=%d kt=%s op=%s@%d op2=%s@%d anc=%s apl=%d ord=%d root=%d api=%d", d->L, kp, OPS[d->op[0]].name, d->pos[0], OPS[d->op[1]].name, d->pos[1],
             ANC[d->anc], d->apl, d->ord, d->root_presented, d->api);
}
static int desc_parse(const char *s, cdesc *d)
{
    char kp[16], o1[64], o2[64], an[64]; memset(d, 0, sizeof *d);
    if (sscanf(s, "L=%d kt=%15s op=%63[^@]@%d op2=%63[^@]@%d anc=%63s apl=%d ord=%d root=%d api=%d", &d->L, kp, o1, &d->pos[0], o2, &d->pos[1], an, &d->apl, &d->ord, &d->root_presented, &d->api) != 11) return -1;
    if (d->L < 1 || d->L > MAXL || (int) strlen(kp) != d->L) return -1;
    for (int i = 0; i < d->L; i++) if ((d->kt[i] = kt_of(kp[i])) < 0) return -1;
    if ((d->op[0] = op_by_name(o1)) < 0 || (d->op[1] = op_by_name(o2)) < 0 || (d->anc = anc_by_name(an)) < 0) return -1;
    return 0;
}
static const char *keyclass(const cdesc *d)
{
    int same = 1; for (int i = 1; i < d->L; i++) if (d->kt[i] != d->kt[0]) same = 0;
    return !same ? "mixed-keys" : d->kt[0] == CG_K_RSA2048 ? "rsa" : d->kt[0] == CG_K_P256 ? "p256" : d->kt[0] == CG_K_ED25519 ? "ed25519" : d->kt[0] == K_RSA_E3 ? "rsa-e3" : "p384";
}
static int crl_capable(int kt) { return kt != CG_K_ED25519; }    /* psX509ParseCRL has no Ed25519 support: such CRLs cannot be loaded at all */
static int op_applicable(const cdesc *d, int op, int p)
{
    int L = d->L;
    if (op == OP_NONE) return p == 0;
    switch (OPS[op].target) {
    case T_SUBJ: if (p < 1 || p > L - 1) return 0; break;
    case T_ISSUER: if (p < 0 || p > L - 2) return 0; break;
    case T_INTER: if (p < 1 || p > L - 2) return 0; break;
    case T_LEAF: if (p != L - 1 || L < 2) return 0; break;
    }
    int ikt = p >= 1 ? d->kt[p - 1] : -1;                /* key type of the issuer of cert p */
    switch (op) {
    case OP_PATHLEN: return L - p - 2 >= 1;
    case OP_PATHLEN_TIGHT: return 1;
    case OP_SIG_HASH_SWAP: case OP_SHA1_EQLEN: case OP_SHA1_DIFFLEN: case OP_SHA384: case OP_SHA512: return ikt != CG_K_ED25519;
    case OP_MD5: case OP_PSS: return kt_rsa(ikt);
    case OP_WEAK_RSA512: return kt_rsa(d->kt[p]);
    case OP_WEAK_LEAF512: return kt_rsa(d->kt[p]);
    case OP_EM_NONFF: case OP_EM_RANDOM_PS: case OP_EM_BT02: case OP_EM_NO_SEP: case OP_EM_EARLY_SEP: case OP_EM_TRAILING: case OP_EM_DI_PARAMS: return kt_rsa(ikt);
    case OP_FORGE_NONFF: case OP_FORGE_RANDOM_PS: case OP_FORGE_PAD8_TRAILING: case OP_FORGE_PAD1_TRAILING: case OP_FORGE_PAD0_TRAILING: case OP_FORGE_DI_PARAMS: return ikt == K_RSA_E3;
    case OP_REVOKED: case OP_BOGUS_CRL: case OP_CRL_OTHER: case OP_CRL_UNAUTH: return crl_capable(ikt);
    case OP_SIG_COPY_ISSUER: return p >= 2;
    case OP_SIG_ENVELOPE: return cg_is_ec(ikt);
    case OP_EXPIRED_ANCHOR: return p == 0;
    }
    return 1;
}

/* ------------------------------------------------------------------ universe --- */
typedef struct {
    cg_spec spec; cg_cert cert; int made;
    int revoked_auth;                     /* listed in a CRL that is genuinely signed by its issuer AND authenticated by the application */
    char label[24];
    int craft;                            /* OP_EM_* / OP_FORGE_*: the signature value is crafted at mint time (craft_sig) */
    unsigned char crafted[512], em[512];  /* the crafted signature value and the block it decodes to under the issuer's public key */
} node;
static node N[NNODE];
typedef struct { unsigned char *der; int len; int auth_with; } crlrec;   /* auth_with: node whose certificate the app authenticates the CRL against, -1 = app skips that step */
static crlrec CRLS[4]; static int ncrl;
static int presented[MAXL + 1], npres, anchors[4], nanch;
static int unsupported;                    /* the case uses something outside "supported features": no completeness claim */
static long NOW;

/* ground truth, derived from the final spec that was handed to the generator */
#define T_INDEFINITE 253402300799L   /* 9999-12-31 23:59:59 UTC */
#define LINGER 86400L   /* PS_X509_TIME_LINGER: the documented one-day tolerance of the date check (crypto/keyformat/x509.h) is granted to the library */
static int gt_in_validity(const node *n) { return n->spec.not_before <= NOW + LINGER && NOW <= n->spec.not_after + LINGER; }
static int gt_is_ca(const node *n) { return n->spec.version == 2 && n->spec.bc && n->spec.bc_ca; }
static int gt_alg_enabled(int a) { return a == CG_RSA_SHA256 || a == CG_RSA_SHA384 || a == CG_RSA_SHA512 || a == CG_RSA_PSS_SHA256 || a == CG_RSA_PSS_SHA384 ||
                                          a == CG_ECDSA_SHA256 || a == CG_ECDSA_SHA384 || a == CG_ECDSA_SHA512 || a == CG_ED25519_SIG; }
static int gt_sig_genuine(const node *n)      /* signature bytes are a real signature by spec.signer over this TBS under the (single) declared algorithm */
{
    const cg_spec *s = &n->spec; int alg = s->sigalg ? s->sigalg : cg_sig_default(s->signer);
    /* CG_SM_ENVELOPE leaves (r,s) - the signature proper - intact and only damages its DER wrapping: still the issuer's signature (leniency granted, recorded) */
    if (s->sigmode != CG_SM_GOOD && s->sigmode != CG_SM_ENVELOPE) return 0;
    if (s->outer_sigalg && s->outer_sigalg != alg) return 0;
    if (s->sign_alg && s->sign_alg != alg) {
        /* declared OID names another public-key family but the same digest and a deterministic-padding scheme: the bytes ARE a signature of this TBS by
         * the issuer's key with an enabled digest - only the OID is odd.  Granted to the library (recorded as lenient), it is no forgery. */
        const EVP_MD *a = cg_sig_md(alg), *b = cg_sig_md(s->sign_alg);
        int pss = alg == CG_RSA_PSS_SHA256 || alg == CG_RSA_PSS_SHA384 || s->sign_alg == CG_RSA_PSS_SHA256 || s->sign_alg == CG_RSA_PSS_SHA384;
        if (!a || a != b || pss || cg_sig_family(alg) == cg_sig_family(s->sign_alg)) return 0;
    }
    return 1;
}
static int gt_issued_by(const node *c, const node *x, int below)   /* may x act as issuer of c with `below` intermediates under x ? */
{
    int alg = c->spec.sigalg ? c->spec.sigalg : cg_sig_default(c->spec.signer);
    if (!cg_dn_equal(&c->spec.issuer, &x->spec.subject)) return 0;
    if (!gt_sig_genuine(c) || c->spec.signer != x->spec.key || !gt_alg_enabled(alg)) return 0;
    if (x->spec.key->type == CG_K_RSA512) return 0;                                  /* issuer key below the enabled minimum */
    if (!gt_is_ca(x)) return 0;
    if (x->spec.ku && !(x->spec.ku_bits & CG_KU_CERTSIGN)) return 0;
    if (x->spec.bc_pathlen >= 0 && below > x->spec.bc_pathlen) return 0;
    if (!gt_in_validity(c) || c->spec.unk == 2 || c->revoked_auth) return 0;         /* rules for a certificate below the trust anchor */
    return 1;
}
static int same_cert(int a, int b) { return N[a].cert.len == N[b].cert.len && !memcmp(N[a].cert.der, N[b].cert.der, N[a].cert.len); }
static int is_anchor(int n) { for (int i = 0; i < nanch; i++) if (same_cert(n, anchors[i])) return 1; return 0; }
static int ref_path(int cur, int below, unsigned visited)   /* below = intermediates between cur and the end entity, -1 when cur IS the end entity */
{
    if (is_anchor(cur)) return 1;
    int nb = below + 1;
    for (int i = 0; i < nanch; i++) if (gt_issued_by(&N[cur], &N[anchors[i]], nb)) return 1;
    for (int i = 0; i < npres; i++) {
        int x = presented[i];
        if (x == cur || (visited & (1u << x))) continue;
        if (gt_issued_by(&N[cur], &N[x], nb) && ref_path(x, nb, visited | (1u << x))) return 1;
    }
    return 0;
}

static vf_rng R;
static void rname(char *o, size_t n, const char *pfx) { snprintf(o, n, "%s %04x", pfx, (unsigned) vf_below(&R, 0x10000)); }
static void set_cn(cg_dn *d, const char *cn) { for (int i = 0; i < d->n; i++) if (d->rdn[i].attr == CG_AT_CN) { d->rdn[i].len = (int) strlen(cn); memcpy(d->rdn[i].v, cn, d->rdn[i].len); } }
static void get_cn(const cg_dn *d, char *o) { o[0] = 0; for (int i = 0; i < d->n; i++) if (d->rdn[i].attr == CG_AT_CN) { memcpy(o, d->rdn[i].v, d->rdn[i].len); o[d->rdn[i].len] = 0; } }
static void set_leaf_names(cg_spec *s, const char *cn) { set_cn(&s->subject, cn); if (s->nsan) { s->nsan = 0; cg_san_add(s, CG_GN_DNS, cn, (int) strlen(cn)); } }

static int alt_hash(int alg) { return alg == CG_RSA_SHA256 ? CG_RSA_SHA384 : alg == CG_ECDSA_SHA256 ? CG_ECDSA_SHA384 : alg == CG_ECDSA_SHA384 ? CG_ECDSA_SHA256 : alg == CG_ED25519_SIG ? CG_ECDSA_SHA256 : CG_RSA_SHA256; }
static int other_family(int alg) { return cg_sig_family(alg) == 0 ? CG_ECDSA_SHA256 : CG_RSA_SHA256; }

static void add_crl(const cg_crl_spec *c, int auth_with)
{
    if (ncrl >= 4) return;
    if (cg_make_crl(c, &CRLS[ncrl].der, &CRLS[ncrl].len) == 0) { CRLS[ncrl].auth_with = auth_with; ncrl++; }
}
/* apply operator `op` at position p to the specs (called top-down: node p-1 is final, children of p not yet built) */
static void apply_op(const cdesc *d, int op, int p)
{
    cg_spec *s = &N[p].spec; char cn[64], icn[64];
    int dalg = cg_sig_default(s->signer);
    switch (op) {
    case OP_SIG_CORRUPT: s->sigmode = CG_SM_FLIP; s->flip_bit = (int) vf_below(&R, 4096); break;
    case OP_SIG_WRONG_KEY: s->signer = cg_key_get(s->signer->type, 5); break;
    case OP_SIG_COPY_ANCHOR: s->sigmode = CG_SM_OVERRIDE; rname(cn, sizeof cn, "Phantom CA"); set_cn(&s->issuer, cn); break;   /* bytes patched in at mint time */
    case OP_SIG_COPY_ANCHOR_SAMEDN: s->sigmode = CG_SM_OVERRIDE; break;
    case OP_SIG_COPY_ISSUER: s->sigmode = CG_SM_OVERRIDE; rname(cn, sizeof cn, "Phantom CA"); set_cn(&s->issuer, cn); break;
    case OP_SIG_EMPTY: s->sigmode = CG_SM_EMPTY; break;
    case OP_SIG_ENVELOPE: s->sigmode = CG_SM_ENVELOPE; break;
    case OP_SIG_ALG_OUTER: s->sigalg = dalg; s->outer_sigalg = alt_hash(dalg); break;
    case OP_SIG_ALG_WRONG: s->sigalg = other_family(dalg); s->sign_alg = dalg; break;
    case OP_SIG_HASH_SWAP: s->sigalg = dalg; s->sign_alg = alt_hash(dalg); break;
    case OP_SHA1_EQLEN: case OP_SHA1_DIFFLEN:
        s->sigalg = cg_is_rsa(s->signer->type) ? CG_RSA_SHA1 : CG_ECDSA_SHA1;
        get_cn(&s->issuer, icn); get_cn(&s->subject, cn);
        if (op == OP_SHA1_EQLEN) { size_t n = strlen(icn); memset(cn, 'x', n); cn[n] = 0; memcpy(cn, "q.", n >= 2 ? 2 : n); }
        else if (strlen(cn) == strlen(icn)) strcat(cn, "z");
        if (p == d->L - 1) set_leaf_names(s, cn); else set_cn(&s->subject, cn);
        break;
    case OP_MD5: s->sigalg = CG_RSA_MD5; break;
    case OP_ISSUER_DN: rname(cn, sizeof cn, "Other CA"); set_cn(&s->issuer, cn); break;
    case OP_ISSUER_DN_TYPE: for (int i = 0; i < s->issuer.n; i++) s->issuer.rdn[i].tag = CG_T_PRINTABLE; break;
    case OP_EXPIRED: case OP_EXPIRED_ANCHOR: s->not_before = NOW - 400L * 86400; s->not_after = NOW - 10L * 86400; break;
    case OP_LINGER: s->not_before = NOW - 400L * 86400; s->not_after = NOW - 3600; break;
    case OP_NOT_YET: s->not_before = NOW + 10L * 86400; s->not_after = NOW + 400L * 86400; break;
    /* validity-window grid.  notBefore: long ago (default, now-30d) / a minute ago / in 2 days (just beyond the one-day tolerance) / in 10 days;
     * notAfter: 10 days ago / 2 days ago / in a year (default) / beyond 2049 (GeneralizedTime) / 99991231235959Z, RFC 5280 4.1.2.5 "no well-defined expiration date" */
    case OP_INDEF: s->not_after = T_INDEFINITE; s->gen_time = 1; break;
    case OP_INDEF_FRESH: s->not_before = NOW - 60; s->not_after = T_INDEFINITE; s->gen_time = 1; break;
    case OP_NOT_YET_INDEF: s->not_before = NOW + 10L * 86400; s->not_after = T_INDEFINITE; s->gen_time = 1; break;
    case OP_NOT_YET_2D_INDEF: s->not_before = NOW + 2L * 86400; s->not_after = T_INDEFINITE; s->gen_time = 1; break;
    case OP_FAR: s->not_after = NOW + 40L * 365 * 86400; s->gen_time = 1; break;
    case OP_NOT_YET_FAR: s->not_before = NOW + 10L * 86400; s->not_after = NOW + 40L * 365 * 86400; s->gen_time = 1; break;
    case OP_NOT_YET_2D: s->not_before = NOW + 2L * 86400; break;
    case OP_EXPIRED_2D: s->not_after = NOW - 2L * 86400; break;
    case OP_VALIDITY_INVERTED: s->not_before = NOW + 10L * 86400; s->not_after = NOW - 10L * 86400; break;
    case OP_FRESH: s->not_before = NOW - 60; break;
    case OP_EM_NONFF: case OP_EM_RANDOM_PS: case OP_EM_BT02: case OP_EM_NO_SEP: case OP_EM_EARLY_SEP: case OP_EM_TRAILING: case OP_EM_DI_PARAMS:
    case OP_FORGE_NONFF: case OP_FORGE_RANDOM_PS: case OP_FORGE_PAD8_TRAILING: case OP_FORGE_PAD1_TRAILING: case OP_FORGE_PAD0_TRAILING: case OP_FORGE_DI_PARAMS:
        s->sigalg = CG_RSA_SHA256; s->sigmode = CG_SM_OVERRIDE; N[p].craft = op; break;      /* value computed at mint time */
    case OP_UNK_CRIT: s->unk = 2; break;
    case OP_UNK_NONCRIT: s->unk = 1; break;
    case OP_NOT_CA: s->bc = 1; s->bc_ca = 0; s->bc_pathlen = -1; break;
    case OP_BC_ABSENT: s->bc = 0; s->bc_ca = 0; s->bc_pathlen = -1; break;
    case OP_PATHLEN: s->bc_pathlen = d->L - p - 3; break;
    case OP_PATHLEN_TIGHT: s->bc_pathlen = d->L - p - 2; break;
    case OP_KU_NOCERTSIGN: s->ku = 1; s->ku_bits = CG_KU_DIGSIG | CG_KU_CRLSIGN; break;
    case OP_KU_EMPTY_OLD: s->ku = 1; s->ku_bits = 0; s->not_before = 978307200L; /* 2001-01-01 */ break;
    case OP_KU_ABSENT: s->ku = 0; break;
    case OP_WEAK_RSA512: case OP_WEAK_LEAF512: s->key = cg_key_get(CG_K_RSA512, 0); memcpy(s->skid, s->key->skid, 20); if (op == OP_WEAK_LEAF512) unsupported = 1; break;
    case OP_V1: s->version = 0; break;
    case OP_GENTIME: s->gen_time = 1; break;
    case OP_PSS: s->sigalg = CG_RSA_PSS_SHA256; break;
    case OP_SHA384: s->sigalg = cg_is_rsa(s->signer->type) ? CG_RSA_SHA384 : CG_ECDSA_SHA384; break;
    case OP_SHA512: s->sigalg = cg_is_rsa(s->signer->type) ? CG_RSA_SHA512 : CG_ECDSA_SHA512; break;
    case OP_NO_AKI_SKI: s->aki = 0; N[p - 1].spec.ski = 0; if (p == 1) N[0].spec.aki = 0; break;    /* specs are final only at mint time, so the issuer can still be edited */
    case OP_AKI_MISMATCH: s->akid[3] ^= 0x5a; break;
    case OP_EKU_CRIT_OTHER: s->eku = 1; s->eku_crit = 1; s->eku_mask = CG_EKU_CODE; break;
    default: break;   /* CRL operators act after minting */
    }
}
static void apply_crl_op(const cdesc *d, int op, int p)
{
    (void) d; cg_crl_spec c; const node *iss = &N[p - 1];
    /* psCRL_Update keeps ONE CRL per issuer name: whatever the application loads later for the same issuer replaces the earlier CRL,
     * authenticated or not (crl.c psCRL_Update / internalCRLmatch).  The ground truth follows the cache the application built. */
    if (N[p].revoked_auth) { N[p].revoked_auth = 0; vf_stat("lenient:authenticated-crl-replaced-by-later-crl-same-issuer", 1); }
    switch (op) {
    case OP_REVOKED: cg_crl_for(&c, &iss->spec, iss->spec.key, NOW); cg_crl_revoke(&c, &N[p].spec); add_crl(&c, p - 1);
        if (gt_is_ca(iss) && (iss->spec.ku && (iss->spec.ku_bits & CG_KU_CRLSIGN))) N[p].revoked_auth = 1;   /* the library authenticates CRLs only against CAs with cRLSign */
        else unsupported = 1;
        break;
    case OP_CRL_UNAUTH: cg_crl_for(&c, &iss->spec, iss->spec.key, NOW); cg_crl_revoke(&c, &N[p].spec); add_crl(&c, -1); break;
    case OP_BOGUS_CRL: cg_crl_for(&c, &iss->spec, iss->spec.key, NOW); c.signer = cg_key_get(iss->spec.key->type == CG_K_RSA512 ? CG_K_RSA2048 : iss->spec.key->type, 5); cg_crl_revoke(&c, &N[p].spec); add_crl(&c, p - 1); break;
    case OP_CRL_OTHER: { cg_spec other = N[p].spec; other.serial[3] ^= 0x77; cg_crl_for(&c, &iss->spec, iss->spec.key, NOW); cg_crl_revoke(&c, &other); add_crl(&c, p - 1); break; }
    }
}
static int is_crl_op(int op) { return op == OP_REVOKED || op == OP_CRL_UNAUTH || op == OP_BOGUS_CRL || op == OP_CRL_OTHER; }


/* ------------------------------------------------------------------ crafted RSA signature values --- */
/* Two families of signature values that are NOT RSASSA-PKCS1-v1_5 signatures of the TBS by the issuer (RFC 8017 8.2.2: the verifier's EM' must EQUAL the decoded block):
 *   OP_EM_*    : the issuer's private-key operation applied to a malformed encoded message (what a faulty or malicious signer would emit);
 *   OP_FORGE_* : no private key at all - for an issuer with e = 3 a perfect cube s^3 < n is found whose big-endian image starts with a chosen prefix and ends with a
 *                chosen suffix (high part: integer cube root; low part: 2-adic cube root, the suffix must be odd), Bleichenbacher 2006 and Kuehn et al. 2008 variants.
 * In both families the block the value decodes to under the issuer's PUBLIC key contains the correct DigestInfo||SHA-256(TBS), so only a verifier that checks the
 * whole padding refuses them.  The harness recomputes value^e mod n with libcrypto and checks the intended shape (else: inconclusive, generator fault). */
static const unsigned char DI256[19] = { 0x30, 0x31, 0x30, 0x0d, 0x06, 0x09, 0x60, 0x86, 0x48, 0x01, 0x65, 0x03, 0x04, 0x02, 0x01, 0x05, 0x00, 0x04, 0x20 };
static unsigned char rnz(void) { return (unsigned char) (1 + vf_below(&R, 255)); }                 /* random non-zero octet */
static int is_forge(int op) { return op >= OP_FORGE_NONFF && op <= OP_FORGE_DI_PARAMS; }
/* fills em[0..k): EM ops completely; FORGE ops the prefix em[0..*pl), the suffix em[k-*sl..k) and the filler between them; *nz = the middle must not contain a 00 octet */
static int em_shape(int op, const unsigned char *H, int k, unsigned char *em, int *pl, int *sl, int *nz)
{
    unsigned char T[51]; memcpy(T, DI256, 19); memcpy(T + 19, H, 32);
    int i, q; *pl = k; *sl = 0; *nz = 0;
    if (k < 128) return -1;
    memset(em, 0xff, k); em[0] = 0; em[1] = 1;
    switch (op) {
    case OP_EM_NONFF: em[k - 52] = 0; memcpy(em + k - 51, T, 51); em[2 + vf_below(&R, k - 54)] = (unsigned char) (1 + vf_below(&R, 254)); break;
    case OP_EM_RANDOM_PS: case OP_EM_BT02: for (i = 2; i < k - 52; i++) em[i] = rnz(); em[3] = 0x5a; em[k - 52] = 0; memcpy(em + k - 51, T, 51); if (op == OP_EM_BT02) em[1] = 2; break;
    case OP_EM_NO_SEP: memcpy(em + k - 51, T, 51); break;
    case OP_EM_EARLY_SEP: em[10] = 0; for (i = 11; i < k - 52; i++) em[i] = rnz(); em[k - 52] = 0; memcpy(em + k - 51, T, 51); break;
    case OP_EM_TRAILING: em[10] = 0; memcpy(em + 11, T, 51); for (i = 62; i < k; i++) em[i] = (unsigned char) vf_below(&R, 256); break;
    case OP_EM_DI_PARAMS: case OP_FORGE_DI_PARAMS: {
        /* 00 01 FFx8 00 | 30 82 L1 | 30 82 L2 | 06 09 sha256 | 04 82 L3 <garbage> | 04 20 H : a DigestInfo whose AlgorithmIdentifier parameters hold the free octets */
        int L1 = k - 15, L2 = k - 53, L3 = k - 68; unsigned char *c = em + 10;
        *c++ = 0; *c++ = 0x30; *c++ = 0x82; *c++ = (unsigned char) (L1 >> 8); *c++ = (unsigned char) L1; *c++ = 0x30; *c++ = 0x82; *c++ = (unsigned char) (L2 >> 8); *c++ = (unsigned char) L2;
        memcpy(c, DI256 + 4, 11); c += 11; *c++ = 0x04; *c++ = 0x82; *c++ = (unsigned char) (L3 >> 8); *c++ = (unsigned char) L3;
        for (i = 0; i < L3; i++) c[i] = op == OP_EM_DI_PARAMS ? (unsigned char) vf_below(&R, 256) : 0x80;
        c += L3; *c++ = 0x04; *c++ = 0x20; memcpy(c, H, 32);
        if (op == OP_FORGE_DI_PARAMS) { *pl = 34; *sl = 34; }
        break; }
    case OP_FORGE_NONFF: *pl = 6; *sl = 52; *nz = 1; em[k - 52] = 0; memcpy(em + k - 51, T, 51); break;                          /* 00 01 FF FF FF FF <whatever the cube gives, no 00> 00 T */
    case OP_FORGE_RANDOM_PS: *pl = 22; *sl = 52; *nz = 1; for (i = 2; i < 22; i++) em[i] = rnz(); em[2] = 0x17; memset(em + 22, 0x80, k - 74); em[k - 52] = 0; memcpy(em + k - 51, T, 51); break;
    case OP_FORGE_PAD8_TRAILING: case OP_FORGE_PAD1_TRAILING: case OP_FORGE_PAD0_TRAILING:
        q = op == OP_FORGE_PAD8_TRAILING ? 8 : op == OP_FORGE_PAD1_TRAILING ? 1 : 0;
        em[2 + q] = 0; memcpy(em + 3 + q, T, 51); *pl = 3 + q + 51; memset(em + *pl, 0x80, k - *pl); break;                      /* 00 01 FFxq 00 T <whatever the cube gives> */
    default: return -1;
    }
    return 0;
}
static void bn_icbrt(BIGNUM *x, const BIGNUM *t, BN_CTX *bc)       /* floor of the real cube root */
{
    BIGNUM *c = BN_new(), *y = BN_new();
    BN_zero(x);
    for (int b = BN_num_bits(t) / 3 + 1; b >= 0; b--) { BN_copy(y, x); BN_set_bit(y, b); BN_sqr(c, y, bc); BN_mul(c, c, y, bc); if (BN_cmp(c, t) <= 0) BN_copy(x, y); }
    BN_free(c); BN_free(y);
}
static void bn_cbrt2(BIGNUM *x, const BIGNUM *a, int m, BN_CTX *bc)  /* the x < 2^m with x^3 = a mod 2^m, a odd */
{
    BIGNUM *c = BN_new();
    BN_one(x);
    for (int i = 1; i < m; i++) { BN_sqr(c, x, bc); BN_mask_bits(c, m); BN_mul(c, c, x, bc); if (BN_is_bit_set(c, i) != BN_is_bit_set(a, i)) BN_set_bit(x, i); }   /* d(x^3) = 3x^2 is odd: bit i of x flips bit i of x^3 */
    BN_free(c);
}
static int rsa_raw(EVP_PKEY *pk, int priv, const unsigned char *in, int k, unsigned char *out)
{
    EVP_PKEY_CTX *c = EVP_PKEY_CTX_new(pk, NULL); size_t n = (size_t) k; int ok = 0;
    if (c && priv && EVP_PKEY_sign_init(c) > 0 && EVP_PKEY_CTX_set_rsa_padding(c, RSA_NO_PADDING) > 0 && EVP_PKEY_sign(c, out, &n, in, (size_t) k) > 0 && n == (size_t) k) ok = 1;
    if (c && !priv && EVP_PKEY_verify_recover_init(c) > 0 && EVP_PKEY_CTX_set_rsa_padding(c, RSA_NO_PADDING) > 0 && EVP_PKEY_verify_recover(c, out, &n, in, (size_t) k) > 0 && n == (size_t) k) ok = 1;
    EVP_PKEY_CTX_free(c); ERR_clear_error();
    return ok ? 0 : -1;
}
/* 1 = crafted, 0 = this TBS does not admit the forgery (try another serial number), -1 = failure */
static int forge_cube(const BIGNUM *n, int k, const unsigned char *shape, int pl, int sl, int nz, unsigned char *sig, BN_CTX *bc)
{
    if (sl && !(shape[k - 1] & 1)) return 0;
    BIGNUM *t = BN_bin2bn(shape, k, NULL), *r = BN_new(), *s = BN_new(), *lo = BN_new(), *suf = BN_new(), *step = BN_new(), *cube = BN_new(); int ok = 0; unsigned char em[512];
    bn_icbrt(r, t, bc);
    BN_copy(s, r);
    if (sl) {
        int m = sl * 8; BN_bin2bn(shape + k - sl, sl, suf); bn_cbrt2(lo, suf, m, bc);
        BN_rshift(s, r, m); BN_lshift(s, s, m); BN_add(s, s, lo); BN_one(step); BN_lshift(step, step, m);
        if (BN_cmp(s, r) > 0) BN_sub(s, s, step);
    } else { BN_one(step); BN_add(s, s, step); }              /* smallest cube not below prefix||80 80 .. : still far inside the prefix */
    for (int attempt = 0; attempt < 4096 && !ok && !BN_is_negative(s); attempt++, BN_sub(s, s, step)) {
        BN_sqr(cube, s, bc); BN_mul(cube, cube, s, bc);
        if (BN_cmp(cube, n) >= 0 || BN_bn2binpad(cube, em, k) != k) continue;
        if (memcmp(em, shape, pl) || (sl && memcmp(em + k - sl, shape + k - sl, sl))) continue;
        ok = 1;
        if (nz) for (int i = pl; i < k - sl; i++) if (!em[i]) ok = 0;
        if (ok) BN_bn2binpad(s, sig, k);
    }
    BN_free(t); BN_free(r); BN_free(s); BN_free(lo); BN_free(suf); BN_free(step); BN_free(cube);
    return ok;
}
static int craft_sig(int p)
{
    node *nd = &N[p]; cg_spec *s = &nd->spec; int op = nd->craft, k, pl, sl, nz, done = 0; unsigned char H[32], shape[512];
    BIGNUM *n = NULL; BN_CTX *bc = BN_CTX_new();
    if (!cg_is_rsa(s->signer->type) || !EVP_PKEY_get_bn_param(s->signer->pk, "n", &n)) { BN_CTX_free(bc); return -1; }
    k = BN_num_bytes(n);
    if (is_forge(op)) { BIGNUM *e = NULL; int e3 = EVP_PKEY_get_bn_param(s->signer->pk, "e", &e) && BN_is_word(e, 3); BN_free(e); if (!e3) k = 9999; }   /* the cube forgery needs e = 3 */
    if (k > 512) { BN_free(n); BN_CTX_free(bc); return -1; }
    for (int round = 0; round < 200 && !done; round++) {
        for (int i = 0; i < 8; i++) s->serial[i] = (unsigned char) vf_below(&R, 256);
        s->serial[0] = (s->serial[0] & 0x7f) | 0x40; s->seriallen = 8;
        cg_buf tbs = { 0 }; cg_build_tbs(&tbs, s); SHA256(tbs.p, tbs.n, H); cg_buf_free(&tbs);
        if (em_shape(op, H, k, shape, &pl, &sl, &nz) < 0) break;
        if (!is_forge(op)) { if (rsa_raw(s->signer->pk, 1, shape, k, nd->crafted) < 0) break; done = 1; }
        else { int f = forge_cube(n, k, shape, pl, sl, nz, nd->crafted, bc); if (f < 0) break; done = f; vf_stat("forge_rounds", 1); }
    }
    BN_free(n); BN_CTX_free(bc);
    if (!done) return -1;
    /* self-check: what does the value decode to under the signer's public key ? */
    if (rsa_raw(s->signer->pk, 0, nd->crafted, k, nd->em) < 0 || memcmp(nd->em, shape, pl) || (sl && memcmp(nd->em + k - sl, shape + k - sl, sl)) || !memmem(nd->em, k, H, 32)) {
        vf_incon("GENERATOR: crafted signature value (%s) does not decode to the intended block", OPS[op].name); return -1; }
    vf_stat(is_forge(op) ? "crafted_sig:forged-from-public-key-e3" : "crafted_sig:private-op-on-malformed-em", 1);
    s->sig_override = nd->crafted; s->sig_override_len = k;
    return k;
}

static int build(const cdesc *d)
{
    char cn[64], org[32];
    memset(N, 0, sizeof N); ncrl = 0; npres = nanch = 0; unsupported = 0;
    snprintf(org, sizeof org, "Verif %04x", (unsigned) vf_below(&R, 0x10000));
    int L = d->L;
    for (int i = 0; i < L; i++) {
        cg_key *key = key_get(d->kt[i], i);
        if (i == 0) { rname(cn, sizeof cn, "Root CA"); cg_spec_ca(&N[0].spec, org, cn, key, NULL, NULL, NOW, d->apl); }
        else if (i < L - 1) { snprintf(cn, sizeof cn, "Int%d CA %04x", i, (unsigned) vf_below(&R, 0x10000)); cg_spec_ca(&N[i].spec, org, cn, key, &N[i - 1].spec, N[i - 1].spec.key, NOW, -1); }
        else { snprintf(cn, sizeof cn, "h%05x.example.test", (unsigned) vf_below(&R, 0x100000)); cg_spec_leaf(&N[i].spec, org, cn, key, &N[i - 1].spec, N[i - 1].spec.key, NOW); }
        if (L == 1) N[0].spec.bc_pathlen = d->apl;
        snprintf(N[i].label, sizeof N[i].label, i == 0 ? "root" : i < L - 1 ? "int%d" : "leaf", i);
        for (int k = 0; k < 2; k++) if (d->op[k] != OP_NONE && d->pos[k] == i && !is_crl_op(d->op[k])) apply_op(d, d->op[k], i);
    }
    /* extra roots */
    rname(cn, sizeof cn, "Stranger Root"); cg_spec_ca(&N[W1].spec, "Elsewhere", cn, cg_key_get(CG_K_P256, 7), NULL, NULL, NOW, -1); strcpy(N[W1].label, "wrong1");
    rname(cn, sizeof cn, "Stranger Root"); cg_spec_ca(&N[W2].spec, "Elsewhere", cn, cg_key_get(CG_K_ED25519, 7), NULL, NULL, NOW, -1); strcpy(N[W2].label, "wrong2");
    get_cn(&N[0].spec.subject, cn); cg_spec_ca(&N[WS].spec, org, cn, cg_key_get(CG_K_P256, 8), NULL, NULL, NOW, -1); N[WS].spec.subject = N[0].spec.subject; N[WS].spec.issuer = N[0].spec.subject; strcpy(N[WS].label, "wrong-same-dn");
    /* mint top-down */
    int src_anchor = (d->anc == A_INT || d->anc == A_INT_NOTPRESENTED) && L >= 3 ? 1 : 0;
    for (int i = 0; i < NNODE; i++) {
        if (i >= L && i < MAXL) continue;
        cg_spec *s = &N[i].spec;
        if (s->sigmode == CG_SM_OVERRIDE && N[i].craft) { if (craft_sig(i) < 0) return -1; }
        else if (s->sigmode == CG_SM_OVERRIDE) {
            int from = src_anchor;
            for (int k = 0; k < 2; k++) if (d->pos[k] == i && d->op[k] == OP_SIG_COPY_ISSUER) from = i - 1;
            if (from >= i) return -1;
            s->sig_override = N[from].cert.der + N[from].cert.sig_off; s->sig_override_len = N[from].cert.sig_len;
        }
        if (cg_make_cert(s, &N[i].cert) < 0) return -1;
        N[i].made = 1;
    }
    for (int k = 0; k < 2; k++) if (is_crl_op(d->op[k])) apply_crl_op(d, d->op[k], d->pos[k]);
    /* presented list: leaf first */
    int lo = 1;
    if (d->anc == A_INT_NOTPRESENTED) lo = 2;
    for (int i = L - 1; i >= lo; i--) presented[npres++] = i;
    if (L == 1 || d->root_presented) presented[npres++] = 0;
    if (npres == 0) return -1;
    if (npres > 1) {
        int t;
        switch (d->ord) {
        case 1: for (int i = 0; i < npres / 2; i++) { t = presented[i]; presented[i] = presented[npres - 1 - i]; presented[npres - 1 - i] = t; } break;
        case 2: t = presented[0]; memmove(presented, presented + 1, (npres - 1) * sizeof(int)); presented[npres - 1] = t; break;   /* == case 4 */
        case 3: if (npres >= 3) { t = presented[npres - 1]; presented[npres - 1] = presented[npres - 2]; presented[npres - 2] = t; } break;   /* leaf stays first, intermediates out of order */
        case 4: if (npres >= 3) { t = presented[1]; presented[1] = presented[2]; presented[2] = t; } break;
        }
    }
    switch (d->anc) {
    case A_RIGHT: anchors[nanch++] = 0; break;
    case A_NONE: break;
    case A_WRONG: anchors[nanch++] = W1; break;
    case A_WRONG_SAMEDN: anchors[nanch++] = WS; break;
    case A_INT: case A_INT_NOTPRESENTED: if (L < 3) return -1; anchors[nanch++] = 1; break;
    case A_MANY_RIGHT_LAST: anchors[nanch++] = W1; anchors[nanch++] = WS; anchors[nanch++] = W2; anchors[nanch++] = 0; break;
    case A_MANY_RIGHT_FIRST: anchors[nanch++] = 0; anchors[nanch++] = W1; anchors[nanch++] = W2; break;
    case A_MANY_WRONG: anchors[nanch++] = W1; anchors[nanch++] = W2; anchors[nanch++] = WS; break;
    case A_LEAF: anchors[nanch++] = L - 1; break;
    case A_MIDINT: if (L < 4) return -1; anchors[nanch++] = 2; break;
    }
    return 0;
}
static void teardown(void)
{
    for (int i = 0; i < NNODE; i++) if (N[i].made) cg_cert_free(&N[i].cert);
    for (int i = 0; i < ncrl; i++) free(CRLS[i].der);
    ncrl = 0;
}
static void chain_text(const cdesc *d, char *o, size_t n)
{
    size_t k = 0; o[0] = 0;
    k += snprintf(o + k, n - k, "chain=");
    for (int i = 0; i < d->L && k < n; i++) {
        k += snprintf(o + k, n - k, "%s%s(%s", i ? ">" : "", N[i].label, d->kt[i] == K_RSA_E3 && N[i].spec.key->type == CG_K_RSA2048 ? "RSA2048-e3" : cg_ktname[N[i].spec.key->type]);
        if (N[i].spec.bc && N[i].spec.bc_ca && N[i].spec.bc_pathlen >= 0) k += snprintf(o + k, n - k, ",pathLen=%d", N[i].spec.bc_pathlen);
        k += snprintf(o + k, n - k, ")");
    }
    k += snprintf(o + k, n - k, " presented=[");
    for (int i = 0; i < npres && k < n; i++) k += snprintf(o + k, n - k, "%s%s", i ? "," : "", N[presented[i]].label);
    k += snprintf(o + k, n - k, "] anchors={");
    for (int i = 0; i < nanch && k < n; i++) k += snprintf(o + k, n - k, "%s%s", i ? "," : "", N[anchors[i]].label);
    k += snprintf(o + k, n - k, "}");
    for (int j = 0; j < 2; j++) if (d->op[j] != OP_NONE) k += snprintf(o + k, n - k, " op=%s@%d", OPS[d->op[j]].name, d->pos[j]);
    if (ncrl) k += snprintf(o + k, n - k, " crls=%d", ncrl);
}
static void keylabel(const cdesc *d, char *o, size_t n)
{
    const char *a = OPS[d->op[0]].cls == CL_BAD ? OPS[d->op[0]].name : NULL, *b = OPS[d->op[1]].cls == CL_BAD ? OPS[d->op[1]].name : NULL;
    if (a && b && strcmp(a, b) > 0) { const char *t = a; a = b; b = t; }
    if (a && b && strcmp(a, b)) snprintf(o, n, "%s+%s", a, b);
    else if (a || b) snprintf(o, n, "%s", a ? a : b);
    else if (d->anc != A_RIGHT) snprintf(o, n, "%s", d->anc == A_NONE ? "no-anchor" : d->anc == A_WRONG || d->anc == A_MANY_WRONG ? "wrong-anchor" : ANC[d->anc]);
    else if (d->apl >= 0 && d->L - 2 > d->apl) snprintf(o, n, "anchor-pathlen-exceeded");
    else if (d->op[0] != OP_NONE || d->op[1] != OP_NONE) snprintf(o, n, "%s", d->op[0] != OP_NONE ? OPS[d->op[0]].name : OPS[d->op[1]].name);   /* recorded-only / benign operator */
    else if (d->ord) snprintf(o, n, "permuted");
    else snprintf(o, n, "unlabelled");
}
static void labels(const cdesc *d, char *o, size_t n)
{
    const char *a = OPS[d->op[0]].name, *b = OPS[d->op[1]].name; size_t k = 0; o[0] = 0;
    if (d->op[0] != OP_NONE && d->op[1] != OP_NONE && strcmp(a, b) > 0) { const char *t = a; a = b; b = t; }
    if (d->op[0] != OP_NONE || d->op[1] != OP_NONE) {
        if (d->op[0] != OP_NONE && d->op[1] != OP_NONE && strcmp(a, b)) k += snprintf(o + k, n - k, "%s+%s", a, b);
        else k += snprintf(o + k, n - k, "%s", d->op[0] != OP_NONE ? OPS[d->op[0]].name : OPS[d->op[1]].name);
    }
    if (d->anc != A_RIGHT) {
        const char *an = d->anc == A_NONE ? (d->root_presented || d->L == 1 ? "self-signed-not-anchored" : "no-anchor") : d->anc == A_WRONG || d->anc == A_MANY_WRONG ? "wrong-anchor" : ANC[d->anc];
        k += snprintf(o + k, n - k, "%s%s", k ? "+" : "", an);
    }
    if (d->apl >= 0 && d->L - 2 > d->apl && d->op[0] != OP_PATHLEN_TIGHT && d->op[1] != OP_PATHLEN_TIGHT) k += snprintf(o + k, n - k, "%sanchor-pathlen-exceeded", k ? "+" : "");
    if (d->ord) k += snprintf(o + k, n - k, "%spermuted", k ? "+" : "");
    if (!k) snprintf(o, n, "plain");
}

static const char *primary(const cdesc *d)
{
    for (int k = 0; k < 2; k++) if (d->op[k] != OP_NONE && OPS[d->op[k]].cls == CL_BAD) return OPS[d->op[k]].name;
    if (d->anc != A_RIGHT) return ANC[d->anc];
    for (int k = 0; k < 2; k++) if (d->op[k] != OP_NONE) return OPS[d->op[k]].name;
    return d->ord ? "permuted" : d->apl >= 0 ? "anchor-pathlen" : "plain";
}
static int g_sample;
/* ------------------------------------------------------------------ one case --- */
static void run_case(const cdesc *d)
{
    char ds[320], ct[700], lab[200];
    desc_str(d, ds, sizeof ds);
    vf_rng_init(&R, vf_seed, vf_hash(ds, strlen(ds)));
    if (build(d) < 0) { vf_stat("not_constructible", 1); teardown(); return; }
    chain_text(d, ct, sizeof ct); labels(d, lab, sizeof lab);
    vf_stat("cases", 1);
    int ref = ref_path(presented[0], -1, 1u << presented[0]);

    /* --- library under test --- */
    psX509Cert_t *CA = NULL, *chain = NULL, *tail = NULL, *found = NULL;
    int anchor_loaded = 0, parse_fail = 0, rc = -9999, success = 0;
    if (nanch) {
        cg_buf bundle = { 0 };
        for (int i = 0; i < nanch; i++) { char *pem = cg_pem("CERTIFICATE", N[anchors[i]].cert.der, N[anchors[i]].cert.len); cg_put(&bundle, pem, strlen(pem)); free(pem); }
        unsigned char *exact = malloc(bundle.n + 1); memcpy(exact, bundle.p, bundle.n); exact[bundle.n] = 0;   /* psPemCertBufToList scans with strstr: PEM input must be NUL-terminated */
        int n = psX509ParseCertData(NULL, exact, bundle.n, &CA, CERT_STORE_DN_BUFFER | CERT_ALLOW_BUNDLE_PARTIAL_PARSE);
        free(exact); cg_buf_free(&bundle);
        anchor_loaded = n > 0 && CA != NULL;
        if (!anchor_loaded) { if (CA) psX509FreeCert(CA); CA = NULL; vf_stat("anchor_load_failed", 1); }
    }
    psX509Cert_t *crl_issuer[4] = { 0 };
    for (int i = 0; i < ncrl; i++) {
        psX509Crl_t *crl = NULL; unsigned char *copy = malloc(CRLS[i].len); memcpy(copy, CRLS[i].der, CRLS[i].len);
        if (psX509ParseCRL(NULL, &crl, copy, CRLS[i].len) >= 0) {
            psCRL_Update(crl, 1);
            if (CRLS[i].auth_with >= 0) {
                const cg_cert *ic = &N[CRLS[i].auth_with].cert;
                if (psX509ParseCert(NULL, ic->der, ic->len, &crl_issuer[i], 0) >= 0) { int a = psX509AuthenticateCRL(crl_issuer[i], crl, NULL); vf_stat(a >= 0 && crl->authenticated ? "crl_authenticated" : "crl_not_authenticated", 1); }
            }
            vf_stat("crl_loaded", 1);
        } else vf_stat("crl_parse_failed", 1);
        free(copy);
    }
    for (int i = 0; i < npres; i++) {
        psX509Cert_t *c = NULL; const cg_cert *pc = &N[presented[i]].cert;
        if (psX509ParseCert(NULL, pc->der, pc->len, &c, 0) < 0) { parse_fail = 1; if (c) psX509FreeCert(c); break; }
        if (!chain) chain = tail = c; else { tail->next = c; tail = c; }
    }
    int evaluated = 0;
    if (!parse_fail && (nanch == 0 || anchor_loaded)) {
        matrixValidateCertsOptions_t opts; memset(&opts, 0, sizeof opts);
        if (d->api == 2) opts.flags |= VCERTS_FLAG_REVALIDATE_DATES;
        if (d->api == 0) rc = matrixValidateCerts(NULL, chain, CA, NULL, &found, NULL, NULL);
        else rc = matrixValidateCertsExt(NULL, chain, CA, NULL, &found, NULL, NULL, &opts);
        evaluated = 1;
        success = rc >= 0;
        for (psX509Cert_t *c = chain; c; c = c->next) if (c->authStatus != PS_CERT_AUTH_PASS || c->authFailFlags) success = 0;
    }
    vf_stat(parse_fail ? "lib_parse_rejected" : !evaluated ? "lib_not_evaluated" : success ? "lib_success" : "lib_rejected", 1);
    vf_stat(ref ? "ref_path_exists" : "ref_no_path", 1);
    char detail[400]; size_t dk = 0; detail[0] = 0;
    dk += snprintf(detail, sizeof detail, "rc=%d parse_fail=%d", rc, parse_fail);
    for (psX509Cert_t *c = chain; c && dk < sizeof detail; c = c->next) dk += snprintf(detail + dk, sizeof detail - dk, " [auth=%d flags=0x%x rev=%d]", c->authStatus, c->authFailFlags, c->revokedStatus);

    int benign = OPS[d->op[0]].cls == CL_BENIGN && OPS[d->op[1]].cls == CL_BENIGN;
    int record_only = OPS[d->op[0]].cls == CL_RECORD || OPS[d->op[1]].cls == CL_RECORD;
    int canonical_anchor = d->anc == A_RIGHT || d->anc == A_INT || d->anc == A_INT_NOTPRESENTED || d->anc == A_MANY_RIGHT_LAST || d->anc == A_MANY_RIGHT_FIRST;
    int canonical = ref && benign && !record_only && d->ord == 0 && canonical_anchor && !unsupported;
    if (d->root_presented && (d->anc == A_INT || d->anc == A_INT_NOTPRESENTED)) canonical = 0;     /* certificates presented beyond the trust anchor: not a canonical presentation */
    if ((d->op[0] == OP_NO_AKI_SKI || d->op[1] == OP_NO_AKI_SKI) && (d->anc == A_MANY_RIGHT_LAST || d->anc == A_MANY_RIGHT_FIRST)) canonical = 0;   /* issuer choice by name only is ambiguous there */

    /* --- OpenSSL cross-checks of the GENERATOR --- */
    int ossl = -2, oerr = 0;
    int single_bad = OPS[d->op[0]].cls == CL_BAD && d->op[1] == OP_NONE && d->anc == A_RIGHT && d->ord == 0;
    int ossl_knows = d->op[0] == OP_SIG_CORRUPT || d->op[0] == OP_SIG_WRONG_KEY || d->op[0] == OP_SIG_COPY_ANCHOR || d->op[0] == OP_SIG_COPY_ANCHOR_SAMEDN || d->op[0] == OP_SIG_COPY_ISSUER ||
                     d->op[0] == OP_SIG_ALG_OUTER || d->op[0] == OP_SIG_ALG_WRONG || d->op[0] == OP_SIG_HASH_SWAP || d->op[0] == OP_ISSUER_DN || d->op[0] == OP_EXPIRED || d->op[0] == OP_NOT_YET ||
                     d->op[0] == OP_UNK_CRIT || d->op[0] == OP_NOT_CA || d->op[0] == OP_PATHLEN || d->op[0] == OP_KU_NOCERTSIGN ||
                     (d->op[0] >= OP_NOT_YET_INDEF && d->op[0] <= OP_FORGE_DI_PARAMS);      /* validity grid, malformed-EM and forged signature values */
    if (canonical || (single_bad && ossl_knows)) {
        const cg_cert *un[MAXL + 1], *an[4]; int nu = 0;
        for (int i = 1; i < npres; i++) un[nu++] = &N[presented[i]].cert;
        for (int i = 0; i < nanch; i++) an[i] = &N[anchors[i]].cert;
        ossl = cg_ossl_verify(&N[presented[0]].cert, un, nu, an, nanch, NOW, &oerr);
        vf_stat("openssl_crosschecks", 1);
        if (canonical && ossl != 1) { vf_incon("GENERATOR: OpenSSL rejects a chain constructed as good (err %d: %s) | %s | %s", oerr, X509_verify_cert_error_string(oerr), ct, ds); canonical = 0; vf_stat("generator_disagrees_openssl", 1); }
        if (single_bad && ossl_knows && ossl == 1) { vf_incon("GENERATOR: OpenSSL accepts a chain constructed with defect %s | %s | %s", lab, ct, ds); vf_stat("generator_disagrees_openssl", 1); }
    }

    /* --- the property --- */
    if (d->anc == A_NONE) {
        /* issuerCerts == NULL is the documented "test the chain against its own self-signed root" mode of the API (the TLS layer
         * turns it into unknown_ca itself, hsDecode.c); recorded, not asserted */
        if (success) vf_stat("lenient:null-anchor-list-selfsigned-chain-accepted", 1);
    } else if (success && !ref) {
        char key[260], kl[160]; keylabel(d, kl, sizeof kl); snprintf(key, sizeof key, "c03:accepts:%s", kl);
        vf_violation(key, ds, "validation reports success (all indicators positive) although no rule-conforming path to a trust anchor exists | labels=%s | %s | %s | api=%s", lab, ct, detail,
                     d->api == 0 ? "matrixValidateCerts" : d->api == 1 ? "matrixValidateCertsExt" : "matrixValidateCertsExt+REVALIDATE_DATES");
        vf_statf(1, "accepted_bad:%s", primary(d));
    } else if (!success && canonical) {
        char key[260]; snprintf(key, sizeof key, "c03:rejects-good:%s:%s", lab, keyclass(d));
        vf_violation(key, ds, "a chain that meets every rule and uses only supported features is not accepted (OpenSSL accepts it) | %s | %s", ct, detail);
    }
    if (!ref && !success) vf_statf(1, "rejected_bad:%s", primary(d));
    if (ref && success && canonical) vf_stat("accepted_good_canonical", 1);
    if (ref && !success && !canonical) { vf_statf(1, "strict:%s", primary(d)); }          /* valid by the reference but non-canonical: library stricter, recorded */
    if (ref && success && !canonical) vf_statf(1, "noncanonical-accepted:%s", primary(d));
    if (record_only) vf_statf(1, "record:%s:%s", primary(d), success ? "accepted" : "rejected");
    if (success && ref) for (int k = 0; k < 2; k++) { if (d->op[k] == OP_SIG_ALG_WRONG) vf_stat("lenient:signature-oid-family-ignored-same-digest", 1); if (d->op[k] == OP_LINGER) vf_stat("lenient:expired-within-one-day-linger", 1); if (d->op[k] == OP_SIG_ENVELOPE) vf_stat("lenient:ecdsa-signature-with-wrong-outer-der-length-accepted", 1); }
    if (g_sample) vf_sample("%s -> ref=%s lib=%s", ct, ref ? "path" : "no-path", success ? "success" : "rejected");

    char kp[MAXL + 1]; for (int i = 0; i < d->L; i++) kp[i] = kt_ch(d->kt[i]); kp[d->L] = 0;
    vf_distinct("%s|%d|%s@%d|%s@%d|%s|%d|%d|%d", kp, d->L, OPS[d->op[0]].name, d->pos[0], OPS[d->op[1]].name, d->pos[1], ANC[d->anc], d->apl, d->ord, d->root_presented);
    if (vf_case) fprintf(stderr, "CASE %s\n  %s\n  ref=%d success=%d %s canonical=%d openssl=%d(%d)\n", ds, ct, ref, success, detail, canonical, ossl, oerr);
    if (vf_case) for (int i = 0; i < NNODE; i++) if (N[i].made && N[i].spec.sigmode == CG_SM_FLIP) { char hx[1200]; vf_hex(hx, N[i].cert.der + N[i].cert.sig_off, N[i].cert.sig_len > 560 ? 560 : N[i].cert.sig_len); fprintf(stderr, "  %s: signature bit %d flipped (of %d bits); signature now %s\n", N[i].label, N[i].spec.flip_bit % (N[i].cert.sig_len * 8), N[i].cert.sig_len * 8, hx); }
    if (vf_case) for (int i = 0; i < NNODE; i++) if (N[i].made && N[i].craft && N[i].spec.sig_override == N[i].crafted) { char hx[1100]; vf_hex(hx, N[i].em, N[i].spec.sig_override_len > 512 ? 512 : N[i].spec.sig_override_len);
        fprintf(stderr, "  %s: signature value crafted (%s); under the issuer's public key it decodes to %s\n", N[i].label, OPS[N[i].craft].name, hx); }
    if (vf_case && vf_flag("--dump")) for (int i = 0; i < NNODE; i++) if (N[i].made) { char *pem = cg_pem("CERTIFICATE", N[i].cert.der, N[i].cert.len); fprintf(stderr, "# %s\n%s", N[i].label, pem); free(pem); }

    if (chain) psX509FreeCert(chain);
    if (CA) psX509FreeCert(CA);
    for (int i = 0; i < 4; i++) if (crl_issuer[i]) psX509FreeCert(crl_issuer[i]);
    psCRL_DeleteAll();
    teardown();
}

/* ------------------------------------------------------------------ workload --- */
static cdesc *CASES; static long ncases, capcases;
static void add_case(const cdesc *d)
{
    for (int k = 0; k < 2; k++) if (!op_applicable(d, d->op[k], d->pos[k])) return;
    if ((d->anc == A_INT || d->anc == A_INT_NOTPRESENTED) && d->L < 3) return;
    if (d->anc == A_MIDINT && d->L < 4) return;
    if (d->anc == A_LEAF && d->L < 2) return;
    if (ncases == capcases) { capcases = capcases ? capcases * 2 : 4096; CASES = realloc(CASES, capcases * sizeof *CASES); }
    CASES[ncases++] = *d;
}
static void keyplan(cdesc *d, int plan)   /* 0..2 uniform R/P/E, 3..5 rotations of R,P,E */
{
    static const int t[3] = { CG_K_RSA2048, CG_K_P256, CG_K_ED25519 };
    for (int i = 0; i < d->L; i++) d->kt[i] = plan < 3 ? t[plan] : t[(i + plan) % 3];
}
static cdesc base(int L, int plan) { cdesc d; memset(&d, 0, sizeof d); d.L = L; d.apl = -1; d.api = 1; keyplan(&d, plan); return d; }

/* operators that are enumerated alone (sections B, I, J) but not in the pair / anchor-set products of the thorough tier: one representative of each new family stays in */
static int solo_only(int op) { return (op >= OP_NOT_YET_INDEF && op <= OP_FORGE_DI_PARAMS && op != OP_NOT_YET_INDEF && op != OP_EM_NONFF) || op == OP_INDEF_FRESH || op == OP_FAR || op == OP_FRESH; }
static cdesc base_kp(const char *kp) { cdesc d; memset(&d, 0, sizeof d); d.L = (int) strlen(kp); d.apl = -1; d.api = 1; for (int i = 0; i < d.L; i++) d.kt[i] = kt_of(kp[i]); return d; }
static void build_workload(void)
{
    long serial = 0;
    /* A. good chains: key plans x lengths x anchor sets x root presented x anchor pathLen */
    for (int L = 1; L <= MAXL; L++) for (int plan = 0; plan < 6; plan++) {
        static const int goodanc[] = { A_RIGHT, A_MANY_RIGHT_LAST, A_MANY_RIGHT_FIRST, A_INT, A_INT_NOTPRESENTED };
        for (int a = 0; a < 5; a++) for (int rp = 0; rp < 2; rp++) {
            if (rp && (goodanc[a] == A_INT || goodanc[a] == A_INT_NOTPRESENTED)) continue;
            cdesc d = base(L, plan); d.anc = goodanc[a]; d.root_presented = rp; d.api = (int) (serial++ % 3); add_case(&d);
        }
        for (int apl = 0; apl <= 3; apl++) { cdesc d = base(L, plan); d.apl = apl; add_case(&d); }   /* too small values are labelled by the reference through the root's pathLen */
    }
    /* B. every single operator at every position */
    int Lmax = vf_thorough ? MAXL : 4;
    for (int L = 2; L <= Lmax; L++) for (int op = 1; op < OP_N; op++) for (int p = 0; p < L; p++) for (int plan = 0; plan < (vf_thorough ? 6 : 4); plan++) {
        cdesc d = base(L, plan == 3 ? 3 + (op + p) % 3 : plan); d.op[0] = op; d.pos[0] = p; d.api = (op + p + plan) % 3; add_case(&d);
        if (OPS[op].cls == CL_BAD && plan >= 3) { d.root_presented = 1; add_case(&d); }
    }
    /* C. anchor sets (incl. the wrong ones) x lengths x presentation */
    for (int L = 1; L <= MAXL; L++) for (int a = 0; a < A_N; a++) for (int plan = 1; plan < 5; plan++) for (int rp = 0; rp < 2; rp++) {
        cdesc d = base(L, plan); d.anc = a; d.root_presented = rp; add_case(&d);
    }
    /* D. signature-copy forgeries against anchors with pathLen absent / 0 / 1 / 2, all anchor sets containing the right root */
    for (int L = 3; L <= MAXL; L++) for (int apl = -1; apl <= 2; apl++) for (int plan = 0; plan < 6; plan++) for (int a = 0; a < 3; a++) {
        static const int ops[] = { OP_SIG_COPY_ANCHOR, OP_SIG_COPY_ANCHOR_SAMEDN, OP_SIG_COPY_ISSUER }; static const int ancs[] = { A_RIGHT, A_MANY_RIGHT_LAST, A_INT };
        for (int o = 0; o < 3; o++) for (int p = 1; p < L; p++) { cdesc d = base(L, plan); d.apl = apl; d.anc = ancs[a]; d.op[0] = ops[o]; d.pos[0] = p; if (!vf_thorough && (plan % 2) && a) continue; add_case(&d); }
    }
    /* E. order permutations (soundness only) of labelled and unlabelled chains */
    for (int L = 3; L <= Lmax; L++) for (int ord = 1; ord <= 4; ord++) for (int plan = 2; plan < 5; plan++) {
        cdesc d = base(L, plan); d.ord = ord; add_case(&d); d.root_presented = 1; add_case(&d);
        static const int ops[] = { OP_SIG_CORRUPT, OP_EXPIRED, OP_NOT_CA, OP_SIG_COPY_ANCHOR, OP_ISSUER_DN, OP_UNK_CRIT, OP_PATHLEN, OP_KU_NOCERTSIGN };
        for (int o = 0; o < 8; o++) for (int p = 0; p < L; p++) { cdesc e = base(L, plan); e.ord = ord; e.op[0] = ops[o]; e.pos[0] = p; add_case(&e); }
    }
    /* I. issuers with RSA public exponent 3 (root or intermediate): honest chains must validate; every signature operator - the forgeries computed from the
     *    public key alone included - on each certificate issued by such a key must be refused */
    {
        static const char *kps[] = { "CR", "CP", "CRR", "CCP", "RCR", "PCE", "CRPR", "RCCR", "PRCP" }; long ser = 0;
        static const int sops[] = { OP_SIG_CORRUPT, OP_SIG_WRONG_KEY, OP_SIG_COPY_ANCHOR, OP_SIG_COPY_ANCHOR_SAMEDN, OP_SIG_EMPTY, OP_SIG_HASH_SWAP, OP_SHA384, OP_PSS, OP_NOT_YET_INDEF };
        for (int q = 0; q < 9; q++) {
            cdesc g = base_kp(kps[q]);
            for (int rp = 0; rp < 2; rp++) { cdesc d = g; d.root_presented = rp; d.api = (int) (ser++ % 3); add_case(&d); if (g.L >= 3 && !rp) { d.anc = A_INT; add_case(&d); d.anc = A_MANY_RIGHT_LAST; add_case(&d); } }
            for (int p = 1; p < g.L; p++) {
                if (g.kt[p - 1] != K_RSA_E3) continue;
                for (int op = OP_EM_NONFF; op <= OP_FORGE_DI_PARAMS; op++) for (int rp = 0; rp < 2; rp++) { cdesc d = g; d.op[0] = op; d.pos[0] = p; d.root_presented = rp; d.api = (int) (ser++ % 3); add_case(&d); }
                for (int o = 0; o < 9; o++) { cdesc d = g; d.op[0] = sops[o]; d.pos[0] = p; d.api = (int) (ser++ % 3); add_case(&d); }
            }
        }
    }
    if (!vf_thorough) return;
    /* J. e = 3 issuers: crafted signature values x anchor sets x presentation orders, and below anchors with a pathLen */
    {
        static const char *kps[] = { "CR", "CRR", "CCC", "RCR", "ECP", "CRPR", "RCCR", "PRCP", "CRRRR", "RRRCR", "RCRCR" };
        for (int q = 0; q < 11; q++) { cdesc g = base_kp(kps[q]);
            for (int p = 1; p < g.L; p++) { if (g.kt[p - 1] != K_RSA_E3) continue;
                for (int op = OP_EM_NONFF; op <= OP_FORGE_DI_PARAMS; op++) for (int a = 0; a < A_N; a++) { cdesc d = g; d.op[0] = op; d.pos[0] = p; d.anc = a; d.ord = (op + a) % 5; d.root_presented = (op + a + p) & 1; d.api = (op + a) % 3; d.apl = a == A_RIGHT ? g.L - 2 : -1; add_case(&d); } } }
    }
    /* F. pairs of operators */
    for (int L = 2; L <= MAXL; L++) for (int o1 = 1; o1 < OP_N; o1++) for (int o2 = o1; o2 < OP_N; o2++) for (int p1 = 0; p1 < L; p1++) for (int p2 = 0; p2 < L; p2++) {
        if (o1 == o2 && p2 <= p1) continue;
        if (solo_only(o1) || solo_only(o2)) continue;
        if (p1 == p2 && OPS[o1].cls != CL_BENIGN && OPS[o2].cls != CL_BENIGN && o1 != o2 && L > 3) continue;   /* two defects on the same certificate: only for short chains */
        for (int v = 0; v < 2; v++) { cdesc d = base(L, (o1 * 7 + o2 * 3 + p1 + p2 + L + v * 2) % 6); d.op[0] = o1; d.pos[0] = p1; d.op[1] = o2; d.pos[1] = p2; d.api = (o1 + o2 + v) % 3; add_case(&d); }
    }
    /* G. operators x anchor sets x permutations */
    for (int L = 2; L <= MAXL; L++) for (int op = 1; op < OP_N; op++) for (int p = 0; p < L; p++) for (int a = 1; a < A_N; a++) {
        if (solo_only(op)) continue;
        cdesc d = base(L, (op + p + a) % 6); d.op[0] = op; d.pos[0] = p; d.anc = a; d.ord = (op + a) % 5; d.root_presented = (op + p) & 1; add_case(&d);
    }
    /* H. all key-type assignments for short chains, P-384 included, with the most telling operators */
    for (int L = 2; L <= 3; L++) { int n = 1; for (int i = 0; i < L; i++) n *= 4;
        for (int m = 0; m < n; m++) for (int o = 0; o < 5; o++) { static const int ops[] = { OP_NONE, OP_SIG_CORRUPT, OP_SIG_WRONG_KEY, OP_SIG_ALG_WRONG, OP_SIG_COPY_ANCHOR };
            cdesc d; memset(&d, 0, sizeof d); d.L = L; d.apl = -1; d.api = 1; int x = m; for (int i = 0; i < L; i++) { d.kt[i] = kt_of(KTC[x % 4]); x /= 4; }
            d.op[0] = ops[o]; d.pos[0] = ops[o] == OP_NONE ? 0 : L - 1; add_case(&d); } }
}

typedef struct { long from, to; const long *idx; } batch_t;
static void run_batch(void *arg) { batch_t *b = arg; int want = g_sample; for (long i = b->from; i < b->to; i++) { g_sample = want && ((i - b->from) % 9 == 4); run_case(&CASES[b->idx[i]]); } }
static void run_one(void *arg) { run_case((const cdesc *) arg); }

/* --case: vf_fork_case leaves the child's stderr alone in replay mode, so a sanitizer report would not reach the crash record and the key would degrade to
 * crash:<cls>:exit-N.  Run the case once with stderr captured (records, correct keys), then - with -v - once more uncaptured and unrecorded for the human reader. */
static void replay_one(void *c, const char *cls)
{
    const char *spec = vf_case; vf_case = NULL;
    vf_fork_case(run_one, c, cls, spec, 120);
    vf_case = spec;
    if (vf_flag("-v")) { int out = vf_outfd; vf_outfd = open("/dev/null", O_WRONLY); vf_fork_case(run_one, c, cls, spec, 120); close(vf_outfd); vf_outfd = out; }
}

int main(int argc, char **argv)
{
    vf_init(argc, argv);
    if (matrixSslOpen() < 0) { fprintf(stderr, "matrixSslOpen failed\n"); return 2; }
    NOW = mx_now;
    if (vf_case) {
        cdesc d; if (desc_parse(vf_case, &d) < 0) { vf_incon("unparsable case spec: %s", vf_case); vf_flush(); return 2; }
        for (int i = 0; i < d.L; i++) key_get(d.kt[i], i);
        replay_one(&d, "c03");
        vf_flush(); matrixSslClose(); return 0;
    }
    build_workload();
    long *mine = malloc((ncases + 1) * sizeof *mine), nm = 0;
    for (long i = 0; i < ncases; i++) if (vf_mine(i)) mine[nm++] = i;
    /* generate every key this shard needs once, before forking (children inherit the pool) */
    for (long j = 0; j < nm; j++) { const cdesc *d = &CASES[mine[j]]; for (int i = 0; i < d->L; i++) key_get(d->kt[i], i);
        for (int k = 0; k < 2; k++) { if (d->op[k] == OP_SIG_WRONG_KEY || d->op[k] == OP_BOGUS_CRL) for (int i = 0; i < d->L; i++) cg_key_get(d->kt[i] == K_RSA_E3 ? CG_K_RSA2048 : d->kt[i], 5); if (d->op[k] == OP_WEAK_RSA512 || d->op[k] == OP_WEAK_LEAF512) cg_key_get(CG_K_RSA512, 0); } }
    cg_key_get(CG_K_P256, 7); cg_key_get(CG_K_ED25519, 7); cg_key_get(CG_K_P256, 8);
    if (vf_shard == 0) { vf_stat("workload_cases_total", ncases); }
    const long B = 24;
    for (long j = 0; j < nm; j += B) {
        batch_t b = { j, j + B < nm ? j + B : nm, mine }; char spec[400]; desc_str(&CASES[mine[j]], spec, sizeof spec);
        g_sample = (vf_shard == 3 || vf_shard == 9 || vf_nshards == 1) && (j / B) % 7 == 2 && j / B < 24;
        int out = vf_outfd; char tmpl[] = "/dev/shm/c03bXXXXXX"; int tfd = mkstemp(tmpl); if (tfd >= 0) unlink(tmpl);
        /* run the batch with its records going to a scratch file; if the child dies the batch is re-run one case per child so the crash is attributed to exactly one case */
        if (tfd >= 0) vf_outfd = tfd;
        int rcb = vf_fork_case(run_batch, &b, "c03-batch", spec, 600);
        vf_outfd = out;
        if (tfd >= 0 && rcb == 0) { char buf[65536]; ssize_t n; lseek(tfd, 0, SEEK_SET); while ((n = read(tfd, buf, sizeof buf)) > 0) vf_write(buf, n); }
        if (tfd >= 0) close(tfd);
        if (rcb != 0) for (long i = b.from; i < b.to; i++) { desc_str(&CASES[mine[i]], spec, sizeof spec); vf_fork_case(run_one, &CASES[mine[i]], "c03", spec, 120); }
    }
    free(mine); free(CASES);
    vf_flush(); matrixSslClose();
    return 0;
}
