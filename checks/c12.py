import vflib

RULE = ("one comparison = one execution of a MatrixSSL primitive whose complete output (digest, MAC, derived key, "
        "ciphertext, tag, plaintext, accept/reject decision) was compared with libcrypto; distinct = (primitive, "
        "length or length class, call-partition class, buffer alignment, key size, in-place flag)")
ASSUME = ["libcrypto (OpenSSL 3 default provider) is the reference implementation of the standards",
          "only this configuration's code paths are exercised (software AES/GHASH: the build does not pass -maes; "
          "ChaCha20/Poly1305 implementation picked at run time for this CPU)",
          "streaming psHmac*Init/psHmacInit/psHmacSingle are driven only with keys <= hash block size (their documented "
          "precondition); longer keys go through psHmac and psHmacMd5/Sha1/Sha256/Sha384",
          "psAesDecryptGCM/psAesDecryptGCM2 are asked for tag lengths 1..16 only; HKDF info <= 80 bytes"]


def run(ctx):
    src = ["checks/c12_crypto.c"]
    stages = [dict(variant="asan", name="c12", sources=src, libs=["-lcrypto"],
                   args=["--depth", "1" if ctx.thorough else "0"])]
    if ctx.thorough:
        stages.append(dict(variant="prod", name="c12", sources=src, libs=["-lcrypto"], args=["--depth", "2"]))
        # the portable reference ChaCha20/Poly1305 code instead of the CPU-specific one picked at run time
        stages.append(dict(variant="asan", name="c12", sources=src, libs=["-lcrypto"], shards=4,
                           args=["--depth", "1", "--only", "chacha"], env={"MATRIX_CHACHA20POLY1305_REF": "1"},
                           replay_filter=lambda case: "g=chacha" in case))
    return vflib.std_run(ctx, stages, "exploration", RULE, ASSUME, min_nontrivial=20000)
