import vflib, hashlib, os
WRAPS = ("psGetEntropy", "gettimeofday", "time", "clock_gettime")
def run(ctx):
    rev = hashlib.sha1(open(os.path.join(vflib.VERIF, "gen", "certgen.h"), "rb").read()).hexdigest()[:10]
    st = [dict(variant="asan", name="c04", sources=["checks/c04_auth.c", "harness/mx_wraps.c"], wraps=WRAPS, libs=["-lcrypto"], cflags=["-I" + vflib.VERIF + "/gen", "-DCERTGEN_REV=" + rev],
               shards=vflib.NCPU, timeout=3600 if ctx.thorough else 1500)]
    rule = ("Each case = one handshake (fork()ed child) between a verifying endpoint and a peer whose credentials were minted for one ground-truth label (good, expired / not-yet-valid leaf, "
            "untrusted CA, corrupt signature, wrong expected name, issuer not a CA, unknown critical extension, expired intermediate, self-signed unanchored, wrong private key, path length exceeded at the trust anchor / at an intermediate, verifier without any trust anchor), most labels both with the leaf "
            "directly under the anchor and under an intermediate CA sent along (defect in a non-last certificate on the wire), x 16 scenarios "
            "(client verifying server over TLS 1.1/1.2/1.3/DTLS with RSA transport, ECDHE-RSA, ECDHE-ECDSA, TLS 1.3 RSA/ECDSA/Ed25519; server verifying client) x {no, strict, permissive} "
            "callback. distinct_nontrivial = distinct (version, scenario, role, label, callback, chain shape) executed. In addition 24 keyless-attacker cases: a peer holding no key at all answers the ClientHello of a TLS 1.2 client whose cache holds nothing / a session id / a ticket / a session id next to a stale ticket with ServerHello (echoed, different or empty session id; with or without session_ticket extension), ChangeCipherSpec and a Finished computed from public values under an all-zero master secret; the client must never complete.")
    return vflib.std_run(ctx, st, "exploration", rule,
        ["labels are ground truth by construction (gen/certgen.h signs with libcrypto)", "validity failures use +-10 days (the library grants 24 h of linger)",
         "transcript-replay / stale-signature proofs of possession are covered by C06/C07's tampering cases, not here"], min_nontrivial=300)
