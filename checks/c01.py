import vflib
WRAPS = ("psGetEntropy", "gettimeofday", "time", "clock_gettime")
def run(ctx):
    st = [dict(variant="asan", name="c01", sources=["checks/c01_appdata.c", "harness/mx_wraps.c"], wraps=WRAPS, libs=["-lcrypto"],
               shards=vflib.NCPU, timeout=7200 if ctx.thorough else 1200)]
    rule = ("Each case = one (scenario, role under attack, cut point after the k-th record delivered to it, injection) executed on a fork()ed clone of the live "
            "connection: plaintext/random/foreign-connection/reflected application_data records, TLS 1.3 records sealed under the peer's handshake key, and "
            "application encode attempts before completion; afterwards the honest handshake and honest tagged traffic continue. distinct_nontrivial counts "
            "distinct (version, scenario, role, cut point, handshake state, injection) tuples whose injection was actually delivered to a live target.")
    return vflib.std_run(ctx, st, "exploration", rule,
        ["sample credentials under /repo/testkeys", "attacker strength 2 reads traffic keys from the honest peer's ssl_t (libcrypto seals the record)",
         "rehandshake states are compiled out of the default configuration"], min_nontrivial=200)
