import vflib
WRAPS = ("psGetEntropy", "gettimeofday", "time", "clock_gettime")
def run(ctx):
    st = [dict(variant="asan", name="c06", sources=["checks/c06_sequence.c", "harness/mx_wraps.c"], wraps=WRAPS, libs=["-lcrypto"], shards=vflib.NCPU, timeout=7200 if ctx.thorough else 1500)]
    rule = ("Each case = one single-step deviation (delete / duplicate / swap adjacent / inject one of 16 handshake message types once or twice, taken from the honest run or - for resumed modes - from the priming full handshake / premature "
            "ChangeCipherSpec, at every position) of one flight addressed to the receiver, per mode (version x key exchange x resumed/ticket/client-auth) and role, executed on a fork()ed "
            "clone: the flight is re-framed to one handshake message per record (TLS 1.3 protected flights opened and re-sealed with the sender's handshake key) and fed message by "
            "message; a reference grammar per mode decides where the sequence becomes illegal. The deviant peer is transcript-consistent: every Finished fed to the receiver is recomputed over the "
            "receiver's own transcript and sealed with the sender's keys, and (TLS <= 1.2) the sender's running handshake hash is re-based on the receiver's view, so completion is decided by the "
            "receiver's state machine alone; completion after a grammar-illegal sequence is the violation. distinct_nontrivial = distinct (mode, role, flight, deviation, position, type) executed.")
    return vflib.std_run(ctx, st, "exploration", rule,
        ["the reference grammar is a reading of RFC 5246/6347/8446/5077 restricted to the messages this build can emit", "DTLS: only the completion clause is judged (duplicates and out-of-order messages may be ignored)",
         "the deviant peer knows the session secrets (it is the authenticated peer or an unauthenticated one, never a man in the middle); DTLS and TLS 1.3 senders are not re-based (TLS 1.3 receivers complete without the sender's cooperation)"], min_nontrivial=500)
