/* C15 - after a fatal error or closure a session stays dead.
 *
 * At every cut point of every scenario (see mx_scn.h) the live connection is fork()-cloned once
 * per (event, continuation).  The child applies one error-inducing event to the target endpoint,
 * drains the alert the endpoint wants to send, then applies one continuation, and the monitor
 * asserts on everything observed after the event:
 *   - no MATRIXSSL_APP_DATA is ever returned again;
 *   - matrixSslEncodeToOutdata fails;
 *   - the endpoint emits nothing beyond the alert already queued by the event;
 *   - receive calls report an error or a close request, never success / "need more" / "complete".
 * An event the endpoint does not recognise as an error (e.g. DTLS silently dropping a corrupt
 * datagram, or a warning alert) is counted and not judged here (C02 judges modified records),
 * unless a reference table says it MUST end the session:
 *   - received alerts: alert_must_kill(version, level, description) below;
 *   - authentic illegal handshake messages / content types, corrupted records on a completed TLS connection;
 *   - DTLS datagram truncated behind a complete record header (library-defined fatal error, own key).
 * Send-side calls that must fail are events too; their refusal alone is not a session failure. */
#include "mx_surgeon.h"
#include "mx_scn.h"

enum { EV_ALERT_IN = 0, EV_CORRUPT, EV_OVERSIZE, EV_ILLEGAL, EV_BADVERSION, EV_PEER_ALERT, EV_PEER_CLOSE, EV_AUTH_HS, EV_AUTH_ALERT, EV_AUTH_TYPE, EV_DTLS_TRUNC, EV_SEND_ERR, EV_N };
static const char *evname[] = { "inbound-alert", "corrupt-record", "oversize-record", "illegal-message", "bad-record-version", "peer-fatal-alert", "peer-close-notify", "authentic-illegal-handshake-message", "authentic-alert", "authentic-bad-content-type", "dtls-truncated-datagram", "send-side-error" };
/* EV_DTLS_TRUNC offset classes: where the datagram ends relative to the (valid, complete) record it carries */
enum { TR_IN_HEADER = 0, TR_HEADER_ONLY, TR_MID_BODY, TR_ONE_SHORT, TR_SECOND_RECORD, TR_N };
static const char *trname[] = { "inside-header", "header-only", "mid-body", "one-byte-short", "second-record-mid-body" };
/* EV_SEND_ERR kinds: send-side API calls that must fail */
enum { SE_OUTDATA_OVERSIZE = 0, SE_WRITEBUF_NO_RESERVE, SE_WRITEBUF_NEGATIVE, SE_OUTDATA_NULL, SE_N };
static const char *sename[] = { "encode-to-outdata-oversize", "encode-writebuf-beyond-reserved", "encode-writebuf-negative-length", "encode-to-outdata-null" };

/* ---- reference table: which RECEIVED alerts must end the session (everything else is "may be ignored": not asserted) ----
 * close_notify is a closure alert at any level in every version (RFC 5246 7.2.1, RFC 8446 6.1).
 * TLS 1.3 (RFC 8446 6): "All the alerts listed in Section 6.2 MUST be sent with AlertLevel=fatal and MUST be treated as error alerts when
 *   received regardless of the AlertLevel in the message. Unknown Alert types MUST be treated as error alerts."  Only close_notify and
 *   user_canceled(90) are not error alerts; user_canceled is left unasserted (the library treats it as fatal as well, which is stricter).
 * TLS <= 1.2 / DTLS (RFC 5246 7.2, RFC 4346 7.2): level fatal(2) terminates the connection whatever the description; level warning(1)
 *   may be ignored by the receiver; a level byte outside {1,2} is not a defined value and the library hands it up like a warning: not asserted. */
static int alert_must_kill(int ver, int level, int desc)
{
    if (desc == 0) return 1;
    if (ver == MX_TLS13) return desc != 90;
    return level == 2;
}
enum { K_NEXT = 0, K_ORIGINAL, K_OLD, K_GARBAGE, K_HELLO, K_ENCODE, K_PUMP, K_DRAIN, K_N };
static const char *kname[] = { "next-honest-records", "original-of-corrupted", "older-record-replay", "garbage", "fresh-clienthello", "app-encode", "honest-pump", "drain-loops" };

typedef struct { int ev; int arg; int arg2; } ev_t;
static ev_t events[600]; static int nev;
static unsigned char *fresh_ch[MX_NVER]; static int fresh_ch_len[MX_NVER];

static void build_events(void)
{
    nev = 0;
    static const int fatal_q[] = { 10, 20, 40, 47, 80 };
    static const int fatal_t[] = { 10, 20, 21, 22, 30, 40, 42, 43, 44, 45, 46, 47, 48, 49, 50, 51, 60, 70, 71, 80, 86, 109, 110, 112, 113, 115, 116, 120 };
    const int *f = vf_thorough ? fatal_t : fatal_q; int nf = vf_thorough ? (int) (sizeof fatal_t / sizeof(int)) : (int) (sizeof fatal_q / sizeof(int));
    for (int i = 0; i < nf; i++) events[nev++] = (ev_t) { EV_ALERT_IN, 2, f[i] };
    events[nev++] = (ev_t) { EV_ALERT_IN, 1, 0 };          /* close_notify, warning level */
    events[nev++] = (ev_t) { EV_ALERT_IN, 2, 0 };          /* close_notify, fatal level */
    if (vf_thorough) { events[nev++] = (ev_t) { EV_ALERT_IN, 1, 40 }; events[nev++] = (ev_t) { EV_ALERT_IN, 3, 40 }; }
    events[nev++] = (ev_t) { EV_CORRUPT, 0, 0 };           /* flip last byte */
    events[nev++] = (ev_t) { EV_CORRUPT, 1, 0 };           /* flip first body byte */
    events[nev++] = (ev_t) { EV_OVERSIZE, 23, 0 };
    events[nev++] = (ev_t) { EV_OVERSIZE, 22, 0 };
    events[nev++] = (ev_t) { EV_ILLEGAL, 99, 0 };
    events[nev++] = (ev_t) { EV_ILLEGAL, 0, 0 };           /* HelloRequest */
    events[nev++] = (ev_t) { EV_BADVERSION, 3, 0 };
    events[nev++] = (ev_t) { EV_BADVERSION, 2, 0 };
    events[nev++] = (ev_t) { EV_PEER_ALERT, 0, 0 };
    events[nev++] = (ev_t) { EV_PEER_CLOSE, 0, 0 };
    /* records sealed with the honest peer's own keys (key-holding peer): authentic but illegal */
    static const int hst[] = { 0, 1, 2, 4, 11, 12, 13, 14, 15, 16, 20, 24, 99 };
    for (int i = 0; i < 13; i++) events[nev++] = (ev_t) { EV_AUTH_HS, hst[i], 0 };
    static const int ad_q[] = { 10, 20, 40, 47, 80, 90 }; static const int ad_t[] = { 10, 20, 21, 22, 30, 40, 42, 43, 44, 45, 46, 47, 48, 49, 50, 51, 60, 70, 71, 80, 86, 90, 100, 109, 110, 112, 116, 120 };
    const int *ad = vf_thorough ? ad_t : ad_q; int nad = vf_thorough ? 28 : 6;
    for (int i = 0; i < nad; i++) events[nev++] = (ev_t) { EV_AUTH_ALERT, 2, ad[i] };
    events[nev++] = (ev_t) { EV_AUTH_ALERT, 1, 0 };
    events[nev++] = (ev_t) { EV_AUTH_TYPE, 24, 0 };
    events[nev++] = (ev_t) { EV_AUTH_TYPE, 25, 0 };
    /* the warning-level twin of every error description, plaintext and authentic (RFC 8446 6: the level byte is irrelevant in TLS 1.3), the two
       genuine warnings user_canceled / no_renegotiation and an unassigned description; thorough adds level bytes outside {1,2} */
    static const int w_q[] = { 10, 20, 40, 47, 80, 90, 100, 255 };
    static const int w_t[] = { 10, 20, 21, 22, 30, 40, 41, 42, 43, 44, 45, 46, 47, 48, 49, 50, 51, 60, 70, 71, 80, 86, 90, 100, 109, 110, 111, 112, 113, 114, 115, 116, 120, 5, 255 };
    const int *wd = vf_thorough ? w_t : w_q; int nw = vf_thorough ? (int) (sizeof w_t / sizeof(int)) : (int) (sizeof w_q / sizeof(int));
    for (int i = 0; i < nw; i++) { if (!(vf_thorough && wd[i] == 40)) events[nev++] = (ev_t) { EV_ALERT_IN, 1, wd[i] }; events[nev++] = (ev_t) { EV_AUTH_ALERT, 1, wd[i] }; }
    if (vf_thorough) {
        static const int lv[] = { 0, 3, 255 }; static const int ld[] = { 0, 20, 40, 90 };
        for (int i = 0; i < 3; i++) for (int j = 0; j < 4; j++) { if (!(lv[i] == 3 && ld[j] == 40)) events[nev++] = (ev_t) { EV_ALERT_IN, lv[i], ld[j] }; events[nev++] = (ev_t) { EV_AUTH_ALERT, lv[i], ld[j] }; }
        events[nev++] = (ev_t) { EV_ALERT_IN, 2, 255 }; events[nev++] = (ev_t) { EV_AUTH_ALERT, 2, 255 }; events[nev++] = (ev_t) { EV_AUTH_ALERT, 2, 0 };
    }
    /* DTLS: a datagram that ends before the record its header announces does */
    for (int i = 0; i < TR_N; i++) events[nev++] = (ev_t) { EV_DTLS_TRUNC, i, 0 };
    /* send-side errors */
    for (int i = 0; i < SE_N; i++) events[nev++] = (ev_t) { EV_SEND_ERR, i, 0 };
    if (nev > (int) (sizeof events / sizeof events[0])) { fprintf(stderr, "HARNESS: event table overflow\n"); exit(2); }
}

static struct { const mx_scn *scn; char desc[300]; const ev_t *ev; int kont; int cut; int appAtEvent; int afterEvent; } M;
static void report(const char *clause, mx_ep *e, const char *fmt, ...)
{
    char key[200], msg[600]; va_list ap; va_start(ap, fmt); vsnprintf(msg, sizeof msg, fmt, ap); va_end(ap);
    snprintf(key, sizeof key, "c15:%s:%s:%s", clause, mx_vername[M.scn->cfg.ver], evname[M.ev->ev]);
    vf_violation(key, M.desc, "%s | role=%s continuation=%s hsState=%d flags=0x%x err=%d lastrc=%d", msg, e->role ? "server" : "client", kname[M.kont], e->ssl->hsState, e->ssl->flags, e->ssl->err, e->lastrc);
}
static void on_app(mx_ep *e, const unsigned char *pt, uint32 len)
{
    if (M.afterEvent && e->user) report("appdata-after-error", e, "APP_DATA len=%u delivered after the error event; first=%.16s", len, len ? (const char *) pt : "");
}

static int hdr(unsigned char *o, int dtls, int type, int vmaj, int vmin, int epoch, unsigned long long seq, int len)
{
    o[0] = type; o[1] = vmaj; o[2] = vmin;
    if (dtls) { o[3] = epoch >> 8; o[4] = epoch; for (int i = 0; i < 6; i++) o[5 + i] = (unsigned char) (seq >> (8 * (5 - i))); o[11] = len >> 8; o[12] = len; return 13; }
    o[3] = len >> 8; o[4] = len; return 5;
}
static void wire_ver(int ver, int *maj, int *min)
{
    switch (ver) { case MX_TLS11: *maj = 3; *min = 2; break; case MX_TLS12: case MX_TLS13: *maj = 3; *min = 3; break; case MX_DTLS10: *maj = 254; *min = 255; break; default: *maj = 254; *min = 253; }
}

typedef struct { mx_conn *k; int target; int cut; const ev_t *ev; int kont; } child_arg;

static void child_run(void *a_)
{
    child_arg *a = a_; mx_conn *k = a->k; int dtls = k->dtls;
    mx_ep *T = a->target == MX_SERVER ? &k->s : &k->c, *P = a->target == MX_SERVER ? &k->c : &k->s;
    int dirToT = a->target == MX_SERVER ? 0 : 1;
    unsigned char *buf = malloc(70000), *orig = malloc(70000); int n = 0, norig = 0;
    int maj, min; wire_ver(k->cfg.ver, &maj, &min);
    vf_stat("cases", 1);
    k->c.on_app = on_app; k->s.on_app = on_app; T->user = T;
    int est = mx_conn_established(k);
    /* honest material sealed before the event */
    if (est) { unsigned char p[300]; mx_payload(p, 150, 0x0c15, !a->target, 1); mx_send(P, p, 150); mx_payload(p, 80, 0x0c15, !a->target, 2); mx_send(P, p, 80); }
    mx_conn_collect(k);
    unsigned char *pend = k->q[dirToT] + k->qoff[dirToT]; int npend = k->qlen[dirToT] - k->qoff[dirToT];
    mx_rec r; int have_next = npend > 0 && mx_rec_at(pend, npend, 0, dtls, &r);
    int nextlen = have_next ? r.hdr + r.len : 0;
    int epoch = have_next ? r.epoch : (est ? 1 : 0);

    /* ---- the event ---- */
    int consumed = 0;
    switch (a->ev->ev) {
    case EV_ALERT_IN:
        n = hdr(buf, dtls, 21, maj, min, epoch, 1000 + a->cut, 2); buf[n++] = a->ev->arg; buf[n++] = a->ev->arg2; break;
    case EV_CORRUPT:
        if (!have_next) { vf_stat("event_not_applicable", 1); return; }
        memcpy(orig, pend, nextlen); norig = nextlen; memcpy(buf, pend, nextlen); n = nextlen; consumed = nextlen;
        if (r.len == 0) { vf_stat("event_not_applicable", 1); return; }
        if (a->ev->arg == 0) buf[n - 1] ^= 0x01; else buf[r.hdr] ^= 0x80;
        break;
    case EV_OVERSIZE:
        n = hdr(buf, dtls, a->ev->arg, maj, min, epoch, 2000 + a->cut, 0x4801); memset(buf + n, 0xAB, 0x4801); n += 0x4801; break;
    case EV_ILLEGAL: {
        unsigned char hs[16] = { (unsigned char) a->ev->arg, 0, 0, 0 }; int hl = 4;
        if (dtls) { memset(hs + 4, 0, 8); hl = 12; }
        n = hdr(buf, dtls, 22, maj, min, epoch, 3000 + a->cut, hl); memcpy(buf + n, hs, hl); n += hl; break; }
    case EV_BADVERSION:
        if (!have_next) { vf_stat("event_not_applicable", 1); return; }
        memcpy(orig, pend, nextlen); norig = nextlen; memcpy(buf, pend, nextlen); n = nextlen; consumed = nextlen;
        buf[1] = a->ev->arg; buf[2] = 0; break;
    case EV_AUTH_HS: case EV_AUTH_ALERT: case EV_AUTH_TYPE: {
        /* only at flight boundaries (nothing in transit), so that the authentic record is the next in sequence */
        if (npend > 0 || T->dead) { vf_stat("event_not_applicable", 1); return; }
        unsigned char body[32]; int bl, ty;
        if (a->ev->ev == EV_AUTH_HS) { memset(body, 0, sizeof body); body[0] = (unsigned char) a->ev->arg; bl = dtls ? 12 : 4; ty = 22; if (dtls) { body[5] = (unsigned char) (P->ssl->msn); } }
        else if (a->ev->ev == EV_AUTH_ALERT) { body[0] = a->ev->arg; body[1] = a->ev->arg2; bl = 2; ty = 21; }
        else { memcpy(body, "odd-content-type", 16); bl = 16; ty = a->ev->arg; }
        n = mx_seal_as(P, ty, body, bl, buf);
        if (n <= 0) { vf_stat("event_not_applicable", 1); return; }
        break; }
    case EV_DTLS_TRUNC: {
        /* the next honest datagram record, cut short: the 13-byte header (type, version, epoch, fresh sequence number, length) is the sender's own */
        if (!dtls || !have_next || r.len < 4) { vf_stat("event_not_applicable", 1); vf_statf(1, "dtls_truncated_na_%s_npend%d", est ? "established" : "handshake", npend > 0); return; }
        int keep = 0, first = 0; mx_rec r2 = r;
        if (a->ev->arg == TR_SECOND_RECORD) {   /* [intact record][record cut mid-body] in one datagram */
            if (!mx_rec_at(pend, npend, nextlen, dtls, &r2) || r2.len < 4) { vf_stat("event_not_applicable", 1); return; }
            first = nextlen;
        }
        switch (a->ev->arg) { case TR_IN_HEADER: keep = 7; break; case TR_HEADER_ONLY: keep = r2.hdr; break; case TR_ONE_SHORT: keep = r2.hdr + r2.len - 1; break; default: keep = r2.hdr + r2.len / 2; }
        norig = r2.hdr + r2.len; memcpy(orig, pend + first, norig); consumed = first + norig;
        n = first + keep; memcpy(buf, pend, n);
        break; }
    case EV_SEND_ERR: n = 0; break;
    case EV_PEER_ALERT: case EV_PEER_CLOSE: {
        if (!est) { vf_stat("event_not_applicable", 1); return; }
        if (a->ev->ev == EV_PEER_CLOSE) { mx_actor = P->id; P->wantTake = 1; matrixSslEncodeClosureAlert(P->ssl); }
        else {
            unsigned char p[64], *tb; mx_payload(p, 40, 0x0c15, a->target, 7); mx_send(T, p, 40); int tn = mx_take(T, &tb);
            if (tn <= 0) { vf_stat("event_not_applicable", 1); return; }
            tb[tn - 1] ^= 1; mx_feed(P, tb, tn); free(tb);
        }
        /* first deliver what was already in flight, then the peer's alert */
        if (npend > 0) { mx_feed(T, pend, npend); k->qoff[dirToT] = k->qlen[dirToT]; npend = 0; have_next = 0; }
        unsigned char *pb; n = mx_take(P, &pb); if (n <= 0) { vf_stat("event_not_applicable", 1); return; } memcpy(buf, pb, n); free(pb);
        break; }
    }
    int alertsBefore = T->nAlertIn, appBefore = T->nApp; (void) appBefore;
    unsigned flagsBefore = T->ssl->flags & (SSL_FLAGS_ERROR | SSL_FLAGS_CLOSED), closeBefore = T->ssl->bFlags & BFLAG_CLOSE_AFTER_SENT;
    int rcEvent, sendFlagged = 0;
    if (a->ev->ev == EV_SEND_ERR) {
        /* a send-side call that cannot succeed; the call failing is not by itself a session failure (argument / limit errors leave the
           session usable): the stays-dead clauses apply when the library flagged the session or queued an alert because of it */
        if (T->dead) { vf_stat("event_not_applicable", 1); return; }
        int outBefore = T->ssl->outlen, src = 0; static unsigned char big[4000];
        mx_actor = T->id; T->wantTake = 1; MX_ENTER();
        switch (a->ev->arg) {
        case SE_OUTDATA_OVERSIZE:
            /* DTLS only: larger than the PMTU can carry (documented PS_LIMIT_FAIL); TLS fragments any length */
            memset(big, 'x', sizeof big); src = matrixSslEncodeToOutdata(T->ssl, big, sizeof big); break;
        case SE_WRITEBUF_NO_RESERVE: src = matrixSslEncodeWritebuf(T->ssl, (uint32) (T->ssl->outsize - T->ssl->outlen + 1)); break;
        case SE_WRITEBUF_NEGATIVE: src = matrixSslEncodeWritebuf(T->ssl, 0x80000001u); break;
        default: src = matrixSslEncodeToOutdata(T->ssl, NULL, 16); break;
        }
        MX_LEAVE();
        vf_statf(1, "send_error_%s_%s", sename[a->ev->arg], src < 0 ? "refused" : "accepted");
        if (src < 0 && T->ssl->outlen != outBefore) vf_stat("send_error_left_output", 1);
        if (src >= 0) { vf_stat("event_not_applicable", 1); return; }     /* the call was legal here (TLS fragmentation on an established session) */
        rcEvent = 0;
        sendFlagged = (T->ssl->flags & (SSL_FLAGS_ERROR | SSL_FLAGS_CLOSED)) != flagsBefore || (T->ssl->bFlags & BFLAG_CLOSE_AFTER_SENT) != closeBefore;
    } else rcEvent = T->dead ? -1 : mx_feed(T, buf, n);
    k->qoff[dirToT] += consumed;
    M.afterEvent = 1;
    unsigned char *ob; int alertBytes = mx_take(T, &ob);       /* drains the alert; SentData should answer REQUEST_CLOSE */
    int fatalIn = T->nAlertIn > alertsBefore && alert_must_kill(k->cfg.ver, T->alertLevel, T->alertDesc);
    int recognised = rcEvent < 0 || T->dead || fatalIn || sendFlagged || (alertBytes > 0 && (T->ssl->err != SSL_ALERT_NONE || T->closeReq));
    /* an alert record produced by the event itself */
    if (alertBytes > 0 && !(ob[0] == 21 || (k->cfg.ver == MX_TLS13 && ob[0] == 23 && alertBytes <= 5 + 2 + 1 + 16 + 64)))
        if (recognised) report("non-alert-output-at-error", T, "event produced %d output bytes starting with record type %d", alertBytes, ob[0]);
    free(ob);
    if (!recognised && !dtls) {
        /* by construction these are protocol errors in every state: nobody may send them to this role */
        int must = 0;
        if (a->ev->ev == EV_AUTH_HS) {
            int t = a->ev->arg;
            if (t == 99) must = 1;
            if (T->role == MX_SERVER && (t == 0 || t == 2 || t == 12 || t == 13 || t == 14 || (t == 4 && k->cfg.ver != MX_TLS13) || (t == 4 && k->cfg.ver == MX_TLS13))) must = 1;
            if (T->role == MX_CLIENT && (t == 1 || t == 16 || t == 15)) must = 1;
        }
        if (a->ev->ev == EV_AUTH_TYPE) must = 1;
        /* a corrupted record on a connection whose handshake is complete cannot be anything but a fatal error over TCP (every record is protected) */
        if (a->ev->ev == EV_CORRUPT && matrixSslHandshakeIsComplete(T->ssl)) must = 1;
        /* an alert the reference table calls an error / closure alert: authentic ones always reach the alert parser; plaintext ones do so
           wherever the target is not (yet) reading protected records and, in TLS 1.3, wherever the library accepts a 2-byte plaintext alert
           (elsewhere they fail deprotection, which is an error too).  Either way the session must end. */
        if ((a->ev->ev == EV_AUTH_ALERT || a->ev->ev == EV_ALERT_IN) && alert_must_kill(k->cfg.ver, a->ev->arg, a->ev->arg2)) must = 1;
        /* A TLS 1.3 server that rejected the offered early data skips records it cannot deprotect until the client's handshake flight arrives
           (RFC 8446 4.2.10): a record sealed under the client's early-data key is such a record, whatever it contains. */
        if (must && k->cfg.ver == MX_TLS13 && T->role == MX_SERVER && T->ssl->tls13EarlyDataStatus == MATRIXSSL_EARLY_DATA_REJECTED && !matrixSslHandshakeIsComplete(T->ssl)) { must = 0; vf_stat("authentic_events_in_early_data_skip_mode_not_judged", 1); }
        if (must) report("protocol-error-not-fatal", T, "an authentic but illegal record (event arg %d/%d) was not treated as a fatal error: rc=%d alertBytes=%d", a->ev->arg, a->ev->arg2, rcEvent, alertBytes);
    }
    if (!recognised && dtls) {
        int must = 0;
        /* DTLS may silently discard INVALID records (RFC 6347 4.1.2.7); an authentic, in-sequence record of the current epoch is not one:
           a fatal-level alert or close_notify in it ends the association like in TLS */
        if (a->ev->ev == EV_AUTH_ALERT && alert_must_kill(k->cfg.ver, a->ev->arg, a->ev->arg2)) must = 1;
        if (must) report("protocol-error-not-fatal", T, "an authentic alert %d/%d of the current epoch was not treated as fatal: rc=%d alertBytes=%d", a->ev->arg, a->ev->arg2, rcEvent, alertBytes);
        /* Library-defined fatal error (not an RFC obligation: RFC 6347 4.1.2.7 lets a receiver discard invalid records silently OR answer with a
           fatal alert).  This library answers a datagram that ends inside a record whose 13-byte header is complete with a fatal
           illegal_parameter ("DTLS error: Received PARTIAL record", sslDecode.c) in every state, for both roles and both DTLS versions - like it
           does for every other damaged record - and the property statement tolerates undecryptable records only in TLS 1.3 early-data skipping
           and lets no error path report success.  So: an error the library itself defines as fatal must not quietly become a success.  The key
           names the entry; replacing the alert by an RFC-conformant silent discard has to be a conscious change of this table. */
        if (a->ev->ev == EV_DTLS_TRUNC && a->ev->arg >= TR_HEADER_ONLY)
            report("library-fatal-error-not-fatal", T, "datagram truncated %s (record header complete) was answered with rc=%d and %d alert bytes instead of the fatal illegal_parameter the library defines for it", trname[a->ev->arg], rcEvent, alertBytes);
    }
    if (dtls && (a->ev->ev == EV_CORRUPT || a->ev->ev == EV_BADVERSION)) vf_statf(1, "dtls_%s_%d_%s_%s", evname[a->ev->ev], a->ev->arg, matrixSslHandshakeIsComplete(T->ssl) ? "complete" : "handshake", recognised ? "fatal" : "not-an-error");
    if (a->ev->ev == EV_DTLS_TRUNC) vf_statf(1, "dtls_truncated_%s_%s_%s", trname[a->ev->arg], est ? "established" : "handshake", recognised ? "fatal" : "not-an-error");
    if (!recognised) { vf_stat("event_not_recognised_as_error", 1); vf_statf(1, "unrecognised_%s_%s", evname[a->ev->ev], dtls ? "dtls" : "tls"); return; }
    vf_stat("events_recognised", 1);
    vf_distinct("%s|%s|ca%d|r%d|%s|cut%d|st%d|%s:%d:%d|%s", mx_vername[k->cfg.ver], M.scn->name, k->cfg.clientAuth, M.scn->resumed, a->target ? "S" : "C", a->cut, T->ssl->hsState, evname[a->ev->ev], a->ev->arg, a->ev->arg2, kname[a->kont]);

    /* ---- the continuation ---- */
    int rc = -9999, fed = 0;
    pend = k->q[dirToT] + k->qoff[dirToT]; npend = k->qlen[dirToT] - k->qoff[dirToT];
    switch (a->kont) {
    case K_NEXT: if (npend > 0) { rc = mx_feed(T, pend, npend); fed = 1; } break;
    case K_ORIGINAL: if (norig > 0) { rc = mx_feed(T, orig, norig); fed = 1; if (rc >= 0 && npend > 0) rc = mx_feed(T, pend, npend); } break;
    case K_OLD: {
        int off = 0, last = -1, lastn = 0; mx_rec q; int lim = k->qoff[dirToT] - consumed;
        while (off < lim && mx_rec_at(k->wire[dirToT], lim, off, dtls, &q)) { last = off; lastn = q.hdr + q.len; off += lastn; }
        if (last >= 0) { rc = mx_feed(T, k->wire[dirToT] + last, lastn); fed = 1; }
        break; }
    case K_GARBAGE: { vf_rng g; vf_rng_init(&g, vf_seed, a->cut * 131 + a->ev->ev); unsigned char gb[64]; vf_fill(&g, gb, 64); rc = mx_feed(T, gb, 64); fed = 1; break; }
    case K_HELLO: if (fresh_ch_len[k->cfg.ver]) { rc = mx_feed(T, fresh_ch[k->cfg.ver], fresh_ch_len[k->cfg.ver]); fed = 1; } break;
    case K_ENCODE: {
        unsigned char p[64]; mx_payload(p, 48, 0x0c15, a->target, 9);
        int erc = mx_send(T, p, 48); vf_stat("encode_attempts_after_error", 1);
        if (erc >= 0) report("encode-after-error", T, "matrixSslEncodeToOutdata returned %d on a dead session", erc);
        break; }
    case K_PUMP:
        mx_conn_run(k, NULL, NULL, 200);
        if (!P->dead && matrixSslHandshakeIsComplete(P->ssl)) { unsigned char p[128]; mx_payload(p, 100, 0x0c15, !a->target, 11); mx_send(P, p, 100); mx_conn_run(k, NULL, NULL, 50); }
        if (matrixSslHandshakeIsComplete(T->ssl) && matrixSslHandshakeIsComplete(P->ssl) && !(T->ssl->flags & (SSL_FLAGS_ERROR | SSL_FLAGS_CLOSED)) && !T->dead)
            report("alive-after-error", T, "session still established and unflagged after the error event and honest pumping");
        break;
    case K_DRAIN: break;
    }
    if (fed) {
        vf_stat("receive_calls_after_error", 1);
        if (rc == MATRIXSSL_SUCCESS || rc == MATRIXSSL_REQUEST_RECV || rc == MATRIXSSL_HANDSHAKE_COMPLETE || rc == MATRIXSSL_REQUEST_SEND)
            report("success-after-error", T, "receive path returned %d for input presented after the error event", rc);
    }
    /* anything the dead endpoint emits now is a violation (the event's alert was drained above) */
    int extra = 0;
    for (int i = 0; i < 3; i++) { unsigned char *o2; int m = mx_take(T, &o2); if (m > 0 && extra == 0) { extra = m; if (!(a->kont == K_PUMP && 0)) report("output-after-error", T, "dead session emitted %d further bytes (record type %d)", m, o2[0]); } free(o2); }
    free(buf); free(orig);
}

static long g_case_idx;
static void at_cut(mx_walk *w, mx_conn *k, int cut)
{
    for (int e = 0; e < nev; e++) for (int c = 0; c < K_N; c++) {
        /* not every continuation for every alert description: alerts share the code path; rotate */
        if (events[e].ev == EV_ALERT_IN && !vf_thorough && events[e].arg2 != 0 && ((e + c + cut) % 3)) continue;
        /* warning-level error descriptions matter in TLS 1.3 (level byte irrelevant); a TLS <= 1.2 receiver may ignore them (not asserted): the quick tier
           keeps two representatives there */
        if ((events[e].ev == EV_ALERT_IN || events[e].ev == EV_AUTH_ALERT) && !vf_thorough && k->cfg.ver != MX_TLS13 && events[e].arg == 1 && !(events[e].arg2 == 0 || events[e].arg2 == 40 || events[e].arg2 == 100)) continue;
        /* thorough: every description at every level everywhere, continuations rotating (1 of 2 in TLS 1.3; 1 of 7 where the level decides and a
           non-fatal level is not asserted) */
        if ((events[e].ev == EV_ALERT_IN || events[e].ev == EV_AUTH_ALERT) && vf_thorough && events[e].arg != 2 && events[e].arg2 != 0 && ((e + c + cut) % (k->cfg.ver == MX_TLS13 ? 2 : 7))) continue;
        if (events[e].ev == EV_AUTH_ALERT && !vf_thorough && events[e].arg == 1 && events[e].arg2 != 0 && ((e + c + cut) % 2)) continue;
        if (c == K_ORIGINAL && events[e].ev != EV_CORRUPT && events[e].ev != EV_BADVERSION && events[e].ev != EV_DTLS_TRUNC) continue;
        if (events[e].ev == EV_DTLS_TRUNC && !k->dtls) continue;
        if (events[e].ev == EV_SEND_ERR) {
            static const int sk[3] = { K_NEXT, K_ENCODE, K_PUMP };
            if (events[e].arg == SE_OUTDATA_OVERSIZE && !k->dtls) continue;   /* TLS fragments any length: not an error */
            if (!(c == K_NEXT || c == K_ENCODE || c == K_PUMP) || (!vf_thorough && c != sk[(e + cut) % 3])) continue;
        }
        if (events[e].ev >= EV_AUTH_HS && events[e].ev <= EV_AUTH_TYPE) {
            /* authentic records need a peer that is already encrypting and an empty wire (checked here, before forking) */
            mx_ep *P = w->target == MX_SERVER ? &k->c : &k->s; int d = w->target == MX_SERVER ? 0 : 1;
            if (!(P->ssl->flags & SSL_FLAGS_WRITE_SECURE) || P->ssl->outlen > 0 || k->qlen[d] > k->qoff[d]) continue;
            if (!vf_thorough && !(c == K_NEXT || c == K_ENCODE || c == K_PUMP || c == K_GARBAGE)) continue;
        }
        if ((events[e].ev == EV_PEER_ALERT || events[e].ev == EV_PEER_CLOSE) && !mx_conn_established(k)) continue;
        if ((events[e].ev == EV_CORRUPT || events[e].ev == EV_BADVERSION || events[e].ev == EV_DTLS_TRUNC)) { int d = w->target == MX_SERVER ? 0 : 1; mx_ep *P = w->target == MX_SERVER ? &k->c : &k->s; if (k->qlen[d] <= k->qoff[d] && P->ssl->outlen == 0 && !mx_conn_established(k)) continue; }
        long idx = g_case_idx++;
        if (!vf_mine(idx)) continue;
        child_arg a = { k, w->target, cut, &events[e], c };
        char sd[128]; mx_scn_desc(sd, sizeof sd, w->scn, w->target);
        M.scn = w->scn; M.ev = &events[e]; M.kont = c; M.cut = cut; M.afterEvent = 0;
        snprintf(M.desc, sizeof M.desc, "scn=%s cut=%d ev=%s:%d:%d cont=%s", sd, cut, evname[events[e].ev], events[e].arg, events[e].arg2, kname[c]);
        if (vf_case && strcmp(vf_case, M.desc)) continue;
        if (cut == 2 && c == 0 && e < 3) vf_sample("%s", M.desc);
        vf_fork_case(child_run, &a, "c15", M.desc, 60);
    }
}

int main(int argc, char **argv)
{
    vf_init(argc, argv); mx_global_init(); mx_keys_load();
    mx_scn_build(vf_thorough); build_events();
    /* a fresh ClientHello per version for the "new handshake on a dead session" continuation */
    for (int v = 0; v < MX_NVER; v++) {
        mx_cfg c = { .ver = v, .suite = v == MX_TLS13 ? 0x1301 : 0x002f }; mx_ep e; sslSessionId_t *sid; matrixSslNewSessionId(&sid, NULL);
        if (mx_new_client(&e, &c, sid) == 0) { fresh_ch_len[v] = mx_take(&e, &fresh_ch[v]); mx_ep_free(&e); }
        matrixSslDeleteSessionId(sid);
    }
    for (int i = 0; i < mx_nscn; i++) for (int target = 0; target < 2; target++) {
        mx_walk w; mx_entropy_seed(vf_seed + i * 2 + target);
        int cuts = mx_scn_walk(&w, &mx_scns[i], target, at_cut, NULL, 1);
        if (vf_shard == 0) { vf_stat("scenarios", 1); if (cuts > 0) vf_statf(cuts, "cuts_%s", mx_vername[mx_scns[i].cfg.ver]); }
    }
    mx_keys_free(); matrixSslClose();
    vf_flush();
    return 0;
}
