#!/usr/bin/env python3
"""Runs the repository's baseline tests with the MATRIXSSL_VERIF guard OFF: copies /repo's working
tree to scratch, builds with the repository's default flags (no -DMATRIXSSL_VERIF), runs the crypto
test binaries and compares PASSED tests with /root/.vp/BASELINE.json stable_pass."""
import sys, os, re, json, shutil, subprocess, tempfile
sys.path.insert(0, os.path.dirname(os.path.abspath(__file__)))
import vflib
dst = os.path.join(vflib.SCRATCH, "baseline-off-%d" % os.getpid())
shutil.rmtree(dst, ignore_errors=True); os.makedirs(dst)
try:
    subprocess.run(["rsync", "-a", "--files-from=-", vflib.REPO + "/", dst + "/"], input="\n".join(vflib.repo_files()), text=True, check=True)
    subprocess.run(["rsync", "-a", vflib.REPO + "/testkeys", dst + "/"], check=True)
    p = subprocess.run(["make", "-j16", "libs", "tests"], cwd=dst, capture_output=True, text=True)
    if p.returncode:
        p = subprocess.run(["make", "-j16"], cwd=dst, capture_output=True, text=True)
    if p.returncode:
        print(p.stdout[-3000:], p.stderr[-3000:]); sys.exit(2)
    passed, failed = set(), set()
    for b in ("algorithmTest", "eccTest", "hmacTest", "rsaTest", "cryptoOpen"):
        bp = os.path.join(dst, "crypto/test", b)
        if not os.path.exists(bp):
            continue
        out = subprocess.run([bp], cwd=os.path.join(dst, "crypto/test"), capture_output=True, text=True, timeout=3000)
        txt = out.stdout + out.stderr
        for m in re.finditer(r"^\s*(.+?)\.\.\.\s*(?:.*?)(PASSED|FAILED)", txt, re.M):
            (passed if m.group(2) == "PASSED" else failed).add(m.group(1).strip())
    base = json.load(open("/root/.vp/BASELINE.json"))["stable_pass"]
    missing = [t for t in base if t not in passed]
    print("passed=%d failed=%d baseline=%d missing=%d" % (len(passed), len(failed), len(base), len(missing)))
    for t in missing: print("MISSING:", t)
    for t in failed: print("FAILED:", t)
    sys.exit(1 if missing or failed else 0)
finally:
    shutil.rmtree(dst, ignore_errors=True)
