/* C08 - no memory fault, hang or leak on any network input in any state.
 *
 * libFuzzer target(s) for the NETWORK side of MatrixSSL (C09 fuzzes the credential parsers).
 *
 * One binary, the target (a group of scenarios x the role under attack) is chosen with the
 * environment variable C08_TARGET (C08_TARGET=list prints them).  Every execution
 *   1. resets everything that could carry state from one execution to the next (entropy streams,
 *      virtual clock, server session cache via matrixSslClose/Open, ephemeral ECDHE key caches),
 *   2. creates a FRESH honest client and server (in-process, harness/mx.h, pinned entropy), runs the
 *      honest handshake of the selected lane (priming handshake first for resumed lanes) until `cut`
 *      records have been delivered to the endpoint under attack (cut beyond the handshake = connected
 *      state, one application record per direction),
 *   3. feeds the payload to the target
 *        mode raw    : the bytes as they are, in seed-chosen chunks (TLS) / datagrams (DTLS, split at
 *                      record boundaries or arbitrarily),
 *        mode sealed : the payload is a sequence of PLAINTEXT records; each one is protected under
 *                      the keys, sequence number and epoch the target currently expects (mx_seal_as
 *                      on the honest peer when its write state matches, otherwise on a shadow of the
 *                      target's read state) right before it is delivered, so that the parsers behind
 *                      the record protection are reached; records whose type has bit 7 set are
 *                      passed through unprotected,
 *   4. drains the target's output, optionally lets the honest handshake continue, optionally lets a
 *      DTLS retransmission timer fire, makes a few honest API calls (send application data, closure
 *      alert), deletes both sessions.
 * Oracles: ASan/UBSan/LSan (libFuzzer -detect_leaks=1), and at the public API boundary: return codes
 * in the documented sets, buffer sizes within SSL_MAX_BUF_SIZE, bounded ReceivedData/ProcessedData
 * loops.  A violated API oracle prints "C08-ORACLE: c08:<what>" and aborts.
 *
 * Input: [0] lane (mod number of lanes of the target)  [1] flags  [2] cut (mod ncuts+1)
 *        [3] chunking seed  [4..] payload.
 *
 * Lanes: per target 3-8 scenarios (version x suite x {full, resumed by id / ticket / TLS 1.3 PSK, 0-RTT, client auth,
 * ClientHello with server_name + server SNI callback, stale RFC 5077 ticket after a server ticket-key rotation}).
 * eccMulmod / pstm_exptmod are memoised (pure functions, see below) so that certificate lanes cost 5-20 ms instead
 * of 30-300 ms per execution under ASan+UBSan+coverage.
 *
 * Helper modes (environment): C08_GEN=<dir> writes the seed corpus for all targets from recorded
 * honest flights and exits; C08_SELFCHECK=1 checks that every lane is reproducible.
 * -DC08_STANDALONE: plain main() running files (valgrind memcheck on the prod build).
 */
#include "mx.h"
#include "mx_surgeon.h"
#include <sys/stat.h>
#include <time.h>
int __real_clock_gettime(clockid_t id, struct timespec *ts);

#ifndef C08_STANDALONE
size_t LLVMFuzzerMutate(uint8_t *Data, size_t Size, size_t MaxSize);
#endif

/* ------------------------------------------------------------------ lanes --- */
#define VM(v) (1 << (v))
#define VM_ALL (VM(MX_TLS11) | VM(MX_TLS12) | VM(MX_TLS13))
typedef struct {
    const char *name;
    int cver, sver;        /* MX_ version; <0: -(version mask) */
    int nver;              /* version that is negotiated */
    uint16_t suite;        /* 0: client offers everything */
    int ca;                /* client authentication */
    int res;               /* 0 full, 1 resumed by session id, 2 resumed by ticket / TLS 1.3 PSK, 3 stale RFC 5077 ticket: the server
                              rotated its ticket key after the priming connection, falls back to a full handshake and issues a
                              NEW ticket that replaces the one the client's sslSessionId_t already holds */
    int early;             /* TLS 1.3 0-RTT: bytes of early data the resumed client sends */
    int ext;               /* client sends server_name (+ ALPN when compiled in), server has the matching callbacks */
} scn_t;

static const scn_t S_tls12_psk[] = {
    { "psk-00ae", MX_TLS12, MX_TLS12, MX_TLS12, 0x00ae, 0, 0, 0 },
    { "psk-00ae-resumed", MX_TLS12, MX_TLS12, MX_TLS12, 0x00ae, 0, 1, 0 },
    { "psk-008c", MX_TLS12, MX_TLS12, MX_TLS12, 0x008c, 0, 0, 0 },
    { "psk-00af-sni", MX_TLS12, MX_TLS12, MX_TLS12, 0x00af, 0, 0, 0, 1 },
    { "psk-008d-ticket", MX_TLS12, MX_TLS12, MX_TLS12, 0x008d, 0, 2, 0 },
    { "psk-008d-stale-ticket", MX_TLS12, MX_TLS12, MX_TLS12, 0x008d, 0, 3, 0 },
};
static const scn_t S_tls11_psk[] = {
    { "psk-008c", MX_TLS11, MX_TLS11, MX_TLS11, 0x008c, 0, 0, 0 },
    { "psk-008c-resumed", MX_TLS11, MX_TLS11, MX_TLS11, 0x008c, 0, 1, 0 },
    { "psk-008d", MX_TLS11, MX_TLS11, MX_TLS11, 0x008d, 0, 0, 0 },
};
static const scn_t S_dtls12_psk[] = {
    { "psk-00ae", MX_DTLS12, MX_DTLS12, MX_DTLS12, 0x00ae, 0, 0, 0 },
    { "psk-00ae-resumed", MX_DTLS12, MX_DTLS12, MX_DTLS12, 0x00ae, 0, 1, 0 },
    { "psk-008c", MX_DTLS12, MX_DTLS12, MX_DTLS12, 0x008c, 0, 0, 0 },
    { "psk-00af-sni", MX_DTLS12, MX_DTLS12, MX_DTLS12, 0x00af, 0, 0, 0, 1 },
    { "psk-00ae-stale-ticket", MX_DTLS12, MX_DTLS12, MX_DTLS12, 0x00ae, 0, 3, 0 },
};
static const scn_t S_dtls10_psk[] = {
    { "psk-008c", MX_DTLS10, MX_DTLS10, MX_DTLS10, 0x008c, 0, 0, 0 },
    { "psk-008c-resumed", MX_DTLS10, MX_DTLS10, MX_DTLS10, 0x008c, 0, 1, 0 },
    { "psk-008d", MX_DTLS10, MX_DTLS10, MX_DTLS10, 0x008d, 0, 0, 0 },
};
static const scn_t S_tls12_cert[] = {
    { "rsa-003c", MX_TLS12, MX_TLS12, MX_TLS12, 0x003c, 0, 0, 0 },
    { "ecdhe-rsa-c02f-sni", MX_TLS12, MX_TLS12, MX_TLS12, 0xc02f, 0, 0, 0, 1 },
    { "ecdhe-ecdsa-c023-ca", MX_TLS12, MX_TLS12, MX_TLS12, 0xc023, 1, 0, 0 },
    { "rsa-009c-resumed", MX_TLS12, MX_TLS12, MX_TLS12, 0x009c, 0, 1, 0 },
    { "rsa-003c-ticket", MX_TLS12, MX_TLS12, MX_TLS12, 0x003c, 0, 2, 0 },
    { "rsa-002f-tls11", MX_TLS11, MX_TLS11, MX_TLS11, 0x002f, 0, 0, 0 },
    { "ecdhe-rsa-c02f-ca", MX_TLS12, MX_TLS12, MX_TLS12, 0xc02f, 1, 0, 0 },
    { "ecdhe-ecdsa-c02c", MX_TLS12, MX_TLS12, MX_TLS12, 0xc02c, 0, 0, 0 },
};
static const scn_t S_tls13[] = {
    { "aes128gcm-sni", MX_TLS13, MX_TLS13, MX_TLS13, 0x1301, 0, 0, 0, 1 },
    { "chacha-ca", MX_TLS13, MX_TLS13, MX_TLS13, 0x1303, 1, 0, 0 },
    { "aes256gcm-resumed", MX_TLS13, MX_TLS13, MX_TLS13, 0x1302, 0, 2, 0 },
    { "aes128gcm-resumed-early", MX_TLS13, MX_TLS13, MX_TLS13, 0x1301, 0, 2, 100 },
};
static const scn_t S_dtls_cert[] = {
    { "ecdhe-rsa-c02f", MX_DTLS12, MX_DTLS12, MX_DTLS12, 0xc02f, 0, 0, 0 },
    { "rsa-002f-dtls10", MX_DTLS10, MX_DTLS10, MX_DTLS10, 0x002f, 0, 0, 0 },
    { "ecdhe-ecdsa-c023-ca", MX_DTLS12, MX_DTLS12, MX_DTLS12, 0xc023, 1, 0, 0 },
    { "rsa-009c-resumed", MX_DTLS12, MX_DTLS12, MX_DTLS12, 0x009c, 0, 1, 0 },
};
static const scn_t S_multi[] = {
    { "c12-sAll", MX_TLS12, -VM_ALL, MX_TLS12, 0xc02f, 0, 0, 0 },
    { "c13-sAll", MX_TLS13, -VM_ALL, MX_TLS13, 0x1301, 0, 0, 0 },
    { "cAll-s12-sni", -VM_ALL, MX_TLS12, MX_TLS12, 0, 0, 0, 0, 1 },
    { "cAll-s13-sni", -VM_ALL, MX_TLS13, MX_TLS13, 0, 0, 0, 0, 1 },
    { "cAll-s11", -VM_ALL, MX_TLS11, MX_TLS11, 0, 0, 0, 0 },
    { "c11-sAll", MX_TLS11, -VM_ALL, MX_TLS11, 0x002f, 0, 0, 0 },
};
#define NS(a) ((int) (sizeof(a) / sizeof((a)[0])))
typedef struct { const char *name; const scn_t *scn; int nscn; int role; int cost; /* relative cost of one execution */ } target_t;
static const target_t g_targets[] = {
    { "tls12-psk-srv", S_tls12_psk, NS(S_tls12_psk), MX_SERVER, 1 }, { "tls12-psk-cli", S_tls12_psk, NS(S_tls12_psk), MX_CLIENT, 1 },
    { "tls11-psk-srv", S_tls11_psk, NS(S_tls11_psk), MX_SERVER, 1 }, { "tls11-psk-cli", S_tls11_psk, NS(S_tls11_psk), MX_CLIENT, 1 },
    { "dtls12-psk-srv", S_dtls12_psk, NS(S_dtls12_psk), MX_SERVER, 1 }, { "dtls12-psk-cli", S_dtls12_psk, NS(S_dtls12_psk), MX_CLIENT, 1 },
    { "dtls10-psk-srv", S_dtls10_psk, NS(S_dtls10_psk), MX_SERVER, 1 }, { "dtls10-psk-cli", S_dtls10_psk, NS(S_dtls10_psk), MX_CLIENT, 1 },
    { "tls12-cert-srv", S_tls12_cert, NS(S_tls12_cert), MX_SERVER, 8 }, { "tls12-cert-cli", S_tls12_cert, NS(S_tls12_cert), MX_CLIENT, 8 },
    { "tls13-srv", S_tls13, NS(S_tls13), MX_SERVER, 8 }, { "tls13-cli", S_tls13, NS(S_tls13), MX_CLIENT, 8 },
    { "dtls-cert-srv", S_dtls_cert, NS(S_dtls_cert), MX_SERVER, 8 }, { "dtls-cert-cli", S_dtls_cert, NS(S_dtls_cert), MX_CLIENT, 8 },
    { "multi-srv", S_multi, NS(S_multi), MX_SERVER, 8 }, { "multi-cli", S_multi, NS(S_multi), MX_CLIENT, 8 },
};
#define NTARGETS NS(g_targets)

#define MAXLANES 16
#define MAXREC 64
typedef struct {
    const scn_t *scn; int role; int dtls;
    int ncuts;               /* records delivered to the target in the complete honest run */
    uint64_t thash;          /* hash of the honest transcript (reproducibility check) */
} lane_t;
static lane_t g_lanes[MAXLANES]; static int g_nlanes;
static const target_t *g_t;

/* flags byte */
#define F_SEALED   0x01
#define F_CONTINUE 0x02   /* after the payload let the honest handshake / exchange continue */
#define F_PROCFATAL 0x04  /* call matrixSslProcessedData after a fatal alert as well (the API text says "must"; the sample apps do not) */
#define F_TIMEOUT  0x08   /* DTLS: the retransmission timer fires once after the payload */
#define F_DGRAMARB 0x10   /* DTLS raw mode: arbitrary datagram boundaries instead of record boundaries */
#define F_NOSEND   0x20   /* skip the honest application send at the end */

#define C08_MAXIN (4 + 70000)

static int g_verbose; static int g_tuplefd = -1;
static unsigned long g_runs, g_dead, g_hsdone, g_app, g_alerts_in, g_sealed_recs, g_raw_recs, g_apicalls, g_continued;
static unsigned long g_hs_hist[64];
static char g_desc[256];

/* ------------------------------------------- memoised public-key arithmetic --- */
/* Every execution repeats the honest prefix with pinned entropy, i.e. the same scalar multiplications
 * and modular exponentiations again and again; under ASan+UBSan+coverage instrumentation they cost
 * 30-200 ms per handshake.  eccMulmod() and pstm_exptmod() are pure functions of their operands, so
 * they are interposed (-Wl,--wrap) and memoised on the complete operand values: the first call with
 * given operands (including every attacker-supplied point / ciphertext) runs the real code, later
 * identical calls copy the recorded result into the caller's output with pstm_copy. */
int32_t __real_eccMulmod(psPool_t *pool, const pstm_int *k, const psEccPoint_t *G, psEccPoint_t *R, pstm_int *modulus, uint8_t map, pstm_int *tmp_int);
int32_t __real_pstm_exptmod(psPool_t *pool, const pstm_int *G, const pstm_int *X, const pstm_int *P, pstm_int *Y);
#define MEMO_N 4096
typedef struct { uint64_t h1, h2; int used, n; pstm_int v[3]; } memo_t;
static memo_t g_memo[MEMO_N]; static int g_memo_n; static unsigned long g_memo_hit, g_memo_miss;
static int g_memo_off;
static void memo_mix(uint64_t *h1, uint64_t *h2, const pstm_int *a)
{
    if (!a) { *h1 = (*h1 ^ 0xfe) * 1099511628211ULL; *h2 = (*h2 + 0x9e3779b97f4a7c15ULL) * 0xff51afd7ed558ccdULL; return; }
    uint64_t t = ((uint64_t) a->used << 8) | a->sign; *h1 = (*h1 ^ t) * 1099511628211ULL; *h2 = (*h2 ^ (t + 0x51)) * 0xc4ceb9fe1a85ec53ULL; *h2 ^= *h2 >> 29;
    for (int i = 0; i < a->used; i++) { uint64_t d = (uint64_t) a->dp[i]; *h1 = (*h1 ^ d) * 1099511628211ULL; *h1 ^= *h1 >> 31; *h2 = (*h2 + d) * 0xff51afd7ed558ccdULL; *h2 ^= *h2 >> 33; }
}
static memo_t *memo_find(uint64_t h1, uint64_t h2, int *slot)
{
    size_t j = h1 & (MEMO_N - 1);
    for (int probe = 0; probe < 64; probe++, j = (j + 1) & (MEMO_N - 1)) {
        if (!g_memo[j].used) { *slot = (int) j; return NULL; }
        if (g_memo[j].h1 == h1 && g_memo[j].h2 == h2) return &g_memo[j];
    }
    *slot = -1; return NULL;
}
int32_t __wrap_eccMulmod(psPool_t *pool, const pstm_int *k, const psEccPoint_t *G, psEccPoint_t *R, pstm_int *modulus, uint8_t map, pstm_int *tmp_int)
{
    if (g_memo_off || !k || !G || !R || !modulus) return __real_eccMulmod(pool, k, G, R, modulus, map, tmp_int);
    uint64_t h1 = 1469598103934665603ULL ^ map, h2 = 0x1234567 + map; int slot = -1;
    memo_mix(&h1, &h2, k); memo_mix(&h1, &h2, &G->x); memo_mix(&h1, &h2, &G->y); memo_mix(&h1, &h2, &G->z); memo_mix(&h1, &h2, modulus); memo_mix(&h1, &h2, tmp_int);
    memo_t *m = memo_find(h1, h2, &slot);
    if (m && m->n == 3) {
        g_memo_hit++;
        if (pstm_copy(&m->v[0], &R->x) < 0 || pstm_copy(&m->v[1], &R->y) < 0 || pstm_copy(&m->v[2], &R->z) < 0) return PS_MEM_FAIL;
        return PS_SUCCESS;
    }
    g_memo_miss++;
    int32_t rc = __real_eccMulmod(pool, k, G, R, modulus, map, tmp_int);
    if (rc == PS_SUCCESS && slot >= 0 && g_memo_n < MEMO_N / 2) {
        m = &g_memo[slot];
        if (pstm_init_copy(NULL, &m->v[0], &R->x, 0) == 0 && pstm_init_copy(NULL, &m->v[1], &R->y, 0) == 0 && pstm_init_copy(NULL, &m->v[2], &R->z, 0) == 0) { m->h1 = h1; m->h2 = h2; m->n = 3; m->used = 1; g_memo_n++; }
    }
    return rc;
}
int32_t __wrap_pstm_exptmod(psPool_t *pool, const pstm_int *G, const pstm_int *X, const pstm_int *P, pstm_int *Y)
{
    if (g_memo_off || !G || !X || !P || !Y) return __real_pstm_exptmod(pool, G, X, P, Y);
    uint64_t h1 = 1469598103934665603ULL ^ 0xe7, h2 = 0x7654321; int slot = -1;
    memo_mix(&h1, &h2, G); memo_mix(&h1, &h2, X); memo_mix(&h1, &h2, P);
    memo_t *m = memo_find(h1, h2, &slot);
    if (m && m->n == 1) { g_memo_hit++; return pstm_copy(&m->v[0], Y) < 0 ? PS_MEM_FAIL : PS_SUCCESS; }
    g_memo_miss++;
    int32_t rc = __real_pstm_exptmod(pool, G, X, P, Y);
    if (rc == PS_SUCCESS && slot >= 0 && g_memo_n < MEMO_N / 2) {
        m = &g_memo[slot];
        if (pstm_init_copy(NULL, &m->v[0], Y, 0) == 0) { m->h1 = h1; m->h2 = h2; m->n = 1; m->used = 1; g_memo_n++; }
    }
    return rc;
}

/* ---------------------------------------------------------------- oracles --- */
static void c08_fail(const char *key, const char *fmt, ...)
{
    char m[512]; va_list ap; va_start(ap, fmt); vsnprintf(m, sizeof m, fmt, ap); va_end(ap);
    fprintf(stderr, "\nC08-ORACLE: c08:%s\nC08-DETAIL: %s | case %s\n", key, m, g_desc);
    fflush(stderr);
    abort();
}
#define OK_RECV  ((1u << 0) | (1u << 1) | (1u << 2) | (1u << 3) | (1u << 4) | (1u << 5) | (1u << 6) | (1u << 7))
#define OK_SENT  ((1u << MATRIXSSL_SUCCESS) | (1u << MATRIXSSL_REQUEST_SEND) | (1u << MATRIXSSL_REQUEST_CLOSE) | (1u << MATRIXSSL_HANDSHAKE_COMPLETE))
#define OK_ZERO  (1u << 0)
/* status-returning API: non-negative values must be in `pos`; negative values must be PS_* / MATRIXSSL_ERROR codes
   (-1..-49); the decoder-internal codes SSL_FULL, SSL_PARTIAL, SSL_SEND_RESPONSE, SSL_PROCESS_DATA, SSL_ALERT,
   DTLS_MUST_FRAG, DTLS_RETRANSMIT, SSL_ENCODE_RESPONSE, SSL_NO_TLS_1_3 (-50..-69) must not leak out */
static void chk_rc(const char *api, int rc, unsigned pos)
{
    g_apicalls++;
    if (rc >= 0) { if (rc > 31 || !(pos & (1u << rc))) c08_fail(api, "%s returned %d", api + 25, rc); }
    else if (rc <= -50) c08_fail(api, "%s returned %d", api + 25, rc);
}
#define CHK_RC(apiname, rc, pos) chk_rc("undocumented-return-code:" apiname, rc, pos)
/* length-returning API: 0..max or a PS_* error */
static void chk_len(const char *api, int rc, long max)
{
    g_apicalls++;
    if (rc > max || rc <= -50) c08_fail(api, "%s returned %d (max %ld)", api + 25, rc, max);
}
#define CHK_LEN(apiname, rc, max) chk_len("undocumented-return-code:" apiname, rc, max)
static void chk_buf(ssl_t *ssl)
{
    if (ssl->insize > SSL_MAX_BUF_SIZE) c08_fail("buffer-beyond-max:insize", "insize %d", (int) ssl->insize);
    if (ssl->outsize > SSL_MAX_BUF_SIZE) c08_fail("buffer-beyond-max:outsize", "outsize %d", (int) ssl->outsize);
    if (ssl->inlen < 0 || ssl->inlen > ssl->insize) c08_fail("buffer-beyond-max:inlen", "inlen %d insize %d", (int) ssl->inlen, (int) ssl->insize);
    if (ssl->outlen < 0 || ssl->outlen > ssl->outsize) c08_fail("buffer-beyond-max:outlen", "outlen %d outsize %d", (int) ssl->outlen, (int) ssl->outsize);
    /* handshake reassembly buffer: the library's own limit for one handshake message is 64 KiB (hsLenMax in parseSSLHandshake,
       SSL_DEFAULT_IN_HS_SIZE); TLS keeps the size in fragTotal (message + header), DTLS in fragLenStored */
    if (ssl->fragMessage) {
        unsigned long sz = ssl->fragTotal;
#ifdef USE_DTLS
        if (ACTV_VER(ssl, v_dtls_any)) sz = ssl->fragLenStored;
#endif
        if (sz > 65536 + 64) c08_fail("buffer-beyond-max:fragMessage", "handshake reassembly buffer of %lu bytes", sz);
    }
}

/* ------------------------------------------------------------ global reset --- */
static void reset_ecc_cache(sslKeys_t *k)
{
#if defined(USE_ECC) && (ECC_EPHEMERAL_CACHE_USAGE > 0)
    if (k && k->cache.eccPrivKeyUse) { psEccClearKey(&k->cache.eccPrivKey); k->cache.eccPrivKeyUse = 0; }
#else
    (void) k;
#endif
}
static void reset_world(int laneidx)
{
    /* nothing the previous execution did may influence this one: same entropy, same clock, empty
       server session cache (Close/Open clears the table and re-derives the DTLS cookie secret from
       the pinned entropy), no cached ephemeral ECDHE key */
    mx_now = 1790000000L;
    mx_entropy_seed(0xC08C08ULL + (uint64_t) laneidx * 977);
    mx_actor = 7;
    matrixSslClose();
    if (matrixSslOpen() < 0) { fprintf(stderr, "C08-HARNESS: matrixSslOpen failed\n"); exit(3); }
    sslKeys_t **ks = (sslKeys_t **) &mx_keys;
    for (size_t i = 0; i < sizeof(mx_keys) / sizeof(sslKeys_t *); i++) reset_ecc_cache(ks[i]);
}

/* ------------------------------------------------------------- the prefix --- */
/* key set of the stale-ticket lanes: PSK table + ONE ticket key, which is rotated between the priming and the main connection */
static sslKeys_t *g_rot_keys; static int g_rot_state;
static unsigned char g_tkname[2][16] = { "c08-ticket-key-1", "c08-ticket-key-2" };
static void rot_keys_set(int want)
{
    static const unsigned char sym[2][32] = { { 1, 1, 2, 3, 5, 8, 13, 21 }, { 2, 7, 1, 8, 2, 8, 1, 8 } }, mac[2][32] = { { 3, 1, 4, 1, 5, 9, 2, 6 }, { 1, 4, 1, 4, 2, 1, 3, 5 } };
    if (!g_rot_keys || g_rot_state == want) return;
    if (g_rot_state) matrixSslDeleteSessionTicketKey(g_rot_keys, g_tkname[g_rot_state - 1]);
    if (matrixSslLoadSessionTicketKeys(g_rot_keys, g_tkname[want - 1], sym[want - 1], 32, mac[want - 1], 32) < 0) { fprintf(stderr, "C08-HARNESS: loading ticket key %d failed\n", want); exit(3); }
    g_rot_state = want;
}
static void lane_cfg(const scn_t *s, int role, mx_cfg *c)
{
    memset(c, 0, sizeof *c);
    int v = role == MX_SERVER ? s->sver : s->cver;
    if (v < 0) { c->verMask = -v; c->ver = s->nver; } else c->ver = v;
    c->suite = s->suite; c->clientAuth = s->ca; c->useTicket = (s->res >= 2 && s->nver != MX_TLS13);
    if (s->res == 3 && role == MX_SERVER) c->skeys = g_rot_keys;
}
static void c08_sni_cb(void *ssl, char *hostname, int32 hostnameLen, sslKeys_t **newKeys)
{
    /* an application that serves every name with the keys the session was created with */
    volatile char sink = 0; for (int32 i = 0; i < hostnameLen; i++) sink ^= hostname[i];
    (void) sink; *newKeys = ((ssl_t *) ssl)->keys;
}
#ifdef USE_ALPN
static void c08_alpn_cb(void *ssl, short protoCount, char *proto[MAX_PROTO_EXT], int32 protoLen[MAX_PROTO_EXT], int32 *index)
{
    volatile char sink = 0; (void) ssl;
    for (int i = 0; i < protoCount && i < MAX_PROTO_EXT; i++) for (int32 j = 0; j < protoLen[i]; j++) sink ^= proto[i][j];
    (void) sink; *index = protoCount > 1 ? 1 : 0;
}
#endif
static int32_t c08_ext_cb(ssl_t *ssl, uint16_t extType, uint8_t extLen, void *e)
{
    volatile unsigned char sink = 0; (void) ssl; (void) extType;
    for (int i = 0; i < extLen; i++) sink ^= ((unsigned char *) e)[i];
    (void) sink; return 0;
}
/* mx_new_client with a server_name and an ALPN extension and an extension callback */
static int new_client_ext(mx_ep *e, const mx_cfg *c, sslSessionId_t *sid)
{
    sslSessOpts_t o; mx_opts(&o, c, MX_CLIENT);
    memset(e, 0, sizeof *e); e->role = MX_CLIENT; e->ver = c->ver; e->id = 0; e->name = "C";
    psCipher16_t cs[1] = { c->suite };
    e->sid = sid;
    tlsExtension_t *ext = NULL; unsigned char *x = NULL; int32 xl = 0;
    if (matrixSslNewHelloExtension(&ext, NULL) < 0) return -1;
    if (matrixSslCreateSNIext(NULL, (unsigned char *) "localhost", 9, &x, &xl) < 0) { matrixSslDeleteHelloExtension(ext); return -1; }
    matrixSslLoadHelloExtension(ext, x, xl, EXT_SNI); psFree(x, NULL);
#ifdef USE_ALPN
    unsigned char *pr[2] = { (unsigned char *) "h2", (unsigned char *) "http/1.1" }; int32 prl[2] = { 2, 8 };
    if (matrixSslCreateALPNext(NULL, 2, pr, prl, &x, &xl) < 0) { matrixSslDeleteHelloExtension(ext); return -1; }
    matrixSslLoadHelloExtension(ext, x, xl, EXT_ALPN); psFree(x, NULL);
#endif
    mx_actor = e->id;
    int rc = matrixSslNewClientSession(&e->ssl, mx_pick_ckeys(c), sid, c->suite ? cs : NULL, c->suite ? 1 : 0, mx_cert_cb_accept, "localhost", ext, c08_ext_cb, &o);
    matrixSslDeleteHelloExtension(ext);
    e->wantTake = 1;
    return rc < 0 ? rc : 0;
}
static int lane_open(mx_conn *k, const scn_t *s, sslSessionId_t *sid, int early)
{
    mx_cfg sc, cc; lane_cfg(s, MX_SERVER, &sc); lane_cfg(s, MX_CLIENT, &cc);
    if (early) sc.earlyData = 16384;
    memset(k, 0, sizeof *k); k->cfg = cc; k->dtls = MX_IS_DTLS(s->nver);
    if (mx_new_server(&k->s, &sc) < 0) return -1;
    if (s->ext) {
        matrixSslRegisterSNICallback(k->s.ssl, c08_sni_cb);
#ifdef USE_ALPN
        matrixSslRegisterALPNCallback(k->s.ssl, c08_alpn_cb);
#endif
    }
    if ((s->ext ? new_client_ext(&k->c, &cc, sid) : mx_new_client(&k->c, &cc, sid)) < 0) return -2;
    k->s.ver = k->c.ver = s->nver;
    return 0;
}
typedef void (*rec_hook)(void *ctx, mx_conn *k, const unsigned char *rec, int n);
/* like mx_conn_step, with a hook that sees every record right before it is delivered to the target */
static int c08_step(mx_conn *k, int pref, int dt, rec_hook hook, void *ctx)
{
    mx_conn_collect(k);
    for (int t = 0; t < 2; t++) {
        int d = t ? !pref : pref; mx_rec r;
        if (k->qoff[d] >= k->qlen[d]) continue;
        mx_ep *rcv = d == 0 ? &k->s : &k->c;
        int n;
        if (mx_rec_at(k->q[d], k->qlen[d], k->qoff[d], k->dtls, &r)) n = r.hdr + r.len; else n = k->qlen[d] - k->qoff[d];
        if (hook && d == dt) hook(ctx, k, k->q[d] + k->qoff[d], n);
        if (!rcv->dead) mx_feed(rcv, k->q[d] + k->qoff[d], n);
        k->qoff[d] += n; k->delivered[d]++; k->steps++;
        return d;
    }
    return -1;
}
/* runs the honest lane until `cut` records have reached the target (or nothing moves any more).
   returns 0, or <0 when the sessions could not be created / the priming handshake failed */
static int run_prefix(mx_conn *k, const lane_t *L, int cut, sslSessionId_t *sid, rec_hook hook, void *ctx)
{
    const scn_t *s = L->scn;
    if (s->res) {
        if (s->res == 3) rot_keys_set(1);
        if (lane_open(k, s, sid, s->early) < 0) { mx_conn_close(k); return -1; }
        mx_conn_run(k, NULL, NULL, 300);
        int ok = mx_conn_established(k);
        mx_conn_close(k);
        if (!ok) return -2;
        if (s->res == 3) rot_keys_set(2);     /* the ticket the client now holds can no longer be unlocked */
    }
    if (lane_open(k, s, sid, s->early) < 0) return -3;
    if (s->early && matrixSslGetMaxEarlyData(k->c.ssl) > 0) { unsigned char p[256]; mx_payload(p, s->early, 0xe0e0, 0, 7); mx_send(&k->c, p, s->early); }
    int dt = L->role == MX_SERVER ? 0 : 1, pref = 0, post = 0;
    for (int st = 0; st < 400 && k->delivered[dt] < cut; st++) {
        int d = c08_step(k, pref, dt, hook, ctx);
        if (d < 0) {
            if (!post && mx_conn_established(k)) {
                unsigned char p[64]; post = 1;
                mx_payload(p, 40, 0xc08, 0, 1); mx_send(&k->c, p, 40);
                mx_payload(p, 30, 0xc08, 1, 1); mx_send(&k->s, p, 30);
                continue;
            }
            break;
        }
        pref = d;
    }
    return 0;
}

/* ------------------------------------------------------ sealing for a reader --- */
static ssl_t g_shadow;
static int keys_match(ssl_t *w, ssl_t *r, int ver, int dtls)
{
    if (!(w->flags & SSL_FLAGS_WRITE_SECURE) || !w->cipher || w->cipher != r->cipher) return 0;
    if (ver == MX_TLS13) return w->sec.wKeyptr && r->sec.rKeyptr && !memcmp(w->sec.wKeyptr, r->sec.rKeyptr, w->cipher->keySize) && !memcmp(w->sec.tls13WriteIv, r->sec.tls13ReadIv, 12) && !memcmp(w->sec.seq, r->sec.remSeq, 8);
    if (memcmp(w->sec.writeKey, r->sec.readKey, w->cipher->keySize) || memcmp(w->sec.writeMAC, r->sec.readMAC, SSL_MAX_MAC_SIZE)) return 0;
    if (dtls) return !memcmp(w->epoch, r->expectedEpoch, 2);
    return !memcmp(w->sec.seq, r->sec.remSeq, 8);
}
/* returns the endpoint whose mx_seal_as() output target T accepts as its next protected record(s):
   the honest peer P when its write state is exactly T's read state (P stays in step), otherwise a
   shadow endpoint whose WRITE state is a copy of T's READ state; NULL = T reads plaintext */
static mx_ep g_shep;
static mx_ep *seal_engine(mx_ep *T, mx_ep *P)
{
    ssl_t *t = T->ssl;
    if (!(t->flags & SSL_FLAGS_READ_SECURE) || !t->cipher) return NULL;
    int dtls = MX_IS_DTLS(T->ver);
    if (P && P->ssl && !P->dead && keys_match(P->ssl, t, T->ver, dtls)) return P;
    memcpy(&g_shadow, t, sizeof g_shadow);
    g_shadow.flags |= SSL_FLAGS_WRITE_SECURE;
    g_shadow.enMacSize = t->deMacSize;
    memcpy(g_shadow.sec.writeKey, t->sec.readKey, sizeof g_shadow.sec.writeKey);
    memcpy(g_shadow.sec.writeMAC, t->sec.readMAC, sizeof g_shadow.sec.writeMAC);
    memcpy(g_shadow.sec.writeIV, t->sec.readIV, sizeof g_shadow.sec.writeIV);
    memcpy(g_shadow.sec.seq, t->sec.remSeq, 8);
    if (T->ver == MX_TLS13) {
        if (!t->sec.rKeyptr) return NULL;
        memcpy(g_shadow.sec.tls13WriteIv, t->sec.tls13ReadIv, sizeof g_shadow.sec.tls13WriteIv);
        memcpy(g_shadow.sec.tls13AppWriteIv, t->sec.tls13ReadIv, sizeof g_shadow.sec.tls13AppWriteIv);
        memcpy(g_shadow.sec.tls13AppWriteKey, t->sec.rKeyptr, t->cipher->keySize);
    }
    if (dtls) {
        memcpy(g_shadow.epoch, t->expectedEpoch, 2);
        memcpy(g_shadow.rsn, t->lastRsn, 6); mx_incr_be(g_shadow.rsn, 6);
    }
    memset(&g_shep, 0, sizeof g_shep); g_shep.ssl = &g_shadow; g_shep.ver = T->ver; g_shep.role = !T->role;
    return &g_shep;
}

/* ---------------------------------------------------------------- one case --- */
typedef struct {
    mx_conn *k; mx_ep *T, *P; const lane_t *L; int dtls, flags, dt;
    vf_rng rng; int chunked, cs;
    int stop;                /* the application would stop reading: error, close, fatal alert */
    int fatalAlert, sawClose;
    long outbytes; int firstOutType, firstAlert;
} run_t;

static void discard_or_queue(run_t *r, unsigned char *b, int n)
{
    if (n > 0) {
        r->outbytes += n;
        if (r->firstOutType < 0) { r->firstOutType = b[0]; if (b[0] == 21 && !(r->T->ssl->flags & SSL_FLAGS_WRITE_SECURE) && n >= (r->dtls ? 15 : 7)) r->firstAlert = b[(r->dtls ? 13 : 5) + 1]; }
        if (r->flags & F_CONTINUE) mx_q_append(r->k, !r->dt, b, n);
    }
    free(b);
}
/* mx_take with the return-code oracle */
static void c08_drain(run_t *r)
{
    mx_ep *e = r->T; unsigned char *buf = NULL; int tot = 0;
    for (int guard = 0; guard < 10000; guard++) {
        unsigned char *ob;
        if (r->dtls && e->ssl->outlen == 0 && !e->ssl->flightDone && e->lastrc != MATRIXSSL_REQUEST_SEND) break;
        if (e->lastrc == MATRIXSSL_REQUEST_SEND) e->lastrc = 0;
        mx_actor = e->id;
        int n = r->dtls ? matrixDtlsGetOutdata(e->ssl, &ob) : matrixSslGetOutdata(e->ssl, &ob);
        if (r->dtls) CHK_LEN("matrixDtlsGetOutdata", n, e->ssl->outsize); else CHK_LEN("matrixSslGetOutdata", n, e->ssl->outsize);
        chk_buf(e->ssl);
        if (n <= 0) { if (n < 0) { e->dead = 1; e->lastrc = n; r->stop = 1; } break; }
        buf = realloc(buf, tot + n + 1); memcpy(buf + tot, ob, n); tot += n;
        int rc = r->dtls ? matrixDtlsSentData(e->ssl, n) : matrixSslSentData(e->ssl, n);
        if (r->dtls) CHK_RC("matrixDtlsSentData", rc, OK_SENT); else CHK_RC("matrixSslSentData", rc, OK_SENT);
        chk_buf(e->ssl);
        if (rc == MATRIXSSL_HANDSHAKE_COMPLETE) e->hsDone = 1;
        else if (rc == MATRIXSSL_REQUEST_CLOSE) { e->closeReq = 1; r->stop = 1; r->sawClose = 1; }
        else if (rc < 0) { e->dead = 1; e->lastrc = rc; r->stop = 1; break; }
    }
    e->wantTake = 0;
    if (!buf) buf = malloc(1);
    discard_or_queue(r, buf, tot);
}
/* one network read of `n` bytes handed to the library the way the sample applications do */
static void c08_read(run_t *r, const unsigned char *d, int n)
{
    mx_ep *e = r->T; int off = 0;
    while (off < n && !r->stop) {
        unsigned char *rb = NULL, *pt = NULL; uint32 ptl = 0;
        mx_actor = e->id;
        int room = matrixSslGetReadbuf(e->ssl, &rb);
        CHK_LEN("matrixSslGetReadbuf", room, e->ssl->insize);
        if (room <= 0 || !rb) { r->stop = 1; if (room < 0) { e->dead = 1; e->lastrc = room; } break; }
        int take = n - off; if (take > room) take = room;
        if (r->dtls) { /* a datagram is read with one recvfrom: what does not fit is lost */ memcpy(rb, d + off, take); off = n; }
        else { memcpy(rb, d + off, take); off += take; }
        e->wantTake = 1;
        int rc = matrixSslReceivedData(e->ssl, take, &pt, &ptl);
        long loops = 0;
        for (;;) {
            CHK_RC("matrixSslReceivedData", rc, OK_RECV);
            chk_buf(e->ssl);
            e->lastrc = rc;
            if (++loops > 100000) c08_fail("decode-loop-unbounded", "%ld ReceivedData/ProcessedData rounds for one read of %d bytes", loops, take);
            if (rc == MATRIXSSL_APP_DATA || rc == MATRIXSSL_APP_DATA_COMPRESSED) {
                if (pt == NULL && ptl != 0) c08_fail("appdata-null", "APP_DATA with NULL buffer and len %u", (unsigned) ptl);
                if (ptl > SSL_MAX_BUF_SIZE || (pt && (pt < e->ssl->inbuf || pt + ptl > e->ssl->inbuf + e->ssl->insize))) c08_fail("appdata-outside-inbuf", "APP_DATA %p+%u outside inbuf %p+%d", (void *) pt, (unsigned) ptl, (void *) e->ssl->inbuf, (int) e->ssl->insize);
                volatile unsigned char sink = 0; for (uint32 i = 0; i < ptl; i++) sink ^= pt[i];   /* the application reads what it was given */
                (void) sink;
                e->nApp++; e->appBytes += ptl; g_app++;
                rc = matrixSslProcessedData(e->ssl, &pt, &ptl);
                continue;
            }
            if (rc == MATRIXSSL_RECEIVED_ALERT) {
                if (ptl != 2 || !pt) c08_fail("alert-length", "RECEIVED_ALERT with len %u", (unsigned) ptl);
                int lvl = pt[0], desc = pt[1];
                e->nAlertIn++; e->alertLevel = lvl; e->alertDesc = desc; g_alerts_in++;
                if (lvl == SSL_ALERT_LEVEL_FATAL || desc == SSL_ALERT_CLOSE_NOTIFY) {
                    r->fatalAlert = 1; r->stop = 1;
                    if (!(r->flags & F_PROCFATAL)) break;
                }
                rc = matrixSslProcessedData(e->ssl, &pt, &ptl);
                continue;
            }
            break;
        }
        if (rc == MATRIXSSL_HANDSHAKE_COMPLETE) e->hsDone = 1;
        if (rc == MATRIXSSL_REQUEST_CLOSE) { e->closeReq = 1; r->stop = 1; r->sawClose = 1; }
        if (rc < 0) { e->dead = 1; r->stop = 1; }
        /* whatever the library queued goes out before the next read */
        if (!e->dead && (e->ssl->outlen > 0 || rc == MATRIXSSL_REQUEST_SEND || (r->dtls && e->ssl->flightDone))) c08_drain(r);
    }
}
/* TLS: a byte stream arrives in pieces */
static void deliver_stream(run_t *r, const unsigned char *d, int n)
{
    int off = 0;
    while (off < n && !r->stop) {
        int c = n - off;
        if (r->chunked) {
            switch (vf_below(&r->rng, 6)) {
            case 0: c = 1; break;
            case 1: c = 1 + vf_below(&r->rng, 8); break;
            case 2: c = 1 + vf_below(&r->rng, 64); break;
            case 3: c = 1 + vf_below(&r->rng, 600); break;
            case 4: c = 5; break;
            default: c = 1 + vf_below(&r->rng, 4000); break;
            }
            if (c > n - off) c = n - off;
        }
        c08_read(r, d + off, c); off += c;
    }
}
static void deliver_raw(run_t *r, const unsigned char *d, int n)
{
    int off = 0;
    if (!r->dtls) {
        /* chunk seed 0: one read per record (the way an honest peer's flights arrive, so that seeds made of
           recorded flights stay causal); 255: everything in one read; otherwise seed-chosen pieces */
        if (r->cs == 0) {
            mx_rec rec;
            while (off < n && !r->stop && mx_rec_at(d, n, off, 0, &rec)) { c08_read(r, d + off, rec.hdr + rec.len); off += rec.hdr + rec.len; }
        }
        deliver_stream(r, d + off, n - off);
        return;
    }
    while (off < n && !r->stop) {
        int c;
        if (r->flags & F_DGRAMARB) { c = r->chunked ? 1 + (int) vf_below(&r->rng, vf_below(&r->rng, 2) ? 1600 : 120) : n - off; }
        else {
            int g = r->chunked ? 1 + (int) vf_below(&r->rng, 4) : 1; mx_rec rec; c = 0;
            while (g-- > 0 && mx_rec_at(d, n, off + c, 1, &rec)) c += rec.hdr + rec.len;
            if (c == 0) c = n - off;     /* trailing bytes that are not a complete record */
        }
        if (c > n - off) c = n - off;
        c08_read(r, d + off, c); off += c;
    }
}
static unsigned char g_sealbuf[3 * (65536 + 512)];
static void deliver_sealed(run_t *r, const unsigned char *d, int n)
{
    int off = 0, h = r->dtls ? 13 : 5;
    while (off < n && !r->stop) {
        /* the target's read state is looked at once per batch; the records of a batch follow each other in sequence */
        int batch = r->chunked ? 1 + (int) vf_below(&r->rng, 3) : 1, bl = 0;
        mx_ep *eng = seal_engine(r->T, r->P);
        while (batch-- > 0 && off < n) {
            mx_rec rec;
            if (!mx_rec_at(d, n, off, r->dtls, &rec)) { /* tail that is no complete record: as it is */
                if (bl + (n - off) <= (int) sizeof g_sealbuf) { memcpy(g_sealbuf + bl, d + off, n - off); bl += n - off; }
                off = n; g_raw_recs++; break;
            }
            int type = d[off], sl = -1;
            if (bl + rec.len + 512 > (int) sizeof g_sealbuf) break;
            if (eng && !(type & 0x80) && rec.len <= 16384 + 2048) sl = mx_seal_as(eng, type, d + off + h, rec.len, g_sealbuf + bl);
            if (sl > 0) { bl += sl; g_sealed_recs++; }
            else { memcpy(g_sealbuf + bl, d + off, h + rec.len); g_sealbuf[bl] &= 0x7f; bl += h + rec.len; g_raw_recs++; }
            off += h + rec.len;
            if (!eng) break;   /* a plaintext record may switch the read state on (ChangeCipherSpec, ServerHello): look again */
        }
        if (bl > 0) { if (r->dtls) c08_read(r, g_sealbuf, bl); else deliver_stream(r, g_sealbuf, bl); }
    }
}

/* distinct (lane, cut, mode, hsState at the cut, outcome class) tuples: appended to the file named by C08_TUPLES when new */
static uint64_t *g_tset; static size_t g_tcap, g_tn;
static int tuple_new(uint64_t h)
{
    if (!h) h = 1;
    if ((g_tn + 1) * 2 > g_tcap) { size_t nc = g_tcap ? g_tcap * 2 : 4096; uint64_t *n = calloc(nc, 8);
        for (size_t i = 0; i < g_tcap; i++) if (g_tset[i]) { size_t j = g_tset[i] & (nc - 1); while (n[j]) j = (j + 1) & (nc - 1); n[j] = g_tset[i]; }
        free(g_tset); g_tset = n; g_tcap = nc; }
    size_t j = h & (g_tcap - 1);
    while (g_tset[j]) { if (g_tset[j] == h) return 0; j = (j + 1) & (g_tcap - 1); }
    g_tset[j] = h; g_tn++; return 1;
}

static char g_outcome[96];
static int g_last_hsdone;
static void run_case(const uint8_t *d, size_t n)
{
    int li = d[0] % g_nlanes; const lane_t *L = &g_lanes[li];
    int flags = d[1], cut = d[2] % (L->ncuts + 1), cs = d[3];
    const uint8_t *pl = d + 4; int pn = (int) (n - 4);
    snprintf(g_desc, sizeof g_desc, "%s/%s cut=%d/%d flags=%02x chunk=%d payload=%d", g_t->name, L->scn->name, cut, L->ncuts, flags, cs, pn);
    g_runs++;
    reset_world(li);
    sslSessionId_t *sid = NULL; mx_conn k;
    if (matrixSslNewSessionId(&sid, NULL) < 0) { fprintf(stderr, "C08-HARNESS: NewSessionId failed\n"); exit(3); }
    if (run_prefix(&k, L, cut, sid, NULL, NULL) < 0) { fprintf(stderr, "C08-HARNESS: honest prefix of %s failed\n", g_desc); exit(3); }
    run_t r; memset(&r, 0, sizeof r);
    r.k = &k; r.L = L; r.dtls = L->dtls; r.flags = flags; r.dt = L->role == MX_SERVER ? 0 : 1;
    r.T = L->role == MX_SERVER ? &k.s : &k.c; r.P = L->role == MX_SERVER ? &k.c : &k.s;
    r.cs = cs; r.chunked = cs != 0 && cs != 255; vf_rng_init(&r.rng, cs, 0xc08); r.firstOutType = -1; r.firstAlert = -1;
    ssl_t *t = r.T->ssl;
    int hs0 = t->hsState, done0 = r.T->hsDone, app0 = r.T->nApp, sec0 = (t->flags & SSL_FLAGS_READ_SECURE) ? 1 : 0;
    g_hs_hist[hs0 & 63]++;
    if (r.T->dead) r.stop = 1;
    chk_buf(t);
    /* what the target produced during the prefix and nobody has taken yet */
    if (!r.stop) c08_drain(&r);
    /* the honest records that were already on the wire towards the target are lost unless the exchange continues */
    if (!(flags & F_CONTINUE)) k.qoff[r.dt] = k.qlen[r.dt];
    if (!r.stop && pn > 0) { if (flags & F_SEALED) deliver_sealed(&r, pl, pn); else deliver_raw(&r, pl, pn); }
    if (!r.T->dead && !r.sawClose) c08_drain(&r);
    int dead1 = r.T->dead;
    /* outcome class of the payload (before the honest epilogue) */
    char cls[48];
    {
        int hs1 = t->hsState, rc1 = r.T->lastrc;
        if (dead1) snprintf(cls, sizeof cls, "E%d", rc1);
        else if (r.fatalAlert) snprintf(cls, sizeof cls, "Ain%d", r.T->alertDesc);
        else if (r.sawClose) snprintf(cls, sizeof cls, "close%d", r.firstAlert);
        else if (!done0 && (r.T->hsDone || matrixSslHandshakeIsComplete(t))) snprintf(cls, sizeof cls, "done");
        else if (r.T->nApp > app0) snprintf(cls, sizeof cls, "app");
        else if (hs1 != hs0) snprintf(cls, sizeof cls, "hs%d", hs1);
        else if (r.firstAlert >= 0) snprintf(cls, sizeof cls, "Aout%d", r.firstAlert);
        else if (r.outbytes) snprintf(cls, sizeof cls, "out%d", r.firstOutType);
        else snprintf(cls, sizeof cls, "idle");
    }
    if (r.dtls && (flags & F_TIMEOUT) && !r.T->dead && !r.sawClose) {
        /* retransmission timer: the peer stayed silent, the application asks for the flight again */
        r.T->lastrc = MATRIXSSL_REQUEST_SEND; c08_drain(&r);
    }
    if ((flags & F_CONTINUE) && !r.T->dead && !r.fatalAlert && !r.sawClose) {
        g_continued++;
        int pref = r.dt;
        for (int st = 0; st < 60; st++) { int dd = mx_conn_step(&k, pref); if (dd < 0) break; pref = dd; chk_buf(t); if (k.c.dead || k.s.dead) break; }
        r.stop = r.T->dead;
    }
    if (!r.T->dead && !r.fatalAlert && !r.sawClose) {
        if (!(flags & F_NOSEND) && matrixSslHandshakeIsComplete(t)) {
            unsigned char p[48]; mx_payload(p, 32, 0xc08, r.dt, 9);
            mx_actor = r.T->id; r.T->wantTake = 1;
            int rc = matrixSslEncodeToOutdata(t, p, 32);
            CHK_LEN("matrixSslEncodeToOutdata", rc, SSL_MAX_BUF_SIZE); chk_buf(t);
            if (rc < 0) { r.T->dead = 1; } else c08_drain(&r);
        }
        if (!r.T->dead) {
            mx_actor = r.T->id; r.T->wantTake = 1;
            int rc = matrixSslEncodeClosureAlert(t);
            CHK_RC("matrixSslEncodeClosureAlert", rc, OK_ZERO); chk_buf(t);
            if (rc >= 0) { r.T->lastrc = 0; c08_drain(&r); }
        }
    }
    {
        const char *ep = "";
        if ((flags & F_CONTINUE) && !dead1) ep = r.T->dead ? "+dead" : (!done0 && matrixSslHandshakeIsComplete(t)) ? "+done" : "+cont";
        snprintf(g_outcome, sizeof g_outcome, "%s %d %s hs%d%s %s%s", L->scn->name, cut, (flags & F_SEALED) ? "sealed" : "raw", hs0, sec0 ? "s" : "p", cls, ep);
        if (tuple_new(vf_hash(g_outcome, strlen(g_outcome))) && g_tuplefd >= 0) { char ln[160]; int m = snprintf(ln, sizeof ln, "%s %s\n", g_t->name, g_outcome); (void) !write(g_tuplefd, ln, m); }
    }
    if (r.T->dead) g_dead++;
    g_last_hsdone = r.T->hsDone && !dead1;
    if (g_last_hsdone && !done0) g_hsdone++;
    mx_conn_close(&k);
    matrixSslDeleteSessionId(sid);
}

int LLVMFuzzerTestOneInput(const uint8_t *d, size_t n)
{
    if (n < 4 || n > C08_MAXIN) return 0;
    run_case(d, n);
    if (g_verbose) fprintf(stderr, "C08-RESULT: %s\n", g_outcome);
    return 0;
}

/* ---------------------------------------------------------- initialisation --- */
typedef struct { unsigned char *raw[MAXREC], *pt[MAXREC]; int rawlen[MAXREC], ptlen[MAXREC], enc[MAXREC], hs[MAXREC]; int n; const lane_t *L; uint64_t h; } rec_log;
static int open12(ssl_t *t, int dtls, const unsigned char *rec, int n, unsigned char *out);
static void log_hook(void *ctx, mx_conn *k, const unsigned char *rec, int n)
{
    rec_log *g = ctx; const lane_t *L = g->L; mx_ep *T = L->role == MX_SERVER ? &k->s : &k->c; ssl_t *t = T->ssl;
    g->h = g->h * 1099511628211ULL + vf_hash(rec, n);
    if (g->n >= MAXREC) return;
    int i = g->n++, h = L->dtls ? 13 : 5;
    g->raw[i] = malloc(n + 1); memcpy(g->raw[i], rec, n); g->rawlen[i] = n; g->hs[i] = t->hsState;
    g->pt[i] = malloc(n + 64); g->enc[i] = 0;
    int pl = -1;
    if ((t->flags & SSL_FLAGS_READ_SECURE) && t->cipher && n > h) {
        if (L->scn->nver == MX_TLS13) {
            if (rec[0] == 23 && t->sec.rKeyptr) {
                unsigned char *tmp = malloc(n + 64);
                int il = mx13_open(t->cipher->ident, t->sec.rKeyptr, t->sec.tls13ReadIv, mx_seq8(t->sec.remSeq), rec, n, tmp);
                while (il > 0 && tmp[il - 1] == 0) il--;
                if (il > 0) { g->pt[i][0] = tmp[il - 1]; g->pt[i][1] = 3; g->pt[i][2] = 3; g->pt[i][3] = (il - 1) >> 8; g->pt[i][4] = (il - 1); memcpy(g->pt[i] + 5, tmp, il - 1); pl = 5 + il - 1; }
                free(tmp);
            }
        } else {
            int bl = open12(t, L->dtls, rec, n, g->pt[i] + h);
            if (bl >= 0) { memcpy(g->pt[i], rec, h); g->pt[i][h - 2] = bl >> 8; g->pt[i][h - 1] = bl; pl = h + bl; }
        }
    }
    if (pl >= 0) { g->ptlen[i] = pl; g->enc[i] = 1; }
    else { memcpy(g->pt[i], rec, n); g->ptlen[i] = n; if ((t->flags & SSL_FLAGS_READ_SECURE) && n > 0) { g->pt[i][0] |= 0x80; g->enc[i] = 1; } }
}
static void log_free(rec_log *g) { for (int i = 0; i < g->n; i++) { free(g->raw[i]); free(g->pt[i]); } g->n = 0; }
/* complete honest run of a lane; fills ncuts / thash; returns 1 when it established */
static int lane_probe(lane_t *L, int li, rec_log *g)
{
    rec_log tmp; if (!g) { g = &tmp; } memset(g, 0, sizeof *g); g->L = L;
    reset_world(li);
    sslSessionId_t *sid = NULL; mx_conn k; matrixSslNewSessionId(&sid, NULL);
    int rc = run_prefix(&k, L, 1000, sid, log_hook, g), ok = 0;
    if (rc == 0) {
        ok = mx_conn_established(&k);
        if (ok && L->scn->res && (matrixSslIsResumedSession(k.s.ssl) != 0) != (L->scn->res != 3)) ok = -1;
        L->ncuts = k.delivered[L->role == MX_SERVER ? 0 : 1]; L->thash = g->h;
        mx_conn_close(&k);
    }
    matrixSslDeleteSessionId(sid);
    if (g == &tmp) log_free(g);
    return rc == 0 ? ok : 0;
}
static void build_lanes(const target_t *t)
{
    g_nlanes = 0;
    for (int i = 0; i < t->nscn && g_nlanes < MAXLANES; i++) {
        lane_t *L = &g_lanes[g_nlanes]; memset(L, 0, sizeof *L); L->scn = &t->scn[i]; L->role = t->role; L->dtls = MX_IS_DTLS(t->scn[i].nver);
        int ok = lane_probe(L, g_nlanes, NULL);
        if (ok != 1) { fprintf(stderr, "C08-HARNESS: honest run of lane %s/%s %s\n", t->name, L->scn->name, ok < 0 ? "did not resume (or resumed with a stale ticket)" : "did not establish"); exit(3); }
        if (L->ncuts > 250) L->ncuts = 250;
        g_nlanes++;
    }
}
static void print_stats(void)
{
    fprintf(stderr, "C08-STATS: target=%s runs=%lu dead=%lu hsdone=%lu appdata=%lu alerts_in=%lu sealed_recs=%lu raw_recs=%lu apicalls=%lu continued=%lu tuples=%lu\n",
            g_t ? g_t->name : "?", g_runs, g_dead, g_hsdone, g_app, g_alerts_in, g_sealed_recs, g_raw_recs, g_apicalls, g_continued, (unsigned long) g_tn);
    fprintf(stderr, "C08-MEMO: hits=%lu misses=%lu entries=%d\n", g_memo_hit, g_memo_miss, g_memo_n);
    fprintf(stderr, "C08-HSHIST:");
    for (int i = 0; i < 64; i++) if (g_hs_hist[i]) fprintf(stderr, " %d=%lu", i, g_hs_hist[i]);
    fprintf(stderr, "\n");
}
static const target_t *find_target(const char *name)
{
    for (int i = 0; name && i < NTARGETS; i++) if (!strcmp(name, g_targets[i].name)) return &g_targets[i];
    return NULL;
}
static void gen_corpus(const char *dir);
static void selfcheck(void);
static void c08_setup(const char *tname)
{
    if (tname && !strcmp(tname, "list")) { for (int i = 0; i < NTARGETS; i++) printf("%s %d\n", g_targets[i].name, g_targets[i].cost); exit(0); }
    vf_seed = 0xC08;
    g_memo_off = getenv("C08_NOMEMO") != NULL;
    mx_global_init();
    mx_keys_load();
    g_rot_keys = mx_mkkeys(NULL, NULL, NULL);
    if (getenv("C08_GEN")) { gen_corpus(getenv("C08_GEN")); exit(0); }
    if (getenv("C08_SELFCHECK")) { selfcheck(); exit(0); }
    g_t = find_target(tname);
    if (!g_t) { fprintf(stderr, "C08: unknown target '%s' (set C08_TARGET; C08_TARGET=list prints them)\n", tname ? tname : "(null)"); exit(3); }
    g_verbose = getenv("C08_VERBOSE") != NULL;
    if (getenv("C08_TUPLES")) g_tuplefd = open(getenv("C08_TUPLES"), O_WRONLY | O_CREAT | O_APPEND, 0644);
    build_lanes(g_t);
    atexit(print_stats);
}
int LLVMFuzzerInitialize(int *argc, char ***argv)
{
    (void) argc; (void) argv;
    c08_setup(getenv("C08_TARGET"));
    return 0;
}

/* ------------------------------------------- opening TLS<=1.2 / DTLS records --- */
/* decrypts one protected record with T's current READ keys (no authentication: the record is honest);
   returns the plaintext length or -1 */
static int open12(ssl_t *t, int dtls, const unsigned char *rec, int n, unsigned char *out)
{
    int h = dtls ? 13 : 5, bl = n - h, l = 0, l2 = 0; const unsigned char *b = rec + h;
    int keylen = t->cipher->keySize;
    if (t->cipher->flags & CRYPTO_FLAGS_GCM) {
        if (bl < 24) return -1;
        unsigned char nonce[12]; memcpy(nonce, t->sec.readIV, 4); memcpy(nonce + 4, b, 8);
        EVP_CIPHER_CTX *x = EVP_CIPHER_CTX_new();
        EVP_DecryptInit_ex(x, keylen == 16 ? EVP_aes_128_gcm() : EVP_aes_256_gcm(), NULL, NULL, NULL);
        EVP_CIPHER_CTX_ctrl(x, EVP_CTRL_AEAD_SET_IVLEN, 12, NULL);
        EVP_DecryptInit_ex(x, NULL, NULL, t->sec.readKey, nonce);
        EVP_DecryptUpdate(x, out, &l, b + 8, bl - 24);
        EVP_CIPHER_CTX_free(x);
        return bl - 24;
    }
    if ((t->cipher->flags & CRYPTO_FLAGS_AES) || (t->cipher->flags & CRYPTO_FLAGS_AES256)) {
        int ms = t->deMacSize;
        if (bl < 32 || (bl % 16)) return -1;
        unsigned char *tmp = malloc(bl);
        EVP_CIPHER_CTX *x = EVP_CIPHER_CTX_new();
        EVP_DecryptInit_ex(x, keylen == 16 ? EVP_aes_128_cbc() : EVP_aes_256_cbc(), NULL, t->sec.readKey, b); EVP_CIPHER_CTX_set_padding(x, 0);
        EVP_DecryptUpdate(x, tmp, &l, b + 16, bl - 16); EVP_DecryptFinal_ex(x, tmp + l, &l2); EVP_CIPHER_CTX_free(x);
        int tot = bl - 16, pad = tmp[tot - 1] + 1, pl = tot - pad - ms;
        if (pl < 0) { free(tmp); return -1; }
        memcpy(out, tmp, pl); free(tmp);
        return pl;
    }
    return -1;
}

/* ------------------------------------------------------------- seed corpus --- */
static int g_genfiles; static long g_genbytes;
static void put_seed(const char *dir, const char *tname, const char *fname, const unsigned char *hdr, const unsigned char *pl, int pn)
{
    char p[600]; snprintf(p, sizeof p, "%s/%s", dir, tname); mkdir(p, 0755);
    snprintf(p, sizeof p, "%s/%s/%s", dir, tname, fname);
    FILE *f = fopen(p, "wb"); if (!f) { perror(p); exit(3); }
    fwrite(hdr, 1, 4, f); if (pn) fwrite(pl, 1, pn, f); fclose(f);
    g_genfiles++; g_genbytes += 4 + pn;
}
static int cat_recs(unsigned char *out, int cap, unsigned char **recs, int *lens, int from, int to, int maxbytes)
{
    int n = 0;
    for (int i = from; i < to; i++) { if (n + lens[i] > maxbytes || n + lens[i] > cap) break; memcpy(out + n, recs[i], lens[i]); n += lens[i]; }
    return n;
}
/* wraps one handshake message into a plaintext record of the lane's version (DTLS: one fragment covering [fo, fo+fl)) */
static int mk_hs_rec(unsigned char *o, const lane_t *L, int epoch, int seq, int hstype, int msgseq, const unsigned char *body, int blen, int fo, int fl)
{
    int v = L->scn->nver, n = 0;
    o[n++] = 22;
    if (L->dtls) { o[n++] = 254; o[n++] = v == MX_DTLS10 ? 255 : 253; o[n++] = epoch >> 8; o[n++] = epoch; o[n++] = 0; o[n++] = 0; o[n++] = 0; o[n++] = 0; o[n++] = seq >> 8; o[n++] = seq; }
    else { o[n++] = 3; o[n++] = v == MX_TLS11 ? 2 : 3; }
    int lp = n; n += 2;
    o[n++] = hstype; o[n++] = blen >> 16; o[n++] = blen >> 8; o[n++] = blen;
    if (L->dtls) { o[n++] = msgseq >> 8; o[n++] = msgseq; o[n++] = fo >> 16; o[n++] = fo >> 8; o[n++] = fo; o[n++] = fl >> 16; o[n++] = fl >> 8; o[n++] = fl; memcpy(o + n, body + fo, fl); n += fl; }
    else { memcpy(o + n, body, blen); n += blen; }
    o[lp] = (n - lp - 2) >> 8; o[lp + 1] = (n - lp - 2);
    return n;
}
static int mk_rec(unsigned char *o, const lane_t *L, int type, int epoch, int seq, const unsigned char *body, int blen)
{
    int v = L->scn->nver, n = 0;
    o[n++] = type;
    if (L->dtls) { o[n++] = 254; o[n++] = v == MX_DTLS10 ? 255 : 253; o[n++] = epoch >> 8; o[n++] = epoch; o[n++] = 0; o[n++] = 0; o[n++] = 0; o[n++] = 0; o[n++] = seq >> 8; o[n++] = seq; }
    else { o[n++] = 3; o[n++] = v == MX_TLS11 ? 2 : 3; }
    o[n++] = blen >> 8; o[n++] = blen; memcpy(o + n, body, blen); n += blen;
    return n;
}
static void gen_lane(const char *dir, const target_t *t, lane_t *L, int li)
{
    rec_log g; static unsigned char buf[70000], b2[70000];
    if (lane_probe(L, li, &g) != 1) { fprintf(stderr, "C08-HARNESS: gen: lane %s/%s failed\n", t->name, L->scn->name); exit(3); }
    char fn[200]; unsigned char hdr[4]; int h = L->dtls ? 13 : 5;
    /* (a) for every cut: the honest continuation (next records to the target), raw and - where the
       continuation contains protected records - as plaintext records for sealed mode */
    for (int cut = 0; cut <= g.n && cut <= L->ncuts; cut++) {
        int to = cut + 5 < g.n ? cut + 5 : g.n, anyenc = 0;
        for (int i = cut; i < to; i++) anyenc |= g.enc[i];
        int n = cat_recs(buf, sizeof buf, g.raw, g.rawlen, cut, to, 3500);
        hdr[0] = li; hdr[1] = 0; hdr[2] = cut; hdr[3] = 0;
        snprintf(fn, sizeof fn, "%s-c%02d-raw", L->scn->name, cut); put_seed(dir, t->name, fn, hdr, buf, n);
        if (anyenc) {
            n = cat_recs(buf, sizeof buf, g.pt, g.ptlen, cut, to, 3500);
            hdr[1] = F_SEALED; snprintf(fn, sizeof fn, "%s-c%02d-sealed", L->scn->name, cut); put_seed(dir, t->name, fn, hdr, buf, n);
        }
        if (cut < g.n && (cut % 3) == 1) {   /* one record, then the honest exchange goes on; chunked */
            hdr[1] = F_CONTINUE; hdr[3] = 1 + cut; snprintf(fn, sizeof fn, "%s-c%02d-raw-cont", L->scn->name, cut); put_seed(dir, t->name, fn, hdr, g.raw[cut], L->dtls ? g.rawlen[cut] : 0);
        }
    }
    /* (b) the first handshake message towards the target split into handshake fragments (TLS: across records; DTLS: fragment headers) */
    if (g.n > 0 && g.raw[0][0] == 22 && g.rawlen[0] > h + (L->dtls ? 12 : 4) + 8) {
        const unsigned char *m = g.raw[0] + h; int hst = m[0], bl = (m[1] << 16) | (m[2] << 8) | m[3], hh = L->dtls ? 12 : 4;
        if (bl + hh <= g.rawlen[0] - h) {
            int n = 0, cutp = bl / 2;
            if (L->dtls) {
                int ms = (m[4] << 8) | m[5];
                n += mk_hs_rec(buf + n, L, 0, 40, hst, ms, m + hh, bl, 0, cutp);
                n += mk_hs_rec(buf + n, L, 0, 41, hst, ms, m + hh, bl, cutp, bl - cutp);
            } else {
                n += mk_rec(buf + n, L, 22, 0, 0, m, hh + cutp);
                n += mk_rec(buf + n, L, 22, 0, 0, m + hh + cutp, bl - cutp);
            }
            hdr[0] = li; hdr[1] = 0; hdr[2] = 0; hdr[3] = 0; snprintf(fn, sizeof fn, "%s-c00-frag2", L->scn->name); put_seed(dir, t->name, fn, hdr, buf, n);
            if (L->dtls) {  /* three fragments, out of order */
                int ms = (m[4] << 8) | m[5], a = bl / 3, b = 2 * bl / 3; n = 0;
                n += mk_hs_rec(buf + n, L, 0, 50, hst, ms, m + hh, bl, b, bl - b);
                n += mk_hs_rec(buf + n, L, 0, 51, hst, ms, m + hh, bl, 0, a);
                n += mk_hs_rec(buf + n, L, 0, 52, hst, ms, m + hh, bl, a, b - a);
                snprintf(fn, sizeof fn, "%s-c00-frag3", L->scn->name); put_seed(dir, t->name, fn, hdr, buf, n);
            }
        }
    }
    /* (b2) TLS <= 1.2 / DTLS Certificate message whose first entry is a few bytes LONGER than the certificate inside it (trailing
       padding), every enclosing length consistent: psX509ParseCert tolerates the tail, the code after it must cope */
    for (int ri = 0; ri < g.n && L->scn->nver != MX_TLS13; ri++) {
        const unsigned char *rec = g.raw[ri]; int rl = g.rawlen[ri], hh = L->dtls ? 12 : 4;
        if (g.enc[ri] || rl <= h || rec[0] != 22) continue;
        int off = h, done = 0;
        while (!done && off + hh <= rl) {
            int ml = (rec[off + 1] << 16) | (rec[off + 2] << 8) | rec[off + 3];
            if (L->dtls && (((rec[off + 9] << 16) | (rec[off + 10] << 8) | rec[off + 11]) != ml || rec[off + 6] || rec[off + 7] || rec[off + 8])) break;   /* fragmented */
            if (off + hh + ml > rl) break;
            if (rec[off] == 11 && ml >= 6) {
                const unsigned char *b = rec + off + hh; int pad = 5;
                int chain = (b[0] << 16) | (b[1] << 8) | b[2], c0 = (b[3] << 16) | (b[4] << 8) | b[5];
                if (chain + 3 == ml && c0 + 3 <= chain && rl + pad < (int) sizeof buf) {
                    int n = 0, ins = off + hh + 6 + c0;                 /* end of the first certificate */
                    memcpy(buf, rec, ins); n = ins; memset(buf + n, 0, pad); n += pad; memcpy(buf + n, rec + ins, rl - ins); n += rl - ins;
                    unsigned char *m = buf + off, *bb = buf + off + hh;
                    m[1] = (ml + pad) >> 16; m[2] = (ml + pad) >> 8; m[3] = (ml + pad);
                    if (L->dtls) { m[9] = m[1]; m[10] = m[2]; m[11] = m[3]; }
                    bb[0] = (chain + pad) >> 16; bb[1] = (chain + pad) >> 8; bb[2] = (chain + pad);
                    bb[3] = (c0 + pad) >> 16; bb[4] = (c0 + pad) >> 8; bb[5] = (c0 + pad);
                    buf[h - 2] = (n - h) >> 8; buf[h - 1] = (n - h);
                    hdr[0] = li; hdr[1] = 0; hdr[2] = ri; hdr[3] = 0;
                    snprintf(fn, sizeof fn, "%s-c%02d-cert-padded", L->scn->name, ri); put_seed(dir, t->name, fn, hdr, buf, n);
                    done = 1;
                }
            }
            off += hh + ml;
        }
    }
    /* (c) connected state: post-handshake messages under the current keys */
    {
        int n; hdr[0] = li; hdr[2] = L->ncuts; hdr[3] = 0;
        static const unsigned char warn[2] = { 1, 0 }, fatal[2] = { 2, 40 }, nocert[2] = { 1, 41 }, norenego[2] = { 1, 100 }, ccs[1] = { 1 }, hb[5] = { 1, 0, 1, 0x41, 0 }, app[8] = "c08data";
        unsigned char z[4] = { 0, 0, 0, 0 };
        n = mk_rec(buf, L, 21, 1, 60, norenego, 2); n += mk_rec(buf + n, L, 23, 1, 61, app, 8); n += mk_rec(buf + n, L, 23, 1, 62, app, 0); n += mk_rec(buf + n, L, 21, 1, 63, warn, 2);
        hdr[1] = F_SEALED; snprintf(fn, sizeof fn, "%s-cNN-sealed-alerts", L->scn->name); put_seed(dir, t->name, fn, hdr, buf, n);
        n = mk_rec(buf, L, 21, 1, 60, nocert, 2); n += mk_rec(buf + n, L, 20, 1, 61, ccs, 1); n += mk_rec(buf + n, L, 24, 1, 62, hb, 5); n += mk_rec(buf + n, L, 21, 1, 63, fatal, 2);
        hdr[1] = F_SEALED | F_PROCFATAL; snprintf(fn, sizeof fn, "%s-cNN-sealed-misc", L->scn->name); put_seed(dir, t->name, fn, hdr, buf, n);
        if (L->scn->nver == MX_TLS13) {
            static const unsigned char ku0[1] = { 0 }, ku1[1] = { 1 };
            n = mk_hs_rec(buf, L, 0, 0, 24, 0, ku1, 1, 0, 1); n += mk_hs_rec(buf + n, L, 0, 0, 24, 0, ku0, 1, 0, 1); n += mk_rec(buf + n, L, 23, 0, 0, app, 8);
            hdr[1] = F_SEALED | F_CONTINUE; snprintf(fn, sizeof fn, "%s-cNN-sealed-keyupdate", L->scn->name); put_seed(dir, t->name, fn, hdr, buf, n);
            if (L->role == MX_CLIENT) {   /* post-handshake CertificateRequest, NewSessionTicket with odd fields */
                static const unsigned char creq[] = { 1, 7, 0, 8, 0, 13, 0, 4, 0, 2, 8, 4 };
                static const unsigned char nst[] = { 0, 0, 0x1c, 0x20, 1, 2, 3, 4, 2, 9, 9, 0, 4, 1, 2, 3, 4, 0, 8, 0, 42, 0, 4, 0, 0, 0x40, 0 };
                n = mk_hs_rec(buf, L, 0, 0, 13, 0, creq, sizeof creq, 0, sizeof creq); n += mk_hs_rec(buf + n, L, 0, 0, 4, 0, nst, sizeof nst, 0, sizeof nst);
                hdr[1] = F_SEALED; snprintf(fn, sizeof fn, "%s-cNN-sealed-postauth-nst", L->scn->name); put_seed(dir, t->name, fn, hdr, buf, n);
            }
        } else {
            /* renegotiation: HelloRequest towards a client, the recorded ClientHello towards a server */
            if (L->role == MX_CLIENT) n = mk_hs_rec(buf, L, 1, 70, 0, 9, z, 0, 0, 0);
            else if (g.n > 0 && !g.enc[0]) { int hh = L->dtls ? 12 : 4; const unsigned char *m = g.raw[0] + h; int bl = (m[1] << 16) | (m[2] << 8) | m[3]; n = (bl + hh <= g.rawlen[0] - h) ? mk_hs_rec(buf, L, 1, 70, 1, 9, m + hh, bl, 0, bl) : 0; }
            else n = 0;
            if (n) { hdr[1] = F_SEALED | F_CONTINUE; snprintf(fn, sizeof fn, "%s-cNN-sealed-renego", L->scn->name); put_seed(dir, t->name, fn, hdr, buf, n); }
        }
    }
    (void) b2;
    log_free(&g);
}
static void gen_corpus(const char *dir)
{
    mkdir(dir, 0755);
    const char *only = getenv("C08_TARGET");
    for (int ti = 0; ti < NTARGETS; ti++) {
        const target_t *t = &g_targets[ti];
        if (only && strcmp(only, "all") && strcmp(only, t->name)) continue;
        g_t = t; build_lanes(t);
        int f0 = g_genfiles;
        for (int li = 0; li < g_nlanes; li++) gen_lane(dir, t, &g_lanes[li], li);
        fprintf(stderr, "C08-GEN: %s lanes=%d files=%d\n", t->name, g_nlanes, g_genfiles - f0);
    }
    fprintf(stderr, "C08-GEN: total files=%d bytes=%ld\n", g_genfiles, g_genbytes);
}
/* every lane must give the same transcript whatever ran before it */
static void selfcheck(void)
{
    int bad = 0;
    for (int ti = 0; ti < NTARGETS; ti++) {
        g_t = &g_targets[ti]; build_lanes(g_t);
        uint64_t h0[MAXLANES]; int c0[MAXLANES];
        for (int i = 0; i < g_nlanes; i++) { h0[i] = g_lanes[i].thash; c0[i] = g_lanes[i].ncuts; }
        for (int rep = 0; rep < 3; rep++) for (int i = g_nlanes - 1; i >= 0; i--) {
            if (lane_probe(&g_lanes[i], i, NULL) != 1 || g_lanes[i].thash != h0[i] || g_lanes[i].ncuts != c0[i]) { bad++; fprintf(stderr, "C08-SELFCHECK: lane %s/%s not reproducible\n", g_t->name, g_lanes[i].scn->name); }
        }
        fprintf(stderr, "C08-SELFCHECK: %s lanes=%d", g_t->name, g_nlanes);
        for (int i = 0; i < g_nlanes; i++) {
            struct timespec a, b; __real_clock_gettime(CLOCK_MONOTONIC, &a);
            for (int rep = 0; rep < 3; rep++) lane_probe(&g_lanes[i], i, NULL);
            __real_clock_gettime(CLOCK_MONOTONIC, &b);
            fprintf(stderr, " %s:%d(%.1fms)", g_lanes[i].scn->name, g_lanes[i].ncuts, ((b.tv_sec - a.tv_sec) * 1e3 + (b.tv_nsec - a.tv_nsec) / 1e6) / 3);
        }
        fprintf(stderr, "\n");
    }
    fprintf(stderr, "C08-SELFCHECK: %s\n", bad ? "FAILED" : "ok");
    if (bad) exit(3);
}

#ifndef C08_STANDALONE
# include "c08_mutator.c"
#else
int main(int argc, char **argv)
{
    static unsigned char buf[C08_MAXIN + 1];
    if (argc < 2) { fprintf(stderr, "usage: %s <target> files...\n", argv[0]); return 3; }
    c08_setup(argv[1]);
    g_verbose = 1;
    for (int i = 2; i < argc; i++) {
        FILE *f = fopen(argv[i], "rb"); if (!f) continue;
        size_t n = fread(buf, 1, sizeof buf, f); fclose(f);
        if (n > C08_MAXIN) continue;
        fprintf(stderr, "C08-FILE: %s\n", argv[i]);
        LLVMFuzzerTestOneInput(buf, n);
    }
    fprintf(stderr, "C08-DONE: %lu\n", g_runs);
    return 0;
}
#endif
