/* mx.h - in-process MatrixSSL endpoints, in-memory network, deterministic
 * entropy/clock, tagged application payloads and record utilities.
 * Link with harness/mx_wraps.c and --wrap=psGetEntropy,gettimeofday,time. */
#ifndef MX_H
#define MX_H
#include "vf.h"
#include "matrixssl/matrixsslApi.h"
#include "matrixssl/matrixssllib.h"

/* ---- provided by mx_wraps.c ---- */
extern int mx_actor;                 /* which entropy stream psGetEntropy serves */
extern int mx_in_lib;                /* >0 while a library API call made through the harness is in progress (failpoints arm on it) */
extern long mx_now;                  /* virtual clock, seconds */
extern unsigned long mx_entropy_calls, mx_entropy_bytes;
void mx_entropy_seed(uint64_t seed); /* reset all actor streams from a seed */
void mx_entropy_save(uint64_t out[8]);
void mx_entropy_restore(const uint64_t in[8]);

#define MX_ENTER() (mx_in_lib++)
#define MX_LEAVE() (mx_in_lib--)
#define MX_CLIENT 0
#define MX_SERVER 1

enum { MX_TLS11 = 0, MX_TLS12, MX_TLS13, MX_DTLS10, MX_DTLS12, MX_NVER };
static const char *mx_vername[] = { "tls1.1", "tls1.2", "tls1.3", "dtls1.0", "dtls1.2" };
static psProtocolVersion_t mx_verflag(int v)
{
    switch (v) { case MX_TLS11: return v_tls_1_1; case MX_TLS12: return v_tls_1_2; case MX_TLS13: return v_tls_1_3;
                 case MX_DTLS10: return v_dtls_1_0; default: return v_dtls_1_2; }
}
#define MX_IS_DTLS(v) ((v) >= MX_DTLS10)

/* authentication families (decide which key set each side loads) */
enum { MX_AUTH_RSA = 0, MX_AUTH_ECDSA, MX_AUTH_PSK, MX_AUTH_ECDH_RSA, MX_AUTH_ECDH_ECDSA };

typedef struct {
    uint16_t id; const char *name; int auth; int aead; /* 0 cbc, 1 gcm, 2 chacha */ int tls13; int min12; /* needs TLS1.2+ */
} mx_suite_t;
static const mx_suite_t mx_suites[] = {
    { 0x002f, "RSA-AES128-CBC-SHA", MX_AUTH_RSA, 0, 0, 0 },
    { 0x0035, "RSA-AES256-CBC-SHA", MX_AUTH_RSA, 0, 0, 0 },
    { 0x003c, "RSA-AES128-CBC-SHA256", MX_AUTH_RSA, 0, 0, 1 },
    { 0x003d, "RSA-AES256-CBC-SHA256", MX_AUTH_RSA, 0, 0, 1 },
    { 0x009c, "RSA-AES128-GCM-SHA256", MX_AUTH_RSA, 1, 0, 1 },
    { 0x009d, "RSA-AES256-GCM-SHA384", MX_AUTH_RSA, 1, 0, 1 },
    { 0xc013, "ECDHE-RSA-AES128-CBC-SHA", MX_AUTH_RSA, 0, 0, 0 },
    { 0xc014, "ECDHE-RSA-AES256-CBC-SHA", MX_AUTH_RSA, 0, 0, 0 },
    { 0xc027, "ECDHE-RSA-AES128-CBC-SHA256", MX_AUTH_RSA, 0, 0, 1 },
    { 0xc028, "ECDHE-RSA-AES256-CBC-SHA384", MX_AUTH_RSA, 0, 0, 1 },
    { 0xc02f, "ECDHE-RSA-AES128-GCM-SHA256", MX_AUTH_RSA, 1, 0, 1 },
    { 0xc030, "ECDHE-RSA-AES256-GCM-SHA384", MX_AUTH_RSA, 1, 0, 1 },
    { 0xc009, "ECDHE-ECDSA-AES128-CBC-SHA", MX_AUTH_ECDSA, 0, 0, 0 },
    { 0xc00a, "ECDHE-ECDSA-AES256-CBC-SHA", MX_AUTH_ECDSA, 0, 0, 0 },
    { 0xc023, "ECDHE-ECDSA-AES128-CBC-SHA256", MX_AUTH_ECDSA, 0, 0, 1 },
    { 0xc024, "ECDHE-ECDSA-AES256-CBC-SHA384", MX_AUTH_ECDSA, 0, 0, 1 },
    { 0xc02b, "ECDHE-ECDSA-AES128-GCM-SHA256", MX_AUTH_ECDSA, 1, 0, 1 },
    { 0xc02c, "ECDHE-ECDSA-AES256-GCM-SHA384", MX_AUTH_ECDSA, 1, 0, 1 },
    { 0x008c, "PSK-AES128-CBC-SHA", MX_AUTH_PSK, 0, 0, 0 },
    { 0x008d, "PSK-AES256-CBC-SHA", MX_AUTH_PSK, 0, 0, 0 },
    { 0x00ae, "PSK-AES128-CBC-SHA256", MX_AUTH_PSK, 0, 0, 1 },
    { 0x00af, "PSK-AES256-CBC-SHA384", MX_AUTH_PSK, 0, 0, 1 },
    { 0x1301, "TLS13-AES128-GCM-SHA256", MX_AUTH_RSA, 1, 1, 1 },
    { 0x1302, "TLS13-AES256-GCM-SHA384", MX_AUTH_RSA, 1, 1, 1 },
    { 0x1303, "TLS13-CHACHA20-POLY1305-SHA256", MX_AUTH_RSA, 2, 1, 1 },
};
#define MX_NSUITES ((int) (sizeof(mx_suites) / sizeof(mx_suites[0])))
static const mx_suite_t *mx_suite_by_id(uint16_t id) { for (int i = 0; i < MX_NSUITES; i++) if (mx_suites[i].id == id) return &mx_suites[i]; return NULL; }
static int mx_suite_ok_for(const mx_suite_t *s, int ver)
{
    if (s->tls13) return ver == MX_TLS13;
    if (ver == MX_TLS13) return 0;
    if (s->min12 && (ver == MX_TLS11 || ver == MX_DTLS10)) return 0;
    return 1;
}

/* ---- keys ---- */
#define MX_TK "/repo/testkeys/"
typedef struct {
    sslKeys_t *srv_rsa, *srv_ec, *srv_psk; /* server identities (all carry the PSK table and CA lists for client auth) */
    sslKeys_t *cli;                        /* client: CA lists + PSKs, no identity */
    sslKeys_t *cli_rsa, *cli_ec;           /* client with identity for client auth */
} mx_keys_t;
static mx_keys_t mx_keys;
static const unsigned char mx_psk_id[16] = { 0x43, 0x6c, 0x69, 0x65, 0x6e, 0x74, 0x5f, 0x69, 0x64, 0x65, 0x6e, 0x74, 0x69, 0x74, 0x79, 0x00 };
static const unsigned char mx_psk_key[16] = { 0x33, 0xc8, 0x41, 0xe5, 0xa8, 0x16, 0x48, 0x12, 0x37, 0x0b, 0x47, 0x57, 0xd6, 0x88, 0x86, 0x30 };
static const unsigned char mx_tls13_psk[32] = { 1, 2, 3, 4, 5, 6, 7, 8, 9, 10, 11, 12, 13, 14, 15, 16, 17, 18, 19, 20, 21, 22, 23, 24, 25, 26, 27, 28, 29, 30, 31, 32 };
static const unsigned char mx_tls13_psk_id[] = "mypsksha256";
static const char *mx_ca_both = MX_TK "RSA/2048_RSA_CA.pem;" MX_TK "EC/256_EC_CA.pem";
static int mx_load_tls13_psk = 0; /* set before mx_keys_load to add an external TLS 1.3 PSK to all key sets */

static sslKeys_t *mx_mkkeys(const char *cert, const char *key, const char *ca)
{
    sslKeys_t *k = NULL;
    if (matrixSslNewKeys(&k, NULL) < 0) { fprintf(stderr, "HARNESS: newkeys failed\n"); exit(2); }
    if (cert || ca) {
        int rc = matrixSslLoadKeys(k, cert, key, NULL, ca, NULL);
        if (rc < 0) { fprintf(stderr, "HARNESS: loadkeys(%s) failed %d\n", cert ? cert : ca, rc); exit(2); }
    }
    if (matrixSslLoadPsk(k, mx_psk_key, 16, mx_psk_id, 16) < 0) { fprintf(stderr, "HARNESS: loadpsk failed\n"); exit(2); }
    { /* session-ticket keys: needed for RFC 5077 tickets and for TLS 1.3 NewSessionTicket */
        static const unsigned char tn[16] = "verif-ticket-key", tk[32] = { 7, 1, 7, 2, 7, 3, 7, 4, 7, 5, 7, 6, 7, 7, 7, 8, 7, 9, 7, 10, 7, 11, 7, 12, 7, 13, 7, 14, 7, 15, 7, 16 }, th[32] = { 9, 9, 8, 8, 7, 7, 6, 6, 5, 5, 4, 4, 3, 3, 2, 2, 1, 1, 9, 9, 8, 8, 7, 7, 6, 6, 5, 5, 4, 4, 3, 3 };
        if (cert && matrixSslLoadSessionTicketKeys(k, tn, tk, 32, th, 32) < 0) { fprintf(stderr, "HARNESS: load ticket keys failed\n"); exit(2); } }
    if (mx_load_tls13_psk && matrixSslLoadTls13Psk(k, mx_tls13_psk, 32, mx_tls13_psk_id, sizeof(mx_tls13_psk_id) - 1, NULL) < 0) { fprintf(stderr, "HARNESS: load tls13 psk failed\n"); exit(2); }
    return k;
}
static void mx_keys_load(void)
{
    mx_keys.srv_rsa = mx_mkkeys(MX_TK "RSA/2048_RSA.pem", MX_TK "RSA/2048_RSA_KEY.pem", mx_ca_both);
    mx_keys.srv_ec = mx_mkkeys(MX_TK "EC/256_EC.pem", MX_TK "EC/256_EC_KEY.pem", mx_ca_both);
    mx_keys.srv_psk = mx_mkkeys(NULL, NULL, NULL);
    { static const unsigned char tn[16] = "verif-ticket-key", tk[32] = { 1 }, th[32] = { 2 }; matrixSslLoadSessionTicketKeys(mx_keys.srv_psk, tn, tk, 32, th, 32); }
    mx_keys.cli = mx_mkkeys(NULL, NULL, mx_ca_both);
    mx_keys.cli_rsa = mx_mkkeys(MX_TK "RSA/2048_RSA.pem", MX_TK "RSA/2048_RSA_KEY.pem", mx_ca_both);
    mx_keys.cli_ec = mx_mkkeys(MX_TK "EC/256_EC.pem", MX_TK "EC/256_EC_KEY.pem", mx_ca_both);
}
static void mx_keys_free(void)
{
    sslKeys_t **k = (sslKeys_t **) &mx_keys;
    for (size_t i = 0; i < sizeof(mx_keys) / sizeof(sslKeys_t *); i++) if (k[i]) { matrixSslDeleteKeys(k[i]); k[i] = NULL; }
}

/* ---- endpoint ---- */
typedef struct mx_ep mx_ep;
typedef void (*mx_appdata_cb)(mx_ep *e, const unsigned char *pt, uint32 len);
struct mx_ep {
    ssl_t *ssl; int role; int ver; int id; const char *name;
    int hsDone;             /* MATRIXSSL_HANDSHAKE_COMPLETE seen from any call */
    int dead;               /* a receive/send call returned < 0 */
    int closeReq;           /* MATRIXSSL_REQUEST_CLOSE seen */
    int lastrc;
    int nAlertIn, alertLevel, alertDesc;
    int nApp; size_t appBytes;
    unsigned char *got; size_t gotlen, gotcap;   /* concatenated delivered plaintext */
    mx_appdata_cb on_app;
    sslSessionId_t *sid;
    void *user;
    int certCbCalls, certCbAlert;
    long calls;
    int wantTake;           /* DTLS: output may be pending (set after every receive/encode); an extra
                               matrixDtlsGetOutdata on an idle endpoint means 'timeout, resend' */
};

static int32 mx_cert_cb_accept(ssl_t *ssl, psX509Cert_t *c, int32 alert) { (void) ssl; (void) c; (void) alert; return 0; }
static int32 mx_cert_cb_strict(ssl_t *ssl, psX509Cert_t *c, int32 alert) { (void) ssl; (void) c; return alert; }

static void mx_got_append(mx_ep *e, const unsigned char *p, size_t n)
{
    if (e->gotlen + n + 1 > e->gotcap) { e->gotcap = (e->gotlen + n + 1) * 2; e->got = realloc(e->got, e->gotcap); }
    memcpy(e->got + e->gotlen, p, n); e->gotlen += n;
}

/* Handle the return code of ReceivedData/ProcessedData until the library wants I/O again. */
static int mx_process_rc(mx_ep *e, int rc, unsigned char *pt, uint32 ptl)
{
    for (int guard = 0; guard < 100000; guard++) {
        e->lastrc = rc;
        if (rc == MATRIXSSL_APP_DATA || rc == MATRIXSSL_APP_DATA_COMPRESSED) {
            e->nApp++; e->appBytes += ptl;
            if (e->on_app) e->on_app(e, pt, ptl);
            mx_got_append(e, pt, ptl);
            mx_actor = e->id; e->calls++; MX_ENTER();
            rc = matrixSslProcessedData(e->ssl, &pt, &ptl); MX_LEAVE();
            continue;
        }
        if (rc == MATRIXSSL_RECEIVED_ALERT) {
            e->nAlertIn++; if (ptl >= 2) { e->alertLevel = pt[0]; e->alertDesc = pt[1]; }
            mx_actor = e->id; e->calls++; MX_ENTER();
            rc = matrixSslProcessedData(e->ssl, &pt, &ptl); MX_LEAVE();
            continue;
        }
        if (rc == MATRIXSSL_HANDSHAKE_COMPLETE) e->hsDone = 1;
        if (rc == MATRIXSSL_REQUEST_CLOSE) e->closeReq = 1;
        if (rc < 0) e->dead = 1;
        return rc;
    }
    vf_violation("harness:process-loop", "", "ProcessedData loop did not terminate");
    return -1;
}

/* feed bytes in pieces of at most `chunk` (0 = as much as the read buffer takes) */
static int mx_feed_chunked(mx_ep *e, const unsigned char *d, int len, int chunk)
{
    int off = 0, rc = 0;
    while (off < len) {
        unsigned char *rb; unsigned char *pt = NULL; uint32 ptl = 0;
        mx_actor = e->id; e->calls++; MX_ENTER();
        int n = matrixSslGetReadbuf(e->ssl, &rb); MX_LEAVE();
        if (n <= 0) { e->dead = 1; e->lastrc = n; return n ? n : -1; }
        if (n > len - off) n = len - off;
        if (chunk > 0 && n > chunk) n = chunk;
        memcpy(rb, d + off, n); off += n;
        mx_actor = e->id; e->calls++; MX_ENTER();
        e->wantTake = 1;
        rc = matrixSslReceivedData(e->ssl, n, &pt, &ptl); MX_LEAVE();
        rc = mx_process_rc(e, rc, pt, ptl);
        if (rc < 0) return rc;
    }
    return rc;
}
static int mx_feed(mx_ep *e, const unsigned char *d, int len) { return mx_feed_chunked(e, d, len, 0); }

/* drain all pending output into a malloc'd buffer (caller frees); returns length */
static int mx_take(mx_ep *e, unsigned char **out)
{
    unsigned char *buf = NULL; int tot = 0;
    for (int guard = 0; guard < 10000; guard++) {
        unsigned char *ob;
        /* DTLS: a GetOutdata call on an endpoint with nothing queued means "timeout: resend the flight";
           only the call that acknowledges a completed flight (flightDone) is made, like the reference apps */
        if (MX_IS_DTLS(e->ver) && e->ssl->outlen == 0 && !e->ssl->flightDone && e->lastrc != MATRIXSSL_REQUEST_SEND) break;
        if (e->lastrc == MATRIXSSL_REQUEST_SEND) e->lastrc = 0;   /* the library asked for a send (e.g. DTLS saw a repeated flight and wants to resend its own) */
        mx_actor = e->id; e->calls++; MX_ENTER();
        int n = MX_IS_DTLS(e->ver) ? matrixDtlsGetOutdata(e->ssl, &ob) : matrixSslGetOutdata(e->ssl, &ob); MX_LEAVE();
        if (n <= 0) { if (n < 0) { e->dead = 1; e->lastrc = n; } break; }
        buf = realloc(buf, tot + n + 1); memcpy(buf + tot, ob, n); tot += n;
        mx_actor = e->id; e->calls++; MX_ENTER();
        int rc = MX_IS_DTLS(e->ver) ? matrixDtlsSentData(e->ssl, n) : matrixSslSentData(e->ssl, n); MX_LEAVE();
        if (rc == MATRIXSSL_HANDSHAKE_COMPLETE) e->hsDone = 1;
        else if (rc == MATRIXSSL_REQUEST_CLOSE) e->closeReq = 1;
        else if (rc < 0) { e->dead = 1; e->lastrc = rc; break; }
    }
    if (!buf) buf = malloc(1);
    *out = buf;
    e->wantTake = 0;
    return tot;
}
static int mx_send(mx_ep *e, const unsigned char *d, int len)
{
    mx_actor = e->id; e->calls++; e->wantTake = 1; MX_ENTER();
    int rc_ = matrixSslEncodeToOutdata(e->ssl, (unsigned char *) d, len); MX_LEAVE();
    return rc_;
}

/* ---- session construction ---- */
typedef struct {
    int ver;                  /* MX_TLS11.. (single version) */
    uint16_t suite;           /* cipher suite id */
    int clientAuth;           /* server requests a client certificate */
    int useTicket;            /* client asks for RFC 5077 ticket */
    int noCallback;           /* client without certificate callback */
    int strictCb;
    int earlyData;            /* TLS1.3 server max early data */
    const char *expectedName;
    sslKeys_t *skeys, *ckeys; /* overrides */
    int verMask;              /* optional: several versions (bit i = MX_ version i) instead of `ver` */
    int ems;                  /* 0 default, -1 disable */
    int srvVerMask;           /* optional: versions the SERVER enables (the client keeps ver / verMask) */
} mx_cfg;

static void mx_opts(sslSessOpts_t *o, const mx_cfg *c, int role)
{
    memset(o, 0, sizeof *o);
    psProtocolVersion_t v = mx_verflag(c->ver);
    int mask = (role == MX_SERVER && c->srvVerMask) ? c->srvVerMask : c->verMask;
    if (mask) {
        psProtocolVersion_t vs[8]; int n = 0;
        for (int i = MX_NVER - 1; i >= 0; i--) if (mask & (1 << i)) vs[n++] = mx_verflag(i);
        if (role == MX_SERVER) matrixSslSessOptsSetServerTlsVersions(o, vs, n); else matrixSslSessOptsSetClientTlsVersions(o, vs, n);
    } else if (MX_IS_DTLS(c->ver)) o->versionFlag = SSL_FLAGS_DTLS | (c->ver == MX_DTLS12 ? SSL_FLAGS_TLS_1_2 : SSL_FLAGS_TLS_1_1);
    else if (role == MX_SERVER) matrixSslSessOptsSetServerTlsVersionRange(o, v, v);
    else matrixSslSessOptsSetClientTlsVersionRange(o, v, v);
    if (role == MX_CLIENT && c->useTicket) o->ticketResumption = 1;
    if (c->ems < 0) o->extendedMasterSecret = -1;
    if (role == MX_SERVER && c->earlyData) o->tls13SessionMaxEarlyData = c->earlyData;
}
static sslKeys_t *mx_pick_skeys(const mx_cfg *c)
{
    if (c->skeys) return c->skeys;
    const mx_suite_t *s = mx_suite_by_id(c->suite);
    if (s && s->auth == MX_AUTH_ECDSA) return mx_keys.srv_ec;
    if (s && s->auth == MX_AUTH_PSK) return mx_keys.srv_psk;
    return mx_keys.srv_rsa;
}
static sslKeys_t *mx_pick_ckeys(const mx_cfg *c)
{
    if (c->ckeys) return c->ckeys;
    if (c->clientAuth) { const mx_suite_t *s = mx_suite_by_id(c->suite); return (s && s->auth == MX_AUTH_ECDSA) ? mx_keys.cli_ec : mx_keys.cli_rsa; }
    return mx_keys.cli;
}
static int mx_next_id = 1;
static int mx_new_server(mx_ep *e, const mx_cfg *c)
{
    sslSessOpts_t o; mx_opts(&o, c, MX_SERVER);
    memset(e, 0, sizeof *e); e->role = MX_SERVER; e->ver = c->ver; e->id = 1; e->name = "S";
    mx_actor = e->id; MX_ENTER();
    int rc = matrixSslNewServerSession(&e->ssl, mx_pick_skeys(c), c->clientAuth ? (c->strictCb ? mx_cert_cb_strict : mx_cert_cb_accept) : NULL, &o);
    MX_LEAVE();
    return rc;
}
static int mx_new_client(mx_ep *e, const mx_cfg *c, sslSessionId_t *sid)
{
    sslSessOpts_t o; mx_opts(&o, c, MX_CLIENT);
    memset(e, 0, sizeof *e); e->role = MX_CLIENT; e->ver = c->ver; e->id = 0; e->name = "C";
    psCipher16_t cs[1] = { c->suite };
    e->sid = sid;
    mx_actor = e->id; MX_ENTER();
    int rc = matrixSslNewClientSession(&e->ssl, mx_pick_ckeys(c), sid, c->suite ? cs : NULL, c->suite ? 1 : 0,
            c->noCallback ? NULL : (c->strictCb ? mx_cert_cb_strict : mx_cert_cb_accept), c->expectedName, NULL, NULL, &o);
    MX_LEAVE();
    e->wantTake = 1;
    return rc < 0 ? rc : 0;
}
static void mx_ep_free(mx_ep *e)
{
    if (e->ssl) { MX_ENTER(); matrixSslDeleteSession(e->ssl); MX_LEAVE(); e->ssl = NULL; }
    free(e->got); e->got = NULL; e->gotlen = e->gotcap = 0;
}

/* move flights until both sides are quiet; `tamper` may edit each flight in place (dir 0 = c->s).
 * Returns number of bytes moved. */
typedef int (*mx_tamper)(void *ctx, int dir, unsigned char **buf, int *len);
static long mx_pump_ex(mx_ep *c, mx_ep *s, mx_tamper t, void *tctx, int maxrounds)
{
    long moved = 0; int idle = 0;
    for (int r = 0; r < maxrounds && idle < 2; r++) {
        mx_ep *snd = (r & 1) ? s : c, *rcv = (r & 1) ? c : s;
        unsigned char *b; int n = mx_take(snd, &b);
        if (n > 0) {
            idle = 0; moved += n;
            int drop = t ? t(tctx, r & 1, &b, &n) : 0;
            if (!drop && n > 0 && !rcv->dead) mx_feed(rcv, b, n);
        } else idle++;
        free(b);
    }
    return moved;
}
static long mx_pump(mx_ep *c, mx_ep *s) { return mx_pump_ex(c, s, NULL, NULL, 60); }
static int mx_both_done(mx_ep *c, mx_ep *s) { return c->hsDone && s->hsDone && !c->dead && !s->dead && matrixSslHandshakeIsComplete(c->ssl) && matrixSslHandshakeIsComplete(s->ssl); }

/* ---- tagged application payloads ----
 * "<conn>|<dir>|<serial>|<len>|" followed by a keystream filler determined by the header, so any
 * delivered byte range can be checked against what the honest sender submitted. */
static int mx_payload(unsigned char *out, int len, int conn, int dir, int serial)
{
    char hdr[64]; int h = snprintf(hdr, sizeof hdr, "%04x|%c|%06d|%05d|", conn & 0xffff, dir ? 'S' : 'C', serial, len);
    vf_rng r; vf_rng_init(&r, (uint64_t) conn * 131 + dir, (uint64_t) serial * 7919 + len);
    for (int i = 0; i < len; i++) out[i] = i < h ? (unsigned char) hdr[i] : (unsigned char) ('a' + vf_below(&r, 26));
    return len;
}

/* ---- record utilities ---- */
typedef struct { int off, type, vmaj, vmin, len, hdr; int epoch; unsigned long long seq; } mx_rec;
/* parse the record starting at off; returns 1 if a complete record is present */
static int mx_rec_at(const unsigned char *b, int n, int off, int dtls, mx_rec *r)
{
    int h = dtls ? 13 : 5;
    if (off + h > n) return 0;
    r->off = off; r->hdr = h; r->type = b[off]; r->vmaj = b[off + 1]; r->vmin = b[off + 2];
    if (dtls) {
        r->epoch = (b[off + 3] << 8) | b[off + 4]; r->seq = 0;
        for (int i = 0; i < 6; i++) r->seq = (r->seq << 8) | b[off + 5 + i];
        r->len = (b[off + 11] << 8) | b[off + 12];
    } else { r->epoch = 0; r->seq = 0; r->len = (b[off + 3] << 8) | b[off + 4]; }
    return off + h + r->len <= n;
}
static int mx_count_recs(const unsigned char *b, int n, int dtls) { int off = 0, k = 0; mx_rec r; while (mx_rec_at(b, n, off, dtls, &r)) { k++; off += r.hdr + r.len; } return k; }


/* ---- record-granular connection: two endpoints, one byte queue per direction, one record
 * delivered per step so that a check can act between any two records ("cut points"). ---- */
typedef struct mx_conn mx_conn;
struct mx_conn {
    mx_ep c, s; mx_cfg cfg; int dtls;
    unsigned char *q[2]; int qlen[2], qoff[2];     /* q[0]: client->server bytes not yet delivered */
    int delivered[2];                              /* records delivered per direction */
    int steps;
    unsigned char *wire[2]; int wirelen[2];        /* everything ever sent per direction (for splicing/reflection) */
};
static void mx_q_append(mx_conn *k, int dir, const unsigned char *b, int n)
{
    k->q[dir] = realloc(k->q[dir], k->qlen[dir] + n + 1); memcpy(k->q[dir] + k->qlen[dir], b, n); k->qlen[dir] += n;
    k->wire[dir] = realloc(k->wire[dir], k->wirelen[dir] + n + 1); memcpy(k->wire[dir] + k->wirelen[dir], b, n); k->wirelen[dir] += n;
}
static void mx_conn_collect(mx_conn *k)
{
    unsigned char *b; int n;
    if (k->c.ssl && (!k->dtls || k->c.wantTake)) { n = mx_take(&k->c, &b); if (n > 0) mx_q_append(k, 0, b, n); free(b); }
    if (k->s.ssl && (!k->dtls || k->s.wantTake)) { n = mx_take(&k->s, &b); if (n > 0) mx_q_append(k, 1, b, n); free(b); }
}
static int mx_conn_open(mx_conn *k, const mx_cfg *cfg, sslSessionId_t *sid)
{
    memset(k, 0, sizeof *k); k->cfg = *cfg; k->dtls = MX_IS_DTLS(cfg->ver);
    if (mx_new_server(&k->s, cfg) < 0) return -1;
    if (mx_new_client(&k->c, cfg, sid) < 0) return -2;
    return 0;
}
static void mx_conn_close(mx_conn *k)
{
    mx_ep_free(&k->c); mx_ep_free(&k->s);
    for (int d = 0; d < 2; d++) { free(k->q[d]); free(k->wire[d]); k->q[d] = k->wire[d] = NULL; }
}
/* deliver exactly one pending record (preferring direction `pref`); returns direction delivered or -1 if nothing pending */
static int mx_conn_step(mx_conn *k, int pref)
{
    mx_conn_collect(k);
    for (int t = 0; t < 2; t++) {
        int d = t ? !pref : pref; mx_rec r;
        if (k->qoff[d] >= k->qlen[d]) continue;
        mx_ep *rcv = d == 0 ? &k->s : &k->c;
        int n;
        if (mx_rec_at(k->q[d], k->qlen[d], k->qoff[d], k->dtls, &r)) n = r.hdr + r.len; else n = k->qlen[d] - k->qoff[d];
        if (!rcv->dead) mx_feed(rcv, k->q[d] + k->qoff[d], n);
        k->qoff[d] += n; k->delivered[d]++; k->steps++;
        return d;
    }
    return -1;
}
/* run to quiescence; cut(ctx, k, dir) is called after every delivered record; returns steps */
typedef void (*mx_cut_cb)(void *ctx, mx_conn *k, int dir);
static int mx_conn_run(mx_conn *k, mx_cut_cb cut, void *ctx, int maxsteps)
{
    int pref = 0, n = 0;
    while (n < maxsteps) {
        int d = mx_conn_step(k, pref);
        if (d < 0) break;
        n++; pref = d;   /* keep draining one direction's flight before switching, like a real socket */
        if (cut) cut(ctx, k, d);
    }
    return n;
}
static int mx_conn_established(mx_conn *k) { return mx_both_done(&k->c, &k->s); }

static void mx_global_init(void)
{
    mx_entropy_seed(vf_seed);
    if (matrixSslOpen() < 0) { fprintf(stderr, "HARNESS: matrixSslOpen failed\n"); exit(2); }
}
#endif
