import vflib
WRAPS = ("psGetEntropy", "gettimeofday", "time", "clock_gettime")
def run(ctx):
    st = [dict(variant="asan", name="c18", sources=["checks/c18_chunking.c", "harness/mx_wraps.c"], wraps=WRAPS, libs=["-lcrypto"],
               shards=vflib.NCPU, timeout=7200 if ctx.thorough else 1500)]
    rule = ("Each case = one endpoint (client or server) re-run alone, in a child forked from the same parent snapshot with pinned entropy and virtual clock, against the recorded "
            "peer byte stream of a scenario (full / resumed / ticket / client-auth / failing handshakes, then 3 application payloads each way and closure) under one partition of "
            "the input into receive calls (fixed sizes 1..9,13,16,64,511,1000, record-aligned, 7 record-straddling cuts, coalesced via GetReadbufOfSize, seeded random) or one "
            "partial-send pattern; bytes are never delivered earlier relative to the endpoint's own output than in the recording. The trace (events, delivered plaintext, emitted "
            "bytes) must equal the flight-at-a-time reference. distinct_nontrivial = distinct (scenario, role, chunking, partial-send) executed.")
    return vflib.std_run(ctx, st, "exploration", rule,
        ["process-global state is equalised by forking every run from one parent snapshot", "DTLS is out of scope of this property (datagram boundaries are semantic)"], min_nontrivial=300)
