/* C06 - handshakes follow a legal message sequence; no step can be skipped.
 *
 * For every mode (version x key exchange x resumed / ticket / client-auth) and each role as
 * receiver, the honest handshake is run to the start of each flight addressed to the receiver.
 * There the process is fork()ed once per deviation.  The child re-frames the pending flight into
 * ONE handshake message per record (TLS 1.3 protected flights are opened with the sender's
 * handshake key read from its ssl_t and each message re-sealed with libcrypto under the running
 * sequence number), applies one single-step deviation (delete / duplicate / swap adjacent /
 * inject a message type from the alphabet / premature ChangeCipherSpec), feeds the messages one by
 * one and observes liveness after each.  Oracle (reference grammar per mode written from the RFCs):
 *   prefix  : the receiver must be dead (fatal alert / error) right after the first message that
 *             no legal sequence of the negotiated mode admits at that position;
 *   complete: if the deviant sequence differs from the honest one, the receiver never completes.
 * DTLS may ignore duplicates and out-of-order messages, so only the completion clause is judged.
 *
 * What a mode NEGOTIATED is read from the server's hellos on the wire of the attacked connection (session_ticket extension echoed or not,
 * pre_shared_key selected or not, early_data in EncryptedExtensions), never from what the client offered: the grid holds modes in which the
 * client offers something the server declines (RFC 5077 extension without echo - a well-formed NewSessionTicket is then a foreign message;
 * an external TLS 1.3 PSK unknown to the server or a ticket sealed under rotated keys, with client authentication required - the client's
 * Certificate / CertificateVerify stay mandatory), HelloRetryRequest handshakes and accepted 0-RTT (EndOfEarlyData under the early traffic
 * key).  Besides the single-step deviations, blocks of 2 .. n-1 adjacent messages are skipped (Certificate + CertificateVerify, ...). */
#include "mx_surgeon.h"
#include <openssl/pem.h>
#include <openssl/x509.h>

/* offer: what the client offers that the server does NOT take up (the negotiated mode is read from the ServerHello on the wire, never from this configuration):
 *   OF_TKT_NOECHO     TLS <= 1.2 client sends the session_ticket extension, the server has no ticket keys (no echo, no NewSessionTicket in the honest flight);
 *   OF_PSK13_UNKNOWN  TLS 1.3 client offers an external PSK the server has never seen;
 *   OF_TKT13_STALE    TLS 1.3 client offers a ticket of the priming handshake, the server's ticket keys were rotated since.
 * hrr: the client's only key share is for a group the server lacks (HelloRetryRequest handshake); early: accepted 0-RTT data (EndOfEarlyData in the client's flight). */
enum { OF_NONE = 0, OF_TKT_NOECHO, OF_PSK13_UNKNOWN, OF_TKT13_STALE };
typedef struct { const char *name; int ver; uint16_t suite; int clientAuth, resumed, ticket; int offer, hrr, early; int quick; /* roles attacked in the quick tier: bit 0 client, bit 1 server */ int lightfrag; /* quick: fragmented framing for a third of the cases only */ int ckt; /* key type of the client's certificate where it is not the suite's default: CK_* */ } hmode_t;
enum { CK_DEFAULT = 0, CK_RSAPSS /* id-RSASSA-PSS SubjectPublicKeyInfo */, CK_ED25519, CK_ECDSA /* ECDSA client certificate on an RSA suite */, CK_RSA /* RSA client certificate on an ECDSA suite */ };
static hmode_t modes[64]; static int nmodes;
static hmode_t *addm(const char *n, int v, uint16_t s, int ca, int res, int tk) { modes[nmodes] = (hmode_t) { n, v, s, ca, res, tk, 0, 0, 0, 3, 0 }; return &modes[nmodes++]; }
static hmode_t *addx(const char *n, int v, uint16_t s, int ca, int res, int tk, int offer, int quick) { hmode_t *m = addm(n, v, s, ca, res, tk); m->offer = offer; m->quick = quick; m->lightfrag = 1; return m; }
/* client authentication with a certificate of key type ckt (the server trusts the issuers of all sample client certificates) */
static hmode_t *addk(const char *n, int v, uint16_t s, int ckt, int quick) { hmode_t *m = addx(n, v, s, 1, 0, 0, OF_NONE, quick); m->ckt = ckt; return m; }
static int ck_honest(const hmode_t *m) { return m->ckt == CK_ECDSA || m->ckt == CK_RSA || (m->ckt == CK_ED25519 && m->ver == MX_TLS13); }   /* this build's client can sign with that key in that version */
static void build_modes(void)
{
    addm("rsa", MX_TLS12, 0x003c, 0, 0, 0); addm("rsa-clientauth", MX_TLS12, 0x009c, 1, 0, 0);
    addm("ecdhe-rsa", MX_TLS12, 0xc02f, 0, 0, 0); addm("ecdhe-ecdsa-clientauth", MX_TLS12, 0xc02b, 1, 0, 0);
    addm("psk", MX_TLS12, 0x00ae, 0, 0, 0); addm("rsa-resumed", MX_TLS12, 0x002f, 0, 1, 0); addm("ecdhe-rsa-ticket", MX_TLS12, 0xc013, 0, 1, 1);
    addm("ecdhe-rsa", MX_TLS11, 0xc014, 0, 0, 0); addm("rsa-clientauth", MX_TLS11, 0x0035, 1, 0, 0);
    addm("aes128gcm", MX_TLS13, 0x1301, 0, 0, 0); addm("chacha-clientauth", MX_TLS13, 0x1303, 1, 0, 0); addm("aes256gcm-resumed", MX_TLS13, 0x1302, 0, 1, 0);
    addm("ecdhe-rsa", MX_DTLS12, 0xc027, 0, 0, 0); addm("rsa-clientauth", MX_DTLS10, 0x002f, 1, 0, 0); addm("psk-resumed", MX_DTLS12, 0x00ae, 0, 1, 0);
    /* the client offers, the server declines (quick tier: the role whose state machine the unanswered offer could confuse) */
    addx("ecdhe-rsa-ticket-offered-not-echoed", MX_TLS12, 0xc02f, 0, 0, 1, OF_TKT_NOECHO, 1);
    addx("rsa-resumed-ticket-offered-not-echoed", MX_TLS12, 0x003c, 0, 1, 1, OF_TKT_NOECHO, 1);
    addx("rsa-ticket-offered-not-echoed", MX_TLS11, 0x002f, 0, 0, 1, OF_TKT_NOECHO, 0);
    addx("aes128gcm-clientauth-psk-declined", MX_TLS13, 0x1301, 1, 0, 0, OF_PSK13_UNKNOWN, 2);
    addx("chacha-clientauth-stale-ticket", MX_TLS13, 0x1303, 1, 1, 0, OF_TKT13_STALE, 2);
    addx("aes128gcm-psk-declined", MX_TLS13, 0x1301, 0, 0, 0, OF_PSK13_UNKNOWN, 0);
    /* TLS 1.3 flavours with extra messages: HelloRetryRequest + second ClientHello, accepted 0-RTT data + EndOfEarlyData */
    addx("aes128gcm-hrr", MX_TLS13, 0x1301, 0, 0, 0, OF_NONE, 3)->hrr = 1;
    addx("aes128gcm-clientauth-hrr", MX_TLS13, 0x1301, 1, 0, 0, OF_NONE, 0)->hrr = 1;
    addx("aes128gcm-resumed-early", MX_TLS13, 0x1301, 0, 1, 0, OF_NONE, 3)->early = 1;
    /* Client certificate key types beyond the suite's own: whether the server expects CertificateVerify must not depend on the key type of the certificate.
       Where this build's client can authenticate with such a key (ECDSA on RSA suites and vice versa, Ed25519 in TLS 1.3) the handshake is honest; otherwise the
       deviant peer presents the PUBLIC sample certificate (id-RSASSA-PSS, Ed25519) in place of the honest client's - it proves nothing, which is the point.
       Quick: the server is attacked with deletions, skipped blocks, swaps and duplicates (all framings). */
    addk("rsa-clientauth-rsapss-cert", MX_TLS12, 0x009c, CK_RSAPSS, 2); addk("ecdhe-rsa-clientauth-ed25519-cert", MX_TLS12, 0xc02f, CK_ED25519, 2);
    addk("ecdhe-rsa-clientauth-ecdsa-cert", MX_TLS12, 0xc02f, CK_ECDSA, 2); addk("ecdhe-ecdsa-clientauth-rsa-cert", MX_TLS12, 0xc02b, CK_RSA, 0);
    addk("rsa-clientauth-rsapss-cert", MX_TLS11, 0x0035, CK_RSAPSS, 2); addk("rsa-clientauth-ecdsa-cert", MX_TLS11, 0x002f, CK_ECDSA, 0); addk("ecdhe-rsa-clientauth-ed25519-cert", MX_TLS11, 0xc014, CK_ED25519, 0);
    addk("rsa-clientauth-ecdsa-cert", MX_DTLS12, 0x009c, CK_ECDSA, 0);
    addk("aes128gcm-clientauth-rsapss-cert", MX_TLS13, 0x1301, CK_RSAPSS, 0); addk("aes128gcm-clientauth-ed25519-cert", MX_TLS13, 0x1301, CK_ED25519, 0); addk("aes128gcm-clientauth-ecdsa-cert", MX_TLS13, 0x1301, CK_ECDSA, 0);
}

/* key sets of the declined-offer modes */
static sslKeys_t *k_srv_notk, *k_srv_rot, *k_cli_psk13, *k_cli_psk13_noid;
static unsigned char *ck_der[5]; static int ck_derlen[5];      /* the sample certificates by CK_* (public part only) */
static sslKeys_t *k_srv_rsa_allca, *k_srv_ec_allca, *k_cli_kt[5];      /* servers trusting the issuers of every sample client certificate; clients by CK_* */
static void own_keys_load(void)
{
    static const unsigned char tn[16] = "rotated-tkt-key", tk[32] = { 5, 5, 5 }, th[32] = { 6, 6, 6 }, psk[32] = { 0xc0, 0x6f, 1, 2, 3, 4, 5, 6, 7, 8 }, pskid[] = "c06-psk-unknown-to-the-server";
    int rc = 0;
    rc |= matrixSslNewKeys(&k_srv_notk, NULL) < 0; rc |= matrixSslLoadKeys(k_srv_notk, MX_TK "RSA/2048_RSA.pem", MX_TK "RSA/2048_RSA_KEY.pem", NULL, mx_ca_both, NULL) < 0;      /* no session-ticket keys */
    rc |= matrixSslNewKeys(&k_srv_rot, NULL) < 0; rc |= matrixSslLoadKeys(k_srv_rot, MX_TK "RSA/2048_RSA.pem", MX_TK "RSA/2048_RSA_KEY.pem", NULL, mx_ca_both, NULL) < 0;
    rc |= matrixSslLoadSessionTicketKeys(k_srv_rot, tn, tk, 32, th, 32) < 0;
    rc |= matrixSslNewKeys(&k_cli_psk13, NULL) < 0; rc |= matrixSslLoadKeys(k_cli_psk13, MX_TK "RSA/2048_RSA.pem", MX_TK "RSA/2048_RSA_KEY.pem", NULL, mx_ca_both, NULL) < 0;
    rc |= matrixSslLoadTls13Psk(k_cli_psk13, psk, 32, pskid, sizeof(pskid) - 1, NULL) < 0;
    rc |= matrixSslNewKeys(&k_cli_psk13_noid, NULL) < 0; rc |= matrixSslLoadKeys(k_cli_psk13_noid, NULL, NULL, NULL, mx_ca_both, NULL) < 0;
    rc |= matrixSslLoadTls13Psk(k_cli_psk13_noid, psk, 32, pskid, sizeof(pskid) - 1, NULL) < 0;
    static const char *ca_all = MX_TK "RSA/2048_RSA_CA.pem;" MX_TK "EC/256_EC_CA.pem;" MX_TK "RSA/2048_RSA_PSS_CA.pem;" MX_TK "EC/ED25519_CA.pem";
    rc |= matrixSslNewKeys(&k_srv_rsa_allca, NULL) < 0; rc |= matrixSslLoadKeys(k_srv_rsa_allca, MX_TK "RSA/2048_RSA.pem", MX_TK "RSA/2048_RSA_KEY.pem", NULL, ca_all, NULL) < 0;
    rc |= matrixSslNewKeys(&k_srv_ec_allca, NULL) < 0; rc |= matrixSslLoadKeys(k_srv_ec_allca, MX_TK "EC/256_EC.pem", MX_TK "EC/256_EC_KEY.pem", NULL, ca_all, NULL) < 0;
    static const char *kt[5][2] = { { NULL, NULL }, { MX_TK "RSA/2048_RSA_PSS.pem", MX_TK "RSA/2048_RSA_PSS_KEY.pem" }, { MX_TK "EC/ED25519.pem", MX_TK "EC/ED25519_KEY.pem" }, { MX_TK "EC/256_EC.pem", MX_TK "EC/256_EC_KEY.pem" }, { MX_TK "RSA/2048_RSA.pem", MX_TK "RSA/2048_RSA_KEY.pem" } };
    for (int i = 1; i < 5; i++) { FILE *f = fopen(kt[i][0], "r"); X509 *x = f ? PEM_read_X509(f, NULL, NULL, NULL) : NULL; if (f) fclose(f); ck_derlen[i] = x ? i2d_X509(x, &ck_der[i]) : -1; if (x) X509_free(x); if (ck_derlen[i] <= 0) { fprintf(stderr, "HARNESS: cannot read %s\n", kt[i][0]); rc = 1; } }
    for (int i = 1; i < 5; i++) { rc |= matrixSslNewKeys(&k_cli_kt[i], NULL) < 0; int r2 = matrixSslLoadKeys(k_cli_kt[i], kt[i][0], kt[i][1], NULL, mx_ca_both, NULL); if (r2 < 0) { fprintf(stderr, "HARNESS: c06 client key set %d: %d\n", i, r2); rc = 1; } }
    if (rc) { fprintf(stderr, "HARNESS: c06 key sets failed to load\n"); exit(2); }
}
static void own_keys_free(void) { for (int i = 1; i < 5; i++) OPENSSL_free(ck_der[i]); matrixSslDeleteKeys(k_srv_rsa_allca); matrixSslDeleteKeys(k_srv_ec_allca); for (int i = 1; i < 5; i++) matrixSslDeleteKeys(k_cli_kt[i]); matrixSslDeleteKeys(k_srv_notk); matrixSslDeleteKeys(k_srv_rot); matrixSslDeleteKeys(k_cli_psk13); matrixSslDeleteKeys(k_cli_psk13_noid); }
/* configuration of the priming (prime = 1) and of the attacked connection of a mode */
static mx_cfg mode_cfg(const hmode_t *m, int prime)
{
    mx_cfg c = { .ver = m->ver, .suite = m->suite, .clientAuth = m->clientAuth, .useTicket = m->ticket };
    if (m->offer == OF_TKT_NOECHO) c.skeys = k_srv_notk;
    if (m->offer == OF_PSK13_UNKNOWN) c.ckeys = m->clientAuth ? k_cli_psk13 : k_cli_psk13_noid;
    if (m->offer == OF_TKT13_STALE && !prime) c.skeys = k_srv_rot;
    if (m->early) c.earlyData = 16384;
    if (m->ckt) { const mx_suite_t *su = mx_suite_by_id(m->suite); if (ck_honest(m)) c.ckeys = k_cli_kt[m->ckt]; else c.ems = -1;     /* substituted certificate: no extended master secret, the sender's record keys must not depend on the Certificate it did not send */
        c.skeys = (su && su->auth == MX_AUTH_ECDSA) ? k_srv_ec_allca : k_srv_rsa_allca; }
    return c;
}
static int expect_resumed(const hmode_t *m) { return m->resumed && m->offer != OF_TKT13_STALE; }
/* mx_conn_open + key-exchange groups for HelloRetryRequest modes (client: share for x25519 only, also supports secp256r1; server: secp256r1 alone) + early data */
static int mode_open(mx_conn *k, const hmode_t *m, int prime, sslSessionId_t *sid)
{
    mx_cfg c = mode_cfg(m, prime); int rc;
    if (!m->hrr) rc = mx_conn_open(k, &c, sid);
    else {
        memset(k, 0, sizeof *k); k->cfg = c; k->dtls = 0; uint16_t gs[1] = { 23 }, gc[2] = { 29, 23 }; psCipher16_t cs[1] = { c.suite };
        for (int role = MX_SERVER; role >= MX_CLIENT; role--) {
            sslSessOpts_t o; mx_opts(&o, &c, role); mx_ep *e = role == MX_SERVER ? &k->s : &k->c;
            if ((role == MX_SERVER ? matrixSslSessOptsSetKeyExGroups(&o, gs, 1, 1) : matrixSslSessOptsSetKeyExGroups(&o, gc, 2, 1)) < 0) return -3;
            memset(e, 0, sizeof *e); e->role = role; e->ver = c.ver; e->id = role == MX_SERVER ? 1 : 0; e->name = role == MX_SERVER ? "S" : "C"; mx_actor = e->id; e->sid = role == MX_CLIENT ? sid : NULL; MX_ENTER();
            rc = role == MX_SERVER ? matrixSslNewServerSession(&e->ssl, mx_pick_skeys(&c), c.clientAuth ? mx_cert_cb_accept : NULL, &o)
                                   : matrixSslNewClientSession(&e->ssl, mx_pick_ckeys(&c), sid, cs, 1, mx_cert_cb_accept, NULL, NULL, NULL, &o);
            MX_LEAVE(); e->wantTake = 1; if (rc < 0) return -1;
        }
        rc = 0;
    }
    if (rc == 0 && m->early && !prime) {   /* 0-RTT: one early record right behind the ClientHello */
        unsigned char p[128]; mx_payload(p, 100, 0x0c06, 0, 7);
        if (matrixSslGetMaxEarlyData(k->c.ssl) <= 0 || mx_send(&k->c, p, 100) <= 0) vf_incon("client of %s is not early-data capable", m->name);
    }
    return rc;
}

/* ---- units: one handshake message (or CCS / opaque encrypted record) ---- */
enum { U_HS = 0, U_CCS, U_OPAQUE };
typedef struct { int kind, type; unsigned char *body; int len; int prot; /* TLS1.3: was protected */ int origin; } unit_t;
#define T_CCS 1000
#define T_ENCFIN 1020
#define T_HRR 1002       /* ServerHello carrying the HelloRetryRequest random */
#define T_EARLYAPP 1023  /* a 0-RTT application data record (kept as the sender sealed it) */
static unit_t pool[64]; static int npool;             /* every handshake message seen in the honest run (both directions) */
static unit_t tr[64]; static int ntr;                  /* this connection's handshake messages before the attacked flight, in order (TLS <= 1.2, before CCS) */
static const unit_t *pool_get(int type) { for (int i = 0; i < npool; i++) if (pool[i].type == type) return &pool[i]; return NULL; }

static int kx_of(const hmode_t *m) { const mx_suite_t *s = mx_suite_by_id(m->suite); if (s->tls13) return 3; if (s->auth == MX_AUTH_PSK) return 2; return (m->suite & 0xff00) == 0xc000 ? 1 : 0; }   /* 0 RSA, 1 ECDHE, 2 PSK, 3 TLS1.3 */

/* ---- what the hellos on the wire negotiated ---- */
static const unsigned char hrr_random[32] = { 0xCF, 0x21, 0xAD, 0x74, 0xE5, 0x9A, 0x61, 0x11, 0xBE, 0x1D, 0x8C, 0x02, 0x1E, 0x65, 0xB8, 0x91, 0xC2, 0xA2, 0x11, 0x16, 0x7A, 0xBB, 0x8C, 0x5E, 0x07, 0x9E, 0x09, 0xE2, 0xC8, 0xA8, 0x33, 0x9C };
static int hs_type_of(const unsigned char *b, int len) { return (len >= 4 + 34 && b[0] == 2 && !memcmp(b + 6, hrr_random, 32)) ? T_HRR : b[0]; }
/* extension `ext` present in a ServerHello (message with its hh-byte handshake header)? */
static int sh_has_ext(const unsigned char *b, int len, int hh, int ext)
{
    int o = hh + 2 + 32; if (o + 1 > len) return 0; o += 1 + b[o]; o += 3; if (o + 2 > len) return 0;
    int el = (b[o] << 8) | b[o + 1]; o += 2; int end = o + el; if (end > len) end = len;
    while (o + 4 <= end) { int t = (b[o] << 8) | b[o + 1], l = (b[o + 2] << 8) | b[o + 3]; if (t == ext) return 1; o += 4 + l; }
    return 0;
}
static int ee_has_ext(const unsigned char *b, int len, int ext)
{
    int o = 4; if (o + 2 > len) return 0; int el = (b[o] << 8) | b[o + 1]; o += 2; int end = o + el; if (end > len) end = len;
    while (o + 4 <= end) { int t = (b[o] << 8) | b[o + 1], l = (b[o + 2] << 8) | b[o + 3]; if (t == ext) return 1; o += 4 + l; }
    return 0;
}

/* ---- reference grammar: returns next state or -1 if `type` is not admissible in state st ----
 * resumedActually (TLS 1.3: the ServerHello carries pre_shared_key; TLS <= 1.2: the honest run resumed), ticketNegotiated (the ServerHello
 * carries the session_ticket extension) and earlyAccepted (EncryptedExtensions carries early_data) are read from the server's messages on
 * the wire of the attacked connection: what the client merely OFFERED (a PSK the server declined, an unanswered session_ticket extension)
 * changes nothing in the legal sequences. */
typedef struct { const hmode_t *m; int role; int resumedActually; int clientSentCert; int ticketNegotiated; int earlyAccepted; } gctx_t;
static int g_next(const gctx_t *g, int st, int type)
{
    const hmode_t *m = g->m; int kx = kx_of(m); int certSuite = kx == 0 || kx == 1;
    if (m->ver == MX_TLS13) {
        if (g->role == MX_CLIENT) {       /* client receives: SH EE [CR] Cert CV Fin ; PSK: SH EE Fin */
            switch (st) {
            case 0: if (type == T_HRR) return 10; return type == 2 ? 1 : -1;
            case 10: return type == 2 ? 1 : -1;                                   /* one HelloRetryRequest at most */
            case 1: return type == 8 ? 2 : -1;
            case 2: if (g->resumedActually) return type == 20 ? 9 : -1; if (type == 13) return 3; return type == 11 ? 4 : -1;
            case 3: return type == 11 ? 4 : -1;
            case 4: return type == 15 ? 5 : -1;
            case 5: return type == 20 ? 9 : -1;
            default: return -1; }
        } else {                          /* server receives: CH [Cert [CV]] Fin */
            switch (st) {
            case 0: return type == 1 ? (m->hrr ? 10 : 1) : -1;                    /* m->hrr is verified against the server's answer in run_mode */
            case 10: return type == 1 ? 1 : -1;
            case 1: if (g->earlyAccepted) { if (type == T_EARLYAPP) return 1; return type == 5 ? 4 : -1; }      /* accepted 0-RTT (PSK, hence no certificate): data*, EndOfEarlyData, Finished */
                    if (m->clientAuth && !g->resumedActually) return type == 11 ? 2 : -1; return type == 20 ? 9 : -1;
            case 4: return type == 20 ? 9 : -1;
            case 2: if (g->clientSentCert) return type == 15 ? 3 : -1; return type == 20 ? 9 : -1;
            case 3: return type == 20 ? 9 : -1;
            default: return -1; }
        }
    }
    if (g->role == MX_CLIENT) {           /* TLS <= 1.2 client receives */
        if (type == 0) return st;         /* HelloRequest is ignored by a client that is negotiating (RFC 5246 7.4.1.1) */
        switch (st) {
        case 0: if (type == 3 && MX_IS_DTLS(m->ver)) return 0; return type == 2 ? (g->resumedActually ? 6 : 1) : -1;
        case 1: if (certSuite) return type == 11 ? 2 : -1;                       /* PSK: */ if (type == 12) return 3; return type == 14 ? 5 : -1;
        case 2: if (type == 22) return 2; if (kx == 1) return type == 12 ? 3 : -1; /* RSA: no SKE */ if (type == 13) return 4; return type == 14 ? 5 : -1;
        case 3: if (type == 13 && certSuite) return 4; return type == 14 ? 5 : -1;
        case 4: return type == 14 ? 5 : -1;
        case 5: if (type == 4 && g->ticketNegotiated) return 7; return type == T_CCS ? 8 : -1;      /* after SHD (client's own flight in between) */
        case 6: if (type == 4 && g->ticketNegotiated) return 7; return type == T_CCS ? 8 : -1;      /* resumed: after SH */
        case 7: return type == T_CCS ? 8 : -1;
        case 8: return (type == 20 || type == T_ENCFIN) ? 9 : -1;
        default: return -1; }
    } else {                              /* TLS <= 1.2 server receives */
        switch (st) {
        case 0: return type == 1 ? (MX_IS_DTLS(m->ver) ? 0 : 1) : -1;            /* DTLS: cookie exchange repeats ClientHello */
        case 1: if (g->resumedActually) return type == T_CCS ? 8 : -1; if (m->clientAuth) return type == 11 ? 2 : -1; return type == 16 ? 3 : -1;
        case 2: return type == 16 ? 3 : -1;
        case 3: if (g->clientSentCert) return type == 15 ? 4 : -1; return type == T_CCS ? 8 : -1;
        case 4: return type == T_CCS ? 8 : -1;
        case 8: return (type == 20 || type == T_ENCFIN) ? 9 : -1;
        default: return -1; }
    }
}

/* ---- splitting a pending flight into units ---- */
static int split_flight(mx_conn *k, mx_ep *T, mx_ep *P, const unsigned char *b, int n, unit_t *u, int maxu)
{
    int off = 0, nu = 0, dtls = k->dtls; mx_rec r; int afterCCS = 0; unsigned long long rseq = 0, eseq = 0; int hh = dtls ? 12 : 4;
    /* records under the client's early traffic key continue the numbering of those the receiver already consumed under that key */
    if (k->cfg.ver == MX_TLS13 && (T->ssl->flags & SSL_FLAGS_READ_SECURE) && !memcmp(T->ssl->sec.tls13ReadIv, P->ssl->sec.tls13EarlyDataIv, 12)) eseq = mx_seq8(T->ssl->sec.remSeq);
    static unsigned char plain[70000];
    while (mx_rec_at(b, n, off, dtls, &r) && nu < maxu) {
        const unsigned char *p = b + off + r.hdr; int tot = r.hdr + r.len;
        if (k->cfg.ver == MX_TLS13) {
            if (r.type == 20) { off += tot; continue; }                                   /* compatibility CCS: dropped by the receiver, not part of the sequence */
            if (r.type == 22) {   /* plaintext ClientHello / ServerHello / HRR */
                int o = 0; while (o + 4 <= r.len && nu < maxu) { int l = (p[o + 1] << 16) | (p[o + 2] << 8) | p[o + 3]; if (o + 4 + l > r.len) break; u[nu] = (unit_t) { U_HS, hs_type_of(p + o, 4 + l), malloc(4 + l), 4 + l, 0, 0 }; memcpy(u[nu].body, p + o, 4 + l); nu++; o += 4 + l; }
            } else if (r.type == 23) {
                int early = 0, l = mx13_open(k->cfg.suite, P->ssl->sec.tls13HsWriteKey, P->ssl->sec.tls13HsWriteIv, rseq, b + off, tot, plain);
                if (l < 0) { l = mx13_open(k->cfg.suite, P->ssl->sec.tls13EarlyDataKey, P->ssl->sec.tls13EarlyDataIv, eseq, b + off, tot, plain); if (l < 0) return -1; early = 1; eseq++; } else rseq++;
                while (l > 0 && plain[l - 1] == 0) l--; if (l <= 0) return -1; int it = plain[l - 1]; l--;
                if (it == 23 && early) { u[nu] = (unit_t) { U_OPAQUE, T_EARLYAPP, malloc(tot), tot, 2, 0 }; memcpy(u[nu].body, b + off, tot); nu++; off += tot; continue; }
                if (it != 22) { off += tot; continue; }
                int o = 0; while (o + 4 <= l && nu < maxu) { int ml = (plain[o + 1] << 16) | (plain[o + 2] << 8) | plain[o + 3]; u[nu] = (unit_t) { U_HS, plain[o], malloc(4 + ml), 4 + ml, 1, 0 }; memcpy(u[nu].body, plain + o, 4 + ml); nu++; o += 4 + ml; }
            }
        } else if (dtls) {
            int ty = r.type == 20 ? T_CCS : (r.type == 22 && r.epoch == 0 && r.len >= 12) ? p[0] : (r.type == 22 ? T_ENCFIN : 900 + r.type);
            u[nu] = (unit_t) { ty == T_CCS ? U_CCS : U_OPAQUE, ty, malloc(tot), tot, 0, 0 }; memcpy(u[nu].body, b + off, tot); nu++;
        } else if (r.type == 20 && !afterCCS) { u[nu] = (unit_t) { U_CCS, T_CCS, malloc(tot), tot, 0, 0 }; memcpy(u[nu].body, b + off, tot); nu++; afterCCS = 1; }
        else if (afterCCS) { u[nu] = (unit_t) { U_OPAQUE, T_ENCFIN, malloc(tot), tot, 0, 0 }; memcpy(u[nu].body, b + off, tot); nu++; }
        else if (r.type == 22) {
            int o = 0; while (o + hh <= r.len && nu < maxu) { int l = (p[o + 1] << 16) | (p[o + 2] << 8) | p[o + 3]; if (dtls) l = (p[o + 9] << 16) | (p[o + 10] << 8) | p[o + 11];
                u[nu] = (unit_t) { U_HS, p[o], malloc(hh + l), hh + l, 0, 0 }; memcpy(u[nu].body, p + o, hh + l); nu++; o += hh + l; }
        } else { u[nu] = (unit_t) { U_OPAQUE, 900 + r.type, malloc(tot), tot, 0, 0 }; memcpy(u[nu].body, b + off, tot); nu++; }
        off += tot;
    }
    (void) T;
    return nu;
}

/* ---- feeding one unit as its own record ---- */
static unsigned long long feed_seq; static unsigned long long dtls_rsn_next;
static int feed_flight;    /* number of the attacked flight (the record version 3.1 is used for a first ClientHello only) */
static int feed_frag;      /* framing of the deviant flight: 0 = one handshake message per record, 1 = every handshake message split over two records */
static int feed_unit_whole(mx_conn *k, mx_ep *T, mx_ep *P, const unit_t *u);
static int feed_unit(mx_conn *k, mx_ep *T, mx_ep *P, const unit_t *u)
{
    /* record-layer fragmentation (not DTLS: its fragments carry their own headers; not TLS <= 1.2 protected records) */
    /* TLS 1.3 hellos stay whole: the library decides between its two record decoders from a complete hello (a refused fragmented hello is no concern of this property) */
    if (feed_frag && u->kind == U_HS && !k->dtls && u->len >= 12 && !(k->cfg.ver == MX_TLS13 && (u->type == 1 || u->type == 2 || u->type == T_HRR)) && (k->cfg.ver == MX_TLS13 || !(T->ssl->flags & SSL_FLAGS_READ_SECURE))) {
        int cut = 5 + (u->len - 5) / 2;     /* inside the body (a split inside the 4-byte handshake header is refused by the TLS 1.3 decoder: a limitation, not this property's subject) */
        unit_t a = *u, b = *u; a.len = cut; b.body = u->body + cut; b.len = u->len - cut;
        int rc = feed_unit_whole(k, T, P, &a); if (T->dead) return rc;
        return feed_unit_whole(k, T, P, &b);
    }
    return feed_unit_whole(k, T, P, u);
}
static int feed_unit_whole(mx_conn *k, mx_ep *T, mx_ep *P, const unit_t *u)
{
    static unsigned char rec[70000]; int n = 0, dtls = k->dtls;
    if (u->kind != U_HS) { memcpy(rec, u->body, u->len); n = u->len; }
    else if (k->cfg.ver == MX_TLS13 && (T->ssl->flags & SSL_FLAGS_READ_SECURE)) {
        static unsigned char inner[70000]; memcpy(inner, u->body, u->len); inner[u->len] = 22;
        /* sealed under the sender's key the receiver currently reads with: the client's early traffic key up to EndOfEarlyData, else the sender's handshake key */
        int early = !memcmp(T->ssl->sec.tls13ReadIv, P->ssl->sec.tls13EarlyDataIv, 12);
        n = mx13_seal(k->cfg.suite, early ? P->ssl->sec.tls13EarlyDataKey : P->ssl->sec.tls13HsWriteKey, early ? P->ssl->sec.tls13EarlyDataIv : P->ssl->sec.tls13HsWriteIv, mx_seq8(T->ssl->sec.remSeq), inner, u->len + 1, 23, rec);
    } else {
        int maj = dtls ? 254 : 3, min = k->cfg.ver == MX_TLS11 ? 2 : k->cfg.ver == MX_DTLS10 ? 255 : dtls ? 253 : 3;
        if (k->cfg.ver == MX_TLS13 && u->type == 1 && feed_flight == 0) min = 1;
        rec[0] = 22; rec[1] = maj; rec[2] = min; int h = 5;
        if (dtls) { rec[3] = 0; rec[4] = 0; for (int i = 0; i < 6; i++) rec[5 + i] = (unsigned char) (dtls_rsn_next >> (8 * (5 - i))); dtls_rsn_next++; h = 13; }
        rec[h - 2] = u->len >> 8; rec[h - 1] = u->len; memcpy(rec + h, u->body, u->len); n = h + u->len;
    }
    if (T->dead) return -1;
    return mx_feed(T, rec, n);
}
static int is_dead(mx_ep *T) { return T->dead || (T->ssl->flags & SSL_FLAGS_ERROR) || T->ssl->err != SSL_ALERT_NONE; }

/* ---- deviations ---- */
enum { DV_NONE = 0, DV_DELETE, DV_DUP, DV_SWAP, DV_INJECT, DV_CCS, DV_INJECT2, DV_DELRUN /* `type` adjacent messages from pos on are skipped */ };
static const char *dvname[] = { "legal-reframed", "delete", "duplicate", "swap-adjacent", "inject", "premature-ccs", "inject-twice", "delete-run" };
typedef struct { int kind, pos, type; } devn_t;
static const char *tname(int t)
{
    switch (t) { case 0: return "HelloRequest"; case 1: return "ClientHello"; case 2: return "ServerHello"; case 3: return "HelloVerifyRequest"; case 4: return "NewSessionTicket"; case 5: return "EndOfEarlyData"; case 8: return "EncryptedExtensions";
    case 11: return "Certificate"; case 12: return "ServerKeyExchange"; case 13: return "CertificateRequest"; case 14: return "ServerHelloDone"; case 15: return "CertificateVerify"; case 16: return "ClientKeyExchange"; case 20: return "Finished";
    case 22: return "CertificateStatus"; case 24: return "KeyUpdate"; case 99: return "unknown-99"; case T_HRR: return "HelloRetryRequest"; case T_EARLYAPP: return "EarlyApplicationData"; case T_CCS: return "ChangeCipherSpec"; case T_ENCFIN: return "Finished(protected)"; default: return "other"; }
}

typedef struct { mx_conn *k; const hmode_t *m; int role; int flightNo; int gstate0; devn_t dv; int resumedActually; int clientSentCert; int ticketNegotiated; int frag; int earlyAccepted; } child_arg;
static char cur_desc[256];
static void report(const child_arg *a, const char *clause, int type, const char *fmt, ...)
{
    char key[220], msg[700]; va_list ap; va_start(ap, fmt); vsnprintf(msg, sizeof msg, fmt, ap); va_end(ap);
    snprintf(key, sizeof key, "c06:%s:%s:%s:%s%s:%s", clause, mx_vername[a->m->ver], a->role ? "server" : "client", dvname[a->dv.kind], a->frag == 1 ? "+fragmented" : a->frag == 2 ? "+coalesced" : "", tname(type));
    vf_violation(key, cur_desc, "%s | mode=%s flight=%d pos=%d", msg, a->m->name, a->flightNo, a->dv.pos);
}

/* ---- feeding a deviant sequence ---- */
typedef struct { int firstAcceptedIllegal, completedEarly, completedAt; } fres_t;
/* what the one-message-per-record run saw at message i: reached (the receiver was still alive), protection class the message was fed under
   (0 plaintext, 1 TLS 1.3 handshake traffic key, 2 TLS 1.3 early traffic key, 3 TLS <= 1.2 read cipher active), crafted Finished value */
typedef struct { int reached, cls, crafted, vl; unsigned char vd[64]; } probe_t;
static int cls_of(mx_conn *k, mx_ep *T, mx_ep *P) { if (!(T->ssl->flags & SSL_FLAGS_READ_SECURE)) return 0; if (k->cfg.ver != MX_TLS13) return 3; return memcmp(T->ssl->sec.tls13ReadIv, P->ssl->sec.tls13EarlyDataIv, 12) ? 1 : 2; }
static void feed_per_record(child_arg *a, mx_conn *k, mx_ep *T, mx_ep *P, unit_t *dseq, int nd, int same, int illegalAt, probe_t *pr, fres_t *o)
{
    const devn_t *dv = &a->dv;
    for (int i = 0; i < nd; i++) {
        if (pr) { pr[i].reached = 1; pr[i].cls = cls_of(k, T, P); }
        if (dv->kind != DV_NONE && !same && !k->dtls && (dseq[i].type == 20 || dseq[i].type == T_ENCFIN) && !is_dead(T)) {
            /* transcript-consistent deviant peer: a real (malicious) peer knows the session secrets and sends the Finished value that
               matches the sequence it actually sent, i.e. the one the receiver expects over ITS transcript.  Compute that value with
               the receiver's own snapshot function and seal it with the sender's keys. */
            unsigned char fin[4 + 64], vd[64]; int vl = -1; static unsigned char frec[256];
            if (a->m->ver == MX_TLS13) {
                int hl = a->m->suite == 0x1302 ? 48 : 32; psHmac_t hc; unsigned char trh[64];
                MX_ENTER(); if (tls13DeriveFinishedKey(T->ssl, !MATRIX_IS_SERVER(T->ssl)) >= 0 && tls13TranscriptHashSnapshot(T->ssl, trh) >= 0 &&
                    psHmacSingle(&hc, hl == 48 ? HMAC_SHA384 : HMAC_SHA256, T->ssl->sec.tls13FinishedKey, hl, trh, hl, vd) >= 0) vl = hl; MX_LEAVE();
            } else { MX_ENTER(); vl = sslSnapshotHSHash(T->ssl, vd, PS_FALSE, PS_TRUE); MX_LEAVE(); }
            if (vl > 0 && vl <= 64) {
                if (pr) { pr[i].crafted = 1; pr[i].vl = vl; memcpy(pr[i].vd, vd, vl); }
                fin[0] = 20; fin[1] = 0; fin[2] = 0; fin[3] = (unsigned char) vl; memcpy(fin + 4, vd, vl); vf_stat("consistent_finished_crafted", 1);
                if (a->m->ver == MX_TLS13) { unit_t fu = { U_HS, 20, fin, 4 + vl, 1, 1 }; feed_unit(k, T, P, &fu); }
                else if (T->ssl->flags & SSL_FLAGS_READ_SECURE) { memset(P->ssl->sec.seq, 0, 8); int n = mx_seal_as(P, 22, fin, 4 + vl, frec); if (n > 0 && !T->dead) mx_feed(T, frec, n); }
                else { unit_t fu = { U_HS, 20, fin, 4 + vl, 0, 1 }; feed_unit(k, T, P, &fu); }
                int dead2 = is_dead(T);
                if (i == illegalAt && !dead2) o->firstAcceptedIllegal = i;
                if (!dead2 && matrixSslHandshakeIsComplete(T->ssl) && !o->completedEarly) { o->completedEarly = 1; o->completedAt = i; }
                if (dead2) break;
                continue;
            }
        }
        feed_unit(k, T, P, &dseq[i]);
        int dead = is_dead(T);
        if (vf_verbose) fprintf(stderr, "  fed %s (%d bytes): dead=%d lastrc=%d err=%d hsState=%d complete=%d\n", tname(dseq[i].type), dseq[i].len, dead, T->lastrc, T->ssl->err, T->ssl->hsState, matrixSslHandshakeIsComplete(T->ssl));
        if (i == illegalAt && !dead && !k->dtls) o->firstAcceptedIllegal = i;
        if (!dead && matrixSslHandshakeIsComplete(T->ssl) && !o->completedEarly) { o->completedEarly = 1; o->completedAt = i; }
        if (dead) break;
    }
}
/* Coalesced framing: maximal runs of handshake messages the receiver reads under one protection state travel in ONE record (plaintext, or one
   TLS 1.3 record under the sender's key), ChangeCipherSpec and TLS <= 1.2 protected records on their own in between.  A Finished is the value
   the probe computed over the receiver's transcript at that point (zero / current master secret included), so that a message behind the
   deviation point is only ever refused by the state machine, never by a transcript mismatch. */
static void feed_coalesced(child_arg *a, mx_conn *k, mx_ep *T, mx_ep *P, unit_t *dseq, int nd, int same, int illegalAt, const probe_t *pr, fres_t *o)
{
    static unsigned char grp[70000], fins[32][4 + 64], frec[256]; int gl = 0, gcls = -1, gtype = 0, lastcls = cls_of(k, T, P), ngroups = 0, maxrun = 0, run = 0; (void) same;
    for (int i = 0; i <= nd; i++) {
        unit_t x; int cls = lastcls, have = i < nd;
        if (have) { x = dseq[i]; if (pr[i].reached) cls = pr[i].cls; lastcls = cls;
            if (pr[i].crafted) { fins[i][0] = 20; fins[i][1] = 0; fins[i][2] = 0; fins[i][3] = (unsigned char) pr[i].vl; memcpy(fins[i] + 4, pr[i].vd, pr[i].vl); x = (unit_t) { U_HS, 20, fins[i], 4 + pr[i].vl, cls == 1, 1 }; vf_stat("consistent_finished_crafted", 1); } }
        int joinable = have && x.kind == U_HS && cls != 3 && gl + x.len < 16000;
        if (gl && (!joinable || cls != gcls)) {   /* close the pending record */
            unit_t gu = { U_HS, gtype, grp, gl, gcls == 1, 1 }; feed_unit_whole(k, T, P, &gu); gl = 0; ngroups++; if (run > maxrun) maxrun = run; run = 0;
            int dead = is_dead(T);
            if (vf_verbose) fprintf(stderr, "  fed coalesced record ending with message %d: dead=%d lastrc=%d err=%d hsState=%d complete=%d\n", i - 1, dead, T->lastrc, T->ssl->err, T->ssl->hsState, matrixSslHandshakeIsComplete(T->ssl));
            if (illegalAt >= 0 && illegalAt <= i - 1 && !dead && o->firstAcceptedIllegal < 0) o->firstAcceptedIllegal = illegalAt;
            if (!dead && matrixSslHandshakeIsComplete(T->ssl) && !o->completedEarly) { o->completedEarly = 1; o->completedAt = i - 1; }
            if (dead) break;
        }
        if (!have) break;
        if (joinable) { if (!gl) { gcls = cls; gtype = x.type; } memcpy(grp + gl, x.body, x.len); gl += x.len; run++; continue; }
        if (pr[i].crafted && cls == 3) { memset(P->ssl->sec.seq, 0, 8); int n = mx_seal_as(P, 22, x.body, x.len, frec); if (n > 0 && !T->dead) mx_feed(T, frec, n); }
        else feed_unit_whole(k, T, P, &x);
        int dead = is_dead(T);
        if (vf_verbose) fprintf(stderr, "  fed %s on its own (%d bytes): dead=%d lastrc=%d err=%d hsState=%d complete=%d\n", tname(x.type), x.len, dead, T->lastrc, T->ssl->err, T->ssl->hsState, matrixSslHandshakeIsComplete(T->ssl));
        if (i == illegalAt && !dead && o->firstAcceptedIllegal < 0) o->firstAcceptedIllegal = i;
        if (!dead && matrixSslHandshakeIsComplete(T->ssl) && !o->completedEarly) { o->completedEarly = 1; o->completedAt = i; }
        if (dead) break;
    }
    if (maxrun >= 2) vf_stat("coalesced_cases_with_several_messages_in_one_record", 1);
}

static void child_run(void *a_)
{
    child_arg *a = a_; mx_conn *k = a->k; mx_ep *T = a->role == MX_SERVER ? &k->s : &k->c, *P = a->role == MX_SERVER ? &k->c : &k->s; int d = a->role == MX_SERVER ? 0 : 1;
    unit_t u[24], dseq[32]; int nu, nd = 0;
    vf_stat("cases", 1); feed_frag = a->frag == 1; feed_flight = a->flightNo; if (getenv("C06_PERMODE")) vf_statf(1, "n_%s_%.40s_%d", mx_vername[a->m->ver], a->m->name, a->role); if (a->frag == 1) vf_stat("cases_fragmented_framing", 1); if (a->frag == 2) vf_stat("cases_coalesced_framing", 1);
    nu = split_flight(k, T, P, k->q[d] + k->qoff[d], k->qlen[d] - k->qoff[d], u, 24);
    if (nu <= 0) { vf_stat("flight_not_splittable", 1); return; }
    k->qoff[d] = k->qlen[d];
    /* a deviant client that presents a public certificate of another key type in place of its own (it cannot sign with it: the honest CertificateVerify is then void) */
    if (a->m->ckt && !ck_honest(a->m) && a->role == MX_SERVER && a->dv.kind != DV_NONE && !k->dtls) for (int i = 0; i < nu; i++) if (u[i].kind == U_HS && u[i].type == 11) {
        int dl = ck_derlen[a->m->ckt], t13 = a->m->ver == MX_TLS13, cl = t13 ? u[i].body[4] : 0, o = 4; unsigned char *nb = malloc(dl + cl + 32);
        if (t13) { memcpy(nb + 4, u[i].body + 4, 1 + cl); o += 1 + cl; }        /* certificate_request_context echoed */
        int ll = 3 + dl + (t13 ? 2 : 0); nb[o] = ll >> 16; nb[o + 1] = ll >> 8; nb[o + 2] = ll; o += 3; nb[o] = dl >> 16; nb[o + 1] = dl >> 8; nb[o + 2] = dl; o += 3; memcpy(nb + o, ck_der[a->m->ckt], dl); o += dl; if (t13) { nb[o++] = 0; nb[o++] = 0; }
        nb[0] = 11; nb[1] = (o - 4) >> 16; nb[2] = (o - 4) >> 8; nb[3] = o - 4; u[i].body = nb; u[i].len = o; vf_stat("client_certificate_substituted", 1); }
    /* DTLS record sequence numbers for the re-framed plaintext records: continue after the highest epoch-0 number the sender used */
    dtls_rsn_next = 40 + a->flightNo * 40;
    /* build the deviant sequence */
    const devn_t *dv = &a->dv; unit_t inj; memset(&inj, 0, sizeof inj);
    if (dv->kind == DV_INJECT || dv->kind == DV_CCS || dv->kind == DV_INJECT2) {
        if (dv->kind == DV_CCS) { static unsigned char ccs[16]; int h = k->dtls ? 13 : 5; memset(ccs, 0, sizeof ccs); ccs[0] = 20; ccs[1] = k->dtls ? 254 : 3; ccs[2] = k->cfg.ver == MX_TLS11 ? 2 : k->cfg.ver == MX_DTLS10 ? 255 : k->dtls ? 253 : 3; if (k->dtls) ccs[10] = 77; ccs[h - 1] = 1; ccs[h] = 1; inj = (unit_t) { U_CCS, T_CCS, ccs, h + 1, 0, 1 }; }
        else { const unit_t *src = pool_get(dv->type); static unsigned char empty[12]; memset(empty, 0, sizeof empty); empty[0] = (unsigned char) dv->type;
            static unsigned char pskske[6] = { 12, 0, 0, 2, 0, 0 };   /* ServerKeyExchange of a plain PSK suite with an empty identity hint (legal once, RFC 4279) */
            /* a well-formed NewSessionTicket for modes whose honest run has none: RFC 5077 lifetime(4) ticket<0..2^16-1>; RFC 8446 lifetime(4) age_add(4) nonce<0..255> ticket<1..2^16-1> extensions<0..2^16-2> */
            static unsigned char nst12[4 + 6 + 32] = { 4, 0, 0, 38, 0, 0, 0x0e, 0x10, 0, 32, 0xc0, 0x6e }, nst13[4 + 4 + 4 + 1 + 8 + 2 + 32 + 2] = { 4, 0, 0, 53, 0, 0, 0x0e, 0x10, 1, 2, 3, 4, 8, 1, 1, 1, 1, 1, 1, 1, 1, 0, 32, 0xc0, 0x6e };
            if (src) inj = *src; else if (dv->type == 12 && kx_of(a->m) == 2 && !k->dtls) inj = (unit_t) { U_HS, 12, pskske, 6, 0, 1 };
            else if (dv->type == 4 && !k->dtls) inj = a->m->ver == MX_TLS13 ? (unit_t) { U_HS, 4, nst13, sizeof nst13, 0, 1 } : (unit_t) { U_HS, 4, nst12, sizeof nst12, 0, 1 };
            else inj = (unit_t) { U_HS, dv->type, empty, k->dtls ? 12 : 4, 0, 1 }; inj.origin = 1; }
    }
    for (int i = 0; i <= nu; i++) {
        if ((dv->kind == DV_INJECT || dv->kind == DV_CCS || dv->kind == DV_INJECT2) && dv->pos == i) { dseq[nd++] = inj; if (dv->kind == DV_INJECT2) dseq[nd++] = inj; }
        if (i == nu) break;
        if (dv->kind == DV_DELETE && dv->pos == i) continue;
        if (dv->kind == DV_DELRUN && i >= dv->pos && i < dv->pos + dv->type) continue;
        if (dv->kind == DV_SWAP && dv->pos == i && i + 1 < nu) { dseq[nd++] = u[i + 1]; dseq[nd++] = u[i]; i++; continue; }
        dseq[nd++] = u[i];
        if (dv->kind == DV_DUP && dv->pos == i) dseq[nd++] = u[i];
    }
    /* same as the honest sequence? (e.g. swap of two identical units) */
    int same = nd == nu; for (int i = 0; same && i < nu; i++) if (dseq[i].type != u[i].type || dseq[i].len != u[i].len || memcmp(dseq[i].body, u[i].body, u[i].len)) same = 0;
    /* reference grammar walk */
    gctx_t g = { a->m, a->role, a->resumedActually, a->clientSentCert, a->ticketNegotiated, a->earlyAccepted }; int st = a->gstate0, illegalAt = -1;
    for (int i = 0; i < nd; i++) {
        /* the ServerHello the client takes as such says what was negotiated */
        if (a->role == MX_CLIENT && dseq[i].type == 2 && dseq[i].kind == U_HS && !k->dtls && (st == 0 || st == 10)) { if (a->m->ver == MX_TLS13) g.resumedActually = sh_has_ext(dseq[i].body, dseq[i].len, 4, 41); else g.ticketNegotiated = sh_has_ext(dseq[i].body, dseq[i].len, 4, 35); }
        int ns = g_next(&g, st, dseq[i].type); if (ns < 0) { illegalAt = i; break; } st = ns; }
    char seqs[400]; int so = 0; seqs[0] = 0; for (int i = 0; i < nd && so < 360; i++) so += snprintf(seqs + so, sizeof seqs - so, "%s%s%s", i ? "," : "", i == illegalAt ? "!" : "", tname(dseq[i].type));
    vf_distinct("%s|%s|%d|f%d|%s|%d|%d|fr%d", mx_vername[a->m->ver], a->m->name, a->role, a->flightNo, dvname[dv->kind], dv->pos, dv->type, a->frag);
    /* feed the deviant sequence: one message per record (frag 0/1), or coalesced (frag 2) - then a forked probe of the one-message-per-record
       run first tells, per message, under which protection the receiver would read it and which Finished value matches its transcript there */
    fres_t fr_ = { -1, 0, -1 }; probe_t pr[32]; memset(pr, 0, sizeof pr);
    if (a->frag == 2) {
        int pfd[2]; if (pipe(pfd)) { vf_incon("pipe failed"); return; }
        fflush(NULL); pid_t pp = fork(); if (pp < 0) { vf_incon("fork failed"); return; }
        if (pp == 0) { close(pfd[0]); alarm(40); fres_t f2 = { -1, 0, -1 }; feed_per_record(a, k, T, P, dseq, nd, same, illegalAt, pr, &f2); ssize_t w = write(pfd[1], pr, sizeof pr); _exit(w == (ssize_t) sizeof pr ? 0 : 3); }
        close(pfd[1]); size_t got = 0; ssize_t r_; while (got < sizeof pr && (r_ = read(pfd[0], (char *) pr + got, sizeof pr - got)) > 0) got += r_; close(pfd[0]);
        int st_ = 0; while (waitpid(pp, &st_, 0) < 0 && errno == EINTR) ;
        if (got != sizeof pr || !WIFEXITED(st_) || WEXITSTATUS(st_)) { fprintf(stderr, "C06: the one-message-per-record probe of a coalesced case ended abnormally (status %d)\n", st_); abort(); }   /* its sanitizer report is in this case's stderr */
        feed_coalesced(a, k, T, P, dseq, nd, same, illegalAt, pr, &fr_);
    } else feed_per_record(a, k, T, P, dseq, nd, same, illegalAt, NULL, &fr_);
    int firstAcceptedIllegal = fr_.firstAcceptedIllegal, completedEarly = fr_.completedEarly, completedAt = fr_.completedAt;
    if (firstAcceptedIllegal >= 0) {
        /* The state machine let an illegal message through.  The statement is violated only if the handshake can then COMPLETE,
           which needs a sender whose own transcript contains the same deviant sequence: give the honest sender that transcript
           (feed the extra message into its running handshake hash through the library's own function) and see. */
        vf_stat("lax_state_machine_observations", 1); if (getenv("C06_LAXLOG")) { FILE *lf = fopen(getenv("C06_LAXLOG"), "a"); if (lf) { fprintf(lf, "LAX %s [%s]\n", cur_desc, seqs); fclose(lf); } }
        vf_statf(1, "lax_%s_%s_%s", mx_vername[a->m->ver], a->role ? "server" : "client", tname(dseq[firstAcceptedIllegal].type));
    }
    /* Transcript-consistent deviant sender (TLS <= 1.2 over TCP, before the sender's ChangeCipherSpec): a malicious peer's own
       transcript contains exactly what it sent.  Re-base the sender's running handshake hash on the receiver's view - every
       handshake message exchanged before this flight plus the deviant sequence the receiver consumed - with the library's own
       functions, so that the rest of the handshake (the receiver's Finished checked by the sender, the sender's Finished checked
       by the receiver) is decided by the receiver's state machine alone and not by a transcript mismatch. */
    if (dv->kind != DV_NONE && !same && !k->dtls && a->m->ver != MX_TLS13 && !is_dead(T) && !matrixSslHandshakeIsComplete(T->ssl)
        && !(P->ssl->flags & (SSL_FLAGS_WRITE_SECURE | SSL_FLAGS_READ_SECURE)) && !(T->ssl->flags & SSL_FLAGS_READ_SECURE)) {
        MX_ENTER(); sslInitHSHash(P->ssl);
        for (int i = 0; i < ntr; i++) sslUpdateHSHash(P->ssl, tr[i].body, tr[i].len);
        for (int i = 0; i < nd; i++) if (dseq[i].kind == U_HS && dseq[i].type != 0) sslUpdateHSHash(P->ssl, dseq[i].body, dseq[i].len);   /* HelloRequest is never hashed */
        MX_LEAVE();
        vf_stat("transcript_consistent_sender_runs", 1);
    }
    /* let the rest of the honest handshake run */
    mx_conn_run(k, NULL, NULL, 300);
    /* completion observed at any point counts, whatever follows - unless it happened exactly when the complete honest flight had been
       consumed as a prefix of the deviant sequence (what comes after a completed handshake is C15's subject) */
    /* coalesced framing: completion is observed per record; a record that begins with the complete honest flight may legally complete the handshake */
    int honestPrefix = completedEarly && (completedAt == nu - 1 || (a->frag == 2 && completedAt >= nu - 1));
    for (int j = 0; honestPrefix && j < nu; j++) { int fin = (dseq[j].type == 20 || dseq[j].type == T_ENCFIN) && (u[j].type == 20 || u[j].type == T_ENCFIN);   /* a crafted Finished stands for the honest one */
        if (!fin && (dseq[j].type != u[j].type || dseq[j].len != u[j].len || memcmp(dseq[j].body, u[j].body, u[j].len))) honestPrefix = 0; }
    int complete = ((matrixSslHandshakeIsComplete(T->ssl) && !is_dead(T)) || completedEarly) && !honestPrefix;
    if (honestPrefix) vf_stat("completed_on_honest_prefix_then_extra_message", 1);
    if (dv->kind == DV_NONE || same) {
        if (!mx_conn_established(k)) vf_violation("c06:harness:legal-reframed-sequence-rejected", cur_desc, "one-message-per-record re-framing of the honest flight [%s] was refused (mode %s %s)", seqs, mx_vername[a->m->ver], a->m->name);
        else vf_stat("positive_controls_ok", 1);
        return;
    }
    if (complete && illegalAt < 0) { vf_stat("grammar_legal_deviations_completed", 1); vf_statf(1, "legal_completed_%s_%s", dvname[dv->kind], tname(dv->type)); }
    else if (complete) report(a, "completed-with-deviant-sequence", dv->kind == DV_INJECT || dv->kind == DV_INJECT2 || dv->kind == DV_CCS ? inj.type : u[dv->pos < nu ? dv->pos : nu - 1].type, "receiver reports a completed handshake after consuming [%s] instead of the honest flight", seqs);
    else vf_stat(illegalAt >= 0 ? "deviations_refused_at_offending_message_or_later" : "structurally_legal_deviations_refused_later", 1);
}

static long g_idx;
/* Sharding: every shard that executes cases of a (mode, role) pair must first run that pair's honest and priming handshakes itself.  The
   shards are therefore split into G groups, each pair belongs to one group, and the pair's cases are dealt round-robin within the group. */
static int grp_n = 1, grp_of_shard, grp_rank, grp_size = 1;
static void grp_init(void) { grp_n = (vf_nshards >= 8 && vf_nshards % 4 == 0) ? 4 : 1; grp_of_shard = vf_shard % grp_n; grp_rank = vf_shard / grp_n; grp_size = vf_nshards / grp_n; }
static int grp_mine(long idx) { return grp_size <= 1 || (idx % grp_size) == grp_rank; }
static void at_flight(mx_conn *k, const hmode_t *m, int role, int flightNo, int gstate0, int resumedActually, int clientSentCert, int ticketNeg, int earlyAccepted)
{
    mx_ep *T = role == MX_SERVER ? &k->s : &k->c, *P = role == MX_SERVER ? &k->c : &k->s; int d = role == MX_SERVER ? 0 : 1;
    unit_t u[24]; int nu = split_flight(k, T, P, k->q[d] + k->qoff[d], k->qlen[d] - k->qoff[d], u, 24);
    if (nu <= 0) return;
    int alphabet[20] = { 0, 1, 2, 4, 5, 8, 11, 12, 13, 14, 15, 16, 20, 22, 24, 99 }, nalpha = 16;
    if (m->ver == MX_TLS13 && pool_get(T_HRR)) alphabet[nalpha++] = T_HRR;      /* only where the honest run supplies one */
    devn_t list[900]; int nl = 0;
    list[nl++] = (devn_t) { DV_NONE, 0, 0 };
    if (k->dtls) { for (int i = 0; i < nu; i++) list[nl++] = (devn_t) { DV_DELETE, i, u[i].type }; goto run; }   /* duplicates, reordering and stray records may legally be ignored by DTLS */
    for (int i = 0; i < nu; i++) { list[nl++] = (devn_t) { DV_DELETE, i, u[i].type }; list[nl++] = (devn_t) { DV_DUP, i, u[i].type }; if (i + 1 < nu) list[nl++] = (devn_t) { DV_SWAP, i, u[i].type }; }
    if (m->ckt && !vf_thorough) goto run;      /* key-type modes, quick: no injections */
    for (int i = 0; i <= nu; i++) { for (int t = 0; t < nalpha; t++) { list[nl++] = (devn_t) { DV_INJECT, i, alphabet[t] }; int a2 = alphabet[t]; if (nl < 890 && (vf_thorough || a2 == 4 || a2 == 12 || a2 == 13 || a2 == 22 || a2 == 8)) list[nl++] = (devn_t) { DV_INJECT2, i, a2 }; } if (m->ver != MX_TLS13) list[nl++] = (devn_t) { DV_CCS, i, T_CCS }; }
run:
    /* skipping a block of 2 .. nu-1 adjacent messages (e.g. Certificate + CertificateVerify, ClientKeyExchange + ChangeCipherSpec) */
    for (int len = 2; len < nu; len++) for (int i = 0; i + len <= nu && nl < 900; i++) list[nl++] = (devn_t) { DV_DELRUN, i, len };
    for (int j = 0; j < nl; j++) {
        long idx = g_idx++;
        if (!grp_mine(idx)) continue;
        for (int fr = 0; fr < 3; fr++) {
            /* coalesced framing (not DTLS): every deletion, skipped block, swap, duplicate, premature ChangeCipherSpec and injected Finished, a seventh of the other injections in quick */
            if (fr == 2 && (k->dtls || !(vf_thorough || list[j].kind == DV_NONE || list[j].kind == DV_DELETE || list[j].kind == DV_DELRUN || list[j].kind == DV_SWAP || list[j].kind == DV_DUP || list[j].kind == DV_CCS || (list[j].kind == DV_INJECT && list[j].type == 20) || (j % 7) == 1))) continue;
            if (fr == 1 && (k->dtls || !((m->ver == MX_TLS13 && !m->lightfrag) || vf_thorough || (j % 3) == 0))) continue;     /* fragmented framing: all cases of the basic TLS 1.3 modes, a third of the others in quick */
            child_arg a = { k, m, role, flightNo, gstate0, list[j], resumedActually, clientSentCert, ticketNeg, fr, earlyAccepted };
            snprintf(cur_desc, sizeof cur_desc, "mode=%s/%s role=%d flight=%d dev=%s pos=%d type=%d%s", mx_vername[m->ver], m->name, role, flightNo, dvname[list[j].kind], list[j].pos, list[j].type, fr == 1 ? " frag" : fr == 2 ? " coalesced" : "");
            if (vf_case && strcmp(vf_case, cur_desc)) continue;
            if (idx % 503 == 0 && !fr) vf_sample("%s", cur_desc);
            vf_fork_case(child_run, &a, "c06", cur_desc, 60);
        }
    }
    for (int i = 0; i < nu; i++) free(u[i].body);
}

static void collect_pool(mx_conn *k)
{
    /* plaintext handshake messages of both directions (TLS <= 1.2 / DTLS: before CCS; TLS 1.3: ClientHello, ServerHello) */
    for (int d = 0; d < 2; d++) { int off = 0; mx_rec r; int hh = k->dtls ? 12 : 4, ccs = 0;
        while (mx_rec_at(k->wire[d], k->wirelen[d], off, k->dtls, &r)) { const unsigned char *p = k->wire[d] + off + r.hdr;
            if (r.type == 20) ccs = 1;
            if (r.type == 22 && !ccs && !(k->dtls && r.epoch > 0)) { int o = 0; while (o + hh <= r.len && npool < 64) { int l = (p[o + 1] << 16) | (p[o + 2] << 8) | p[o + 3]; if (k->dtls) l = (p[o + 9] << 16) | (p[o + 10] << 8) | p[o + 11]; if (o + hh + l > r.len) break;
                int ty = k->dtls ? p[o] : hs_type_of(p + o, hh + l);
                if (!pool_get(ty)) { pool[npool] = (unit_t) { U_HS, ty, malloc(hh + l), hh + l, 0, 1 }; memcpy(pool[npool].body, p + o, hh + l); npool++; } o += hh + l; } }
            off += r.hdr + r.len; } }
}

/* the first ServerHello proper (not a HelloRetryRequest) the server of connection k has put on the wire so far; TLS only */
static int wire_server_hello(mx_conn *k, const unsigned char **sh, int *len, int *sawHrr)
{
    int off = 0; mx_rec r; *sawHrr = 0;
    while (mx_rec_at(k->wire[1], k->wirelen[1], off, 0, &r)) { const unsigned char *p = k->wire[1] + off + r.hdr;
        if (r.type == 22) { int o = 0; while (o + 4 <= r.len) { int l = (p[o + 1] << 16) | (p[o + 2] << 8) | p[o + 3]; if (o + 4 + l > r.len) return 0; int ty = hs_type_of(p + o, 4 + l);
            if (ty == T_HRR) *sawHrr = 1; else if (ty == 2) { *sh = p + o; *len = 4 + l; return 1; } else return 0; o += 4 + l; } }
        else if (r.type != 20) return 0;
        off += r.hdr + r.len; }
    return 0;
}

static void run_mode(const hmode_t *m, int role)
{
    sslSessionId_t *sid; matrixSslNewSessionId(&sid, NULL); mx_conn k;
    /* honest run first: message pool + what the mode really negotiated */
    npool = 0; int resumedActually = 0, ticketNeg = 0, earlyAccepted = m->early, honestOk = 1;
    for (int round = 0; round < (m->resumed ? 2 : 1); round++) { int last = round == (m->resumed ? 1 : 0); if (mode_open(&k, m, !last, sid) != 0) { vf_incon("open failed"); return; } mx_conn_run(&k, NULL, NULL, 300);
        if (!mx_conn_established(&k)) { vf_incon("honest handshake failed for %s/%s", mx_vername[m->ver], m->name); honestOk = 0;
            /* TLS 1.3: what was negotiated is read from the attacked connection's wire, so the deviations can be judged all the same (a receiver that refuses the legal sequence may well accept an illegal one) */
            if (m->ver != MX_TLS13 || !last) { mx_conn_close(&k); return; } }
        if (round == 0 && m->resumed) collect_pool(&k);    /* priming (full) handshake: Certificate, ServerKeyExchange, ... stay available for injection into the resumed one */
        if (last) { unit_t keep[64]; int nkeep = npool; memcpy(keep, pool, sizeof keep); npool = 0; collect_pool(&k);
            for (int i = 0; i < nkeep; i++) { if (!pool_get(keep[i].type) && npool < 64) pool[npool++] = keep[i]; else free(keep[i].body); } resumedActually = matrixSslIsResumedSession(k.s.ssl) ? 1 : 0; if (m->ver == MX_TLS13) resumedActually = k.s.ssl->sec.tls13UsingPsk ? 1 : 0; }
        mx_conn_close(&k); }
    if (honestOk && expect_resumed(m) != resumedActually) vf_incon("mode %s/%s: resumption expected %d, seen %d", mx_vername[m->ver], m->name, expect_resumed(m), resumedActually);
    matrixSslDeleteSessionId(sid); matrixSslNewSessionId(&sid, NULL);
    if (m->resumed) { if (mode_open(&k, m, 1, sid) != 0) return; mx_conn_run(&k, NULL, NULL, 300); mx_conn_close(&k); }
    if (mode_open(&k, m, 0, sid) != 0) return;
    int d = role == MX_SERVER ? 0 : 1, flightNo = 0, gstate = 0;
    for (int i = 0; i < ntr; i++) free(tr[i].body); ntr = 0;
    for (int iter = 0; iter < 40; iter++) {
        mx_conn_collect(&k);
        int pend0 = k.qlen[0] - k.qoff[0], pend1 = k.qlen[1] - k.qoff[1];
        if (!pend0 && !pend1) break;
        if (getenv("C06_TRACE")) fprintf(stderr, "[%s/%s role %d] iter %d pend c->s %d s->c %d, complete c=%d s=%d dead c=%d s=%d\n", mx_vername[m->ver], m->name, role, iter, pend0, pend1, matrixSslHandshakeIsComplete(k.c.ssl), matrixSslHandshakeIsComplete(k.s.ssl), k.c.dead, k.s.dead);
        /* the flight travelling towards the sender of the attacked direction: part of the transcript both sides share */
        if (!k.dtls && (m->ver != MX_TLS13 || role == MX_SERVER) && (d == 0 ? pend1 : pend0) > 0) { int od = !d; unit_t v[24]; int nv = split_flight(&k, od == 0 ? &k.s : &k.c, od == 0 ? &k.c : &k.s, k.q[od] + k.qoff[od], k.qlen[od] - k.qoff[od], v, 24);
            for (int i = 0; i < nv; i++) {
                if (m->ver == MX_TLS13 && role == MX_SERVER && v[i].type == 8) { earlyAccepted = ee_has_ext(v[i].body, v[i].len, 42); if (earlyAccepted != m->early) vf_incon("mode %s: early data accepted %d, expected %d", m->name, earlyAccepted, m->early); }
                if (m->ver != MX_TLS13 && v[i].kind == U_HS && v[i].type != 0 && ntr < 64) tr[ntr++] = v[i]; else free(v[i].body); } }
        /* TLS 1.3: PSK accepted <=> the ServerHello carries pre_shared_key */
        if (m->ver == MX_TLS13) { const unsigned char *sh; int shl, sawHrr; if (wire_server_hello(&k, &sh, &shl, &sawHrr)) { int r13 = sh_has_ext(sh, shl, 4, 41);
            if (r13 != resumedActually && honestOk) vf_incon("mode %s: ServerHello pre_shared_key %d but the honest run's server used a PSK %d", m->name, r13, resumedActually);
            resumedActually = r13; if (sawHrr != m->hrr) vf_incon("mode %s: HelloRetryRequest seen %d, expected %d", m->name, sawHrr, m->hrr); } }
        if ((d == 0 ? pend0 : pend1) > 0) {
            mx_ep *T = role == MX_SERVER ? &k.s : &k.c;
            if (!matrixSslHandshakeIsComplete(T->ssl)) {
                int clientSentCert = m->clientAuth;   /* the honest client presents its certificate when asked */
                at_flight(&k, m, role, flightNo, gstate, resumedActually, clientSentCert, ticketNeg, earlyAccepted);
                /* advance the reference state over the honest flight */
                unit_t u[24]; mx_ep *P = role == MX_SERVER ? &k.c : &k.s; int nu = split_flight(&k, T, P, k.q[d] + k.qoff[d], k.qlen[d] - k.qoff[d], u, 24);
                gctx_t g = { m, role, resumedActually, clientSentCert, ticketNeg, earlyAccepted };
                int bad = 0; for (int i = 0; i < nu; i++) {
                    if (role == MX_CLIENT && u[i].type == 2 && u[i].kind == U_HS && !k.dtls) { if (m->ver == MX_TLS13) g.resumedActually = resumedActually = sh_has_ext(u[i].body, u[i].len, 4, 41); else g.ticketNegotiated = ticketNeg = sh_has_ext(u[i].body, u[i].len, 4, 35); }
                    int ns = bad ? -1 : g_next(&g, gstate, u[i].type); if (ns < 0 && !bad) { bad = 1; if (!k.dtls) vf_violation("c06:harness:grammar-rejects-honest-flight", m->name, "reference grammar rejects honest message %s in state %d (%s/%s role %d)", tname(u[i].type), gstate, mx_vername[m->ver], m->name, role); } if (!bad) gstate = ns; if (!k.dtls && m->ver != MX_TLS13 && u[i].kind == U_HS && u[i].type != 0 && ntr < 64) tr[ntr++] = u[i]; else free(u[i].body); }
                flightNo++;
            }
        }
        /* deliver honestly what was pending at the top of this iteration - not the answer collected while a flight of several records (ClientHello + 0-RTT data) is being delivered */
        { int target[2] = { k.qlen[0], k.qlen[1] }; for (int dd = 0; dd < 2; dd++) while (k.qoff[dd] < target[dd] && mx_conn_step(&k, dd) == dd) ; }
    }
    if (grp_rank == 0) { vf_stat("modes", 1); vf_stat("flights_attacked", flightNo); }
    if (m->offer == OF_TKT_NOECHO && role == MX_CLIENT && ticketNeg) vf_incon("mode %s: the server echoed the session_ticket extension", m->name);
    mx_conn_close(&k); matrixSslDeleteSessionId(sid);
    for (int i = 0; i < npool; i++) free(pool[i].body); npool = 0;
}

int main(int argc, char **argv)
{
    vf_init(argc, argv); mx_global_init(); mx_keys_load(); own_keys_load(); build_modes();
    grp_init(); int pair = 0;
    for (int i = 0; i < nmodes; i++) for (int role = 0; role < 2; role++) { if (!vf_thorough && !vf_case && !(modes[i].quick & (1 << role))) continue; if (getenv("C06_ONLY") && !strstr(modes[i].name, getenv("C06_ONLY"))) continue; if ((pair++) % grp_n != grp_of_shard) continue; mx_entropy_seed(vf_seed * 977 + i * 2 + role); run_mode(&modes[i], role); }
    own_keys_free(); mx_keys_free(); matrixSslClose(); vf_flush();
    return 0;
}
