"""C13 - big-integer arithmetic is mathematically exact for all operands.

Differential check of every pstm_* operation against GMP (checks/c13_bignum.c).
quick: one stage on the ASan+UBSan build (~300 k library calls, seed-stable grid).
thorough: the same harness on the ASan build (x16) and a second stage on the
`prod` build (repository default flags, -O3 + inline asm; x320).
"""
import json, os, re
import vflib

SRC = ["checks/c13_bignum.c"]
RULE = ("one evaluation = one pstm_* call whose result, sign, return code and object invariants were compared with GMP; "
        "distinct = (function, digit-count class of each operand, value kind of each operand, alias mode, sign combination, "
        "fresh/stale output) tuples executed")
ASSUME = [
    "GMP (mpz_*) is the reference for exact integer arithmetic",
    "API preconditions honoured: moduli positive (odd and >1 for Montgomery helpers), pstm_sub_s only with |a|>=|b|, "
    "pstm_exptmod with 1<=x<p and p odd of 512..4096 bits, pstm_montgomery_reduce with 0<=a<m*R and 2|m|+1 digits of room, "
    "pstm_invmod canonical result demanded only for 0<a<b (congruence otherwise), pstm_div_2d quotient aliasing the input only without remainder",
    "operands up to 64 digits of 64 bits (4096 bit), the largest key size the configuration supports",
]


def _stage(variant, mult):
    return dict(variant=variant, name="c13_bignum", sources=SRC, libs=["-lgmp"],
                args=["--variant", variant, "--mult", str(mult)],
                replay_filter=lambda case, v=variant: ("v=" not in case) or ("v=" + v) in case)


def run(ctx):
    if ctx.replay:
        rp = json.load(open(ctx.replay)) if os.path.exists(ctx.replay) else {"replay": ctx.replay}
        case = rp.get("replay") or ""
        m = re.search(r"v=(\w+)", case)
        stages = [_stage(m.group(1) if m and m.group(1) in vflib.VARIANTS else "asan", 1)]
    elif ctx.thorough:
        stages = [_stage("asan", 16), _stage("prod", 320)]
    else:
        stages = [_stage("asan", 1)]
    return vflib.std_run(ctx, stages, "exploration", RULE, ASSUME, min_nontrivial=2000)
