/* C14 - resumption only with this server's own unexpired, untampered session state.
 *
 * History generator + sequential-model checker.  Every history runs in a fork()ed child of a parent
 * that has only loaded keys (the session cache is a process global), is a pure function of
 * (seed, history index) and consists of operations over several logical clients and two server key
 * sets: full handshake, resume by id / ticket / TLS 1.3 PSK, replay of any issued credential,
 * presentation of forged / edited / truncated / foreign / cross-version credentials (ClientHello
 * bytes edited on the wire with lengths fixed up, or a crafted client-side sslSessionId_t; extended_master_secret
 * removed / inserted before, directly after or after session_ticket, or flipped in the genuine client's
 * configuration), TLS 1.3 tickets presented by a client whose clock is not the server's (the claimed ticket
 * age is the client's business; expiry is judged on the server's clock only), clock
 * steps around both lifetimes, fatal alerts on live or resumed connections, close, abandon,
 * cache fill beyond 32 entries, ticket-key load / delete / rotate.
 *
 * Each operation appends an event (what was presented, the server's decision observed when the
 * ServerHello flight appears: SSL_FLAGS_RESUMED / abbreviated flight / pre_shared_key extension,
 * secret digests from both ssl_t, virtual time, credentials issued, alerts).  After the history the
 * checker replays the log against the model  credential -> {secret, version, suite, EMS, issue time,
 * key, invalidated}:  "server says resumed" must be justified by a byte-exact, unexpired,
 * non-invalidated credential of matching version/suite/EMS issued under a key loaded in that
 * server's key set, and the server must be using exactly that credential's secret. */
#include "mx.h"
#include <time.h>

/* ---- the library's session clock is CLOCK_MONOTONIC (USE_HIGHRES_TIME on x86_64): virtualise it ---- */
int __real_clock_gettime(clockid_t id, struct timespec *ts);
#define MONO_BASE 1789990000L
/* The client's clock is its own: while the library runs on behalf of the client endpoint (mx_actor 0) its clock reads
   mx_now + g_cli_skew.  The server (and the model) live on mx_now.  Only TLS 1.3 clients consult the clock (ticket age). */
static long g_cli_skew;
int __wrap_clock_gettime(clockid_t id, struct timespec *ts)
{
    if (id == CLOCK_MONOTONIC) { ts->tv_sec = mx_now - MONO_BASE + (mx_actor == 0 ? g_cli_skew : 0); ts->tv_nsec = 0; return 0; }
    return __real_clock_gettime(id, ts);
}

#define LIFE_CACHE 86400L          /* SSL_SESSION_ENTRY_LIFE / 1000 (session cache and RFC 5077 tickets) */
#define LIFE_T13   ((long) TLS_1_3_TICKET_LIFETIME)
#define CLOCK_CAP  (140L * 86400L) /* sample certificates expire 2027-03-17 */

static int rd16(const unsigned char *p) { return (p[0] << 8) | p[1]; }
static int rd24(const unsigned char *p) { return (p[0] << 16) | (p[1] << 8) | p[2]; }
static void wr16(unsigned char *p, int v) { p[0] = (unsigned char) (v >> 8); p[1] = (unsigned char) v; }
static void wr24(unsigned char *p, int v) { p[0] = (unsigned char) (v >> 16); p[1] = (unsigned char) (v >> 8); p[2] = (unsigned char) v; }
static uint64_t dig(const void *p, size_t n) { uint64_t h = vf_hash(p, n); return h ? h : 1; }

enum { CK_SID = 0, CK_TICKET, CK_PSK, CK_NONE };
static const char *ckname[] = { "session-id", "ticket", "psk", "none" };

/* ================= ClientHello parsing (one record holding one ClientHello) ================= */
typedef struct {
    int ok, dtls, total, hdr, hs, hsh, body;
    int sidl, sidn;             /* offset of the session id length byte, id length */
    int suites, nsuites;        /* offset of the 2-byte suites length, number of suites */
    int exts, extn;             /* offset of the 2-byte extensions length (-1: none) */
    int tkt, tktn;              /* session_ticket extension header offset, data length */
    int ems;                    /* extended_master_secret extension header offset */
    int psk, pskn;              /* pre_shared_key extension header offset, data length */
    int ids, id0, id0n;         /* identities vector length offset; first identity length offset; its length */
    int binders, b0, b0n;       /* binders vector length offset; first binder length byte offset; its length */
    int emsAfterTkt;            /* both present and extended_master_secret follows session_ticket on the wire */
    int maxver;                 /* highest version offered (legacy_version or supported_versions) */
} chi;

static int ch_parse(const unsigned char *b, int n, int dtls, chi *c)
{
    memset(c, 0, sizeof *c); c->dtls = dtls; c->exts = c->tkt = c->ems = c->psk = -1;
    c->hdr = dtls ? 13 : 5; c->hsh = dtls ? 12 : 4;
    if (n < c->hdr + c->hsh + 35 || b[0] != 22) return 0;
    int rl = rd16(b + c->hdr - 2); if (c->hdr + rl > n) return 0;
    c->total = c->hdr + rl; c->hs = c->hdr;
    if (b[c->hs] != 1) return 0;
    int hl = rd24(b + c->hs + 1); if (c->hs + c->hsh + hl != c->total) return 0;
    int p = c->hs + c->hsh, end = c->total;
    c->body = p; c->maxver = rd16(b + p); p += 2 + 32;
    c->sidl = p; c->sidn = b[p]; p += 1 + c->sidn; if (p > end || c->sidn > 32) return 0;
    if (dtls) { if (p >= end) return 0; p += 1 + b[p]; if (p > end) return 0; }
    if (p + 2 > end) return 0;
    c->suites = p; int sl = rd16(b + p); c->nsuites = sl / 2; p += 2 + sl; if (p >= end) return 0;
    p += 1 + b[p]; if (p > end) return 0;
    if (p == end) { c->ok = 1; return 1; }
    if (p + 2 > end) return 0;
    c->exts = p; c->extn = rd16(b + p); p += 2; if (p + c->extn != end) return 0;
    while (p + 4 <= end) {
        int t = rd16(b + p), l = rd16(b + p + 2); if (p + 4 + l > end) return 0;
        if (t == 0x0023) { c->tkt = p; c->tktn = l; }
        else if (t == 0x0017) { c->ems = p; c->emsAfterTkt = c->tkt >= 0; }
        else if (t == 0x002b && l >= 1) { int ll = b[p + 4]; for (int i = 0; i + 1 < ll && 1 + i + 1 < l + 1; i += 2) { int v = rd16(b + p + 5 + i); if ((v & 0xff00) == 0x0300 && v > c->maxver) c->maxver = v; } }
        else if (t == 0x0029) {
            c->psk = p; c->pskn = l; int q = p + 4, qe = q + l;
            if (q + 2 > qe) return 0;
            c->ids = q; int il = rd16(b + q); q += 2; if (q + il > qe || il < 7) return 0;
            c->id0 = q; c->id0n = rd16(b + q); if (q + 2 + c->id0n + 4 > c->ids + 2 + il) return 0;
            q = c->ids + 2 + il; if (q + 3 > qe) return 0;
            c->binders = q; q += 2; c->b0 = q; c->b0n = b[q]; if (q + 1 + c->b0n > qe) return 0;
        }
        p += 4 + l;
    }
    c->ok = 1; return 1;
}

/* replace buf[at, at+del) by ins[0, insn); fix the enclosing length fields selected by `fix` */
#define FX_EXTS 1
#define FX_TKT  2
#define FX_PSK  4
#define FX_IDS  8
#define FX_ID0  16
static void ch_splice(unsigned char **pb, int *pn, const chi *c, int at, int del, const unsigned char *ins, int insn, int fix)
{
    int delta = insn - del, n = *pn;
    unsigned char *b = *pb;
    if (delta > 0) { b = realloc(b, n + delta + 1); *pb = b; }
    memmove(b + at + insn, b + at + del, n - at - del);
    if (insn) memcpy(b + at, ins, insn);
    *pn = n + delta;
    wr16(b + c->hdr - 2, rd16(b + c->hdr - 2) + delta);
    wr24(b + c->hs + 1, rd24(b + c->hs + 1) + delta);
    if (c->dtls) wr24(b + c->hs + 9, rd24(b + c->hs + 9) + delta);
    if ((fix & FX_EXTS) && c->exts >= 0) wr16(b + c->exts, rd16(b + c->exts) + delta);
    if ((fix & FX_TKT) && c->tkt >= 0) wr16(b + c->tkt + 2, rd16(b + c->tkt + 2) + delta);
    if ((fix & FX_PSK) && c->psk >= 0) wr16(b + c->psk + 2, rd16(b + c->psk + 2) + delta);
    if ((fix & FX_IDS) && c->psk >= 0) wr16(b + c->ids, rd16(b + c->ids) + delta);
    if ((fix & FX_ID0) && c->psk >= 0) wr16(b + c->id0, rd16(b + c->id0) + delta);
}

/* ---- mutations of a ClientHello on the wire ---- */
enum { MU_NONE = 0, MU_SID_TRUNC, MU_SID_XOR, MU_SID_SET, MU_TKT_XOR, MU_TKT_TRUNC, MU_TKT_EXTEND, MU_TKT_NAME,
       MU_PSKID_XOR, MU_PSKID_NAME, MU_AGE_XOR, MU_BINDER_XOR, MU_SUITE_SWAP, MU_EMS_REMOVE, MU_EMS_ADD, MU_XVER, MU_IDPLUS, MU_N };
static const char *muname[] = { "none", "truncated-id", "edited-id", "foreign-id", "edited-ticket", "truncated-ticket", "extended-ticket", "renamed-ticket-key",
                                "edited-psk-identity", "renamed-psk-ticket-key", "edited-ticket-age", "edited-binder", "suite-removed", "ems-removed", "ems-added", "cross-version-ticket", "own-ticket-plus-victims-id" };
typedef struct { int kind, pos, val; unsigned char bytes[40]; int blen; uint16_t suiteFrom, suiteTo; } mut_t;

/* returns 1 when the edit was applied (and changed at least one byte) */
static int ch_mutate(unsigned char **pb, int *pn, int dtls, const mut_t *m)
{
    chi c; if (!ch_parse(*pb, *pn, dtls, &c)) return 0;
    unsigned char *b = *pb; unsigned char x = (unsigned char) (m->val ? m->val : 1);
    switch (m->kind) {
    case MU_SID_TRUNC: { if (c.sidn < 2) return 0; int k = 1 + m->pos % (c.sidn - 1); ch_splice(pb, pn, &c, c.sidl + 1 + k, c.sidn - k, NULL, 0, 0); (*pb)[c.sidl] = (unsigned char) k; return 1; }
    case MU_SID_XOR: if (!c.sidn) return 0; b[c.sidl + 1 + m->pos % c.sidn] ^= x; return 1;
    case MU_SID_SET: ch_splice(pb, pn, &c, c.sidl + 1, c.sidn, m->bytes, m->blen, 0); (*pb)[c.sidl] = (unsigned char) m->blen; return 1;
    case MU_TKT_XOR: if (c.tkt < 0 || !c.tktn) return 0; b[c.tkt + 4 + m->pos % c.tktn] ^= x; return 1;
    case MU_TKT_TRUNC: { if (c.tkt < 0 || c.tktn < 2) return 0; int k = 1 + m->pos % (c.tktn - 1); ch_splice(pb, pn, &c, c.tkt + 4 + k, c.tktn - k, NULL, 0, FX_EXTS | FX_TKT); return 1; }
    case MU_TKT_EXTEND: { if (c.tkt < 0 || !c.tktn) return 0; unsigned char z[16]; memset(z, x, 16); ch_splice(pb, pn, &c, c.tkt + 4 + c.tktn, 0, z, 1 + m->pos % 16, FX_EXTS | FX_TKT); return 1; }
    case MU_TKT_NAME: if (c.tkt < 0 || c.tktn < 16 || !memcmp(b + c.tkt + 4, m->bytes, 16)) return 0; memcpy(b + c.tkt + 4, m->bytes, 16); return 1;
    case MU_PSKID_XOR: if (c.psk < 0 || !c.id0n) return 0; b[c.id0 + 2 + m->pos % c.id0n] ^= x; return 1;
    case MU_PSKID_NAME: if (c.psk < 0 || c.id0n < 16 || !memcmp(b + c.id0 + 2, m->bytes, 16)) return 0; memcpy(b + c.id0 + 2, m->bytes, 16); return 1;
    case MU_AGE_XOR: if (c.psk < 0) return 0; b[c.id0 + 2 + c.id0n + m->pos % 4] ^= x; return 1;
    case MU_BINDER_XOR: if (c.psk < 0 || !c.b0n) return 0; b[c.b0 + 1 + m->pos % c.b0n] ^= x; return 1;
    case MU_SUITE_SWAP: { int hit = 0; for (int i = 0; i < c.nsuites; i++) if (rd16(b + c.suites + 2 + 2 * i) == m->suiteFrom) { wr16(b + c.suites + 2 + 2 * i, m->suiteTo); hit = 1; } return hit; }
    case MU_EMS_REMOVE: if (c.ems < 0) return 0; ch_splice(pb, pn, &c, c.ems, 4 + rd16(b + c.ems + 2), NULL, 0, FX_EXTS); return 1;
    case MU_EMS_ADD: {
        /* placement matters: a server that judges the ticket while walking the extensions has not seen an extended_master_secret
           that follows session_ticket (the order of MatrixSSL's and OpenSSL's hellos).  pos%4: 0 first, 1 last (before
           pre_shared_key, which must stay last), 2 directly after session_ticket (last when there is none) */
        if (c.ems >= 0 || c.exts < 0) return 0; static const unsigned char e[4] = { 0, 0x17, 0, 0 };
        int last = c.psk >= 0 ? c.psk : c.total, at = c.exts + 2;
        if (m->pos % 4 == 1) at = last; else if (m->pos % 4 == 2) at = c.tkt >= 0 ? c.tkt + 4 + c.tktn : last;
        ch_splice(pb, pn, &c, at, 0, e, 4, FX_EXTS); return 1; }
    }
    return 0;
}

/* ================= server flight parsing ================= */
typedef struct {
    int sh, hrr, ver, suite, sidn; unsigned char sid[32]; int hasPsk, hasEms;
    int ccs, fullMsgs;          /* ChangeCipherSpec in the same flight; Certificate/ServerKeyExchange/ServerHelloDone seen */
    int nstn; unsigned char nst[320];
    int alert, alertLevel, alertDesc;
} flight;
static const unsigned char hrr_magic[8] = { 0xCF, 0x21, 0xAD, 0x74, 0xE5, 0x9A, 0x61, 0x11 };
/* *enc: set once the sender's records are protected (ChangeCipherSpec seen, or TLS 1.3 ServerHello passed) */
static void parse_flight(const unsigned char *b, int n, int dtls, int *enc, flight *f)
{
    int off = 0; mx_rec r; int hh = dtls ? 12 : 4;
    while (mx_rec_at(b, n, off, dtls, &r)) {
        const unsigned char *p = b + off + r.hdr; int l = r.len;
        off += r.hdr + r.len;
        if (r.type == 20) { if (f->sh && !f->fullMsgs) f->ccs = 1; if (!(f->sh && f->ver == 0x0304)) *enc = 1; continue; }
        if (*enc || (dtls && r.epoch != 0)) continue;
        if (r.type == 21 && l >= 2) { f->alert = 1; f->alertLevel = p[0]; f->alertDesc = p[1]; continue; }
        if (r.type != 22) continue;
        int q = 0;
        while (q + hh <= l) {
            int t = p[q], ml = rd24(p + q + 1); const unsigned char *m = p + q + hh;
            if (q + hh + ml > l) break;
            if (t == 2 && ml >= 38) {
                f->sh = 1; f->ver = rd16(m); f->hrr = !memcmp(m + 2, hrr_magic, 8);
                int o = 34; f->sidn = m[o] > 32 ? 32 : m[o]; memcpy(f->sid, m + o + 1, f->sidn); o += 1 + m[o];
                if (o + 3 <= ml) { f->suite = rd16(m + o); o += 3; }
                if (o + 2 <= ml) { int el = rd16(m + o); o += 2; int e = o + el; if (e > ml) e = ml;
                    while (o + 4 <= e) { int et = rd16(m + o), xl = rd16(m + o + 2); if (et == 0x0029) f->hasPsk = 1; if (et == 0x0017) f->hasEms = 1; if (et == 0x002b && xl >= 2) f->ver = rd16(m + o + 4); o += 4 + xl; } }
                if (f->ver == 0x0304 && !f->hrr) *enc = 1;
            } else if (t == 4 && ml >= 6) { int tl = rd16(m + 4); if (tl > 0 && tl <= (int) sizeof f->nst && 6 + tl <= ml) { memcpy(f->nst, m + 6, tl); f->nstn = tl; } }
            else if (t == 11 || t == 12 || t == 14) f->fullMsgs = 1;
            q += hh + ml;
            if (*enc) break;
        }
    }
}
static int ver_class(int wire)
{
    switch (wire) { case 0x0302: return MX_TLS11; case 0x0303: return MX_TLS12; case 0x0304: return MX_TLS13; case 0xfefd: return MX_DTLS12; case 0xfeff: return MX_DTLS10; }
    return -1;
}

/* ================= credentials, events ================= */
#define MAXCRED 700
#define MAXEV 700
#define MAXCL 40
typedef struct {
    int kind, len; unsigned char b[320];
    unsigned char sec[64]; int seclen; uint64_t secd;
    int ver, suite, ems; long issued; int srv, keyuid, owner, op, incomplete;
    psTls13SessionParams_t p13;
    int m_known, m_invalid;     /* model state, written by the checker only */
} cred_t;
static cred_t CR[MAXCRED]; static int nCR;

enum { EV_HS = 0, EV_CLOCK, EV_KEY };
typedef struct {
    int type, op, opkind; long t;
    /* handshake / presentation */
    int client, srv, cfgver, openFail; const char *label; int forged, chEdited, mustResume, mutApplied, crafted;
    int hasCH, maxver, chEms, nsuites; uint16_t suites[32];
    int psidn, ptktn, ppskn, pbindn; unsigned char psid[32], ptkt[320], ppsk[320], pbind[64];
    int emsAfterTkt; uint32_t obfAge; long cliSkew;   /* hello order; obfuscated_ticket_age of the first PSK identity; client clock - server clock */
    uint64_t cliKeyd;           /* digest of the secret the presenting client holds (binder key for TLS 1.3) */
    int sawSH, negVer, negSuite, wireAbbrev, flagResumed, srvResumed, usedTicket, srvEms;
    uint64_t srvSecd;           /* server's master secret / chosen PSK right after its decision */
    int complete, srvComplete, cliResumed; uint64_t cliMsd, srvMsd, cliRmsd, srvRmsd;
    int srvFatal, srvAlertDesc, boundSidn, sibling; unsigned char boundSid[32];
    int nissued, issued[8];
    /* clock / key */
    long dt; int ks, act, uid, rc;
} ev_t;
static ev_t EV[MAXEV]; static int nEV;
static ev_t *ev_new(int type, int op, int opkind) { if (nEV >= MAXEV) return NULL; ev_t *e = &EV[nEV++]; memset(e, 0, sizeof *e); e->type = type; e->op = op; e->opkind = opkind; e->t = mx_now; e->negVer = -1; return e; }

static int g_hist; static int g_verbose;
static char g_replay[96];
#define TRACE(...) do { if (g_verbose) fprintf(stderr, __VA_ARGS__); } while (0)

/* ---- ticket keys ---- */
#define NPOOL 6
typedef struct { unsigned char name[16], sym[32], mac[32]; int symlen; } tk_t;
static tk_t POOL[NPOOL];
static sslKeys_t *KS[2];
static int klist[2][48], nk[2];         /* executor's mirror of each key set's ordered key list (pool indices) */
static int key_load(int ks, int uid, int op)
{
    int rc = matrixSslLoadSessionTicketKeys(KS[ks], POOL[uid].name, POOL[uid].sym, (short) POOL[uid].symlen, POOL[uid].mac, 32);
    if (rc == PS_SUCCESS && nk[ks] < 48) klist[ks][nk[ks]++] = uid;
    ev_t *e = ev_new(EV_KEY, op, -1); if (e) { e->ks = ks; e->act = 0; e->uid = uid; e->rc = rc; }
    return rc;
}
static int key_delete(int ks, int uid, int op)
{
    unsigned char nm[16]; memcpy(nm, POOL[uid].name, 16);
    int rc = matrixSslDeleteSessionTicketKey(KS[ks], nm);
    if (rc == PS_SUCCESS) { for (int i = 0; i < nk[ks]; i++) if (!memcmp(POOL[klist[ks][i]].name, nm, 16)) { memmove(&klist[ks][i], &klist[ks][i + 1], (nk[ks] - i - 1) * sizeof(int)); nk[ks]--; break; } }
    ev_t *e = ev_new(EV_KEY, op, -1); if (e) { e->ks = ks; e->act = 1; e->uid = uid; e->rc = rc; }
    return rc;
}
static int key_uid_by_name(int ks, const unsigned char *name) { for (int i = 0; i < nk[ks]; i++) if (!memcmp(POOL[klist[ks][i]].name, name, 16)) return klist[ks][i]; return -1; }

/* ---- clients ---- */
typedef struct { int ver; uint16_t suite; int ems, tkt, srv; } ccfg_t;
typedef struct { ccfg_t c; sslSessionId_t *sid; int creds[64], ncreds; int live; int abandoned; unsigned char partial[48]; } client_t;
static client_t CL[MAXCL + 1];          /* CL[MAXCL] is the throw-away client used to fill the cache */
typedef struct { mx_conn *k; int owner; int flightEnc; } live_t;
#define MAXLIVE 3
static live_t LV[MAXLIVE];

static int g_force_new;
static int cred_find(int kind, const unsigned char *b, int n) { for (int i = nCR - 1; i >= 0; i--) if ((kind < 0 || CR[i].kind == kind) && CR[i].len == n && !memcmp(CR[i].b, b, n)) return i; return -1; }
static int cred_add(ev_t *e, int kind, const unsigned char *b, int n, const unsigned char *sec, int seclen, int ver, int suite, int ems, int srv, int owner, int incomplete)
{
    if (n <= 0 || n > (int) sizeof CR[0].b || nCR >= MAXCRED) return -1;
    int i = g_force_new ? -1 : cred_find(kind, b, n); if (i >= 0) return i;
    cred_t *c = &CR[nCR]; memset(c, 0, sizeof *c);
    c->kind = kind; c->len = n; memcpy(c->b, b, n); c->seclen = seclen > 64 ? 64 : seclen; memcpy(c->sec, sec, c->seclen); c->secd = dig(sec, c->seclen);
    c->ver = ver; c->suite = suite; c->ems = ems; c->issued = mx_now; c->srv = srv; c->owner = owner; c->op = e->op; c->incomplete = incomplete;
    c->keyuid = (kind == CK_SID || n < 16) ? -1 : key_uid_by_name(srv, b);
    if (kind != CK_SID && (nk[srv] == 0 || c->keyuid != klist[srv][0])) vf_incon("hist=%d: ticket not sealed under the first key of the issuing key set (harness model of the key list is wrong)", g_hist);
    if (e->nissued < 8) e->issued[e->nissued++] = nCR;
    if (owner >= 0 && owner <= MAXCL && CL[owner].ncreds < 64) CL[owner].creds[CL[owner].ncreds++] = nCR;
    return nCR++;
}

/* a client-side session object that presents credential g; secretMode 0: the true secret, 1: a random one, 2: all zero, 3: bytes given */
static sslSessionId_t *craft_sid(const cred_t *g, int asKind, int secretMode, const unsigned char *given, vf_rng *r, uint64_t *keyd)
{
    sslSessionId_t *sid = NULL; unsigned char sec[64]; int sl = g->seclen ? g->seclen : 48;
    if (matrixSslNewSessionId(&sid, NULL) < 0) return NULL;
    memset(sec, 0, sizeof sec);
    if (secretMode == 0) memcpy(sec, g->sec, g->seclen); else if (secretMode == 1) vf_fill(r, sec, sizeof sec); else if (secretMode == 3) memcpy(sec, given, 48);
    if (asKind == CK_SID) { int l = g->len > 32 ? 32 : g->len; memcpy(sid->id, g->b, l); sid->idLen = (psSize_t) l; memcpy(sid->masterSecret, sec, 48); sid->cipherId = g->suite; *keyd = dig(sec, 48); }
    else if (asKind == CK_TICKET) {
        sid->sessionTicket = malloc(g->len); memcpy(sid->sessionTicket, g->b, g->len); sid->sessionTicketLen = (psSize_t) g->len;
        sid->sessionTicketState = SESS_TICKET_STATE_USING_TICKET; sid->sessionTicketLifetimeHint = LIFE_CACHE; memcpy(sid->masterSecret, sec, 48); sid->cipherId = g->kind == CK_PSK ? 0x00ae : g->suite; *keyd = dig(sec, 48);
    } else {
        psTls13SessionParams_t p; if (g->kind == CK_PSK) p = g->p13; else { memset(&p, 0, sizeof p); p.majVer = 3; p.minVer = 4; p.cipherId = 0x1301; p.ticketLifetime = LIFE_T13; }
        p.sni = NULL; p.alpn = NULL; p.sniLen = p.alpnLen = 0;
        int kl = g->kind == CK_PSK ? g->seclen : 32;
        sid->psk = tls13NewPsk(sec, (psSize_t) kl, g->b, (psSize_t) g->len, PS_TRUE, &p); *keyd = dig(sec, kl);
    }
    return sid;
}

/* ================= one handshake, observed ================= */
typedef struct { int client, srv; mx_cfg cfg; sslSessionId_t *sid; mut_t mut; const char *label; int forged, crafted; int keepLive, abandonAfter; uint64_t cliKeyd; long cliSkew; } hsreq;

static void observe_ch(const unsigned char *b, int n, int dtls, ev_t *e)
{
    chi c; if (!ch_parse(b, n, dtls, &c)) return;
    e->hasCH = 1; e->maxver = c.maxver; e->chEms = c.ems >= 0; e->emsAfterTkt = c.emsAfterTkt;
    e->nsuites = c.nsuites > 32 ? 32 : c.nsuites; for (int i = 0; i < e->nsuites; i++) e->suites[i] = (uint16_t) rd16(b + c.suites + 2 + 2 * i);
    e->psidn = c.sidn; memcpy(e->psid, b + c.sidl + 1, c.sidn);
    e->ptktn = e->ppskn = e->pbindn = 0;
    if (c.tkt >= 0 && c.tktn > 0 && c.tktn <= 320) { e->ptktn = c.tktn; memcpy(e->ptkt, b + c.tkt + 4, c.tktn); }
    if (c.psk >= 0 && c.id0n > 0 && c.id0n <= 320) { e->ppskn = c.id0n; memcpy(e->ppsk, b + c.id0 + 2, c.id0n); const unsigned char *a = b + c.id0 + 2 + c.id0n; e->obfAge = ((uint32_t) a[0] << 24) | (a[1] << 16) | (a[2] << 8) | a[3]; if (c.b0n <= 64) { e->pbindn = c.b0n; memcpy(e->pbind, b + c.b0 + 1, c.b0n); } }
}

static int srv_fatal(mx_ep *s, int *desc)
{
    *desc = -1;
    if (s->nAlertIn > 0 && s->alertLevel == SSL_ALERT_LEVEL_FATAL) { *desc = 1000 + s->alertDesc; return 1; }   /* received */
    if (s->ssl && s->ssl->err != SSL_ALERT_NONE && s->ssl->err != SSL_ALERT_CLOSE_NOTIFY && (s->dead || (s->ssl->flags & SSL_FLAGS_ERROR))) { *desc = s->ssl->err; return 1; }   /* sent */
    return 0;
}

/* register what the server has handed out so far on this connection */
static void harvest(mx_conn *k, hsreq *rq, ev_t *e, flight *f)
{
    int ver = e->negVer >= 0 ? e->negVer : rq->cfg.ver;
    if (ver == MX_TLS13) {
        if (rq->sid) for (psTls13Psk_t *p = rq->sid->psk; p; p = p->next) {
            if (!e->complete || !p->isResumptionPsk || !p->pskId || cred_find(CK_PSK, p->pskId, p->pskIdLen) >= 0) continue;
            if (p->pskIdLen == e->ppskn && !memcmp(p->pskId, e->ppsk, e->ppskn)) continue;      /* what this hello presented (possibly crafted), not something the server issued */
            int i = cred_add(e, CK_PSK, p->pskId, p->pskIdLen, p->pskKey, p->pskLen, MX_TLS13, k->c.ssl->cipher ? k->c.ssl->cipher->ident : 0, 0, rq->srv, rq->client, 0);
            if (i >= 0 && p->params) { CR[i].p13 = *p->params; CR[i].p13.sni = NULL; CR[i].p13.alpn = NULL; /* crafted presenters start from a client clock that agreed with the server's at issue time (psTime_t is a struct timespec here) */
                struct timespec ts; memcpy(&ts, &CR[i].p13.timestamp, sizeof ts); ts.tv_sec -= rq->cliSkew; memcpy(&CR[i].p13.timestamp, &ts, sizeof ts); }
        }
        return;
    }
    /* RFC 5077 NewSessionTicket is sent in the clear before the server's ChangeCipherSpec */
    if (f->nstn > 0 && cred_find(CK_TICKET, f->nst, f->nstn) < 0)
        cred_add(e, CK_TICKET, f->nst, f->nstn, k->s.ssl->sec.masterSecret, 48, ver, k->s.ssl->cipher ? k->s.ssl->cipher->ident : 0, k->s.ssl->extFlags.extended_master_secret, rq->srv, rq->client, 0);
    if (e->srvComplete && !e->srvResumed && k->s.ssl->sessionIdLen == 32)
        cred_add(e, CK_SID, k->s.ssl->sessionId, 32, k->s.ssl->sec.masterSecret, 48, ver, k->s.ssl->cipher ? k->s.ssl->cipher->ident : 0, k->s.ssl->extFlags.extended_master_secret, rq->srv, rq->client, 0);
}

static mx_conn *do_hs(hsreq *rq, ev_t *e, int *flightEncOut)
{
    mx_conn *k = calloc(1, sizeof *k);
    e->client = rq->client; e->srv = rq->srv; e->cfgver = rq->cfg.ver; e->label = rq->label; e->forged = rq->forged; e->crafted = rq->crafted; e->cliKeyd = rq->cliKeyd;
    rq->cfg.skeys = KS[rq->srv];
    e->cliSkew = g_cli_skew = rq->cliSkew;
    if (mx_conn_open(k, &rq->cfg, rq->sid) != 0) { g_cli_skew = 0; e->openFail = 1; mx_conn_close(k); free(k); return NULL; }
    int dtls = k->dtls, mark = 0, enc = 0, lastEdit = -1, steps = 0, pref = 0;
    flight f; memset(&f, 0, sizeof f);
    while (steps < 400) {
        mx_conn_collect(k);
        /* a ClientHello about to be delivered: apply the wire edit, then note what is presented */
        if (k->qoff[0] < k->qlen[0] && k->qoff[0] != lastEdit && !k->s.dead && !(k->s.ssl->flags & SSL_FLAGS_READ_SECURE)) {
            mx_rec r; int o = k->qoff[0];
            if (mx_rec_at(k->q[0], k->qlen[0], o, dtls, &r) && r.type == 22 && r.len > 0 && k->q[0][o + r.hdr] == 1 && (!dtls || r.epoch == 0)) {
                int rl = r.hdr + r.len, tail = k->qlen[0] - o - rl;
                unsigned char *rec = malloc(rl + 1), *rest = malloc(tail + 1); memcpy(rec, k->q[0] + o, rl); memcpy(rest, k->q[0] + o + rl, tail);
                if (rq->mut.kind != MU_NONE && rq->mut.kind != MU_XVER && rq->mut.kind != MU_IDPLUS && ch_mutate(&rec, &rl, dtls, &rq->mut)) { e->mutApplied = 1; e->chEdited = 1; }
                observe_ch(rec, rl, dtls, e);
                k->q[0] = realloc(k->q[0], o + rl + tail + 1); memcpy(k->q[0] + o, rec, rl); memcpy(k->q[0] + o + rl, rest, tail); k->qlen[0] = o + rl + tail;
                free(rec); free(rest); lastEdit = o;
            }
        }
        int d = mx_conn_step(k, pref); if (d < 0) break;
        steps++; pref = d;
        mx_conn_collect(k);
        if (k->wirelen[1] > mark) {
            flight g; memset(&g, 0, sizeof g);
            parse_flight(k->wire[1] + mark, k->wirelen[1] - mark, dtls, &enc, &g); mark = k->wirelen[1];
            if (g.nstn) { memcpy(f.nst, g.nst, g.nstn); f.nstn = g.nstn; }
            if (g.alert) { f.alert = 1; f.alertLevel = g.alertLevel; f.alertDesc = g.alertDesc; }
            if (g.sh && !g.hrr) {
                /* the decision point */
                f.sh = 1; e->sawSH = 1; e->negVer = ver_class(g.ver); e->negSuite = g.suite; e->srvEms = g.hasEms;
                ssl_t *s = k->s.ssl;
                if (e->negVer == MX_TLS13) {
                    e->wireAbbrev = g.hasPsk; e->flagResumed = s->sec.tls13UsingPsk && s->sec.tls13ChosenPsk != NULL;
                    e->srvResumed = e->wireAbbrev || e->flagResumed;
                    if (e->srvResumed && s->sec.tls13ChosenPsk && s->sec.tls13ChosenPsk->pskKey) e->srvSecd = dig(s->sec.tls13ChosenPsk->pskKey, s->sec.tls13ChosenPsk->pskLen);
                } else {
                    e->wireAbbrev = g.ccs; e->flagResumed = !!(s->flags & SSL_FLAGS_RESUMED);
                    e->srvResumed = e->wireAbbrev || e->flagResumed;
                    if (e->srvResumed) e->srvSecd = dig(s->sec.masterSecret, 48);
                    e->usedTicket = s->sid && s->sid->sessionTicketState == SESS_TICKET_STATE_USING_TICKET;
                    /* the cache entry this connection is bound to (a ticket session merely echoes the client's session id, RFC 5077 3.4) */
                    e->boundSidn = e->usedTicket ? 0 : s->sessionIdLen > 32 ? 32 : s->sessionIdLen; memcpy(e->boundSid, s->sessionId, e->boundSidn);
                }
                TRACE("      decision: ver=%s suite=%04x wire=%d flag=%d resumed=%d boundSidLen=%d\n", e->negVer >= 0 ? mx_vername[e->negVer] : "?", e->negSuite, e->wireAbbrev, e->flagResumed, e->srvResumed, e->boundSidn);
            }
        }
        if (rq->abandonAfter && steps >= rq->abandonAfter) break;
    }
    e->complete = mx_conn_established(k);
    e->srvComplete = k->s.ssl && !k->s.dead && matrixSslHandshakeIsComplete(k->s.ssl) && !(k->s.ssl->flags & SSL_FLAGS_ERROR);
    e->cliResumed = k->c.ssl && !k->c.dead && matrixSslIsResumedSession(k->c.ssl);
    e->cliMsd = dig(k->c.ssl->sec.masterSecret, 48); e->srvMsd = dig(k->s.ssl->sec.masterSecret, 48);
    e->cliRmsd = dig(k->c.ssl->sec.tls13ResumptionMasterSecret, sizeof k->c.ssl->sec.tls13ResumptionMasterSecret); e->srvRmsd = dig(k->s.ssl->sec.tls13ResumptionMasterSecret, sizeof k->s.ssl->sec.tls13ResumptionMasterSecret);
    e->srvFatal = srv_fatal(&k->s, &e->srvAlertDesc);
    if (!e->sawSH) e->negVer = -1;
    harvest(k, rq, e, &f);
    g_cli_skew = 0;
    if (flightEncOut) *flightEncOut = enc;
    return k;
}
static void conn_finish(mx_conn *k, int clean)
{
    if (!k) return;
    if (clean && mx_conn_established(k)) { mx_actor = 0; matrixSslEncodeClosureAlert(k->c.ssl); k->c.wantTake = 1; mx_conn_run(k, NULL, NULL, 20); }
    mx_conn_close(k); free(k);
}

/* ================= histories: operations and their executor ================= */
enum { OP_FULL = 0, OP_RESUME, OP_RESUME_OTHER, OP_RESUME_VER, OP_REPLAY, OP_KEEP, OP_FATAL, OP_CLOSE, OP_FILL, OP_KEY, OP_CLOCK, OP_FORGE, OP_ABANDON, OP_RESUME_ABANDONED, OP_PAUSED, OP_N };
static const char *opname[] = { "full", "resume", "resume-other-server", "resume-other-version", "replay-credential", "keep-open", "fatal-alert", "close", "fill-cache", "ticket-key", "clock", "forge", "abandon", "resume-abandoned", "present-id-of-paused-handshake" };
typedef struct { int k, c, v, a, b, d; } op_t;
#define MAXOPS 96
typedef struct { char name[64]; int nc; ccfg_t cc[MAXCL]; int initk[2][3], ninit[2]; op_t ops[MAXOPS]; int nops; int quiet; } hist_t;
static long T0;
static vf_rng XR;       /* executor's own stream: values only (random secrets, foreign ids) */

static mx_cfg cfg_of(const ccfg_t *c) { mx_cfg m; memset(&m, 0, sizeof m); m.ver = c->ver; m.suite = c->suite; m.useTicket = c->tkt; m.ems = c->ems;
    /* a TLS server enables every TLS version (the client fixes the one that is negotiated): version checks on credentials must not rely on the server being single-version */
    if (!MX_IS_DTLS(c->ver)) m.srvVerMask = (1 << MX_TLS11) | (1 << MX_TLS12) | (1 << MX_TLS13);
    return m; }
static uint64_t sid_keyd(sslSessionId_t *sid) { if (!sid) return 0; if (sid->psk && sid->psk->pskKey) return dig(sid->psk->pskKey, sid->psk->pskLen); return dig(sid->masterSecret, 48); }
static int live_of(int c) { for (int i = 0; i < MAXLIVE; i++) if (LV[i].k && LV[i].owner == c) return i; return -1; }
static int sibling_live(const ev_t *e) { if (e->boundSidn != 32) return 0; for (int i = 0; i < MAXLIVE; i++) if (LV[i].k && LV[i].k->s.ssl && LV[i].k->s.ssl->sessionIdLen == 32 && !memcmp(LV[i].k->s.ssl->sessionId, e->boundSid, 32)) return 1; return 0; }
static void live_close(int i, int clean) { if (i >= 0 && LV[i].k) { conn_finish(LV[i].k, clean); LV[i].k = NULL; } }
static int pick_cred(int v, int nth, int kind)
{
    client_t *c = &CL[v]; int cand[64], n = 0;
    for (int i = 0; i < c->ncreds; i++) if ((kind < 0 || CR[c->creds[i]].kind == kind) && !CR[c->creds[i]].incomplete) cand[n++] = c->creds[i];
    if (!n) return -1;
    return nth < 0 ? cand[n - 1] : cand[nth % n];
}
static int pick_cred_any(int nc, int v, int nth, int kind, int *who) { for (int j = 0; j < nc; j++) { int w = (v + j) % nc, g = pick_cred(w, nth, kind); if (g >= 0) { *who = w; return g; } } return -1; }
static void fresh_sid(int c) { if (CL[c].sid) matrixSslDeleteSessionId(CL[c].sid); CL[c].sid = NULL; matrixSslNewSessionId(&CL[c].sid, NULL); }

static ev_t *run_hs(int opi, int opkind, hsreq *rq, int clean, mx_conn **keep, int *encOut)
{
    ev_t *e = ev_new(EV_HS, opi, opkind); if (!e) return NULL;
    mx_conn *k = do_hs(rq, e, encOut);
    vf_stat("handshakes", 1);
    if (e->srvFatal) e->sibling = sibling_live(e);
    if (keep) *keep = k; else conn_finish(k, clean);
    return e;
}

static const long dt_table[] = { 1, 5, 359, 360, 361, 3600, 86399, 86400, 86401, 2 * 86400L, 25 * 86400L, 2147483L, 2147484L, 30 * 86400L, 50 * 86400L };
#define NDT ((int) (sizeof dt_table / sizeof dt_table[0]))
static uint16_t other_suite(uint16_t s)
{
    switch (s) { case 0x00ae: return 0x008d; case 0x008c: return 0x008d; case 0x008d: return 0x008c; case 0x00af: return 0x00ae; case 0x1301: return 0x1303; case 0x1302: return 0x1301; case 0x1303: return 0x1301;
                 case 0x002f: return 0x0035; case 0x0035: return 0x002f; case 0x009c: return 0x003c; case 0x003c: return 0x009c; }
    return 0x008d;
}

static void inject_fault(mx_conn *k, int how, ev_t *e)
{
    unsigned char *b; int n; mx_ep *from = how ? &k->s : &k->c, *to = how ? &k->c : &k->s;
    mx_conn_collect(k); k->qoff[0] = k->qlen[0]; k->qoff[1] = k->qlen[1];
    mx_send(from, (const unsigned char *) "ping", 4); n = mx_take(from, &b);
    if (n > 6) { b[n - 1] ^= 0x40; b[n - 3] ^= 0x01; if (!to->dead) mx_feed(to, b, n); }
    free(b);
    n = mx_take(to, &b);                                   /* the victim's alert, if any */
    mx_ep *other = how ? &k->s : &k->c;
    if (n > 0 && !other->dead) mx_feed(other, b, n);
    free(b);
    e->srvFatal = srv_fatal(&k->s, &e->srvAlertDesc);
}

/* what the client's clock does between receiving a TLS 1.3 ticket and presenting it: the age it reports is its own business, the
   server must judge the ticket's lifetime by its own clock.  Returns client clock - server clock for the presentation. */
enum { SK_NONE = 0, SK_STOOD_STILL, SK_JUST_INSIDE, SK_HUGE, SK_BACKWARDS, SK_SLOW, SK_N };
static const char *skname[] = { NULL, "client-clock-stood-still", "client-claims-age-just-inside-lifetime", "client-claims-huge-age", "client-clock-ran-backwards", "client-clock-slow" };
static long skew_for(int mode, const cred_t *G)
{
    long age = mx_now - G->issued;
    switch (mode) {
    case SK_STOOD_STILL: return -age;                       /* reports age 0 */
    case SK_JUST_INSIDE: return -age + LIFE_T13 - 1;        /* reports lifetime - 1 s, whatever the true age */
    case SK_HUGE: return 40L * 86400L;                      /* reports more than 24.8 days (the library's millisecond difference saturates) */
    case SK_BACKWARDS: return -age - 100;                   /* reports a negative age, i.e. about 2^32 ms */
    case SK_SLOW: return -(age / 2) - (age & 1);            /* reports half the true age */
    }
    return 0;
}

static int exec_op(hist_t *h, int i)
{
    op_t *o = &h->ops[i]; client_t *C = &CL[o->c % h->nc]; int c = o->c % h->nc; hsreq rq; ev_t *e;
    memset(&rq, 0, sizeof rq); rq.client = c; rq.srv = C->c.srv; rq.cfg = cfg_of(&C->c);
    int kind = o->k;
    if (kind != OP_FATAL && kind != OP_CLOSE && kind != OP_KEY && kind != OP_CLOCK && kind != OP_FILL && live_of(c) >= 0) live_close(live_of(c), 1);
    if ((kind == OP_RESUME || kind == OP_RESUME_OTHER || kind == OP_RESUME_VER) && (!C->sid || !C->ncreds)) kind = OP_FULL;
    if (kind == OP_KEEP && (!C->sid || !C->ncreds)) fresh_sid(c);
    switch (kind) {
    case OP_FULL:
        fresh_sid(c); rq.sid = C->sid; e = run_hs(i, kind, &rq, 1, NULL, NULL); break;
    case OP_RESUME: case OP_RESUME_OTHER: case OP_RESUME_VER:
        rq.sid = C->sid; rq.cliKeyd = sid_keyd(C->sid);
        if (kind == OP_RESUME_OTHER) { rq.srv = !C->c.srv; rq.label = "foreign-server"; }
        if (kind == OP_RESUME && C->c.ver == MX_TLS13 && o->a > 0 && o->a < SK_N && !h->quiet) { int g = (C->sid && C->sid->psk && C->sid->psk->pskId) ? cred_find(CK_PSK, C->sid->psk->pskId, C->sid->psk->pskIdLen) : -1; if (g >= 0) { rq.cliSkew = skew_for(o->a, &CR[g]); rq.label = skname[o->a]; } }
        if (kind == OP_RESUME_VER) { int nv = o->a % MX_NVER; const mx_suite_t *s = mx_suite_by_id(C->c.suite); if (nv == MX_DTLS10 || nv == C->c.ver || !s || !mx_suite_ok_for(s, nv)) return 0; rq.cfg.ver = nv; rq.label = "other-version"; }
        e = run_hs(i, kind, &rq, 1, NULL, NULL); if (e && h->quiet && kind == OP_RESUME) e->mustResume = 1; break;
    case OP_KEEP: {
        int slot = -1; for (int j = 0; j < MAXLIVE; j++) if (!LV[j].k) { slot = j; break; }
        if (slot < 0) { slot = i % MAXLIVE; live_close(slot, 1); }
        rq.sid = C->sid; rq.cliKeyd = sid_keyd(C->sid); rq.keepLive = 1;
        mx_conn *k = NULL; int enc = 0; e = run_hs(i, kind, &rq, 0, &k, &enc);
        if (k && mx_conn_established(k)) { LV[slot].k = k; LV[slot].owner = c; LV[slot].flightEnc = enc; } else conn_finish(k, 0);
        break; }
    case OP_FATAL: {
        int l = live_of(c); mx_conn *k = NULL;
        if (l >= 0) { k = LV[l].k; LV[l].k = NULL; }
        else { if (!C->sid) fresh_sid(c); rq.sid = C->sid; rq.cliKeyd = sid_keyd(C->sid); e = run_hs(i, OP_KEEP, &rq, 0, &k, NULL); if (k && !mx_conn_established(k)) { conn_finish(k, 0); k = NULL; } }
        if (!k) return 0;
        e = ev_new(EV_HS, i, OP_FATAL); if (!e) { conn_finish(k, 0); return 0; }
        e->client = c; e->srv = -1; e->cfgver = k->cfg.ver; e->label = o->a & 1 ? "client-sends-fatal-alert" : "server-sends-fatal-alert";
        e->boundSidn = (k->s.ssl->sid && k->s.ssl->sid->sessionTicketState == SESS_TICKET_STATE_USING_TICKET) ? 0 : k->s.ssl->sessionIdLen > 32 ? 32 : k->s.ssl->sessionIdLen; memcpy(e->boundSid, k->s.ssl->sessionId, e->boundSidn);
        inject_fault(k, o->a & 1, e);
        if (e->srvFatal) e->sibling = sibling_live(e);
        conn_finish(k, 0); break; }
    case OP_CLOSE: { int l = live_of(c); if (l < 0) return 0; live_close(l, 1); break; }
    case OP_FILL: {
        int n = o->a; ccfg_t fc = { MX_TLS12, 0x00ae, 0, 0, 0 };
        for (int j = 0; j < n; j++) {
            CL[MAXCL].ncreds = 0; fresh_sid(MAXCL); memset(&rq, 0, sizeof rq); fc.srv = (j & 3) == 3; rq.client = MAXCL; rq.srv = fc.srv; rq.cfg = cfg_of(&fc); rq.sid = CL[MAXCL].sid;
            run_hs(i, kind, &rq, 1, NULL, NULL);
        }
        break; }
    case OP_KEY: {
        int ks = o->a & 1, uid = o->d % NPOOL;
        switch (o->b % 4) {
        case 0: key_load(ks, uid, i); break;
        case 1: if (!nk[ks]) return 0; key_delete(ks, klist[ks][0], i); break;
        case 2: key_delete(ks, uid, i); break;
        default: key_load(ks, uid, i); if (nk[ks] > 1) key_delete(ks, klist[ks][0], i); break;
        }
        break; }
    case OP_CLOCK: {
        long dt = 1;
        if (o->a & 1) { int who, g = pick_cred_any(h->nc, o->v % h->nc, o->b, -1, &who); if (g >= 0) { long tgt = CR[g].issued + (CR[g].kind == CK_PSK ? LIFE_T13 : LIFE_CACHE) + o->d; if (tgt > mx_now) dt = tgt - mx_now; } }
        else dt = dt_table[(unsigned) o->d % NDT];
        if (mx_now + dt - T0 > CLOCK_CAP) dt = 1;
        mx_now += dt; e = ev_new(EV_CLOCK, i, kind); if (e) e->dt = dt; break; }
    case OP_REPLAY: case OP_FORGE: case OP_RESUME_ABANDONED: {
        int who = o->v % h->nc, g, asKind, secretMode = 0, cfgFlip = 0; mut_t m; memset(&m, 0, sizeof m);
        if (kind == OP_RESUME_ABANDONED) { g = C->abandoned; if (g < 0) return 0; secretMode = (o->a & 1) ? 3 : 2; rq.label = "never-completed-session"; rq.forged = 1; }
        else if (kind == OP_REPLAY) { g = pick_cred_any(h->nc, who, o->a, -1, &who); secretMode = o->b % 3; if (secretMode) { rq.label = "stolen-credential"; rq.forged = 1; } if (o->d & 1) rq.srv = -2;
            int sk = (o->d >> 1) & 7; if (g >= 0 && CR[g].kind == CK_PSK && sk > 0 && sk < SK_N && !h->quiet) { rq.cliSkew = skew_for(sk, &CR[g]); if (!rq.label) rq.label = skname[sk]; } }
        else {
            int need = -1; m.kind = o->a % MU_N; m.pos = o->b; m.val = o->d & 0xff;
            if (m.kind >= MU_SID_TRUNC && m.kind <= MU_SID_SET) need = CK_SID; else if (m.kind >= MU_TKT_XOR && m.kind <= MU_TKT_NAME) need = CK_TICKET; else if (m.kind >= MU_PSKID_XOR && m.kind <= MU_BINDER_XOR) need = CK_PSK;
            if (m.kind == MU_NONE) return 0;
            if (m.kind == MU_IDPLUS) {
                /* the presenter's own valid ticket together with someone else's cached session id in one (genuine, unedited) hello */
                int own = pick_cred(c, -1, CK_TICKET), w2, vic = pick_cred_any(h->nc, who, -1, CK_SID, &w2);
                if (own < 0 || vic < 0) return 0;
                cred_t *G = &CR[own]; ccfg_t vc = { G->ver, (uint16_t) G->suite, G->ems ? 0 : -1, 1, G->srv };
                rq.srv = vc.srv; rq.cfg = cfg_of(&vc); rq.crafted = 1; rq.forged = 0; rq.label = muname[MU_IDPLUS]; rq.mut = m;
                sslSessionId_t *sid = craft_sid(G, CK_TICKET, 0, NULL, &XR, &rq.cliKeyd); if (!sid) return 0;
                memcpy(sid->id, CR[vic].b, 32); sid->idLen = 32;
                rq.sid = sid; e = run_hs(i, kind, &rq, 1, NULL, NULL); matrixSslDeleteSessionId(sid); break;
            }
            g = pick_cred_any(h->nc, who, -1, need, &who);
            rq.forged = 1;
        }
        if (g < 0) return 0;
        cred_t *G = &CR[g]; asKind = G->kind;
        ccfg_t vc = { G->ver, (uint16_t) G->suite, G->ems ? 0 : -1, G->kind == CK_TICKET, G->srv };
        if (rq.srv == -2) vc.srv = !G->srv;
        if (kind == OP_FORGE) {
            if (m.kind == MU_EMS_REMOVE || m.kind == MU_EMS_ADD) {
                /* pos%4 == 3: no wire edit, the (genuine) client is simply configured the other way round and builds the hello itself
                   (session_ticket before extended_master_secret); otherwise the extension is removed from / inserted into the hello */
                static const char *al[] = { "ems-added-first", "ems-added-last", "ems-added-after-ticket" };
                m.kind = G->ems ? MU_EMS_REMOVE : MU_EMS_ADD;
                if (m.pos % 4 == 3) { cfgFlip = 1; vc.ems = G->ems ? -1 : 0; rq.label = G->ems ? "ems-no-longer-offered-by-client" : "ems-now-offered-by-client"; m.kind = MU_NONE; }
                else if (m.kind == MU_EMS_ADD) rq.label = al[m.pos % 4];
            }
            if (m.kind == MU_SID_SET) { m.blen = 32; vf_fill(&XR, m.bytes, 32); if (m.val & 1) memcpy(m.bytes, G->b, 4); else { m.bytes[0] = (unsigned char) (m.pos % 32); m.bytes[1] = m.bytes[2] = m.bytes[3] = 0; } }
            if (m.kind == MU_TKT_NAME || m.kind == MU_PSKID_NAME) { vf_fill(&XR, m.bytes, 16); for (int j = 0; j < nk[vc.srv]; j++) if (memcmp(POOL[klist[vc.srv][j]].name, G->b, 16)) { memcpy(m.bytes, POOL[klist[vc.srv][j]].name, 16); break; } }
            if (m.kind == MU_SUITE_SWAP) { m.suiteFrom = (uint16_t) G->suite; m.suiteTo = other_suite((uint16_t) G->suite); }
            if (m.kind == MU_XVER && G->kind == CK_SID) { vc.ver = MX_TLS13; vc.suite = 0x1301; vc.tkt = 0; vc.ems = 0; rq.label = "id-in-tls1.3-hello"; }
            else if (m.kind == MU_XVER) { if (G->kind == CK_TICKET) { asKind = CK_PSK; vc.ver = MX_TLS13; vc.suite = 0x1301; vc.tkt = 0; vc.ems = 0; } else { asKind = CK_TICKET; vc.ver = MX_TLS12; vc.suite = 0x00ae; vc.tkt = 1; vc.ems = 0; } }
            if (!rq.label) rq.label = muname[m.kind]; rq.mut = m;
        }
        rq.srv = vc.srv; rq.cfg = cfg_of(&vc); rq.crafted = 1;
        sslSessionId_t *sid = craft_sid(G, asKind, secretMode, C->partial, &XR, &rq.cliKeyd); if (!sid) return 0;
        if (kind == OP_FORGE && m.kind == MU_XVER && G->kind == CK_SID) sid->cipherId = 0x1301;   /* the TLS 1.3 hello carries the cached id as legacy_session_id */
        rq.sid = sid; e = run_hs(i, kind, &rq, 1, NULL, NULL);
        if (e && cfgFlip && !(e->hasCH && e->chEms == !G->ems)) { e->forged = 0; e->label = "mutation-not-applicable"; vf_stat("mutations_not_applicable", 1); }
        if (e && kind == OP_FORGE && m.kind != MU_XVER && !e->mutApplied && !cfgFlip) { e->forged = 0; e->label = "mutation-not-applicable"; vf_stat("mutations_not_applicable", 1); }
        if (e && h->quiet && kind == OP_REPLAY && secretMode == 0) e->mustResume = 1;
        matrixSslDeleteSessionId(sid); break; }
    case OP_ABANDON: {
        if (C->c.ver == MX_TLS13) return 0;
        fresh_sid(c); rq.sid = C->sid; rq.cfg.useTicket = 0; rq.abandonAfter = 1 + o->a % 4; rq.label = "abandoned";
        mx_conn *k = NULL; e = run_hs(i, kind, &rq, 0, &k, NULL);
        if (k && e && !e->srvComplete && !k->s.dead && !(k->s.ssl->flags & SSL_FLAGS_ERROR) && k->s.ssl->sessionIdLen == 32) {
            unsigned char z[48]; memset(z, 0, 48);
            C->abandoned = cred_add(e, CK_SID, k->s.ssl->sessionId, 32, z, 48, e->negVer >= 0 ? e->negVer : C->c.ver, k->s.ssl->cipher ? k->s.ssl->cipher->ident : 0, k->s.ssl->extFlags.extended_master_secret, rq.srv, c, 1);
            memcpy(C->partial, k->c.ssl->sec.masterSecret, 48);
        }
        conn_finish(k, 0); fresh_sid(c); break; }
    case OP_PAUSED: {
        /* victim handshake paused after the ServerHello flight (or later, before the server has verified Finished); a second
           connection presents its session id with an all-zero (or the victim's partial) master secret while it is paused */
        if (C->c.ver == MX_TLS13) return 0;
        fresh_sid(c); rq.sid = C->sid; rq.cfg.useTicket = 0; rq.abandonAfter = 1 + o->a % 3; rq.label = "paused-mid-handshake";
        mx_conn *k = NULL; e = run_hs(i, kind, &rq, 0, &k, NULL);
        if (k && e && !e->srvComplete && !k->s.dead && !(k->s.ssl->flags & SSL_FLAGS_ERROR) && k->s.ssl->sessionIdLen == 32) {
            unsigned char z[48]; memset(z, 0, 48);
            int g = cred_add(e, CK_SID, k->s.ssl->sessionId, 32, z, 48, e->negVer >= 0 ? e->negVer : C->c.ver, k->s.ssl->cipher ? k->s.ssl->cipher->ident : 0, k->s.ssl->extFlags.extended_master_secret, rq.srv, c, 2);
            if (g >= 0) {
                hsreq r2; memset(&r2, 0, sizeof r2); cred_t *G = &CR[g];
                ccfg_t vc = { G->ver, (uint16_t) G->suite, G->ems ? 0 : -1, 0, G->srv };
                r2.client = (c + 1) % h->nc; r2.srv = G->srv; r2.cfg = cfg_of(&vc); r2.crafted = 1; r2.forged = 1; r2.label = "unfinished-session";
                sslSessionId_t *sid = craft_sid(G, CK_SID, (o->b & 1) ? 3 : 2, k->c.ssl->sec.masterSecret, &XR, &r2.cliKeyd);
                if (sid) { r2.sid = sid; run_hs(i, kind, &r2, 1, NULL, NULL); matrixSslDeleteSessionId(sid); }
                if (o->d & 1) {
                    /* the victim carries on; if it completes, the session exists from now on */
                    mx_conn_run(k, NULL, NULL, 300);
                    ev_t *e3 = ev_new(EV_HS, i, kind);
                    if (e3) { e3->client = c; e3->srv = rq.srv; e3->cfgver = C->c.ver; e3->label = "paused-handshake-continued"; e3->complete = mx_conn_established(k); e3->srvFatal = srv_fatal(&k->s, &e3->srvAlertDesc);
                        e3->boundSidn = k->s.ssl->sessionIdLen > 32 ? 32 : k->s.ssl->sessionIdLen; memcpy(e3->boundSid, k->s.ssl->sessionId, e3->boundSidn);
                        if (e3->complete && k->s.ssl->sessionIdLen == 32) { g_force_new = 1; cred_add(e3, CK_SID, k->s.ssl->sessionId, 32, k->s.ssl->sec.masterSecret, 48, C->c.ver, k->s.ssl->cipher ? k->s.ssl->cipher->ident : 0, k->s.ssl->extFlags.extended_master_secret, rq.srv, c, 0); g_force_new = 0; } }
                }
            }
        }
        conn_finish(k, k && mx_conn_established(k)); if (!(o->d & 1)) fresh_sid(c); break; }
    default: return 0;
    }
    return 1;
}

/* ================= the sequential model and its checker ================= */
static int mk[2][48], mnk[2];
static int g_sawEmsAfterTkt, g_sawExpiredClaimedFresh;   /* workload self-checks of the scripted histories that aim at these cases */
static int model_key_loaded(int ks, int uid) { if (ks < 0 || uid < 0) return 0; for (int i = 0; i < mnk[ks]; i++) if (mk[ks][i] == uid) return 1; return 0; }
static int model_find(int kind, const unsigned char *b, int n) { for (int i = nCR - 1; i >= 0; i--) if (CR[i].m_known && (kind < 0 || CR[i].kind == kind) && CR[i].len == n && !memcmp(CR[i].b, b, n)) return i; return -1; }
static int model_find_secret(uint64_t d) { for (int i = nCR - 1; i >= 0; i--) if (CR[i].m_known && CR[i].secd == d) return i; return -1; }
static const char *vclass(int v) { return v >= 0 && v < MX_NVER ? mx_vername[v] : "none"; }

static int presented_kind(const ev_t *e) { if (e->ppskn) return CK_PSK; if (e->ptktn) return CK_TICKET; if (e->psidn && e->maxver != 0x0304) return CK_SID; return CK_NONE; }
static const char *outcome(const ev_t *e)
{
    if (e->opkind == OP_FATAL) return e->srvFatal ? "fatal-alert" : "no-alert";
    if (e->label && !strcmp(e->label, "paused-handshake-continued")) return e->complete ? "completed" : "not-completed";
    if (e->openFail || !e->hasCH) return "no-hello";
    if (!e->sawSH) return "refused";
    if (e->srvResumed) return e->complete ? "resumed" : "resumed-incomplete";
    return e->complete ? "full" : "full-incomplete";
}
static int ev_fmt(const ev_t *e, char *o, int cap)
{
    if (e->type == EV_CLOCK) return snprintf(o, cap, "clock+%lds", e->dt);
    if (e->type == EV_KEY) return snprintf(o, cap, "key:%s(set%c,k%d)rc=%d", e->act ? "del" : "load", 'A' + e->ks, e->uid, e->rc);
    char ph[24] = ""; const unsigned char *p = e->ppskn ? e->ppsk : e->ptktn ? e->ptkt : e->psid; int pn = e->ppskn ? e->ppskn : e->ptktn ? e->ptktn : e->psidn;
    if (pn && presented_kind(e) != CK_NONE) snprintf(ph, sizeof ph, "%016llx", (unsigned long long) dig(p, pn));
    return snprintf(o, cap, "%s(c%d>%c,%s%s%s,%s:%s/%d)=%s%s", opname[e->opkind], e->client, e->srv < 0 ? '-' : 'A' + e->srv, vclass(e->cfgver), e->label ? "," : "", e->label ? e->label : "",
                    ckname[presented_kind(e)], ph, pn, outcome(e), e->srvFatal ? "+alert" : "");
}

static void violate(const ev_t *e, const char *clause, int kind, const char *fmt, ...)
{
    char key[160], msg[900], evs[300]; va_list ap; va_start(ap, fmt); vsnprintf(msg, sizeof msg, fmt, ap); va_end(ap);
    snprintf(key, sizeof key, "c14:%s:%s:%s", clause, ckname[kind], vclass(e->negVer >= 0 ? e->negVer : e->cfgver));
    ev_fmt(e, evs, sizeof evs);
    vf_violation(key, g_replay, "%s | history %d op %d: %s | t=+%lds wire-abbreviated=%d SSL_FLAGS_RESUMED/usingPsk=%d completed=%d client-resumed=%d server-secret=%016llx negotiated-suite=%04x hello-ems=%d",
                 msg, g_hist, e->op, evs, e->t - T0, e->wireAbbrev, e->flagResumed, e->complete, e->cliResumed, (unsigned long long) e->srvSecd, e->negSuite, e->chEms);
}

/* why credential m does not justify the resumption seen in e (NULL: it does) */
static const char *unjustified(const cred_t *m, const ev_t *e)
{
    long age = e->t - m->issued, life = m->kind == CK_PSK ? LIFE_T13 : LIFE_CACHE;
    if (m->incomplete) return m->incomplete == 2 ? "resumed-unfinished-session" : "resumed-never-completed-session";
    if (m->secd != e->srvSecd) return (m->kind == CK_SID && m->m_invalid) ? "wrong-secret-after-invalidation" : "wrong-secret";
    if (m->kind == CK_SID && m->m_invalid) return m->m_invalid == 2 ? "resumed-after-fatal-alert-on-sibling-connection" : "resumed-after-fatal-alert";
    if (age > life) return (m->kind == CK_SID && age * 1000 > 2147483647L) ? "resumed-long-after-expiry" : "resumed-after-expiry";
    if (m->kind != CK_SID && !model_key_loaded(e->srv, m->keyuid)) return "resumed-ticket-key-not-loaded";
    if (m->ver != e->negVer) return "resumed-version-mismatch";
    int offered = 0; for (int i = 0; i < e->nsuites; i++) if (e->suites[i] == m->suite) offered = 1;
    if (m->suite != e->negSuite || !offered) return "resumed-suite-mismatch";
    if (m->kind != CK_PSK && m->ems != e->chEms) return "resumed-ems-mismatch";
    if (m->kind == CK_PSK && (e->chEdited || e->cliKeyd != m->secd)) return "resumed-without-valid-binder";
    return NULL;
}

static void check_history(const hist_t *h)
{
    memset(mk, 0, sizeof mk); mnk[0] = mnk[1] = 0;
    for (int i = 0; i < nCR; i++) CR[i].m_known = CR[i].m_invalid = 0;
    for (int n = 0; n < nEV; n++) {
        ev_t *e = &EV[n];
        if (e->type == EV_KEY) {
            if (e->rc != PS_SUCCESS) continue;
            if (e->act == 0) { if (mnk[e->ks] < 48) mk[e->ks][mnk[e->ks]++] = e->uid; }
            else for (int i = 0; i < mnk[e->ks]; i++) if (!memcmp(POOL[mk[e->ks][i]].name, POOL[e->uid].name, 16)) { memmove(&mk[e->ks][i], &mk[e->ks][i + 1], (mnk[e->ks] - i - 1) * sizeof(int)); mnk[e->ks]--; break; }
            continue;
        }
        if (e->type != EV_HS) continue;
        int pk = presented_kind(e);
        vf_distinct("%s|%s|%s|%s|%s", opname[e->opkind], e->label ? e->label : "-", ckname[pk], vclass(e->negVer >= 0 ? e->negVer : e->cfgver), outcome(e));
        vf_statf(1, "outcome_%s", outcome(e));
        if (e->forged) vf_stat("forged_presentations", 1);
        if (e->ptktn && e->chEms && !e->chEdited) vf_stat(e->emsAfterTkt ? "genuine_hellos_ticket_before_ems" : "genuine_hellos_ems_before_ticket", 1);
        if (e->hasCH && pk != CK_PSK && pk != CK_NONE && e->negVer != MX_TLS13) {
            int m = model_find(pk, pk == CK_TICKET ? e->ptkt : e->psid, pk == CK_TICKET ? e->ptktn : e->psidn);
            if (m >= 0 && CR[m].ems != e->chEms) {
                vf_statf(1, "ems_mismatch_%s_%s%s", ckname[pk], e->chEms ? "added" : "removed", e->chEms && pk == CK_TICKET ? (e->emsAfterTkt ? "_after_ticket" : "_before_ticket") : "");
                if (e->chEms && pk == CK_TICKET && e->emsAfterTkt) g_sawEmsAfterTkt++;
            }
        }
        if (e->ppskn && !e->chEdited) {
            /* what age did the client claim for a ticket the model knows, against its age on the server's clock */
            int m = model_find(CK_PSK, e->ppsk, e->ppskn);
            if (m >= 0) {
                long trueAge = e->t - CR[m].issued; uint32_t claimed = (uint32_t) (e->obfAge - CR[m].p13.ticketAgeAdd) / 1000;
                int expd = trueAge > LIFE_T13, cl = claimed > (uint32_t) LIFE_T13;
                vf_statf(1, "psk_%s_claimed_%s%s", expd ? "expired" : "unexpired", cl ? "expired" : "unexpired", e->srvResumed ? "_resumed" : "_not_resumed");
                if ((long) claimed != trueAge) vf_stat("psk_presentations_with_wrong_claimed_age", 1);
                if (expd && !cl && CR[m].secd == e->cliKeyd) g_sawExpiredClaimedFresh++;
            }
        }
        if (e->srvResumed) {
            vf_stat("resumptions_observed", 1);
            if (e->wireAbbrev != e->flagResumed) vf_stat("decision_flag_and_wire_disagree", 1);
            /* candidates: what this hello presents for the negotiated protocol version */
            struct { int kind, n; const unsigned char *b; } cand[2]; int nc = 0;
            if (e->negVer == MX_TLS13) { if (e->ppskn) { cand[nc].kind = CK_PSK; cand[nc].b = e->ppsk; cand[nc++].n = e->ppskn; } }
            else { if (e->ptktn) { cand[nc].kind = CK_TICKET; cand[nc].b = e->ptkt; cand[nc++].n = e->ptktn; } if (e->psidn) { cand[nc].kind = CK_SID; cand[nc].b = e->psid; cand[nc++].n = e->psidn; } }
            int ok = 0, best = -1, bestKind = nc ? cand[0].kind : CK_NONE; const char *why = NULL;
            for (int j = 0; j < nc && !ok; j++) {
                int m = model_find(cand[j].kind, cand[j].b, cand[j].n);
                if (m < 0) continue;
                const char *w = unjustified(&CR[m], e);
                if (!w) { ok = 1; best = m; if (e->forged && !(e->label && !strcmp(e->label, "stolen-credential")) && e->mutApplied) vf_stat("edits_not_touching_the_credential", 1); }
                else if (best < 0 || CR[m].secd == e->srvSecd) { best = m; why = w; bestKind = cand[j].kind; }
            }
            if (ok) vf_statf(1, "justified_%s", ckname[CR[best].kind]);
            else if (best >= 0) {
                cred_t *m = &CR[best]; int o2 = model_find_secret(e->srvSecd);
                violate(e, why, bestKind, "server resumed but the presented credential does not justify it: issued at t=+%lds by op %d to client %d (%s suite %04x ems=%d key k%d%s%s), age %lds; server secret %s the credential's%s",
                        m->issued - T0, m->op, m->owner, vclass(m->ver), m->suite, m->ems, m->keyuid, m->m_invalid ? ", invalidated by a fatal alert" : "", m->incomplete ? ", handshake never completed" : "", e->t - m->issued,
                        m->secd == e->srvSecd ? "equals" : "differs from", (m->secd != e->srvSecd && o2 >= 0) ? " and equals another session's" : "");
            } else {
                /* nothing byte-exact was presented: forged, edited, truncated, foreign or cross-version */
                char clause[96]; int o2 = model_find_secret(e->srvSecd), any = -1;
                for (int j = 0; j < nc && any < 0; j++) any = model_find(-1, cand[j].b, cand[j].n);
                snprintf(clause, sizeof clause, "resumed-with-%s", e->label && e->forged ? e->label : nc ? "unknown-credential" : "no-credential");
                char own[24] = ""; if (o2 >= 0) snprintf(own, sizeof own, "%d", CR[o2].owner);
                violate(e, clause, bestKind, "server resumed although no credential it issued was presented byte-exactly%s; the secret it resumed with %s%s",
                        any >= 0 ? " (the bytes are a credential of another mechanism/version)" : "", o2 >= 0 ? "is that of the session issued to client " : "matches no issued session", own);
            }
            if (ok && e->complete && e->negVer != MX_TLS13 && e->srvMsd != CR[best].secd) violate(e, "wrong-secret", CR[best].kind, "resumed connection completed with a master secret different from the original session's");
        }
        if (e->mustResume) {
            int pkk = pk == CK_NONE ? CK_SID : pk;
            if (!(e->srvResumed && e->cliResumed && e->complete)) violate(e, "positive-control-failed", pkk, "quiet history (one client, no faults): the honest resumption did not resume (server %d client %d complete %d)", e->srvResumed, e->cliResumed, e->complete);
            else vf_stat("positive_controls_ok", 1);
        }
        /* effects */
        for (int j = 0; j < e->nissued; j++) CR[e->issued[j]].m_known = 1;
        if (e->srvFatal && e->boundSidn == 32) { int m = model_find(CK_SID, e->boundSid, 32); if (m >= 0 && !CR[m].m_invalid) { CR[m].m_invalid = e->sibling ? 2 : 1; vf_stat("cache_entries_invalidated_by_alert", 1); } }
    }
}

/* ================= history construction ================= */
static hist_t H;
static void h_init(const char *name, int nc) { memset(&H, 0, sizeof H); snprintf(H.name, sizeof H.name, "%s", name); H.nc = nc; for (int i = 0; i < MAXCL; i++) H.cc[i] = (ccfg_t) { MX_TLS12, 0x00ae, 0, 0, 0 }; }
static void h_keys(int ks, int uid) { if (H.ninit[ks] < 3) H.initk[ks][H.ninit[ks]++] = uid; }
static void OPA(int k, int c, int v, int a, int b, int d) { if (H.nops < MAXOPS) H.ops[H.nops++] = (op_t) { k, c, v, a, b, d }; }
static uint16_t def_suite(int ver) { return ver == MX_TLS13 ? 0x1301 : ver == MX_TLS11 ? 0x008c : 0x00ae; }
static void h_client(int i, int ver, int kind, int ems, int srv) { H.cc[i] = (ccfg_t) { ver, def_suite(ver), ems, kind == CK_TICKET, srv }; }

enum { T_PC = 0, T_TRUNC, T_XORID, T_FOREIGNID, T_STOLEN, T_EXPIRY, T_OVERFLOW, T_FATAL, T_SUITE, T_EMS, T_VERMIS, T_ABANDON, T_TKTXOR, T_TKTLEN, T_TKTNAME, T_KEYOPS, T_FOREIGNSRV,
       T_13XOR, T_13BINDER, T_13NAME, T_XVER, T_EVICT, T_SIBLING, T_PAUSED, T_IDPLUSTICKET, T_13AGE, T_N };
static const char *tname[] = { "positive-control", "truncated-id", "edited-id", "foreign-id", "stolen-credential", "expiry", "long-idle", "fatal-alert", "suite-removed", "ems-differs", "version-differs",
                               "abandoned-handshake", "edited-ticket", "ticket-length", "ticket-key-name", "ticket-key-ops", "foreign-server", "edited-psk-identity", "edited-binder", "psk-key-name", "cross-version-ticket", "eviction", "fatal-alert-sibling-connection", "paused-handshake", "id-and-ticket-in-one-hello", "claimed-ticket-age" };
typedef struct { int t, ver, kind, var; } sdesc;
static sdesc SD[600]; static int nSD;
static void sd_add(int t, int ver, int kind, int var) { if (nSD < 600) SD[nSD++] = (sdesc) { t, ver, kind, var }; }
static const int v12[] = { MX_TLS11, MX_TLS12, MX_DTLS12 };
static void build_script_index(void)
{
    int T = vf_thorough;
    for (int i = 0; i < 3; i++) { sd_add(T_PC, v12[i], CK_SID, 0); if (v12[i] != MX_DTLS12) sd_add(T_PC, v12[i], CK_TICKET, 0); }
    sd_add(T_PC, MX_TLS13, CK_PSK, 0);
    for (int i = 0; i < 3; i++) {
        int v = v12[i];
        sd_add(T_TRUNC, v, CK_SID, 0);
        for (int k = 0; k < (T ? 4 : 1); k++) sd_add(T_XORID, v, CK_SID, k);
        sd_add(T_FOREIGNID, v, CK_SID, 0);
        for (int kd = CK_SID; kd <= CK_TICKET; kd++) {
            sd_add(T_STOLEN, v, kd, 0); sd_add(T_EXPIRY, v, kd, 0); sd_add(T_OVERFLOW, v, kd, 0); sd_add(T_SUITE, v, kd, 0);
            sd_add(T_EMS, v, kd, 0); sd_add(T_EMS, v, kd, 1);
            for (int w = 0; w < 4; w++) sd_add(T_FATAL, v, kd, w);
        }
        for (int s = 0; s < 4; s++) sd_add(T_ABANDON, v, CK_SID, s);
        for (int s = 0; s < 6; s++) sd_add(T_PAUSED, v, CK_SID, s);
        for (int k = 0; k < (T ? 8 : 1); k++) sd_add(T_TKTXOR, v, CK_TICKET, k);
        sd_add(T_TKTLEN, v, CK_TICKET, 0); sd_add(T_TKTNAME, v, CK_TICKET, 0); sd_add(T_KEYOPS, v, CK_TICKET, 0);
        sd_add(T_FOREIGNSRV, v, CK_TICKET, 0); sd_add(T_FOREIGNSRV, v, CK_TICKET, 1);
        sd_add(T_IDPLUSTICKET, v, CK_SID, 0); sd_add(T_IDPLUSTICKET, v, CK_SID, 1); sd_add(T_IDPLUSTICKET, v, CK_SID, 2);
        sd_add(T_EVICT, v, CK_SID, 0); sd_add(T_SIBLING, v, CK_SID, 0); sd_add(T_SIBLING, v, CK_SID, 1);
    }
    for (int kd = CK_SID; kd <= CK_TICKET; kd++) { sd_add(T_VERMIS, MX_TLS12, kd, MX_TLS11); sd_add(T_VERMIS, MX_TLS11, kd, MX_TLS12); sd_add(T_VERMIS, MX_TLS12, kd, MX_DTLS12); sd_add(T_VERMIS, MX_DTLS12, kd, MX_TLS12); }
    sd_add(T_STOLEN, MX_TLS13, CK_PSK, 0); sd_add(T_EXPIRY, MX_TLS13, CK_PSK, 0); sd_add(T_OVERFLOW, MX_TLS13, CK_PSK, 0); sd_add(T_SUITE, MX_TLS13, CK_PSK, 0); sd_add(T_EMS, MX_TLS13, CK_PSK, 0);
    sd_add(T_FATAL, MX_TLS13, CK_PSK, 0); sd_add(T_FATAL, MX_TLS13, CK_PSK, 3);
    sd_add(T_KEYOPS, MX_TLS13, CK_PSK, 0); sd_add(T_FOREIGNSRV, MX_TLS13, CK_PSK, 0); sd_add(T_FOREIGNSRV, MX_TLS13, CK_PSK, 1);
    for (int k = 0; k < (T ? 10 : 1); k++) sd_add(T_13XOR, MX_TLS13, CK_PSK, k);
    for (int k = 0; k < (T ? 3 : 1); k++) sd_add(T_13BINDER, MX_TLS13, CK_PSK, k);
    for (int k = 0; k < 3; k++) sd_add(T_13AGE, MX_TLS13, CK_PSK, k);
    sd_add(T_13NAME, MX_TLS13, CK_PSK, 0); sd_add(T_XVER, MX_TLS12, CK_TICKET, 0); sd_add(T_XVER, MX_TLS11, CK_TICKET, 0); sd_add(T_XVER, MX_TLS12, CK_SID, 0); sd_add(T_XVER, MX_TLS11, CK_SID, 0);
}

static void build_script(const sdesc *d, vf_rng *g)
{
    char nm[64]; snprintf(nm, sizeof nm, "%s/%s/%s/%d", tname[d->t], mx_vername[d->ver], ckname[d->kind], d->var);
    h_init(nm, 2);
    h_client(0, d->ver, d->kind, 0, 0); h_client(1, d->ver, d->kind, 0, 0);
    if (d->kind != CK_SID) h_keys(0, 0);
    int bit = 1 << vf_below(g, 8);
    switch (d->t) {
    case T_PC: H.quiet = 1; H.nc = 1; OPA(OP_FULL, 0, 0, 0, 0, 0); OPA(OP_RESUME, 0, 0, 0, 0, 0); OPA(OP_RESUME, 0, 0, 0, 0, 0); OPA(OP_REPLAY, 0, 0, -1, 0, 0); break;
    case T_TRUNC: { static const int len[] = { 4, 1, 5, 16, 31 }; for (int i = 0; i < 5; i++) { OPA(OP_FULL, 0, 0, 0, 0, 0); OPA(OP_FORGE, 1, 0, MU_SID_TRUNC, len[i] - 1, 0); } OPA(OP_RESUME, 0, 0, 0, 0, 0); break; }
    case T_XORID: {
        OPA(OP_FULL, 0, 0, 0, 0, 0);
        if (vf_thorough) for (int i = 0; i < 8; i++) OPA(OP_FORGE, 1, 0, MU_SID_XOR, d->var * 8 + i, 1 << vf_below(g, 8));
        else { static const int p[] = { 0, 3, 4, 5, 17, 31 }; for (int i = 0; i < 6; i++) OPA(OP_FORGE, 1, 0, MU_SID_XOR, p[i], 1 << vf_below(g, 8)); OPA(OP_FORGE, 1, 0, MU_SID_XOR, vf_below(g, 32), bit); OPA(OP_FORGE, 1, 0, MU_SID_XOR, vf_below(g, 32), 0xff); }
        OPA(OP_RESUME, 0, 0, 0, 0, 0); break; }
    case T_FOREIGNID: OPA(OP_FULL, 0, 0, 0, 0, 0); for (int i = 0; i < 4; i++) OPA(OP_FORGE, 1, 0, MU_SID_SET, vf_below(g, 32), i); OPA(OP_RESUME, 0, 0, 0, 0, 0); break;
    case T_STOLEN: OPA(OP_FULL, 0, 0, 0, 0, 0); OPA(OP_REPLAY, 1, 0, 0, 1, 0); OPA(OP_REPLAY, 0, 0, 0, 0, 0); OPA(OP_FULL, 0, 0, 0, 0, 0); OPA(OP_REPLAY, 1, 0, -1, 2, 0); OPA(OP_REPLAY, 0, 0, -1, 0, 0); break;
    case T_EXPIRY: OPA(OP_FULL, 0, 0, 0, 0, 0);
        for (int dl = -1; dl <= 1; dl++) { OPA(OP_CLOCK, 0, 0, 1, 0, dl); OPA(OP_REPLAY, 0, 0, 0, 0, 0); }
        OPA(OP_CLOCK, 0, 0, 0, 0, 7); OPA(OP_REPLAY, 0, 0, 0, 0, 0); OPA(OP_CLOCK, 0, 0, 0, 0, 9); OPA(OP_REPLAY, 0, 0, 0, 0, 0); OPA(OP_CLOCK, 0, 0, 0, 0, 9); OPA(OP_CLOCK, 0, 0, 0, 0, 9); OPA(OP_CLOCK, 0, 0, 0, 0, 9); OPA(OP_CLOCK, 0, 0, 0, 0, 9); OPA(OP_REPLAY, 0, 0, 0, 0, 0); break;
    case T_OVERFLOW: OPA(OP_FULL, 0, 0, 0, 0, 0); OPA(OP_CLOCK, 0, 0, 0, 0, 11); OPA(OP_REPLAY, 0, 0, 0, 0, 0); OPA(OP_CLOCK, 0, 0, 0, 0, 0); OPA(OP_REPLAY, 0, 0, 0, 0, 0); OPA(OP_CLOCK, 0, 0, 0, 0, 10); OPA(OP_REPLAY, 0, 0, 0, 0, 0);
        OPA(OP_CLOCK, 0, 0, 0, 0, 10); OPA(OP_REPLAY, 0, 0, 0, 0, 0); break;
    case T_FATAL: if (d->var & 2) OPA(OP_KEEP, 0, 0, 0, 0, 0); else OPA(OP_FULL, 0, 0, 0, 0, 0); OPA(OP_FATAL, 0, 0, d->var & 1, 0, 0); OPA(OP_REPLAY, 0, 0, 0, 0, 0); OPA(OP_RESUME, 0, 0, 0, 0, 0); break;
    case T_SUITE: OPA(OP_FULL, 0, 0, 0, 0, 0); OPA(OP_FORGE, 0, 0, MU_SUITE_SWAP, 0, 0); OPA(OP_REPLAY, 0, 0, 0, 0, 0); break;
    case T_EMS:
        /* var 0: session with extended master secret, hello without (removed on the wire; client configured without);
           var 1: session without, hello with it: inserted first / last / directly after session_ticket on the wire, and offered by the
           client's own configuration (MatrixSSL's hello: session_ticket before extended_master_secret).  A fresh session before each
           attempt: a refused attempt may legitimately cost the cache entry */
        if (d->var) { H.cc[0].ems = -1; H.cc[1].ems = -1; }
        for (int ps = 0; ps < 4; ps++) { if (!d->var && (ps == 1 || ps == 2)) continue; OPA(OP_FULL, 0, 0, 0, 0, 0); OPA(OP_FORGE, 0, 0, MU_EMS_REMOVE, ps, 0); }
        OPA(OP_REPLAY, 0, 0, -1, 0, 0); break;
    case T_VERMIS: H.cc[0].suite = 0x008c; OPA(OP_FULL, 0, 0, 0, 0, 0); OPA(OP_RESUME_VER, 0, 0, d->var, 0, 0); OPA(OP_FULL, 0, 0, 0, 0, 0); OPA(OP_RESUME, 0, 0, 0, 0, 0); break;
    case T_ABANDON: OPA(OP_ABANDON, 0, 0, d->var, 0, 0); OPA(OP_RESUME_ABANDONED, 0, 0, 0, 0, 0); OPA(OP_ABANDON, 0, 0, d->var, 0, 0); OPA(OP_RESUME_ABANDONED, 0, 0, 1, 0, 0); OPA(OP_FULL, 0, 0, 0, 0, 0); OPA(OP_RESUME, 0, 0, 0, 0, 0); break;
    case T_TKTXOR: {
        OPA(OP_FULL, 0, 0, 0, 0, 0);
        if (vf_thorough) for (int i = 0; i < 16; i++) OPA(OP_FORGE, 0, 0, MU_TKT_XOR, d->var * 16 + i, 1 << vf_below(g, 8));
        else { static const int p[] = { 0, 15, 16, 31, 32, 33, 34, 35, 36, 37, 85, 88, 95, 96, 127 }; for (int i = 0; i < 15; i++) OPA(OP_FORGE, 0, 0, MU_TKT_XOR, p[i], 1 << vf_below(g, 8)); OPA(OP_FORGE, 0, 0, MU_TKT_XOR, vf_below(g, 128), bit); }
        OPA(OP_REPLAY, 0, 0, 0, 0, 0); break; }
    case T_TKTLEN: { OPA(OP_FULL, 0, 0, 0, 0, 0); static const int ln[] = { 127, 112, 96, 32, 16, 1 }; for (int i = 0; i < 6; i++) OPA(OP_FORGE, 0, 0, MU_TKT_TRUNC, ln[i] - 1, 0); OPA(OP_FORGE, 0, 0, MU_TKT_EXTEND, 0, 0); OPA(OP_FORGE, 0, 0, MU_TKT_EXTEND, 15, 0x10); OPA(OP_REPLAY, 0, 0, 0, 0, 0); break; }
    case T_TKTNAME: h_keys(0, 1); OPA(OP_FULL, 0, 0, 0, 0, 0); OPA(OP_FORGE, 0, 0, MU_TKT_NAME, 0, 0); OPA(OP_REPLAY, 0, 0, 0, 0, 0); break;
    case T_13NAME: h_keys(0, 1); OPA(OP_FULL, 0, 0, 0, 0, 0); OPA(OP_FORGE, 0, 0, MU_PSKID_NAME, 0, 0); OPA(OP_REPLAY, 0, 0, 0, 0, 0); break;
    case T_KEYOPS: OPA(OP_FULL, 0, 0, 0, 0, 0); OPA(OP_KEY, 0, 0, 0, 1, 0); OPA(OP_REPLAY, 0, 0, 0, 0, 0); OPA(OP_KEY, 0, 0, 0, 0, 4); OPA(OP_REPLAY, 0, 0, 0, 0, 0); OPA(OP_KEY, 0, 0, 0, 0, 0); OPA(OP_REPLAY, 0, 0, 0, 0, 0);
        OPA(OP_KEY, 0, 0, 0, 2, 4); OPA(OP_REPLAY, 0, 0, 0, 0, 0); OPA(OP_KEY, 0, 0, 0, 3, 1); OPA(OP_REPLAY, 0, 0, 0, 0, 0); OPA(OP_FULL, 0, 0, 0, 0, 0); OPA(OP_RESUME, 0, 0, 0, 0, 0); break;
    case T_FOREIGNSRV: h_keys(1, d->var ? 4 : 1); OPA(OP_FULL, 0, 0, 0, 0, 0); OPA(OP_RESUME_OTHER, 0, 0, 0, 0, 0); OPA(OP_REPLAY, 0, 0, 0, 0, 1); OPA(OP_KEY, 0, 0, 1, 0, 0); OPA(OP_REPLAY, 0, 0, 0, 0, 1);
        OPA(OP_KEY, 0, 0, 1, 1, 0); OPA(OP_REPLAY, 0, 0, 0, 0, 1); break;
    case T_13XOR: {
        OPA(OP_FULL, 0, 0, 0, 0, 0);
        if (vf_thorough) for (int i = 0; i < 16; i++) OPA(OP_FORGE, 0, 0, MU_PSKID_XOR, d->var * 16 + i, 1 << vf_below(g, 8));
        else { static const int p[] = { 0, 15, 16, 27, 28, 29, 30, 60, 100, 135, 136, 151 }; for (int i = 0; i < 12; i++) OPA(OP_FORGE, 0, 0, MU_PSKID_XOR, p[i], 1 << vf_below(g, 8)); }
        OPA(OP_REPLAY, 0, 0, 0, 0, 0); break; }
    case T_13BINDER: {
        OPA(OP_FULL, 0, 0, 0, 0, 0);
        if (vf_thorough) for (int i = 0; i < 11; i++) OPA(OP_FORGE, 0, 0, MU_BINDER_XOR, d->var * 11 + i, 1 << vf_below(g, 8));
        else { static const int p[] = { 0, 1, 15, 16, 31 }; for (int i = 0; i < 5; i++) OPA(OP_FORGE, 0, 0, MU_BINDER_XOR, p[i], 1 << vf_below(g, 8)); }
        for (int i = 0; i < 4; i++) OPA(OP_FORGE, 0, 0, MU_AGE_XOR, i, bit);
        OPA(OP_REPLAY, 0, 0, 0, 0, 0); break; }
    case T_13AGE:
        /* the client's clock is not the server's: REPLAY d = skew mode << 1, RESUME a = skew mode (the genuine client object) */
        OPA(OP_FULL, 0, 0, 0, 0, 0);
        if (d->var == 0) {          /* one second past the lifetime on the server's clock */
            OPA(OP_CLOCK, 0, 0, 1, 0, 1);
            OPA(OP_REPLAY, 0, 0, 0, 0, SK_STOOD_STILL << 1); OPA(OP_REPLAY, 0, 0, 0, 0, SK_JUST_INSIDE << 1); OPA(OP_REPLAY, 0, 0, 0, 0, SK_SLOW << 1);
            OPA(OP_REPLAY, 0, 0, 0, 0, SK_HUGE << 1); OPA(OP_REPLAY, 0, 0, 0, 0, SK_BACKWARDS << 1); OPA(OP_RESUME, 0, 0, SK_STOOD_STILL, 0, 0);
        } else if (d->var == 1) {   /* around the boundary: a fresh ticket with a wrong age (either answer is fine), then an expired one claiming to be fresh */
            OPA(OP_CLOCK, 0, 0, 1, 0, -1); OPA(OP_REPLAY, 0, 0, 0, 0, SK_HUGE << 1); OPA(OP_REPLAY, 0, 0, 0, 0, SK_BACKWARDS << 1); OPA(OP_REPLAY, 0, 0, 0, 0, SK_STOOD_STILL << 1);
            OPA(OP_CLOCK, 0, 0, 1, 0, 0); OPA(OP_REPLAY, 0, 0, 0, 0, SK_STOOD_STILL << 1);
            OPA(OP_CLOCK, 0, 0, 1, 0, 1); OPA(OP_REPLAY, 0, 0, 0, 0, SK_STOOD_STILL << 1); OPA(OP_REPLAY, 0, 0, 0, 0, SK_JUST_INSIDE << 1);
            OPA(OP_CLOCK, 0, 0, 0, 0, 5); OPA(OP_REPLAY, 0, 0, 0, 0, SK_STOOD_STILL << 1); OPA(OP_REPLAY, 0, 0, 0, 0, SK_SLOW << 1); OPA(OP_RESUME, 0, 0, SK_JUST_INSIDE, 0, 0);
        } else {                    /* long expired, up to where the library's millisecond arithmetic saturates */
            OPA(OP_CLOCK, 0, 0, 0, 0, 9); OPA(OP_REPLAY, 0, 0, 0, 0, SK_STOOD_STILL << 1); OPA(OP_REPLAY, 0, 0, 0, 0, SK_JUST_INSIDE << 1);
            OPA(OP_CLOCK, 0, 0, 0, 0, 10); OPA(OP_REPLAY, 0, 0, 0, 0, SK_STOOD_STILL << 1); OPA(OP_REPLAY, 0, 0, 0, 0, SK_JUST_INSIDE << 1); OPA(OP_REPLAY, 0, 0, 0, 0, SK_BACKWARDS << 1);
            OPA(OP_RESUME, 0, 0, SK_STOOD_STILL, 0, 0);
        }
        OPA(OP_FULL, 0, 0, 0, 0, 0); OPA(OP_RESUME, 0, 0, 0, 0, 0); break;
    case T_XVER: if (d->kind == CK_SID) { h_keys(0, 0); OPA(OP_FULL, 0, 0, 0, 0, 0); OPA(OP_FORGE, 1, 0, MU_XVER, 0, 0); OPA(OP_REPLAY, 1, 0, 0, 2, 0); OPA(OP_FULL, 0, 0, 0, 0, 0); OPA(OP_FORGE, 1, 0, MU_XVER, 0, 0); OPA(OP_REPLAY, 0, 0, -1, 0, 0); break; }
        h_client(1, MX_TLS13, CK_PSK, 0, 0); OPA(OP_FULL, 0, 0, 0, 0, 0); OPA(OP_FULL, 1, 0, 0, 0, 0); OPA(OP_FORGE, 1, 0, MU_XVER, 0, 0); OPA(OP_FORGE, 0, 1, MU_XVER, 0, 0); OPA(OP_REPLAY, 0, 0, 0, 0, 0); OPA(OP_REPLAY, 1, 1, 0, 0, 0); break;
    case T_SIBLING: OPA(OP_FULL, 0, 0, 0, 0, 0); OPA(OP_KEEP, 0, 0, 0, 0, 0);
        if (d->var) { OPA(OP_REPLAY, 1, 0, 0, 1, 0); } else { OPA(OP_REPLAY, 1, 0, 0, 0, 0); OPA(OP_FORGE, 1, 0, MU_SUITE_SWAP, 0, 0); }
        OPA(OP_CLOSE, 0, 0, 0, 0, 0); OPA(OP_REPLAY, 1, 0, 0, 0, 0); break;
    case T_PAUSED: OPA(OP_PAUSED, 0, 0, d->var % 3, 0, d->var / 3); OPA(OP_RESUME, 0, 0, 0, 0, 0); OPA(OP_PAUSED, 0, 0, d->var % 3, 1, d->var / 3); OPA(OP_RESUME, 0, 0, 0, 0, 0); break;
    case T_IDPLUSTICKET:   /* a client that asks for tickets meets a server without ticket keys (gets an id), the id is invalidated, keys are loaded, the client now holds id + ticket */
        if (d->var == 2) { H.cc[1].tkt = 1; OPA(OP_FULL, 0, 0, 0, 0, 0); OPA(OP_KEY, 0, 0, 0, 0, 0); OPA(OP_FULL, 1, 0, 0, 0, 0); OPA(OP_FORGE, 1, 0, MU_IDPLUS, 0, 0); OPA(OP_REPLAY, 0, 0, 0, 0, 0); OPA(OP_RESUME, 1, 0, 0, 0, 0); break; }
        H.cc[0].tkt = 1; OPA(OP_FULL, 0, 0, 0, 0, 0); if (d->var) OPA(OP_FATAL, 0, 0, 1, 0, 0); else OPA(OP_CLOCK, 0, 0, 1, 0, 1);
        OPA(OP_KEY, 0, 0, 0, 0, 0); OPA(OP_RESUME, 0, 0, 0, 0, 0); OPA(OP_RESUME, 0, 0, 0, 0, 0); OPA(OP_REPLAY, 1, 0, 0, 0, 0); OPA(OP_REPLAY, 1, 0, 0, 1, 0); break;
    case T_EVICT: OPA(OP_FULL, 0, 0, 0, 0, 0); OPA(OP_FILL, 0, 0, 31, 0, 0); OPA(OP_REPLAY, 0, 0, 0, 0, 0); OPA(OP_FILL, 0, 0, 2, 0, 0); OPA(OP_REPLAY, 0, 0, 0, 0, 0); OPA(OP_FULL, 1, 0, 0, 0, 0); OPA(OP_REPLAY, 0, 0, 0, 0, 0);
        OPA(OP_FORGE, 0, 1, MU_SID_TRUNC, 3, 0); OPA(OP_KEEP, 1, 0, 0, 0, 0); OPA(OP_FILL, 0, 0, 34, 0, 0); OPA(OP_REPLAY, 1, 1, 0, 0, 0); break;
    }
}

static void build_random(vf_rng *g)
{
    h_init("random", 4 + (int) vf_below(g, 37));
    int na = 2 + (int) vf_below(g, 5); if (na > H.nc) na = H.nc;
    for (int i = 0; i < H.nc; i++) {
        int r = (int) vf_below(g, 100), ver = r < 42 ? MX_TLS12 : r < 57 ? MX_TLS11 : r < 75 ? MX_DTLS12 : MX_TLS13;
        uint16_t s = def_suite(ver); int q = (int) vf_below(g, 20);
        if (ver == MX_TLS12) s = q < 12 ? 0x00ae : q < 15 ? 0x008d : q < 17 ? 0x008c : q < 18 ? 0x00af : q < 19 ? 0x009c : 0x003c;
        else if (ver == MX_TLS11) s = q < 14 ? 0x008c : q < 18 ? 0x008d : 0x002f;
        else if (ver == MX_DTLS12) s = q < 14 ? 0x00ae : 0x008c;
        else s = q < 14 ? 0x1301 : q < 17 ? 0x1303 : 0x1302;
        H.cc[i] = (ccfg_t) { ver, s, vf_below(g, 100) < 15 ? -1 : 0, vf_below(g, 100) < 45, vf_below(g, 100) < 25 };
    }
    int r = (int) vf_below(g, 100);
    if (r < 75) { h_keys(0, (int) vf_below(g, 2)); if (r < 25) h_keys(0, 2); }
    r = (int) vf_below(g, 100);
    if (r < 35) h_keys(1, 1 + (int) vf_below(g, 3)); else if (r < 50) h_keys(1, H.ninit[0] ? H.initk[0][0] : 0); else if (r < 60) h_keys(1, 4);
    int target = 30 + (int) vf_below(g, 21);
    for (int i = 0; i < na && i < 3; i++) OPA(OP_FULL, i, 0, 0, 0, 0);
    while (H.nops < target) {
        int c = vf_below(g, 100) < 80 ? (int) vf_below(g, na) : (int) vf_below(g, H.nc), v = vf_below(g, 100) < 85 ? (int) vf_below(g, na) : (int) vf_below(g, H.nc);
        int w = (int) vf_below(g, 100), a = (int) vf_below(g, 1 << 16), b = (int) vf_below(g, 1 << 16), d = (int) vf_below(g, 1 << 16);
        int sk1 = a % 16, sk2 = (b >> 1) % 12;   /* client clock behaviour for TLS 1.3 presentations (no extra draws) */
        if (w < 17) OPA(OP_RESUME, c, 0, sk1 < SK_N ? sk1 : 0, 0, 0);
        else if (w < 24) OPA(OP_FULL, c, 0, 0, 0, 0);
        else if (w < 35) OPA(OP_REPLAY, c, v, (a % 5) - 1, vf_below(g, 100) < 70 ? 0 : 1 + (b & 1), (vf_below(g, 100) < 15) | ((sk2 < SK_N ? sk2 : 0) << 1));
        else if (w < 57) OPA(OP_FORGE, c, v, 1 + a % (MU_N - 1), b, 1 << (d % 8));
        else if (w < 68) { if (vf_below(g, 100) < 60) OPA(OP_CLOCK, c, v, 1, (a % 5) - 1, (int) vf_below(g, 3) - 1); else OPA(OP_CLOCK, c, v, 0, 0, d % NDT); }
        else if (w < 72) OPA(OP_KEEP, c, 0, 0, 0, 0);
        else if (w < 78) OPA(OP_FATAL, c, 0, a & 1, 0, 0);
        else if (w < 80) OPA(OP_CLOSE, c, 0, 0, 0, 0);
        else if (w < 82) OPA(OP_FILL, c, 0, 3 + a % 36, 0, 0);
        else if (w < 88) OPA(OP_KEY, c, 0, vf_below(g, 100) < 70 ? 0 : 1, b % 4, d % NPOOL);
        else if (w < 90) OPA(OP_ABANDON, c, 0, a % 4, 0, 0);
        else if (w < 92) OPA(OP_PAUSED, c, 0, a % 3, b & 1, d & 1);
        else if (w < 94) OPA(OP_RESUME_ABANDONED, c, 0, a & 1, 0, 0);
        else if (w < 97) OPA(OP_RESUME_OTHER, c, 0, 0, 0, 0);
        else OPA(OP_RESUME_VER, c, 0, a % MX_NVER, 0, 0);
    }
}

/* ================= one history (runs in a forked child) ================= */
static long NRANDOM;
static void run_history(void *arg)
{
    int n = *(int *) arg; vf_rng g; g_hist = n;
    snprintf(g_replay, sizeof g_replay, "hist=%d,seed=%llu,tier=%s", n, (unsigned long long) vf_seed, vf_thorough ? "thorough" : "quick");
    vf_rng_init(&g, vf_seed, 0xC14 + (uint64_t) n * 7919); vf_rng_init(&XR, vf_seed ^ 0x5eed, n);
    mx_entropy_seed(vf_seed * 1000003ULL + (uint64_t) n); T0 = mx_now; nCR = nEV = 0;
    for (int i = 0; i < NPOOL; i++) { vf_fill(&g, POOL[i].name, 16); vf_fill(&g, POOL[i].sym, 32); vf_fill(&g, POOL[i].mac, 32); POOL[i].symlen = 32; }
    memcpy(POOL[4].name, POOL[0].name, 16); POOL[5].symlen = 16;
    if (n < nSD) build_script(&SD[n], &g); else build_random(&g);
    memset(CL, 0, sizeof CL); memset(LV, 0, sizeof LV); nk[0] = nk[1] = 0;
    for (int i = 0; i <= MAXCL; i++) { CL[i].c = H.cc[i < MAXCL ? i : 0]; CL[i].abandoned = -1; }
    for (int ks = 0; ks < 2; ks++) for (int i = 0; i < H.ninit[ks]; i++) key_load(ks, H.initk[ks][i], -1);
    TRACE("history %d [%s] clients=%d ops=%d keysA=%d keysB=%d\n", n, H.name, H.nc, H.nops, nk[0], nk[1]);
    uint64_t shape = 1469598103934665603ULL; int done = 0;
    for (int i = 0; i < H.nops; i++) {
        int ev0 = nEV, ok = exec_op(&H, i);
        shape = (shape ^ (uint64_t) (H.ops[i].k + 1)) * 1099511628211ULL;
        vf_statf(1, ok ? "op_%s" : "op_skipped_%s", opname[H.ops[i].k]); done += ok;
        if (g_verbose) for (int j = ev0; j < nEV; j++) { char b[400]; ev_fmt(&EV[j], b, sizeof b); fprintf(stderr, "  op %2d t=+%-8ld %s\n", i, EV[j].t - T0, b); }
        if (nEV >= MAXEV - 50 || nCR >= MAXCRED - 50) break;
    }
    for (int i = 0; i < MAXLIVE; i++) live_close(i, 1);
    for (int i = 0; i <= MAXCL; i++) if (CL[i].sid) { matrixSslDeleteSessionId(CL[i].sid); CL[i].sid = NULL; }
    g_sawEmsAfterTkt = g_sawExpiredClaimedFresh = 0;
    check_history(&H);
    if (n < nSD && SD[n].t == T_13AGE && !g_sawExpiredClaimedFresh) vf_incon("hist=%d [%s]: no expired ticket was presented with a claimed age inside the lifetime (client clock offset ineffective)", n, H.name);
    if (n < nSD && SD[n].t == T_EMS && SD[n].kind == CK_TICKET && SD[n].var == 1 && !g_sawEmsAfterTkt) vf_incon("hist=%d [%s]: no hello presented a non-EMS ticket followed by extended_master_secret", n, H.name);
    vf_stat("cases", done); vf_stat("histories", 1); vf_stat(n < nSD ? "histories_scripted" : "histories_random", 1); vf_stat("events", nEV); vf_stat("credentials_issued", nCR);
    vf_distinct("shape|%016llx|%s", (unsigned long long) shape, n < nSD ? H.name : "");
    if (n == 1 || n == nSD - 1 || n == nSD || n == nSD + 1) {
        char s[2000]; int o = snprintf(s, sizeof s, "hist=%d [%s] %d clients: ", n, H.name, H.nc);
        for (int j = 0; j < nEV && o < 1800; j++) { if (EV[j].opkind == OP_FILL && j > 0 && EV[j - 1].opkind == OP_FILL) continue; o += ev_fmt(&EV[j], s + o, sizeof s - o); if (o < 1990) s[o++] = ';', s[o++] = ' ', s[o] = 0; }
        vf_sample("%s", s);
    }
}

int main(int argc, char **argv)
{
    vf_init(argc, argv);
    int only = -1;
    if (vf_case) { const char *p = strstr(vf_case, "hist="), *q = strstr(vf_case, "seed="); if (p) only = atoi(p + 5); if (q) vf_seed = strtoull(q + 5, NULL, 0); if (strstr(vf_case, "tier=thorough")) vf_thorough = 1; else if (strstr(vf_case, "tier=quick")) vf_thorough = 0; if (only < 0) { fprintf(stderr, "bad --case, want hist=<n>[,seed=<s>][,tier=quick|thorough]\n"); return 2; } }
    g_verbose = vf_verbose;
    mx_global_init(); mx_keys_load();
    KS[0] = mx_keys.srv_rsa; KS[1] = mx_mkkeys(MX_TK "RSA/2048_RSA.pem", MX_TK "RSA/2048_RSA_KEY.pem", mx_ca_both);
    /* the shared harness preloads a default ticket key into its key sets: histories start from key sets without ticket keys */
    for (int ks = 0; ks < 2; ks++) while (KS[ks]->sessTickets) { unsigned char nm[16]; memcpy(nm, KS[ks]->sessTickets->name, 16); if (matrixSslDeleteSessionTicketKey(KS[ks], nm) < 0) { fprintf(stderr, "HARNESS: cannot remove preloaded ticket key\n"); return 2; } }
    build_script_index();
    NRANDOM = vf_argl("--histories", vf_thorough ? 20000 : 300);
    long total = nSD + NRANDOM;
    for (long n = 0; n < total; n++) {
        if (only >= 0 ? n != only : !vf_mine(n)) continue;
        int hn = (int) n; char spec[96]; snprintf(spec, sizeof spec, "hist=%d,seed=%llu,tier=%s", hn, (unsigned long long) vf_seed, vf_thorough ? "thorough" : "quick");
        vf_fork_case(run_history, &hn, "c14-history", spec, 300);
    }
    matrixSslDeleteKeys(KS[1]); mx_keys_free(); matrixSslClose();
    vf_flush();
    return 0;
}
