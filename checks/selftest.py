import vflib, os
def run(ctx):
    flags = os.environ.get("SMOKE_FLAGS", "").split()
    st = [dict(variant="asan", name="smoke", sources=["checks/selftest/smoke.c"], shards=4, args=flags)]
    return vflib.std_run(ctx, st, "exploration", "framework smoke test", ["none"], min_nontrivial=2)
