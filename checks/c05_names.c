/* C05 - the expected-name check accepts only certificates issued for that name.
 *
 * Every case is a leaf certificate minted by gen/certgen.h (Ed25519 leaf under our own Ed25519 root: signing and
 * MatrixSSL's verification are both fast, so the run is dominated by the code under test) whose subject CN and
 * subjectAltName list are chosen by a grammar RELATIVE to an expected name E, together with a relation class.
 * matrixValidateCertsExt(leaf, root, E, options{nameType, VALIDATE_EXPECTED_GENERAL_NAME}) is called for several
 * nameTypes / expected-name variants and for EVERY permutation of the SAN list.
 *
 * Oracle: ref_match() below, transcribed from the property statement:
 *    - a SAN entry matches only if it is of the kind selected by nameType (ANY = any of the three kinds),
 *      dNSName / rfc822Name: case-insensitive equality of the complete entry with E, all octets printable ASCII
 *      dNSName "*.rest": stands for exactly one non-empty left-most label of E, no other '*' anywhere
 *      iPAddress: exactly 4 octets equal to the four decimal fields of E
 *    - the subject CN (DNS rules) only when the certificate has no dNSName / rfc822Name / iPAddress entry at all and
 *      nameType is ANY, HOSTNAME or CN
 *    - nothing else matches; in particular the GeneralNames of OTHER extensions (issuerAltName: names of the issuer; cRLDistributionPoints
 *      fullName: where a CRL lives) never count, whatever kind they are, and do not switch the CN fallback off.
 * Asserted: soundness   library accepts => reference accepts            else c05:accepts:<class>
 *           order       same verdict for every permutation of the list  else c05:order-dependent
 *           completeness the plain positive forms of the statement (exact, other case, *.label wildcard, IPv4, e-mail,
 *                        CN without SAN) are accepted (in all permutations) else c05:rejects-canonical:<class>
 * "Accepts" is read in the library's favour: rc >= 0 AND authStatus == PASS AND no authFailFlags.
 * One documented leniency is granted: a single trailing NUL on a dNSName/rfc822Name entry is stripped (x509.c
 * DISABLE_X509_GENERAL_NAME_SUPPORT_C_NULL is not defined) - recorded as lenient:*, not asserted.
 * DER blobs and expected names live in exact-size heap blocks, so ASan reports any walk over an unterminated name. */
#include "vf.h"
#include "matrixsslApi.h"
#include "certgen.h"

extern long mx_now;
static long NOW;
static cg_key *RK, *LK; static cg_spec RS; static cg_cert RC; static psX509Cert_t *ROOT;

typedef struct { int kind, len; unsigned char v[100]; } ent;
typedef struct {
    char cls[40];            /* relation class of the focus name w.r.t. E */
    char E[64];              /* expected name */
    int kindE;               /* 0 host name, 1 e-mail, 2 IPv4 literal: decides the specific nameType to use */
    int canonical;           /* 1: plain positive form named in the statement, must be accepted */
    int ncn; struct { int tag, len; unsigned char v[100]; } cn[2];
    int nsan; ent san[4];
    /* names that describe somebody else: GeneralNames of the issuerAltName extension (carrier bit 1; bit 4: emitted BEFORE the subjectAltName)
       and / or of a cRLDistributionPoints fullName (bit 2). The reference never looks at them. */
    int carrier, nian; ent ian[6];
} ccase;

/* ------------------------------------------------------------------ reference --- */
static int ieq(const unsigned char *a, int alen, const char *b, int blen)
{
    if (alen != blen) return 0;
    for (int i = 0; i < alen; i++) { int x = a[i], y = (unsigned char) b[i]; if (x >= 'A' && x <= 'Z') x += 32; if (y >= 'A' && y <= 'Z') y += 32; if (x != y) return 0; }
    return 1;
}
static int printable(const unsigned char *a, int n) { for (int i = 0; i < n; i++) if (a[i] < 0x20 || a[i] > 0x7e) return 0; return n > 0; }
static int ref_dns(const unsigned char *e, int n, const char *x)
{
    int xl = (int) strlen(x);
    if (!printable(e, n)) return 0;
    if (n >= 2 && e[0] == '*' && e[1] == '.') {
        if (memchr(e + 1, '*', n - 1)) return 0;
        const char *dot = strchr(x, '.');
        if (!dot || dot == x) return 0;                       /* exactly one, non-empty, left-most label */
        return ieq(e + 1, n - 1, dot, xl - (int) (dot - x));
    }
    if (memchr(e, '*', n)) return 0;
    return ieq(e, n, x, xl);
}
static int ref_email(const unsigned char *e, int n, const char *x) { return printable(e, n) && !memchr(e, '*', n) && ieq(e, n, x, (int) strlen(x)); }
static int parse_ipv4(const char *x, unsigned char o[4])
{
    for (int i = 0; i < 4; i++) {
        int v = 0, d = 0; while (*x >= '0' && *x <= '9' && d < 3) { v = v * 10 + (*x - '0'); x++; d++; }
        if (!d || v > 255) return 0; o[i] = (unsigned char) v;
        if (i < 3) { if (*x != '.') return 0; x++; }
    }
    return *x == 0;
}
static int ref_ip(const unsigned char *e, int n, const char *x) { unsigned char o[4]; return n == 4 && parse_ipv4(x, o) && !memcmp(o, e, 4); }
/* lenient != 0: strip one trailing NUL from dNSName / rfc822Name entries first (documented library behaviour) */
static int ref_match(const ccase *c, const ent *san, int nsan, const char *x, int nt, int lenient)
{
    int supported = 0;
    for (int i = 0; i < nsan; i++) {
        const unsigned char *v = san[i].v; int n = san[i].len;
        if (san[i].kind != CG_GN_DNS && san[i].kind != CG_GN_EMAIL && san[i].kind != CG_GN_IP) continue;
        supported = 1;
        if (lenient && san[i].kind != CG_GN_IP && n >= 2 && v[n - 1] == 0) n--;
        if (san[i].kind == CG_GN_DNS && (nt == NAME_TYPE_ANY || nt == NAME_TYPE_HOSTNAME || nt == NAME_TYPE_SAN_DNS) && ref_dns(v, n, x)) return 1;
        if (san[i].kind == CG_GN_EMAIL && (nt == NAME_TYPE_ANY || nt == NAME_TYPE_SAN_EMAIL) && ref_email(v, n, x)) return 1;
        if (san[i].kind == CG_GN_IP && (nt == NAME_TYPE_ANY || nt == NAME_TYPE_SAN_IP_ADDRESS) && ref_ip(v, n, x)) return 1;
    }
    /* several CNs: the statement says "the subject common name"; any of them is granted (the library keeps the last one) */
    if (!supported && (nt == NAME_TYPE_ANY || nt == NAME_TYPE_HOSTNAME || nt == NAME_TYPE_CN)) for (int i = 0; i < c->ncn; i++) if (ref_dns(c->cn[i].v, c->cn[i].len, x)) return 1;
    return 0;
}

/* ------------------------------------------------------------------ replay spec --- */
static void spec_str(const ccase *c, char *o, size_t n)
{
    char h[210]; size_t k = 0;
    vf_hex(h, (const unsigned char *) c->E, strlen(c->E));
    k += snprintf(o + k, n - k, "cls=%s kind=%d canon=%d E=%s cn=", c->cls, c->kindE, c->canonical, h);
    if (!c->ncn) k += snprintf(o + k, n - k, "-");
    for (int i = 0; i < c->ncn; i++) { vf_hex(h, c->cn[i].v, c->cn[i].len); k += snprintf(o + k, n - k, "%s%d:%s", i ? "," : "", c->cn[i].tag, h); }
    k += snprintf(o + k, n - k, " san=");
    if (!c->nsan) k += snprintf(o + k, n - k, "-");
    for (int i = 0; i < c->nsan; i++) { vf_hex(h, c->san[i].v, c->san[i].len); k += snprintf(o + k, n - k, "%s%d:%s", i ? "," : "", c->san[i].kind, h); }
    if (c->nian) { k += snprintf(o + k, n - k, " ian=%d/", c->carrier); for (int i = 0; i < c->nian; i++) { vf_hex(h, c->ian[i].v, c->ian[i].len); k += snprintf(o + k, n - k, "%s%d:%s", i ? "," : "", c->ian[i].kind, h); } }
}
static int spec_parse(const char *s, ccase *c)
{
    char eh[160], cn[500], san[1000], ian[1500] = ""; memset(c, 0, sizeof *c);
    if (sscanf(s, "cls=%39s kind=%d canon=%d E=%159s cn=%499s san=%999s ian=%d/%1499s", c->cls, &c->kindE, &c->canonical, eh, cn, san, &c->carrier, ian) < 6) return -1;
    int n = vf_unhex((unsigned char *) c->E, eh); c->E[n] = 0;
    if (strcmp(cn, "-")) for (char *t = strtok(cn, ","); t && c->ncn < 2; t = strtok(NULL, ",")) { char *col = strchr(t, ':'); if (!col) return -1; c->cn[c->ncn].tag = atoi(t); c->cn[c->ncn].len = vf_unhex(c->cn[c->ncn].v, col + 1); c->ncn++; }
    if (strcmp(san, "-")) for (char *t = strtok(san, ","); t && c->nsan < 4; t = strtok(NULL, ",")) { char *col = strchr(t, ':'); if (!col) return -1; c->san[c->nsan].kind = atoi(t); c->san[c->nsan].len = vf_unhex(c->san[c->nsan].v, col + 1); c->nsan++; }
    if (ian[0]) for (char *t = strtok(ian, ","); t && c->nian < 6; t = strtok(NULL, ",")) { char *col = strchr(t, ':'); if (!col) return -1; c->ian[c->nian].kind = atoi(t); c->ian[c->nian].len = vf_unhex(c->ian[c->nian].v, col + 1); c->nian++; }
    return 0;
}
static void pretty(const unsigned char *v, int n, char *o, size_t cap)
{
    size_t k = 0; for (int i = 0; i < n && k + 6 < cap; i++) { if (v[i] >= 0x20 && v[i] < 0x7f && v[i] != '\\') o[k++] = (char) v[i]; else k += snprintf(o + k, cap - k, "\\x%02x", v[i]); } o[k] = 0;
}
static void case_text(const ccase *c, const int *perm, char *o, size_t n)
{
    static const char *kn[] = { "other", "email", "DNS", "x400", "dir", "edi", "URI", "IP", "rid" }; char b[420]; size_t k = 0;
    k += snprintf(o + k, n - k, "expected=\"%s\" class=%s CN=", c->E, c->cls);
    if (!c->ncn) k += snprintf(o + k, n - k, "(none)");
    for (int i = 0; i < c->ncn; i++) { pretty(c->cn[i].v, c->cn[i].len, b, sizeof b); k += snprintf(o + k, n - k, "%s\"%s\"(tag 0x%02x)", i ? "," : "", b, c->cn[i].tag); }
    k += snprintf(o + k, n - k, " SAN=[");
    for (int i = 0; i < c->nsan && k < n; i++) {
        const ent *e = &c->san[perm ? perm[i] : i];
        if (e->kind == CG_GN_IP) { b[0] = 0; for (int j = 0; j < e->len && j < 16; j++) sprintf(b + strlen(b), "%s%u", j ? "." : "", e->v[j]); } else pretty(e->v, e->len, b, sizeof b);
        k += snprintf(o + k, n - k, "%s%s:%s", i ? ", " : "", e->kind >= 0 && e->kind <= 8 ? kn[e->kind] : "tag?", b);
    }
    k += snprintf(o + k, n - k, "]");
    if (c->nian) {
        k += snprintf(o + k, n - k, " %s%s%s=[", (c->carrier & 1) ? ((c->carrier & 4) ? "issuerAltName(before SAN)" : "issuerAltName") : "", (c->carrier & 3) == 3 ? "+" : "", (c->carrier & 2) ? "cRLDistributionPoints.fullName" : "");
        for (int i = 0; i < c->nian && k < n; i++) {
            const ent *e = &c->ian[i];
            if (e->kind == CG_GN_IP) { b[0] = 0; for (int j = 0; j < e->len && j < 16; j++) sprintf(b + strlen(b), "%s%u", j ? "." : "", e->v[j]); } else pretty(e->v, e->len, b, sizeof b);
            k += snprintf(o + k, n - k, "%s%s:%s", i ? ", " : "", e->kind >= 0 && e->kind <= 8 ? kn[e->kind] : "tag?", b);
        }
        k += snprintf(o + k, n - k, "]");
    }
}

/* ------------------------------------------------------------------ one case --- */
static const char *ntname[] = { "ANY", "HOSTNAME", "CN", "SAN_DNS", "SAN_EMAIL", "SAN_IP" };
static int g_sample;
static int next_perm(int *p, int n)   /* lexicographic successor */
{
    int i = n - 2; while (i >= 0 && p[i] > p[i + 1]) i--; if (i < 0) return 0;
    int j = n - 1; while (p[j] < p[i]) j--; int t = p[i]; p[i] = p[j]; p[j] = t;
    for (int a = i + 1, b = n - 1; a < b; a++, b--) { t = p[a]; p[a] = p[b]; p[b] = t; }
    return 1;
}
typedef struct { char name[64]; int nt; unsigned mflags; int api; int focus; int unrel; } evalspec;
static int build_evals(const ccase *c, evalspec *ev)
{
    int n = 0; char alt[64]; size_t L = strlen(c->E);
    for (size_t i = 0; i <= L; i++) { char ch = c->E[i]; alt[i] = (ch >= 'a' && ch <= 'z') ? ch - 32 : (ch >= 'A' && ch <= 'Z') ? ch + 32 : ch; }
    static const int nts[3][3] = { { NAME_TYPE_ANY, NAME_TYPE_HOSTNAME, NAME_TYPE_SAN_DNS }, { NAME_TYPE_ANY, NAME_TYPE_SAN_EMAIL, -1 }, { NAME_TYPE_ANY, NAME_TYPE_SAN_IP_ADDRESS, -1 } };
    for (int i = 0; i < 3; i++) if (nts[c->kindE][i] >= 0) { evalspec e = { "", nts[c->kindE][i], 0, 1, 1 }; strcpy(e.name, c->E); ev[n++] = e; }
    if (c->kindE == 1) { evalspec e = { "", NAME_TYPE_SAN_EMAIL, VCERTS_MFLAG_SAN_EMAIL_CASE_INSENSITIVE_LOCAL_PART, 1, 1 }; strcpy(e.name, c->E); ev[n++] = e; }
    if (c->ncn) { evalspec e = { "", NAME_TYPE_CN, 0, 1, 1 }; strcpy(e.name, c->E); ev[n++] = e; }
    { evalspec e = { "", NAME_TYPE_ANY, 0, 0, 1 }; strcpy(e.name, c->E); ev[n++] = e; }                       /* matrixValidateCerts(): no nameType, no expected-name validation */
    if (strcmp(alt, c->E)) { evalspec e = { "", nts[c->kindE][1], 0, 1, 0 }; strcpy(e.name, alt); ev[n++] = e; if (c->kindE == 1) { e.mflags = VCERTS_MFLAG_SAN_EMAIL_CASE_INSENSITIVE_LOCAL_PART; ev[n++] = e; } }
    /* the other specific types: an entry of one kind must never satisfy another kind */
    static const int all[] = { NAME_TYPE_HOSTNAME, NAME_TYPE_CN, NAME_TYPE_SAN_DNS, NAME_TYPE_SAN_EMAIL, NAME_TYPE_SAN_IP_ADDRESS };
    for (int i = 0; i < 5; i++) { int dup = 0; for (int j = 0; j < n; j++) if (ev[j].nt == all[i] && !strcmp(ev[j].name, c->E) && !ev[j].mflags) dup = 1; if (!dup && (vf_thorough || ((i + (int) L) % 2 == 0))) { evalspec e = { "", all[i], 0, 1, 0 }; strcpy(e.name, c->E); ev[n++] = e; } }
    { evalspec e = { "unrelated.invalid", NAME_TYPE_ANY, 0, 1, 0, 1 }; if (c->kindE == 1) strcpy(e.name, "nobody@unrelated.invalid"); if (c->kindE == 2) strcpy(e.name, "203.0.113.77"); ev[n++] = e; }
    return n;
}
static void run_case(const ccase *c)
{
    char spec[1400], text[1200]; spec_str(c, spec, sizeof spec);
    evalspec ev[16]; int nev = build_evals(c, ev);
    int perm[4] = { 0, 1, 2, 3 }, nperm = 0, first_verdict[16], differs[16] = { 0 }, any_reject[16] = { 0 }, all_reject[16], reported_acc = 0;
    for (int k = 0; k < nev; k++) all_reject[k] = 1;
    case_text(c, NULL, text, sizeof text);
    if (g_sample) vf_sample("%s", text);
    do {
        /* mint */
        cg_spec s; cg_spec_leaf(&s, "Verif C05", NULL, LK, &RS, RK, NOW);
        s.subject.n = 0; cg_dn_add(&s.subject, CG_AT_O, CG_T_UTF8, "Verif C05", 9);
        for (int i = 0; i < c->ncn; i++) cg_dn_add(&s.subject, CG_AT_CN, c->cn[i].tag, c->cn[i].v, c->cn[i].len);
        s.nsan = 0; for (int i = 0; i < c->nsan; i++) cg_san_add(&s, c->san[perm[i]].kind, c->san[perm[i]].v, c->san[perm[i]].len);
        cg_buf dpx = { 0 };
        if (c->nian && (c->carrier & 1)) { for (int i = 0; i < c->nian; i++) cg_ian_add(&s, c->ian[i].kind, c->ian[i].v, c->ian[i].len); s.ian_first = !!(c->carrier & 4); }
        if (c->nian && (c->carrier & 2)) {   /* cRLDistributionPoints: one DistributionPoint whose fullName holds the names */
            static const unsigned char o_cdp[] = { 0x55, 0x1d, 0x1f }; cg_buf v = { 0 }, dps = { 0 }, dp = { 0 }, dpn = { 0 }, full = { 0 };
            for (int i = 0; i < c->nian; i++) cg_tlv(&full, 0x80 | (c->ian[i].kind & 0x1f) | (c->ian[i].kind == CG_GN_DIR || c->ian[i].kind == CG_GN_OTHER ? 0x20 : 0), c->ian[i].v, c->ian[i].len);
            cg_wrap(&dpn, 0xa0, &full); cg_wrap(&dp, 0xa0, &dpn); cg_wrap(&dps, 0x30, &dp); cg_wrap(&v, 0x30, &dps); cg_ext(&dpx, o_cdp, 3, 0, &v);
            s.rawext = dpx.p; s.rawextlen = (int) dpx.n;
        }
        cg_cert lc; int mk = cg_make_cert(&s, &lc); cg_buf_free(&dpx); if (mk < 0) { vf_incon("certgen failed"); return; }
        psX509Cert_t *leaf = NULL; int prc = psX509ParseCert(NULL, lc.der, lc.len, &leaf, 0);
        uint32 flags0 = prc >= 0 ? leaf->authFailFlags : 0;
        vf_stat(prc >= 0 ? "certs_parsed" : "certs_rejected_by_parser", 1);
        for (int k = 0; k < nev; k++) {
            int acc = 0, rc = prc;
            if (prc >= 0) {
                size_t L = strlen(ev[k].name); char *x = malloc(L + 1); memcpy(x, ev[k].name, L + 1);   /* exact-size block */
                psX509Cert_t *found = NULL; leaf->authStatus = 0; leaf->authFailFlags = flags0; ROOT->authStatus = 0;
                if (ev[k].api == 0) rc = matrixValidateCerts(NULL, leaf, ROOT, x, &found, NULL, NULL);
                else { matrixValidateCertsOptions_t o; memset(&o, 0, sizeof o); o.nameType = ev[k].nt; o.mFlags = ev[k].mflags; o.flags = VCERTS_FLAG_VALIDATE_EXPECTED_GENERAL_NAME;
                       rc = matrixValidateCertsExt(NULL, leaf, ROOT, x, &found, NULL, NULL, &o); }
                acc = rc >= 0 && leaf->authStatus == PS_CERT_AUTH_PASS && leaf->authFailFlags == 0;
                free(x);
            }
            vf_stat("cases", 1); vf_stat(acc ? "lib_accepts" : "lib_rejects", 1);
            int rs = ref_match(c, c->san, c->nsan, ev[k].name, ev[k].nt, 0), rl = rs || ref_match(c, c->san, c->nsan, ev[k].name, ev[k].nt, 1);
            if (nperm == 0) first_verdict[k] = acc; else if (first_verdict[k] != acc) differs[k] = 1;
            if (!acc) any_reject[k] = 1; else all_reject[k] = 0;
            if (acc && !rl && !reported_acc) {
                char key[100], pt[1200]; case_text(c, perm, pt, sizeof pt);
                snprintf(key, sizeof key, "c05:accepts:%s", ev[k].unrel ? "unrelated" : c->cls);
                vf_violation(key, spec, "library accepts expected name \"%s\" (nameType %s, mFlags %u, %s) for a certificate that does not carry it | %s | rc=%d", ev[k].name, ntname[ev[k].nt], ev[k].mflags,
                             ev[k].api ? "matrixValidateCertsExt" : "matrixValidateCerts", pt, rc);
                reported_acc = 1;
            }
            if (acc && rl && !rs) vf_stat("lenient:trailing-nul-san-entry-accepted", 1);
            if (acc && rl) vf_stat("ref_and_lib_accept", 1);
            if (!acc && rl && !(c->canonical && ev[k].focus)) vf_statf(1, "strict:%s", c->cls);
            if (vf_case) { char pt[1200]; case_text(c, perm, pt, sizeof pt); fprintf(stderr, "  perm#%d name=\"%s\" nt=%s mflags=%u api=%d parse=%d rc=%d lib=%d ref=%d/%d | %s\n", nperm, ev[k].name, ntname[ev[k].nt], ev[k].mflags, ev[k].api, prc, rc, acc, rs, rl, pt); }
        }
        if (leaf) psX509FreeCert(leaf);
        cg_cert_free(&lc);
        nperm++;
    } while (c->nsan > 1 && next_perm(perm, c->nsan));
    vf_stat("cert_cases", 1); vf_stat("permutations", nperm);
    for (int k = 0; k < nev; k++) if (differs[k]) {
        vf_violation("c05:order-dependent", spec, "verdict for expected name \"%s\" (nameType %s) depends on the order of the subjectAltName entries | %s", ev[k].name, ntname[ev[k].nt], text);
        break;
    }
    if (c->canonical && psX509ValidateGeneralName(c->E) < 0) vf_stat("strict:expected-name-refused-by-psX509ValidateGeneralName", 1);
    if (c->canonical) for (int k = 0; k < nev; k++) if (ev[k].focus && all_reject[k] && ref_match(c, c->san, c->nsan, ev[k].name, ev[k].nt, 0) && !(ev[k].api == 1 && psX509ValidateGeneralName(ev[k].name) < 0)) {
        char key[100]; snprintf(key, sizeof key, "c05:rejects-canonical:%s", c->cls);
        vf_violation(key, spec, "plain positive form rejected in every SAN order: expected \"%s\" nameType %s mFlags %u | %s", ev[k].name, ntname[ev[k].nt], ev[k].mflags, text);
        break;
    }
    int shape = c->nsan * 10 + c->ncn, kinds = 0; for (int i = 0; i < c->nsan; i++) kinds |= 1 << (c->san[i].kind & 15);
    int fkinds = 0; for (int i = 0; i < c->nian; i++) fkinds |= 1 << (c->ian[i].kind & 15);
    if (c->nian) { vf_stat("cert_cases_with_foreign_general_names", 1); vf_distinct("%s|%d|%d|%x|%d|f%d|%x", c->cls, c->kindE, shape, kinds, (int) strlen(c->E), c->carrier, fkinds); }
    else vf_distinct("%s|%d|%d|%x|%d", c->cls, c->kindE, shape, kinds, (int) strlen(c->E));
}

/* ------------------------------------------------------------------ grammar --- */
static ccase *CASES; static long ncases, capcases;
static void push(const ccase *c) { if (ncases == capcases) { capcases = capcases ? capcases * 2 : 8192; CASES = realloc(CASES, capcases * sizeof *CASES); } CASES[ncases++] = *c; }
static void set_ent(ent *e, int kind, const void *v, int len) { e->kind = kind; e->len = len > 100 ? 100 : len; memcpy(e->v, v, e->len); }
static void ent_str(ent *e, int kind, const char *s) { set_ent(e, kind, s, (int) strlen(s)); }

/* filler shapes: where the focus entry F sits among unrelated entries (all permutations are run anyway) */
enum { NSHAPE = 8 };
static void with_shape(const ccase *base, const ent *F, int shape)
{
    ccase c = *base; ent d, nul, em, ip, uri, ip16; unsigned char ipb[4] = { 10, 9, 8, 7 }, ip16b[16] = { 0x20, 0x01, 0x0d, 0xb8, 0, 0, 0, 0, 0, 0, 0, 0, 0, 0, 0, 1 };
    ent_str(&d, CG_GN_DNS, "filler.one.test"); set_ent(&nul, CG_GN_DNS, "nul.filler.test\0", 16); ent_str(&em, CG_GN_EMAIL, "someone@filler.test");
    set_ent(&ip, CG_GN_IP, ipb, 4); ent_str(&uri, CG_GN_URI, "http://filler.test/"); set_ent(&ip16, CG_GN_IP, ip16b, 16);
    c.nsan = 0;
#define ADD(x) c.san[c.nsan++] = (x)
    switch (shape) {
    case 0: ADD(*F); break;
    case 1: ADD(*F); ADD(d); break;
    case 2: ADD(nul); ADD(*F); break;
    case 3: ADD(em); ADD(*F); ADD(ip); break;
    case 4: ADD(uri); ADD(*F); break;
    case 5: ADD(d); ADD(nul); ADD(*F); ADD(em); break;
    case 6: ADD(ip16); ADD(*F); break;
    case 7: ADD(uri); ADD(nul); ADD(*F); break;
    }
#undef ADD
    push(&c);
}
static vf_rng G;
static int shape_budget;    /* how many filler shapes beyond the single-entry one each focus gets (rotating) */
static long focus_serial;
static void focus(const char *cls, const char *E, int kindE, int canonical, int kind, const void *v, int len)
{
    ccase c; memset(&c, 0, sizeof c); snprintf(c.cls, sizeof c.cls, "%s", cls); snprintf(c.E, sizeof c.E, "%s", E); c.kindE = kindE; c.canonical = canonical;
    ent F; set_ent(&F, kind, v, len);
    with_shape(&c, &F, 0);
    for (int i = 0; i < shape_budget; i++) with_shape(&c, &F, 1 + (int) ((focus_serial + i * 3) % (NSHAPE - 1)));
    focus_serial++;
}
static void focus_s(const char *cls, const char *E, int kindE, int canonical, int kind, const char *x) { focus(cls, E, kindE, canonical, kind, x, (int) strlen(x)); }
static void cn_case(const char *cls, const char *E, int canonical, int tag, const void *cn, int cnlen, int sanshape)
{
    ccase c; memset(&c, 0, sizeof c); snprintf(c.cls, sizeof c.cls, "%s", cls); snprintf(c.E, sizeof c.E, "%s", E); c.kindE = 0; c.canonical = canonical;
    c.ncn = 1; c.cn[0].tag = tag; c.cn[0].len = cnlen; memcpy(c.cn[0].v, cn, cnlen);
    unsigned char ipb[4] = { 10, 9, 8, 7 };
    switch (sanshape) {
    case 0: break;
    case 1: ent_str(&c.san[c.nsan++], CG_GN_URI, "http://filler.test/"); break;                 /* no SUPPORTED entry: CN may still be consulted */
    case 2: ent_str(&c.san[c.nsan++], CG_GN_DNS, "other.filler.test"); break;                   /* cn-despite-san */
    case 3: ent_str(&c.san[c.nsan++], CG_GN_EMAIL, "someone@filler.test"); break;
    case 4: set_ent(&c.san[c.nsan++], CG_GN_IP, ipb, 4); break;
    case 5: ent_str(&c.san[c.nsan++], CG_GN_URI, "http://filler.test/"); set_ent(&c.san[c.nsan++], CG_GN_DNS, "nul.filler.test\0", 16); break;
    }
    push(&c);
}

/* Names of somebody else.  `names` sit in the issuerAltName and / or a cRLDistributionPoints fullName of a leaf whose own names are given by `subj`:
 *   0 no SAN, no CN   1 no SAN, CN of another host   2 SAN = dNSName of another host   3 SAN = URI only, CN of another host   4 SAN = rfc822Name + iPAddress fillers
 *   5 no SAN, CN = E (canonical: the CN fallback must survive)   6 SAN = the entry `own` (canonical: E itself) */
static const int foreign_carriers[4] = { 1, 5, 2, 3 };
static const char *carrier_name(int carrier) { return (carrier & 3) == 3 ? "issuer-alt+crl-dp" : (carrier & 2) ? "crl-dp-name" : "issuer-alt-name"; }
static void foreign_case(const char *E, int kindE, int carrier, const ent *names, int nnames, int subj, const ent *own)
{
    ccase c; memset(&c, 0, sizeof c); snprintf(c.E, sizeof c.E, "%s", E); c.kindE = kindE; c.canonical = subj >= 5; c.carrier = carrier;
    snprintf(c.cls, sizeof c.cls, "%s%s", subj == 5 ? "cn-exact:" : subj == 6 ? "san-exact:" : "", carrier_name(carrier));
    c.nian = nnames > 6 ? 6 : nnames; memcpy(c.ian, names, c.nian * sizeof *names);
    unsigned char ipb[4] = { 10, 9, 8, 7 };
    if (subj == 1 || subj == 3) { c.ncn = 1; c.cn[0].tag = CG_T_UTF8; c.cn[0].len = 17; memcpy(c.cn[0].v, "someone.else.test", 17); }
    if (subj == 5) { c.ncn = 1; c.cn[0].tag = CG_T_UTF8; c.cn[0].len = (int) strlen(E); memcpy(c.cn[0].v, E, c.cn[0].len); }
    if (subj == 2) ent_str(&c.san[c.nsan++], CG_GN_DNS, "other.filler.test");
    if (subj == 3) ent_str(&c.san[c.nsan++], CG_GN_URI, "http://filler.test/");
    if (subj == 4) { ent_str(&c.san[c.nsan++], CG_GN_EMAIL, "someone@filler.test"); set_ent(&c.san[c.nsan++], CG_GN_IP, ipb, 4); }
    if (subj == 6) c.san[c.nsan++] = *own;
    push(&c);
}
static long foreign_serial;
static void foreign_cases(const char *E, int kindE, const ent *own, ent lists[][6], const int *nlist, int nlists)
{
    /* names of the issuer that have nothing to do with E, of every kind: a certificate that is good for E on its own stays good */
    ent U[6]; unsigned char ipb[4] = { 10, 9, 8, 7 };
    ent_str(&U[0], CG_GN_DNS, "ca.issuer.test"); ent_str(&U[1], CG_GN_DNS, "*.issuer.test"); ent_str(&U[2], CG_GN_EMAIL, "pki@issuer.test"); set_ent(&U[3], CG_GN_IP, ipb, 4); ent_str(&U[4], CG_GN_URI, "http://ca.issuer.test/");
    for (int ci = 0; ci < 4; ci++) { if (kindE == 0) foreign_case(E, kindE, foreign_carriers[ci], U, 5, 5, own); foreign_case(E, kindE, foreign_carriers[ci], U, 5, 6, own); }
    /* names of the issuer that spell E (exactly, as wildcard, among names of all kinds): never good for E */
    for (int l = 0; l < nlists; l++) for (int subj = 0; subj < 5; subj++) for (int ci = 0; ci < 4; ci++) {
        if (!vf_thorough && ci >= 2 && (foreign_serial++ % 3)) continue;             /* quick: issuerAltName in both positions always, the cRLDistributionPoints carriers rotate */
        foreign_case(E, kindE, foreign_carriers[ci], lists[l], nlist[l], subj, own);
    }
}
static void host_cases(const char *E)
{
    char lab[4][24], rest[64], rest2[64], x[128], up[64]; int n = 0; const char *p = E;
    while (*p && n < 4) { int k = 0; while (*p && *p != '.') lab[n][k++] = *p++; lab[n][k] = 0; n++; if (*p == '.') p++; }
    const char *d1 = strchr(E, '.'); snprintf(rest, sizeof rest, "%s", d1 ? d1 : "");            /* ".example.com" */
    const char *d2 = d1 ? strchr(d1 + 1, '.') : NULL; snprintf(rest2, sizeof rest2, "%s", d2 ? d2 : "");
    size_t L = strlen(E); for (size_t i = 0; i <= L; i++) up[i] = (E[i] >= 'a' && E[i] <= 'z') ? E[i] - 32 : E[i];
    /* positives named in the statement */
    focus_s("dns-exact", E, 0, 1, CG_GN_DNS, E);
    focus_s("dns-case", E, 0, 1, CG_GN_DNS, up);
    { snprintf(x, sizeof x, "%s", E); for (size_t i = 0; i < L; i += 2) if (x[i] >= 'a' && x[i] <= 'z') x[i] -= 32; focus_s("dns-case", E, 0, 1, CG_GN_DNS, x); }
    if (n >= 2) { snprintf(x, sizeof x, "*%s", rest); focus_s("dns-wildcard", E, 0, 1, CG_GN_DNS, x);
                  snprintf(x, sizeof x, "*%s", rest); for (char *q = x; *q; q++) if (*q >= 'a' && *q <= 'z') *q -= 32; focus_s("dns-wildcard-case", E, 0, 1, CG_GN_DNS, x); }
    /* wildcards that must not match */
    if (n >= 3) { snprintf(x, sizeof x, "*%s", rest2); focus_s("multi-label-wildcard", E, 0, 0, CG_GN_DNS, x);
                  snprintf(x, sizeof x, "%s.*%s", lab[0], rest2); focus_s("wildcard-non-leftmost", E, 0, 0, CG_GN_DNS, x);
                  snprintf(x, sizeof x, "*.*%s", rest2); focus_s("double-wildcard", E, 0, 0, CG_GN_DNS, x); }
    if (n >= 2) { snprintf(x, sizeof x, "%c*%s", lab[0][0], rest); focus_s("partial-wildcard", E, 0, 0, CG_GN_DNS, x);
                  snprintf(x, sizeof x, "*%c%s", lab[0][strlen(lab[0]) - 1], rest); focus_s("partial-wildcard", E, 0, 0, CG_GN_DNS, x);
                  snprintf(x, sizeof x, "*%s", rest + 1); focus_s("wildcard-without-dot", E, 0, 0, CG_GN_DNS, x);
                  snprintf(x, sizeof x, "%.*s*", (int) (L - strlen(lab[n - 1])), E); focus_s("wildcard-rightmost", E, 0, 0, CG_GN_DNS, x);
                  snprintf(x, sizeof x, "*.%s", E); focus_s("wildcard-vs-parent", E, 0, 0, CG_GN_DNS, x); }
    focus_s("bare-star", E, 0, 0, CG_GN_DNS, "*");
    focus_s("bare-star", E, 0, 0, CG_GN_DNS, "*.");
    snprintf(x, sizeof x, "*.%s", lab[n - 1]); if (n != 2) focus_s("wildcard-wrong-depth", E, 0, 0, CG_GN_DNS, x);
    /* partial / suffix / prefix relations */
    snprintf(x, sizeof x, "%s", E + 1); focus_s("partial-suffix", E, 0, 0, CG_GN_DNS, x);                     /* certificate name is a proper suffix of E, not on a label boundary */
    snprintf(x, sizeof x, "not%s", E); focus_s("partial-suffix", E, 0, 0, CG_GN_DNS, x);                      /* E is a proper suffix of the certificate name */
    if (n >= 2) { focus_s("parent-domain", E, 0, 0, CG_GN_DNS, rest + 1); }
    snprintf(x, sizeof x, "sub.%s", E); focus_s("child-domain", E, 0, 0, CG_GN_DNS, x);
    snprintf(x, sizeof x, "%s.evil.org", E); focus_s("prefix", E, 0, 0, CG_GN_DNS, x);
    snprintf(x, sizeof x, "%sx", E); focus_s("prefix", E, 0, 0, CG_GN_DNS, x);
    snprintf(x, sizeof x, "%.*s", (int) L - 1, E); focus_s("prefix", E, 0, 0, CG_GN_DNS, x);                   /* certificate name is a proper prefix of E */
    snprintf(x, sizeof x, "%s.", E); focus_s("trailing-dot", E, 0, 0, CG_GN_DNS, x);
    snprintf(x, sizeof x, ".%s", E); focus_s("leading-dot", E, 0, 0, CG_GN_DNS, x);
    if (n >= 2) focus_s("leading-dot", E, 0, 0, CG_GN_DNS, rest);
    focus_s("unrelated", E, 0, 0, CG_GN_DNS, "entirely.different.example");
    /* NUL and non-printable octets */
    { int k = snprintf(x, sizeof x, "%s", E); memcpy(x + k, "\0.evil.org", 10); focus("embedded-nul", E, 0, 0, CG_GN_DNS, x, k + 10); }
    { int k = snprintf(x, sizeof x, "%s", E); x[k] = 0; x[k + 1] = 'x'; focus("embedded-nul", E, 0, 0, CG_GN_DNS, x, k + 2); }
    { int k = snprintf(x, sizeof x, "%s", E); x[k] = 0; focus("trailing-nul", E, 0, 0, CG_GN_DNS, x, k + 1); }
    { int k = snprintf(x, sizeof x, "%s", E); x[k] = 0; x[k + 1] = 0; focus("double-trailing-nul", E, 0, 0, CG_GN_DNS, x, k + 2); }
    { int k = snprintf(x, sizeof x, "*%s", rest); if (n >= 2) { x[k] = 0; focus("trailing-nul-wildcard", E, 0, 0, CG_GN_DNS, x, k + 1); } }
    static const unsigned char ctl[] = { 0x01, 0x09, 0x0a, 0x0d, 0x1f, 0x20, 0x7f, 0x80, 0xc3, 0xff };
    for (size_t i = 0; i < sizeof ctl; i++) {
        int k = snprintf(x, sizeof x, "%s", E); x[k] = (char) ctl[i]; focus("non-printable", E, 0, 0, CG_GN_DNS, x, k + 1);
        if (vf_thorough || i % 3 == (L % 3)) { x[0] = (char) ctl[i]; memcpy(x + 1, E, L); focus("non-printable", E, 0, 0, CG_GN_DNS, x, (int) L + 1);
                                               memcpy(x, E, L); x[L / 2] = (char) ctl[i]; focus("non-printable", E, 0, 0, CG_GN_DNS, x, (int) L); }
    }
    /* wrong kind of entry carrying the right text */
    focus_s("wrong-type", E, 0, 0, CG_GN_EMAIL, E);            /* rfc822Name carrying the host name: only ANY / SAN_EMAIL readers may take it, and then only as e-mail */
    focus_s("wrong-type", E, 0, 0, CG_GN_URI, E);
    focus("wrong-type", E, 0, 0, CG_GN_RID, E, (int) L);
    focus("wrong-type", E, 0, 0, CG_GN_IP, E, (int) L);        /* iPAddress octets spelling the host name */
    focus("tag-alias", E, 0, 0, 18, E, (int) L);               /* context tag [18] is no GeneralName at all; 18 & 0x0f == 2 */
    focus("tag-alias", E, 0, 0, 17, E, (int) L);
    /* subject CN */
    cn_case("cn-exact", E, 1, CG_T_UTF8, E, (int) L, 0);
    cn_case("cn-exact", E, 1, CG_T_PRINTABLE, E, (int) L, 0);
    cn_case("cn-case", E, 1, CG_T_UTF8, up, (int) L, 0);
    cn_case("cn-no-supported-san", E, 0, CG_T_UTF8, E, (int) L, 1);
    for (int sh = 2; sh <= 5; sh++) cn_case("cn-despite-san", E, 0, CG_T_UTF8, E, (int) L, sh);
    if (n >= 2) { snprintf(x, sizeof x, "*%s", rest); cn_case("cn-wildcard", E, 0, CG_T_UTF8, x, (int) strlen(x), 0); }
    if (n >= 3) { snprintf(x, sizeof x, "*%s", rest2); cn_case("multi-label-wildcard", E, 0, CG_T_UTF8, x, (int) strlen(x), 0); }
    snprintf(x, sizeof x, "%s.evil.org", E); cn_case("prefix", E, 0, CG_T_UTF8, x, (int) strlen(x), 0);
    snprintf(x, sizeof x, "not%s", E); cn_case("partial-suffix", E, 0, CG_T_UTF8, x, (int) strlen(x), 0);
    static const int tags[] = { CG_T_UTF8, CG_T_PRINTABLE, CG_T_IA5, CG_T_T61, CG_T_BITSTRING };
    for (int t = 0; t < 5; t++) {
        int k = snprintf(x, sizeof x, "%s", E); memcpy(x + k, "\0.evil.org", 10); cn_case("embedded-nul", E, 0, tags[t], x, k + 10, 0);
        x[k] = 0; cn_case("trailing-nul-cn", E, 0, tags[t], x, k + 1, 0);
        x[k] = 0x01; cn_case("non-printable", E, 0, tags[t], x, k + 1, 0);
    }
    { ccase c; memset(&c, 0, sizeof c); strcpy(c.cls, "multi-cn"); snprintf(c.E, sizeof c.E, "%s", E); c.ncn = 2; c.cn[0].tag = c.cn[1].tag = CG_T_UTF8;
      c.cn[0].len = (int) L; memcpy(c.cn[0].v, E, L); c.cn[1].len = 10; memcpy(c.cn[1].v, "other.test", 10); push(&c);
      ccase e = c; e.cn[0] = c.cn[1]; e.cn[1] = c.cn[0]; push(&e); }
    /* issuerAltName / cRLDistributionPoints names */
    { ent own, L[4][6]; int nl[4], k = 0; unsigned char ipb[4] = { 10, 9, 8, 7 }; ent_str(&own, CG_GN_DNS, E);
      ent_str(&L[k][0], CG_GN_DNS, E); nl[k++] = 1;
      if (n >= 2) { snprintf(x, sizeof x, "*%s", rest); ent_str(&L[k][0], CG_GN_DNS, x); nl[k++] = 1; }
      ent_str(&L[k][0], CG_GN_EMAIL, "pki@issuer.test"); ent_str(&L[k][1], CG_GN_DNS, E); set_ent(&L[k][2], CG_GN_IP, ipb, 4); snprintf(x, sizeof x, "https://%s/", E); ent_str(&L[k][3], CG_GN_URI, x); nl[k++] = 4;
      ent_str(&L[k][0], CG_GN_URI, E); ent_str(&L[k][1], CG_GN_DNS, up); ent_str(&L[k][2], CG_GN_DNS, "ca.issuer.test"); nl[k++] = 3;
      foreign_cases(E, 0, &own, L, nl, k); }
}
static void email_cases(const char *E)
{
    char x[128], local[40], host[64]; const char *at = strchr(E, '@'); size_t L = strlen(E);
    snprintf(local, sizeof local, "%.*s", (int) (at - E), E); snprintf(host, sizeof host, "%s", at + 1);
    focus_s("email-exact", E, 1, 1, CG_GN_EMAIL, E);
    { snprintf(x, sizeof x, "%s@%s", local, host); for (char *q = strchr(x, '@'); *q; q++) if (*q >= 'a' && *q <= 'z') *q -= 32; focus_s("email-host-case", E, 1, 1, CG_GN_EMAIL, x); }
    { snprintf(x, sizeof x, "%s", E); for (char *q = x; *q != '@'; q++) if (*q >= 'a' && *q <= 'z') *q -= 32; focus_s("email-local-case", E, 1, 0, CG_GN_EMAIL, x); }
    snprintf(x, sizeof x, "%s.evil.org", E); focus_s("prefix", E, 1, 0, CG_GN_EMAIL, x);
    snprintf(x, sizeof x, "x%s", E); focus_s("partial-suffix", E, 1, 0, CG_GN_EMAIL, x);
    snprintf(x, sizeof x, "%s", E + 1); focus_s("partial-suffix", E, 1, 0, CG_GN_EMAIL, x);
    snprintf(x, sizeof x, "%s@sub.%s", local, host); focus_s("child-domain", E, 1, 0, CG_GN_EMAIL, x);
    snprintf(x, sizeof x, "*@%s", host); focus_s("email-wildcard", E, 1, 0, CG_GN_EMAIL, x);
    { const char *d = strchr(host, '.'); if (d) { snprintf(x, sizeof x, "%s@*%s", local, d); focus_s("email-wildcard", E, 1, 0, CG_GN_EMAIL, x); } }
    snprintf(x, sizeof x, "other@%s", host); focus_s("unrelated", E, 1, 0, CG_GN_EMAIL, x);
    { int k = snprintf(x, sizeof x, "%s", E); memcpy(x + k, "\0.evil.org", 10); focus("embedded-nul", E, 1, 0, CG_GN_EMAIL, x, k + 10); x[k] = 0; focus("trailing-nul", E, 1, 0, CG_GN_EMAIL, x, k + 1); x[k] = 0x07; focus("non-printable", E, 1, 0, CG_GN_EMAIL, x, k + 1); }
    focus_s("wrong-type", E, 1, 0, CG_GN_DNS, E);              /* dNSName carrying the address */
    focus_s("wrong-type", E, 1, 0, CG_GN_URI, E);
    snprintf(x, sizeof x, "mailto:%s", E); focus_s("wrong-type", E, 1, 0, CG_GN_URI, x);
    cn_case("email-in-cn", E, 0, CG_T_UTF8, E, (int) L, 0); CASES[ncases - 1].kindE = 1;
    { ent own, Ls[2][6]; int nl[2]; unsigned char ipb[4] = { 10, 9, 8, 7 }; ent_str(&own, CG_GN_EMAIL, E);
      ent_str(&Ls[0][0], CG_GN_EMAIL, E); nl[0] = 1;
      ent_str(&Ls[1][0], CG_GN_DNS, "ca.issuer.test"); ent_str(&Ls[1][1], CG_GN_EMAIL, E); set_ent(&Ls[1][2], CG_GN_IP, ipb, 4); snprintf(x, sizeof x, "mailto:%s", E); ent_str(&Ls[1][3], CG_GN_URI, x); nl[1] = 4;
      foreign_cases(E, 1, &own, Ls, nl, 2); }
}
static void ip_cases(const unsigned char o[4])
{
    char E[32], x[64]; snprintf(E, sizeof E, "%u.%u.%u.%u", o[0], o[1], o[2], o[3]);
    focus("ip-exact", E, 2, 1, CG_GN_IP, o, 4);
    unsigned char b[20]; memset(b, 0, sizeof b); memcpy(b, o, 4);
    focus("ip-length", E, 2, 0, CG_GN_IP, b, 16);               /* IPv6-sized entry whose first four octets equal E */
    b[15] = 1; focus("ip-length", E, 2, 0, CG_GN_IP, b, 16);
    focus("ip-length", E, 2, 0, CG_GN_IP, b, 5); focus("ip-length", E, 2, 0, CG_GN_IP, b, 8);
    { unsigned char m[16] = { 0, 0, 0, 0, 0, 0, 0, 0, 0, 0, 0xff, 0xff }; memcpy(m + 12, o, 4); focus("ip-length", E, 2, 0, CG_GN_IP, m, 16); /* ::ffff:a.b.c.d */ }
    unsigned char q[4]; memcpy(q, o, 4); q[3] ^= 1; focus("unrelated", E, 2, 0, CG_GN_IP, q, 4);
    memcpy(q, o, 4); q[0] ^= 0x80; focus("unrelated", E, 2, 0, CG_GN_IP, q, 4);
    /* textual truncation: an address whose text has E as a proper prefix (and vice versa) */
    if (o[3] < 25) { memcpy(q, o, 4); q[3] = (unsigned char) (o[3] * 10 + 3); focus("ip-truncation", E, 2, 0, CG_GN_IP, q, 4); }
    if (o[3] >= 10) { memcpy(q, o, 4); q[3] = o[3] / 10; focus("ip-truncation", E, 2, 0, CG_GN_IP, q, 4); }
    focus_s("wrong-type", E, 2, 0, CG_GN_DNS, E);               /* dNSName spelling the address */
    focus("wrong-type", E, 2, 0, CG_GN_IP, E, (int) strlen(E)); /* iPAddress holding the TEXT */
    snprintf(x, sizeof x, "%s", E); cn_case("ip-in-cn", E, 0, CG_T_UTF8, x, (int) strlen(x), 0); CASES[ncases - 1].kindE = 2;
    { ent own, Ls[2][6]; int nl[2]; set_ent(&own, CG_GN_IP, o, 4);
      set_ent(&Ls[0][0], CG_GN_IP, o, 4); nl[0] = 1;
      ent_str(&Ls[1][0], CG_GN_DNS, E); ent_str(&Ls[1][1], CG_GN_EMAIL, "pki@issuer.test"); set_ent(&Ls[1][2], CG_GN_IP, o, 4); snprintf(x, sizeof x, "https://%s/", E); ent_str(&Ls[1][3], CG_GN_URI, x); nl[1] = 4;
      foreign_cases(E, 2, &own, Ls, nl, 2); }
}
static void rand_label(char *o, int minl, int maxl)
{
    static const char al[] = "abcdefghijklmnopqrstuvwxyz0123456789"; int n = minl + (int) vf_below(&G, maxl - minl + 1);
    for (int i = 0; i < n; i++) o[i] = al[vf_below(&G, i == 0 ? 26 : 36)];
    if (n >= 4 && vf_below(&G, 3) == 0) o[1 + vf_below(&G, n - 2)] = '-';
    o[n] = 0;
}
static void build_workload(void)
{
    /* fixed grid (identical for every seed): hosts of 1-4 labels with digits and hyphens, e-mail, IPv4 of every textual length 7..15 */
    static const char *hosts[] = { "localhost", "example.com", "www.example.com", "a.b.example.com", "xn--bcher-kva.example", "host-7.sub.example.org", "www2.example.co.uk", "s3.eu.cloud.example.net" };
    static const char *mails[] = { "user@example.com", "First.Last@mail.example.org", "a@b.example" };
    static const unsigned char ips[][4] = { { 1, 1, 1, 1 }, { 10, 1, 1, 1 }, { 10, 10, 1, 1 }, { 10, 10, 10, 1 }, { 10, 10, 10, 10 }, { 192, 10, 10, 10 }, { 192, 168, 10, 12 }, { 192, 168, 100, 12 }, { 192, 168, 100, 123 },
                                            { 8, 8, 8, 8 }, { 127, 0, 0, 1 }, { 255, 255, 255, 255 }, { 0, 0, 0, 0 }, { 172, 16, 254, 1 }, { 100, 100, 100, 100 }, { 203, 0, 113, 9 } };
    shape_budget = vf_thorough ? NSHAPE - 1 : 2;
    for (size_t i = 0; i < sizeof hosts / sizeof *hosts; i++) host_cases(hosts[i]);
    for (size_t i = 0; i < sizeof mails / sizeof *mails; i++) email_cases(mails[i]);
    for (size_t i = 0; i < sizeof ips / sizeof *ips; i++) ip_cases(ips[i]);
    /* seeded part: same classes, names drawn from the grammar */
    int extra_hosts = vf_thorough ? 40 : 6, extra_mails = vf_thorough ? 20 : 2, extra_ips = vf_thorough ? 150 : 6;
    vf_rng_init(&G, vf_seed, 0xc05);
    for (int i = 0; i < extra_hosts; i++) { char E[64], l[24]; int n = 1 + (i % 4); E[0] = 0; for (int j = 0; j < n; j++) { rand_label(l, j == n - 1 ? 2 : 1, 10); if (j) strcat(E, "."); strcat(E, l); }
                                           if (E[strlen(E) - 1] == '-' ) E[strlen(E) - 1] = 'z'; host_cases(E); }
    for (int i = 0; i < extra_mails; i++) { char E[64], a[24], b[24], c[24]; rand_label(a, 1, 8); rand_label(b, 2, 8); rand_label(c, 2, 4); if (a[0] >= '0' && a[0] <= '9') a[0] = 'm'; snprintf(E, sizeof E, "%s@%s.%s", a, b, c); email_cases(E); }
    for (int i = 0; i < extra_ips; i++) { unsigned char o[4]; for (int j = 0; j < 4; j++) { int d = 1 + (int) vf_below(&G, 3); o[j] = (unsigned char) (d == 1 ? vf_below(&G, 10) : d == 2 ? 10 + vf_below(&G, 90) : 100 + vf_below(&G, 156)); } ip_cases(o); }
}

typedef struct { long from, to; const long *idx; int sample; } batch_t;
static void run_batch(void *arg) { batch_t *b = arg; for (long i = b->from; i < b->to; i++) { g_sample = b->sample && (i - b->from) % 13 == 5; run_case(&CASES[b->idx[i]]); } }
static void run_one(void *arg) { run_case((const ccase *) arg); }

/* --case: vf_fork_case leaves the child's stderr alone in replay mode, so a sanitizer report would not reach the crash record and the key would degrade to
 * crash:<cls>:exit-N.  Run the case once with stderr captured (records, correct keys), then - with -v - once more uncaptured and unrecorded for the human reader. */
static void replay_one(void *c, const char *cls)
{
    const char *spec = vf_case; vf_case = NULL;
    vf_fork_case(run_one, c, cls, spec, 120);
    vf_case = spec;
    if (vf_flag("-v")) { int out = vf_outfd; vf_outfd = open("/dev/null", O_WRONLY); vf_fork_case(run_one, c, cls, spec, 120); close(vf_outfd); vf_outfd = out; }
}

int main(int argc, char **argv)
{
    vf_init(argc, argv);
    if (matrixSslOpen() < 0) { fprintf(stderr, "matrixSslOpen failed\n"); return 2; }
    NOW = mx_now;
    RK = cg_key_get(CG_K_ED25519, 0); LK = cg_key_get(CG_K_ED25519, 1);
    cg_spec_ca(&RS, "Verif C05", "C05 Root", RK, NULL, NULL, NOW, -1);
    if (cg_make_cert(&RS, &RC) < 0) return 2;
    { char *pem = cg_pem("CERTIFICATE", RC.der, RC.len); if (psX509ParseCertData(NULL, (unsigned char *) pem, strlen(pem), &ROOT, CERT_STORE_DN_BUFFER | CERT_ALLOW_BUNDLE_PARTIAL_PARSE) <= 0 || !ROOT) { fprintf(stderr, "root does not load\n"); return 2; } free(pem); }
    if (vf_case) {
        ccase c; if (spec_parse(vf_case, &c) < 0) { vf_incon("unparsable case spec: %s", vf_case); vf_flush(); return 2; }
        replay_one(&c, "c05");
    } else {
        build_workload();
        long *mine = malloc((ncases + 1) * sizeof *mine), nm = 0;
        for (long i = 0; i < ncases; i++) if (vf_mine(i)) mine[nm++] = i;
        if (vf_shard == 0) vf_stat("workload_cert_cases_total", ncases);
        const long B = 48; char spec[1400];
        for (long j = 0; j < nm; j += B) {
            batch_t b = { j, j + B < nm ? j + B : nm, mine, (vf_shard == 2 || vf_shard == 11 || vf_nshards == 1) && (j / B) % 5 == 1 && j / B < 20 };
            spec_str(&CASES[mine[j]], spec, sizeof spec);
            int out = vf_outfd; char tmpl[] = "/dev/shm/c05bXXXXXX"; int tfd = mkstemp(tmpl);
            if (tfd < 0) { vf_incon("mkstemp failed"); break; }
            unlink(tmpl);
            /* records of the batch go to a scratch file; when the child dies the batch is re-run one case per child so that the crash is attributed to exactly one case */
            vf_outfd = tfd; int rcb = vf_fork_case(run_batch, &b, "c05-batch", spec, 600); vf_outfd = out;
            if (rcb == 0) { char buf[65536]; ssize_t n; lseek(tfd, 0, SEEK_SET); while ((n = read(tfd, buf, sizeof buf)) > 0) vf_write(buf, n); }
            close(tfd);
            if (rcb != 0) for (long i = b.from; i < b.to; i++) { spec_str(&CASES[mine[i]], spec, sizeof spec); vf_fork_case(run_one, &CASES[mine[i]], "c05", spec, 120); }
        }
        free(mine); free(CASES);
    }
    psX509FreeCert(ROOT); cg_cert_free(&RC);
    vf_flush(); matrixSslClose();
    return 0;
}
