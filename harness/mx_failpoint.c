/* Allocation failpoints: -Wl,--wrap=malloc,--wrap=calloc,--wrap=realloc.
 * Counting and failing happen only while mx_in_lib > 0 (a library API call made by the harness is in
 * progress) and mx_fp_armed is set, so the harness's own allocations never fail. */
#include <stddef.h>
#include <stdint.h>
extern void *__real_malloc(size_t); extern void *__real_calloc(size_t, size_t); extern void *__real_realloc(void *, size_t);
extern int mx_in_lib;
int mx_fp_armed = 0;
long mx_fp_count = 0;           /* allocations seen inside library calls */
long mx_fp_failat[4] = { -1, -1, -1, -1 };   /* fail these allocation ordinals (1-based) */
long mx_fp_failed = 0;          /* how many were failed */
/* optional site recording for the counting pass */
uint64_t *mx_fp_sites = 0; long mx_fp_sites_cap = 0;
static int hit(void *ra0, void *ra1)
{
    if (!mx_fp_armed || mx_in_lib <= 0) return 0;
    mx_fp_count++;
    if (mx_fp_sites && mx_fp_count < mx_fp_sites_cap) mx_fp_sites[mx_fp_count] = (uint64_t) (uintptr_t) ra0 * 1000003u ^ (uint64_t) (uintptr_t) ra1;
    for (int i = 0; i < 4; i++) if (mx_fp_count == mx_fp_failat[i]) { mx_fp_failed++; return 1; }
    return 0;
}
void *__wrap_malloc(size_t n) { if (hit(__builtin_return_address(0), 0)) return NULL; return __real_malloc(n); }
void *__wrap_calloc(size_t a, size_t b) { if (hit(__builtin_return_address(0), 0)) return NULL; return __real_calloc(a, b); }
void *__wrap_realloc(void *p, size_t n) { if (hit(__builtin_return_address(0), 0)) return NULL; return __real_realloc(p, n); }
