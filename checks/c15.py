import vflib
WRAPS = ("psGetEntropy", "gettimeofday", "time", "clock_gettime")
def run(ctx):
    st = [dict(variant="asan", name="c15", sources=["checks/c15_dead.c", "harness/mx_wraps.c"], wraps=WRAPS, libs=["-lcrypto"],
               shards=vflib.NCPU, timeout=7200 if ctx.thorough else 1200)]
    rule = ("Each case = (scenario, role, cut point, error event, continuation) on a fork()ed clone of the live connection. Events: inbound alerts - plaintext, and authentic ones "
            "sealed with the peer's keys where the connection is protected - for every description at level fatal AND level warning (quick: 10/20/40/47/80 at both levels, "
            "user_canceled, no_renegotiation and an unassigned description at warning level, close_notify at both levels; thorough: every assigned description at both levels "
            "plus level bytes 0/3/255), judged against a per-version reference table of what must end the session (TLS 1.3: every alert except user_canceled, whatever the level "
            "byte, RFC 8446 6; TLS <= 1.2 and DTLS: level fatal, and close_notify at any level); corrupted / oversize / wrong-version records, illegal handshake message, a genuine "
            "protected fatal alert or close_notify from the peer, authentic illegal handshake messages / content types; DTLS datagrams that end before the record they announce does "
            "(inside the header, right behind the header, mid-body, one byte short, second record of a datagram cut short); send-side calls that must fail (oversize for the PMTU, "
            "EncodeWritebuf beyond the reserved space / with a negative length, NULL buffer). Continuations: the peer's next honest records, the original of the damaged record, an "
            "older record, garbage, a fresh ClientHello, an application encode, full honest pumping (the peer keeps sending valid records, also behind its close_notify), drain loops. "
            "After a recognised event: no APP_DATA, encode fails, no output beyond the alert, receive calls report error/close. Events that must be fatal but were not recognised "
            "are reported at the event (protocol-error-not-fatal; library-fatal-error-not-fatal for the DTLS truncation entry). "
            "distinct_nontrivial counts distinct (version, scenario, role, cut, state, event, continuation) tuples whose event the endpoint recognised as an error.")
    return vflib.std_run(ctx, st, "exploration", rule,
        ["events the endpoint does not treat as errors (DTLS silently dropping a bad datagram, warning-level alerts in TLS <= 1.2, a DTLS datagram shorter than a record header, "
         "send-side argument / limit errors that leave the session usable) are counted but not judged here (C02 / C16 judge modified and lost records)",
         "DTLS truncated datagram with a complete record header: RFC 6347 4.1.2.7 allows silent discard as well as a fatal alert; the library defines it as fatal (illegal_parameter) in "
         "every state, like every other damaged DTLS record, and the property statement tolerates undecryptable records only while a TLS 1.3 server skips rejected early data - so the "
         "check asserts that this library-defined fatal error stays fatal (key c15:library-fatal-error-not-fatal:*); a deliberate move to silent discard must change this table entry",
         "received user_canceled (TLS 1.3) and warning-level alerts other than close_notify (TLS <= 1.2, DTLS) may be ignored or may end the session: not asserted either way",
         "sending close_notify locally is not treated as death (the statement lists received close_notify only)"], min_nontrivial=500)
