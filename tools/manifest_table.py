HOOK_COMMITS = []
NOTES = "Runtime monitoring and sanitizers only. See DESIGN.md; known_findings.json lists open findings and fixed: records."
NA = {}
check("C01", "exploration",
      "Held on every executed (scenario, role, cut point, injection) case: no APP_DATA before completion, no foreign bytes delivered, no encode before completion. Exploration, not proof: reach is the scenario grid x record-granular cut points x injection catalogue, run on fork()ed clones of the real library under ASan+UBSan.",
      "Trusts the harness's tagged-payload provenance check and libcrypto for sealing attacker records with keys read from ssl_t; states outside the default configuration (rehandshake) are not reached.",
      "runtime assertion monitor at the API boundary over fork-cloned cut-point injections, ASan+UBSan build", "3/C01")
check("C02", "fault_enumeration",
      "Enumerates edit scripts over the captured ciphertext of a 13-record burst per (version, suite, direction): header bits exhaustively, body bits sampled (quick) or every bit of short records and every byte of 16 KiB records (thorough), plus structural edits; each on a fork()ed clone of the real receiver with a prefix/no-data-from-modified-record/must-die oracle.",
      "Attacker holds no keys; timing channels out of reach; burst shape fixed (lengths around block boundaries).",
      "prefix/provenance monitor over fork-cloned ciphertext edit enumeration, ASan+UBSan build", "3/C02")
check("C15", "exploration",
      "Held on every executed (scenario, role, cut point, error event, continuation): after the event no APP_DATA, encode fails, no further output, receive calls report error/close.",
      "Events the endpoint does not treat as errors are counted, not judged; local close_notify is not treated as death.",
      "runtime assertion monitor (stays-dead oracle) over fork-cloned event x continuation cases, ASan+UBSan build", "3/C15")
