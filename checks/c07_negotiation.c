/* C07 - negotiated parameters are ones both sides enabled; downgrades and hello tampering refused.
 *
 * Reference-model monitor.  For every pair of client/server configurations the reference
 * negotiation function says whether the handshake may complete and, if so, which version must
 * result (highest common) and which sets the suite / group / signature scheme must come from;
 * both endpoints must report identical parameters and exchange data.  A man in the middle then
 * rewrites single fields of ClientHello / ServerHello (parsed and re-encoded with correct
 * lengths): neither side may complete.  fallback_scsv below the server's maximum and a TLS 1.3
 * downgrade sentinel must kill the handshake at the hello.
 *
 * HelloRetryRequest handshakes (client key share for a group the server does not enable) get the
 * same rewrite grid on each of their four hellos: ClientHello1, HelloRetryRequest, ClientHello2,
 * ServerHello.  The MatrixSSL server always puts a cookie (= Hash(ClientHello1)) into its
 * HelloRetryRequest, so every such handshake is a "with cookie" one; the cookie-less variants are
 * the ext-remove rewrites of the HelloRetryRequest and of ClientHello2.
 *
 * Signature algorithms: for server identities RSA-2048 / P-256 / P-384 / P-521 (and client
 * identities in the client-auth variant) against restricted signature_algorithms lists, a wire
 * observer reads the SignatureAndHashAlgorithm / SignatureScheme actually used from
 * ServerKeyExchange and CertificateVerify (TLS 1.3: handshake records opened with the sender's
 * handshake traffic key) and the list actually offered from ClientHello / CertificateRequest:
 * completion => algorithm offered by the verifier and usable with the signer's key.  A rogue signer
 * (the library's own chooser overridden through --wrap) signs with an algorithm the verifier did
 * not offer: the verifier must not complete.
 *
 * ECDHE curve sets under (D)TLS <= 1.2: both sides restrict sslSessOpts_t.ecFlags (grid of set pairs incl.
 * singletons and disjoint sets, ECDHE_RSA and ECDHE_ECDSA); the named curve of ServerKeyExchange and the
 * supported_groups of the ClientHello are read from the wire: completion => curve enabled on both sides and on
 * offer; disjoint sets => no completion.  A rogue server (curve look-up overridden through --wrap) puts its
 * ECDHE key on a curve the client did not offer: the client must not complete. */
#include "mx.h"
#include "mx_surgeon.h"

static const char *cur_class = "?"; static char cur_desc[256]; static int cur_v = -1;
static void report(const char *clause, const char *fmt, ...)
{
    char key[200], msg[700]; va_list ap; va_start(ap, fmt); vsnprintf(msg, sizeof msg, fmt, ap); va_end(ap);
    snprintf(key, sizeof key, "c07:%s:%s", clause, cur_class);
    vf_violation(key, cur_desc, "%s", msg);
}
static int vmask_max(int m) { for (int i = MX_NVER - 1; i >= 0; i--) if (m & (1 << i)) return i; return -1; }
static int wire_to_ver(psProtocolVersion_t v) { if (v & v_tls_1_3_any) return MX_TLS13; if (v & v_tls_1_2) return MX_TLS12; if (v & v_tls_1_1) return MX_TLS11; if (v & v_dtls_1_2) return MX_DTLS12; if (v & v_dtls_1_0) return MX_DTLS10; return -1; }

/* ---------------------------------------------------------------- hello parser / editor ---- */
typedef struct { int type, len; const unsigned char *data; } ext_t;
typedef struct {
    int isServer, dtls; unsigned char legacy[2], random[32]; int sidlen; unsigned char sid[32];
    int nsuites; uint16_t suites[200]; int ncomp; unsigned char comp[8]; int cookielen; unsigned char cookie[255];
    int next; ext_t ext[40]; int hasExt; int msgSeq;
    const unsigned char *trail; int traillen;   /* further handshake messages packed into the same record: carried over unchanged */
} hello_t;
static int parse_hello(const unsigned char *rec, int n, int dtls, hello_t *h)
{
    int rh = dtls ? 13 : 5, hh = dtls ? 12 : 4; memset(h, 0, sizeof *h); h->dtls = dtls;
    if (n < rh + hh + 35 || rec[0] != 22) return -1;
    const unsigned char *p = rec + rh; int type = p[0]; if (type != 1 && type != 2) return -1;
    h->isServer = type == 2; if (dtls) h->msgSeq = (p[4] << 8) | p[5];
    int bl = (p[1] << 16) | (p[2] << 8) | p[3]; p += hh; const unsigned char *e = p + bl; if (e > rec + n) return -1;
    memcpy(h->legacy, p, 2); p += 2; memcpy(h->random, p, 32); p += 32;
    h->sidlen = *p++; if (h->sidlen > 32 || p + h->sidlen > e) return -1; memcpy(h->sid, p, h->sidlen); p += h->sidlen;
    if (!h->isServer) {
        if (dtls) { h->cookielen = *p++; memcpy(h->cookie, p, h->cookielen); p += h->cookielen; }
        int sl = (p[0] << 8) | p[1]; p += 2; if (sl / 2 > 200) return -1; for (int i = 0; i < sl / 2; i++) h->suites[h->nsuites++] = (p[2 * i] << 8) | p[2 * i + 1]; p += sl;
        h->ncomp = *p++; if (h->ncomp > 8) return -1; memcpy(h->comp, p, h->ncomp); p += h->ncomp;
    } else { h->nsuites = 1; h->suites[0] = (p[0] << 8) | p[1]; p += 2; h->ncomp = 1; h->comp[0] = *p++; }
    if (p + 2 <= e) { h->hasExt = 1; int el = (p[0] << 8) | p[1]; p += 2; const unsigned char *ee = p + el; if (ee > e) return -1;
        while (p + 4 <= ee && h->next < 40) { ext_t *x = &h->ext[h->next++]; x->type = (p[0] << 8) | p[1]; x->len = (p[2] << 8) | p[3]; x->data = p + 4; p += 4 + x->len; if (p > ee) return -1; } }
    h->trail = e; h->traillen = (int) (rec + n - e);
    return 0;
}
static int build_hello(const hello_t *h, unsigned char *out, const unsigned char *origrec)
{
    int rh = h->dtls ? 13 : 5, hh = h->dtls ? 12 : 4; unsigned char *b = out + rh + hh, *p = b;
    memcpy(p, h->legacy, 2); p += 2; memcpy(p, h->random, 32); p += 32; *p++ = h->sidlen; memcpy(p, h->sid, h->sidlen); p += h->sidlen;
    if (!h->isServer) {
        if (h->dtls) { *p++ = h->cookielen; memcpy(p, h->cookie, h->cookielen); p += h->cookielen; }
        *p++ = (h->nsuites * 2) >> 8; *p++ = (h->nsuites * 2) & 255; for (int i = 0; i < h->nsuites; i++) { *p++ = h->suites[i] >> 8; *p++ = h->suites[i] & 255; }
        *p++ = h->ncomp; memcpy(p, h->comp, h->ncomp); p += h->ncomp;
    } else { *p++ = h->suites[0] >> 8; *p++ = h->suites[0] & 255; *p++ = h->comp[0]; }
    if (h->hasExt) { unsigned char *lp = p; p += 2; for (int i = 0; i < h->next; i++) { *p++ = h->ext[i].type >> 8; *p++ = h->ext[i].type & 255; *p++ = h->ext[i].len >> 8; *p++ = h->ext[i].len & 255; memcpy(p, h->ext[i].data, h->ext[i].len); p += h->ext[i].len; }
        int el = (int) (p - lp - 2); lp[0] = el >> 8; lp[1] = el & 255; }
    int bl = (int) (p - b);
    memcpy(out, origrec, rh + hh);
    out[rh + 1] = bl >> 16; out[rh + 2] = bl >> 8; out[rh + 3] = bl;
    if (h->dtls) { out[rh + 9] = bl >> 16; out[rh + 10] = bl >> 8; out[rh + 11] = bl; }
    memcpy(p, h->trail, h->traillen);
    int rl = hh + bl + h->traillen; out[rh - 2] = rl >> 8; out[rh - 1] = rl;
    return rh + rl;
}

/* ---------------------------------------------------------------- configuration pairs ---- */
typedef struct {
    int cmask, smask;                 /* version sets (bit i = MX_ version i) */
    int nsu; uint16_t su[8];          /* client suite list (0 = library default) */
    uint16_t sdis[8]; int nsdis;      /* suites disabled on the server when its ClientHello arrives (with a history: the reference set the history leaves behind) */
    int nops; struct { uint16_t id; unsigned char en, glob; } ops[6];   /* history of matrixSslSetCipherSuiteEnabledStatus calls (en 1 = re-enable; glob 1 = ssl == NULL, process-wide), made after both sessions exist */
    int ngroupsC, ngroupsS; uint16_t groupsC[4], groupsS[4]; int shares;
    int nsigC, nsigS; uint16_t sigC[10], sigS[10];
    int emsC, emsS, scsv, ecdsa;
    int ascC, ascS;                   /* version lists handed to the API lowest-first instead of highest-first */
    int idS, idC;                     /* identity table indices (0 = the default sample identity chosen by `ecdsa` / no client identity); idC != 0 = client authentication */
    int sig;                          /* 1 = judged by the signature-algorithm oracle (server auth), 2 = client-auth variant */
    uint16_t force; int forceRole;    /* rogue signer: endpoint forceRole signs with `force` whatever the verifier offered */
    int hrr;                          /* the configuration must go through HelloRetryRequest */
    int ticket;                       /* client asks for / presents an RFC 5077 ticket */
    int ems;                          /* extended-master-secret scenario: 1 = full handshake, 2 = session-id resumption, 3 = ticket resumption; emsC/emsS (-1 disabled, 0 enabled, 1 required) describe the judged
                                         connection, emsC1/emsS1 the one that established the session */
    int emsC1, emsS1;
    int forceCurve;                   /* rogue server: generates its ECDHE key on this named curve whatever the client offered */
    int ec; uint32_t ecC, ecS;        /* ECDHE curve-set case ((D)TLS <= 1.2): sslSessOpts_t.ecFlags of client / server (0 = option left alone: every compiled-in curve) */
} cfg_t;
typedef struct { int kind, field, arg, arg2, which; } tamper_t;   /* kind 0 = none, 1 = ClientHello edit, 2 = ServerHello edit; which 0 = first hello of that direction the edit applies to,
                                                                      n = exactly the n-th hello of that direction (HelloRetryRequest handshakes: ClientHello1/2, HelloRetryRequest = 1st, ServerHello = 2nd) */
enum { F_LEGACY = 0, F_RANDOM_TAIL, F_SID, F_SUITE_DROP, F_SUITE_INSERT, F_SUITE_SWAP, F_SUITE_SET, F_COMP, F_EXT_REMOVE, F_EXT_DUP, F_EXT_EDIT, F_EXT_APPEND, F_SV_DROP13, F_SV_ONLY11, F_N };
static const char *fname[] = { "legacy-version", "random-tail", "session-id", "suite-drop", "suite-insert", "suite-swap", "suite-set", "compression", "ext-remove", "ext-duplicate", "ext-edit-byte", "ext-append-unknown", "supported-versions-drop-1.3", "supported-versions-only-1.1" };

/* ---------------------------------------------------------------- identities ---- */
enum { KT_RSA = 0, KT_P256, KT_P384, KT_P521 };
typedef struct { const char *name, *cert, *key; int kt; uint16_t chainAlg; sslKeys_t *keys; } ident_t;
static ident_t ident[] = {
    { "default", NULL, NULL, 0, 0, NULL },
    { "rsa2048", MX_TK "RSA/2048_RSA.pem", MX_TK "RSA/2048_RSA_KEY.pem", KT_RSA, 0x0401, NULL },
    { "p256", MX_TK "EC/256_EC.pem", MX_TK "EC/256_EC_KEY.pem", KT_P256, 0x0403, NULL },
    { "p384", MX_TK "EC/384_EC.pem", MX_TK "EC/384_EC_KEY.pem", KT_P384, 0x0403, NULL },          /* chain signed ecdsa-with-SHA256 */
    { "p521", MX_TK "EC/521_EC.pem", MX_TK "EC/521_EC_KEY.pem", KT_P521, 0x0403, NULL },          /* chain signed ecdsa-with-SHA256 */
    { "p384-sha384chain", MX_TK "EC/384_EC_SHA384.pem", MX_TK "EC/384_EC_KEY.pem", KT_P384, 0x0503, NULL },
    { "p521-sha512chain", MX_TK "EC/521_EC_SHA512.pem", MX_TK "EC/521_EC_KEY.pem", KT_P521, 0x0603, NULL },
};
#define NIDENT ((int) (sizeof ident / sizeof ident[0]))
static sslKeys_t *cli_all;   /* client without identity, every sample CA */
static const char *ca_all = MX_TK "RSA/2048_RSA_CA.pem;" MX_TK "EC/256_EC_CA.pem;" MX_TK "EC/384_EC_CA.pem;" MX_TK "EC/384_EC_CA_SHA384.pem;" MX_TK "EC/521_EC_CA.pem;" MX_TK "EC/521_EC_CA_SHA512.pem";
static void ident_load(void) { for (int i = 1; i < NIDENT; i++) ident[i].keys = mx_mkkeys(ident[i].cert, ident[i].key, ca_all); cli_all = mx_mkkeys(NULL, NULL, ca_all); }
static void ident_free(void) { for (int i = 1; i < NIDENT; i++) if (ident[i].keys) { matrixSslDeleteKeys(ident[i].keys); ident[i].keys = NULL; } if (cli_all) { matrixSslDeleteKeys(cli_all); cli_all = NULL; } }
/* may a signature made with key type kt carry algorithm a?  TLS 1.2: the signature half must be the key's (any hash; rsa_pss_rsae is an RSA-key algorithm);
   TLS 1.3: RSA keys sign rsa_pss_rsae_* only, EC keys only the scheme of their curve */
static int sig_usable(int v13, int kt, uint16_t a)
{
    if (v13) return kt == KT_RSA ? (a >= 0x0804 && a <= 0x0806) : kt == KT_P256 ? a == 0x0403 : kt == KT_P384 ? a == 0x0503 : a == 0x0603;
    if (kt == KT_RSA) return ((a & 0xff) == 0x01 && (a >> 8) >= 2 && (a >> 8) <= 6) || (a >= 0x0804 && a <= 0x0806);
    return (a & 0xff) == 0x03 && (a >> 8) >= 2 && (a >> 8) <= 6;
}
static int in_list(const uint16_t *l, int n, uint16_t a) { for (int i = 0; i < n; i++) if (l[i] == a) return 1; return 0; }

/* ---------------------------------------------------------------- rogue signer (--wrap) ---- */
static uint16_t force_alg; static int force_role = -1;
int32_t __real_chooseSkeSigAlg(ssl_t *ssl, sslIdentity_t *id);
int32_t __wrap_chooseSkeSigAlg(ssl_t *ssl, sslIdentity_t *id)
{
    if (force_alg && force_role == MX_SERVER && (ssl->flags & SSL_FLAGS_SERVER)) { vf_stat("rogue_signatures_made", 1); return tlsSigAlgToMatrix(force_alg); }
    return __real_chooseSkeSigAlg(ssl, id);
}
int32_t __real_chooseSigAlg(psX509Cert_t *cert, psPubKey_t *privKey, uint16_t peerSigAlgs);
int32_t __wrap_chooseSigAlg(psX509Cert_t *cert, psPubKey_t *privKey, uint16_t peerSigAlgs)   /* reached through the wrapper only from the client's TLS 1.2 CertificateVerify */
{
    if (force_alg && force_role == MX_CLIENT) { vf_stat("rogue_signatures_made", 1); return tlsSigAlgToMatrix(force_alg); }
    return __real_chooseSigAlg(cert, privKey, peerSigAlgs);
}
uint16_t __real_tls13ChooseSigAlg(ssl_t *ssl, const uint16_t *peerSigAlgs, psSize_t peerSigAlgsLen);
uint16_t __wrap_tls13ChooseSigAlg(ssl_t *ssl, const uint16_t *peerSigAlgs, psSize_t peerSigAlgsLen)
{
    uint16_t a = __real_tls13ChooseSigAlg(ssl, peerSigAlgs, peerSigAlgsLen);
    if (force_alg && force_role == ((ssl->flags & SSL_FLAGS_SERVER) ? MX_SERVER : MX_CLIENT) && ssl->keys && ssl->keys->identity) { vf_stat("rogue_signatures_made", 1); ssl->chosenIdentity = ssl->keys->identity; return force_alg; }
    return a;
}

/* rogue server for the key-exchange group: the curve look-up made by the server's ClientHello parser ((D)TLS <= 1.2 ECDHE key generation) answers with another compiled-in curve;
   the ServerKeyExchange then names and uses that curve, correctly signed - everything else is the unmodified library */
static int force_curve;
int32_t __real_getEccParamById(psCurve16_t curveId, const psEccCurve_t **curve);
int32_t __wrap_getEccParamById(psCurve16_t curveId, const psEccCurve_t **curve)
{
    if (force_curve && mx_actor == 1) { vf_stat("rogue_curves_chosen", 1); return __real_getEccParamById((psCurve16_t) force_curve, curve); }
    return __real_getEccParamById(curveId, curve);
}

/* ---------------------------------------------------------------- wire observer ---- */
typedef struct {
    int v13, nCH, nHRR, nSH, ske, cvC, cvS, sawCreq, nOff, nCreq, ccs[2];
    int abbrev, chEms, shEms, chTicket, chSid, nCertS, chLegacy, shLegacy, shComp, chNcomp, chComp0, shSuite; unsigned char shTail[8];   /* of the last ClientHello / ServerHello */ uint16_t off[64], creq[64]; unsigned long long hsseq[2];
    unsigned char hs[2][70000]; int hslen[2], hspos[2];
    int skeCurve, chHasGrp, nGrp; uint16_t grp[40];   /* named curve of the (D)TLS <= 1.2 ServerKeyExchange; supported_groups of the last ClientHello */
} wire_t;
static const unsigned char hrr_random[32] = { 0xCF, 0x21, 0xAD, 0x74, 0xE5, 0x9A, 0x61, 0x11, 0xBE, 0x1D, 0x8C, 0x02, 0x1E, 0x65, 0xB8, 0x91, 0xC2, 0xA2, 0x11, 0x16, 0x7A, 0xBB, 0x8C, 0x5E, 0x07, 0x9E, 0x09, 0xE2, 0xC8, 0xA8, 0x33, 0x9C };
static const unsigned char *find_ext(const unsigned char *p, const unsigned char *e, int want, int *len)   /* p = the 2-byte length of an extension block */
{
    if (p + 2 > e) return NULL; int el = (p[0] << 8) | p[1]; p += 2; if (p + el > e) return NULL; e = p + el;
    while (p + 4 <= e) { int t = (p[0] << 8) | p[1], l = (p[2] << 8) | p[3]; p += 4; if (p + l > e) return NULL; if (t == want) { *len = l; return p; } p += l; }
    return NULL;
}
static int read_alg_list(const unsigned char *x, int xl, uint16_t *out, int cap) { if (xl < 2) return 0; int ll = (x[0] << 8) | x[1], n = 0; for (int i = 0; i + 1 < ll && 3 + i < xl && n < cap; i += 2) out[n++] = (x[2 + i] << 8) | x[3 + i]; return n; }
static void wire_msg(wire_t *w, int dir, int dtls, int type, const unsigned char *b, int l)
{
    const unsigned char *e = b + l, *x; int xl;
    if (dir == 0 && type == 1) {
        w->nCH++; const unsigned char *p = b + 34; if (p >= e) return; w->chLegacy = (b[0] << 8) | b[1]; w->chSid = p[0]; p += 1 + p[0]; if (dtls) { if (p >= e) return; p += 1 + p[0]; }
        if (p + 2 > e) return; p += 2 + ((p[0] << 8) | p[1]); if (p >= e) return; w->chNcomp = p[0]; w->chComp0 = p[0] ? p[1] : -1; p += 1 + p[0];
        if ((x = find_ext(p, e, 13, &xl))) w->nOff = read_alg_list(x, xl, w->off, 64);
        w->chHasGrp = 0; w->nGrp = 0; if ((x = find_ext(p, e, 10, &xl))) { w->chHasGrp = 1; w->nGrp = read_alg_list(x, xl, w->grp, 40); }
        w->chEms = find_ext(p, e, 23, &xl) != NULL; w->chTicket = (x = find_ext(p, e, 35, &xl)) ? xl : 0;
    } else if (dir == 0 && type == 15) { if (l >= 2) w->cvC = (b[0] << 8) | b[1]; }
    else if (dir == 1 && type == 2) {
        if (l < 38) return; if (!memcmp(b + 2, hrr_random, 32)) w->nHRR++; else w->nSH++;
        const unsigned char *p = b + 34; w->shLegacy = (b[0] << 8) | b[1]; memcpy(w->shTail, b + 26, 8); if (p + 1 + p[0] + 3 > e) return; w->shSuite = (p[1 + p[0]] << 8) | p[2 + p[0]]; w->shComp = p[3 + p[0]];
        p += 1 + p[0] + 3; if ((x = find_ext(p, e, 43, &xl)) && xl >= 2 && x[0] == 3 && x[1] == 4) w->v13 = 1;
        w->shEms = find_ext(p, e, 23, &xl) != NULL;
    } else if (dir == 1 && type == 12) { if (!w->v13 && l >= 4 && b[0] == 3) { w->skeCurve = (b[1] << 8) | b[2]; int pl = b[3]; if (4 + pl + 2 <= l) w->ske = (b[4 + pl] << 8) | b[5 + pl]; } }
    else if (dir == 1 && type == 13) {
        w->sawCreq = 1; if (l < 1) return; const unsigned char *p = b + 1 + b[0];
        if (w->v13) { if ((x = find_ext(p, e, 13, &xl))) w->nCreq = read_alg_list(x, xl, w->creq, 64); }
        else if (p + 2 <= e) w->nCreq = read_alg_list(p, (int) (e - p), w->creq, 64);
    } else if (dir == 1 && type == 15) { if (l >= 2) w->cvS = (b[0] << 8) | b[1]; }
    else if (dir == 1 && type == 11) w->nCertS++;
}
static void wire_drain(wire_t *w, int dir)
{
    while (w->hspos[dir] + 4 <= w->hslen[dir]) { const unsigned char *p = w->hs[dir] + w->hspos[dir]; int l = (p[1] << 16) | (p[2] << 8) | p[3]; if (w->hspos[dir] + 4 + l > w->hslen[dir]) break; wire_msg(w, dir, 0, p[0], p + 4, l); w->hspos[dir] += 4 + l; }
}
static void wire_append(wire_t *w, int dir, const unsigned char *p, int n) { if (n > 0 && w->hslen[dir] + n <= (int) sizeof w->hs[dir]) { memcpy(w->hs[dir] + w->hslen[dir], p, n); w->hslen[dir] += n; } wire_drain(w, dir); }
/* everything endpoint snd is about to send in direction dir (0 = client -> server) */
static void wire_flight(wire_t *w, mx_ep *snd, int dir, const unsigned char *b, int n, int dtls)
{
    static unsigned char plain[70000]; int off = 0; mx_rec r; int sh0 = w->nSH, ccsHere = 0;
    for (int o = 0; mx_rec_at(b, n, o, dtls, &r); o += r.hdr + r.len) if (r.type == 20) ccsHere = 1;
    while (mx_rec_at(b, n, off, dtls, &r)) {
        const unsigned char *p = b + off + r.hdr; int tot = r.hdr + r.len;
        if (dtls) {
            if (r.type == 22 && r.epoch == 0) { int o = 0; while (o + 12 <= r.len) { int ml = (p[o + 1] << 16) | (p[o + 2] << 8) | p[o + 3], fo = (p[o + 6] << 16) | (p[o + 7] << 8) | p[o + 8], fl = (p[o + 9] << 16) | (p[o + 10] << 8) | p[o + 11];
                if (o + 12 + fl > r.len) break; if (fo == 0 && fl == ml) wire_msg(w, dir, 1, p[o], p + o + 12, ml); o += 12 + fl; } }
        } else if (r.type == 20) w->ccs[dir] = 1;
        else if (r.type == 22 && (!w->ccs[dir] || w->v13)) wire_append(w, dir, p, r.len);
        else if (r.type == 23 && w->v13 && snd->ssl->cipher && tot < (int) sizeof plain) {
            int l = mx13_open(snd->ssl->cipher->ident, snd->ssl->sec.tls13HsWriteKey, snd->ssl->sec.tls13HsWriteIv, w->hsseq[dir], b + off, tot, plain);
            if (l > 0) { w->hsseq[dir]++; while (l > 0 && plain[l - 1] == 0) l--; if (l > 0 && plain[l - 1] == 22) wire_append(w, dir, plain, l - 1); }
        }
        off += tot;
    }
    if (dir == 1 && w->nSH > sh0 && ccsHere && !w->v13) w->abbrev = 1;   /* (D)TLS <= 1.2: ChangeCipherSpec in the ServerHello flight = abbreviated handshake */
}

static void open_pair(mx_conn *k, const cfg_t *c, sslSessionId_t *sid, int *rcs, int *rcc)
{
    sslSessOpts_t so, co; memset(&so, 0, sizeof so); memset(&co, 0, sizeof co); memset(k, 0, sizeof *k);
    psProtocolVersion_t vs[8]; int n = 0; int dtls = (c->cmask | c->smask) & ((1 << MX_DTLS10) | (1 << MX_DTLS12));
    k->dtls = dtls != 0; k->cfg.ver = dtls ? MX_DTLS12 : MX_TLS12;
    if (!dtls) {
        for (int i = MX_NVER - 1; i >= 0; i--) { int j = c->ascS ? MX_NVER - 1 - i : i; if (c->smask & (1 << j)) vs[n++] = mx_verflag(j); }
        matrixSslSessOptsSetServerTlsVersions(&so, vs, n); n = 0;
        for (int i = MX_NVER - 1; i >= 0; i--) { int j = c->ascC ? MX_NVER - 1 - i : i; if (c->cmask & (1 << j)) vs[n++] = mx_verflag(j); }
        matrixSslSessOptsSetClientTlsVersions(&co, vs, n);
    } else {
        /* the version-list setters are TLS-only; DTLS is configured through versionFlag: DTLS|TLS_1_2 = {1.2, 1.0}, DTLS|TLS_1_1 = {1.0};
           "1.2 only" through the public supportedVersions array of the options struct */
        for (int side = 0; side < 2; side++) { sslSessOpts_t *o = side ? &so : &co; int m = (side ? c->smask : c->cmask) >> MX_DTLS10;
            if (m == 1) o->versionFlag = SSL_FLAGS_DTLS | SSL_FLAGS_TLS_1_1; else if (m == 3) o->versionFlag = SSL_FLAGS_DTLS | SSL_FLAGS_TLS_1_2;
            else { o->versionFlag = SSL_FLAGS_DTLS | SSL_FLAGS_TLS_1_2; o->supportedVersions[0] = v_dtls_1_2; o->supportedVersionsLen = 1; } }
    }
    if (c->ngroupsS) matrixSslSessOptsSetKeyExGroups(&so, (uint16_t *) c->groupsS, c->ngroupsS, 1);
    if (c->ngroupsC) matrixSslSessOptsSetKeyExGroups(&co, (uint16_t *) c->groupsC, c->ngroupsC, c->shares ? c->shares : 1);
    if (c->nsigS) matrixSslSessOptsSetSigAlgs(&so, (uint16_t *) c->sigS, c->nsigS);
    if (c->nsigC) matrixSslSessOptsSetSigAlgs(&co, (uint16_t *) c->sigC, c->nsigC);
    so.extendedMasterSecret = c->emsS < 0 ? -1 : c->emsS > 0; co.extendedMasterSecret = c->emsC < 0 ? -1 : c->emsC > 0;
    if (c->ecS) so.ecFlags = (int32) c->ecS; if (c->ecC) co.ecFlags = (int32) c->ecC;
    if (c->ticket) co.ticketResumption = 1;
    if (c->scsv) co.fallbackScsv = 1;
    memset(&k->s, 0, sizeof k->s); memset(&k->c, 0, sizeof k->c);
    k->s.role = MX_SERVER; k->s.id = 1; k->s.name = "S"; k->c.role = MX_CLIENT; k->c.id = 0; k->c.name = "C";
    k->s.ver = k->c.ver = dtls ? MX_DTLS12 : MX_TLS12;
    sslKeys_t *sk = c->idS ? ident[c->idS].keys : c->ecdsa ? mx_keys.srv_ec : mx_keys.srv_rsa, *ck = c->idC ? ident[c->idC].keys : c->idS ? cli_all : mx_keys.cli;
    mx_actor = 1; MX_ENTER(); *rcs = matrixSslNewServerSession(&k->s.ssl, sk, c->idC ? mx_cert_cb_accept : NULL, &so); MX_LEAVE();
    if (*rcs >= 0 && !c->nops) for (int i = 0; i < c->nsdis; i++) { MX_ENTER(); matrixSslSetCipherSuiteEnabledStatus(k->s.ssl, c->sdis[i], PS_FALSE); MX_LEAVE(); }
    psCipher16_t cs[8]; for (int i = 0; i < c->nsu; i++) cs[i] = c->su[i];
    mx_actor = 0; MX_ENTER(); *rcc = matrixSslNewClientSession(&k->c.ssl, ck, sid, c->nsu ? cs : NULL, c->nsu, mx_cert_cb_accept, NULL, NULL, NULL, &co); MX_LEAVE();
    k->c.wantTake = 1; if (*rcc > 0) *rcc = 0;
    /* the history runs when the ClientHello is already encoded: a process-wide switch must bite in the server's selection, not in the client's offer */
    if (*rcs >= 0 && *rcc >= 0) for (int i = 0; i < c->nops; i++) { mx_actor = 1; MX_ENTER(); int rc = matrixSslSetCipherSuiteEnabledStatus(c->ops[i].glob ? NULL : k->s.ssl, c->ops[i].id, c->ops[i].en ? PS_TRUE : PS_FALSE); MX_LEAVE();
        if (rc != PS_SUCCESS) vf_incon("matrixSslSetCipherSuiteEnabledStatus(%s, %04x, %d) returned %d in %s", c->ops[i].glob ? "NULL" : "ssl", c->ops[i].id, c->ops[i].en, rc, cur_desc); }
}

typedef struct { cfg_t c; tamper_t t; const char *cls; } case_t;
static int tamper_applied;
static int apply_tamper(const tamper_t *t, unsigned char **buf, int *len, int dtls, int off)   /* off = offset of the record carrying the hello */
{
    hello_t h; static unsigned char out[20000]; static unsigned char scratch[600];
    mx_rec r; if (!mx_rec_at(*buf, *len, off, dtls, &r)) return 0;
    int first = r.hdr + r.len; const unsigned char *rec = *buf + off;
    if (parse_hello(rec, first, dtls, &h) != 0 || h.isServer != (t->kind == 2)) return 0;
    if (dtls && !h.isServer && h.cookielen == 0 && t->field != F_LEGACY) return 0;    /* tamper with the cookie-bearing ClientHello (the first is not in the transcript) */
    switch (t->field) {
    case F_LEGACY: h.legacy[1] ^= (unsigned char) t->arg; break;
    case F_RANDOM_TAIL: h.random[31 - (t->arg % 8)] ^= 0x01; break;
    case F_SID: if (h.sidlen == 0) { if (h.isServer) return 0; h.sidlen = 32; memset(h.sid, 0x5a, 32); } else h.sid[t->arg % h.sidlen] ^= 0x80; break;
    case F_SUITE_DROP: if (h.isServer || h.nsuites < 2) return 0; { int i = t->arg % h.nsuites; memmove(&h.suites[i], &h.suites[i + 1], (h.nsuites - i - 1) * 2); h.nsuites--; } break;
    case F_SUITE_INSERT: if (h.isServer) return 0; memmove(&h.suites[1], &h.suites[0], h.nsuites * 2); h.suites[0] = (uint16_t) t->arg; h.nsuites++; break;
    case F_SUITE_SWAP: if (h.isServer || h.nsuites < 2) return 0; { uint16_t x = h.suites[0]; h.suites[0] = h.suites[h.nsuites - 1]; h.suites[h.nsuites - 1] = x; if (h.suites[0] == x) return 0; } break;
    case F_SUITE_SET: if (!h.isServer || h.suites[0] == (uint16_t) t->arg) return 0; h.suites[0] = (uint16_t) t->arg; break;
    case F_COMP: if (h.isServer) h.comp[0] ^= 1; else { h.comp[h.ncomp] = 1; h.ncomp++; } break;
    case F_EXT_REMOVE: if (h.next == 0) return 0; { int i = t->arg % h.next; memmove(&h.ext[i], &h.ext[i + 1], (h.next - i - 1) * sizeof(ext_t)); h.next--; } break;
    case F_EXT_DUP: if (h.next == 0 || h.next >= 39) return 0; h.ext[h.next] = h.ext[t->arg % h.next]; h.next++; break;
    case F_EXT_EDIT: { if (h.next == 0) return 0; int i = t->arg % h.next; if (h.ext[i].len == 0 || h.ext[i].len > 600) return 0; memcpy(scratch, h.ext[i].data, h.ext[i].len); scratch[t->arg2 % h.ext[i].len] ^= 0x04; h.ext[i].data = scratch; } break;
    case F_EXT_APPEND: if (h.next >= 39) return 0; if (!h.hasExt) h.hasExt = 1; h.ext[h.next].type = 0xfe01 + (t->arg & 7); h.ext[h.next].len = 3; h.ext[h.next].data = (const unsigned char *) "abc"; h.next++; break;
    case F_SV_DROP13: { /* remove TLS 1.3 from supported_versions: both sides could have done 1.3 */
        int found = 0; for (int i = 0; i < h.next; i++) if (h.ext[i].type == 43 && !h.isServer) { int l = h.ext[i].data[0], o = 1; scratch[0] = 0; for (int j = 0; j + 1 < l; j += 2) { if (h.ext[i].data[1 + j] == 3 && h.ext[i].data[2 + j] == 4) { found = 1; continue; } scratch[o++] = h.ext[i].data[1 + j]; scratch[o++] = h.ext[i].data[2 + j]; } scratch[0] = o - 1; if (o == 1) return 0; h.ext[i].data = scratch; h.ext[i].len = o; }
        if (!found) return 0; } break;
    case F_SV_ONLY11: { /* roll the offer back to TLS 1.1 alone: a 1.3-capable server marks its random with DOWNGRD 00 */
        int found = 0; for (int i = 0; i < h.next; i++) if (h.ext[i].type == 43 && !h.isServer) { int l = h.ext[i].data[0], has13 = 0, has11 = 0; for (int j = 0; j + 1 < l; j += 2) { if (h.ext[i].data[1 + j] == 3 && h.ext[i].data[2 + j] == 4) has13 = 1; if (h.ext[i].data[1 + j] == 3 && h.ext[i].data[2 + j] == 2) has11 = 1; }
            if (has13 && has11) { scratch[0] = 2; scratch[1] = 3; scratch[2] = 2; h.ext[i].data = scratch; h.ext[i].len = 3; found = 1; } }
        if (!found) return 0; } break;
    }
    int n = build_hello(&h, out, rec);
    int rest = *len - off - first; unsigned char *nb = malloc(off + n + rest + 1); memcpy(nb, *buf, off); memcpy(nb + off, out, n); memcpy(nb + off + n, rec + first, rest);
    if (n == first && !memcmp(nb + off, rec, n)) { free(nb); return 0; }
    free(*buf); *buf = nb; *len = off + n + rest; tamper_applied = 1;
    return 1;
}

static int client_state_after_sh = -1, client_dead_after_sh = 0;
static wire_t W;
static const char *algs_str(const uint16_t *l, int n) { static char b[4][160]; static int r; char *o = b[r++ & 3]; int p = 0; o[0] = 0; for (int i = 0; i < n && p < 150; i++) p += snprintf(o + p, 160 - p, "%s%04x", i ? "," : "", l[i]); return o; }
/* signature-algorithm cases.  c->sig == 1: the client restricts its list (sigC), the server (identity idS) signs ServerKeyExchange / CertificateVerify;
   c->sig == 2: client authentication, the server restricts its list (sigS), the client (identity idC) signs CertificateVerify (and the server, same identity, its own messages). */
static void check_alg(const char *what, int alg, const uint16_t *cfgl, int ncfg, const uint16_t *wirel, int nwire, const char *wirename, int v13, int kt, const char *idname)
{
    if (ncfg && !in_list(cfgl, ncfg, alg)) report("sigalg-not-offered", "%s signed with 0x%04x; the verifier enabled only {%s}", what, alg, algs_str(cfgl, ncfg));
    else if (!in_list(wirel, nwire, alg)) report("sigalg-not-offered", "%s signed with 0x%04x; the %s on the wire offered {%s}", what, alg, wirename, algs_str(wirel, nwire));
    if (!sig_usable(v13, kt, alg)) report("sigalg-key-type-mismatch", "%s signed with 0x%04x by a %s key under %s", what, alg, idname, v13 ? "TLS 1.3" : "(D)TLS 1.2");
}
static void sig_oracle(const cfg_t *c, mx_conn *k, int done)
{
    int v13 = (c->cmask & c->smask) == (1 << MX_TLS13); const ident_t *S = &ident[c->idS], *C = &ident[c->idC];
    const uint16_t *vl = c->sig == 1 ? c->sigC : c->sigS; int nvl = c->sig == 1 ? c->nsigC : c->nsigS; const ident_t *signer = c->sig == 1 ? S : C;
    int usable = 0; for (int i = 0; i < nvl; i++) if (sig_usable(v13, signer->kt, vl[i])) usable++;
    vf_distinct("%s|%x|%d|%d|%s|%04x|%d", cur_class, c->cmask, c->idS, c->idC, algs_str(vl, nvl), c->force, c->forceRole);
    vf_statf(1, "sig_%s_%s", cur_class, done ? "complete" : "failed");
    if (!done) {
        /* control: the verifier offers every algorithm of the universe (incl. the chain's) - an honest signer must get through */
        /* (D)TLS 1.2 CertificateRequest carries a fixed list (SHA-1/256/384 x RSA/ECDSA, sslEncode.c writeCertificateRequest) whatever the session options say:
           a client whose chain is signed with an algorithm missing there legitimately declines; completeness is owed only if the list on the wire admits the chain */
        if (c->sig == 2 && !v13 && !(W.sawCreq && in_list(W.creq, W.nCreq, signer->chainAlg))) { vf_stat("sig_clientauth_chain_not_admitted_by_certificaterequest", 1); return; }
        if (!c->force && nvl >= 9) report("no-handshake-despite-common-sigalg", "verifier offers {%s}, signer holds a %s key: handshake failed (client alert-in %d, server alert-in %d)", algs_str(vl, nvl), signer->name, k->c.alertDesc, k->s.alertDesc);
        return;
    }
    if (W.v13 != v13) { vf_incon("signature case %s: version on the wire is not the configured one", cur_desc); return; }
    if (!usable) report("completed-without-common-sigalg", "verifier offers {%s}, none usable with the signer's %s key under %s: handshake completed", algs_str(vl, nvl), signer->name, v13 ? "TLS 1.3" : "(D)TLS 1.2");
    /* the server's own signature: ServerKeyExchange (TLS 1.2, ECDHE suites only are offered) or CertificateVerify (TLS 1.3) */
    int salg = v13 ? W.cvS : W.ske;
    if (c->force && (c->forceRole == MX_SERVER ? salg : W.cvC) != c->force) vf_stat("rogue_signer_not_effective", 1);
    if (!salg) { vf_incon("signature case %s completed but no %s was seen on the wire", cur_desc, v13 ? "server CertificateVerify" : "ServerKeyExchange signature"); return; }
    check_alg(v13 ? "server CertificateVerify" : "ServerKeyExchange", salg, c->sigC, c->nsigC, W.off, W.nOff, "ClientHello", v13, S->kt, S->name);
    vf_statf(1, "sig_server_alg_%04x", salg);
    if (c->sig == 2) {
        if (!W.sawCreq) { vf_incon("client-auth case %s completed without a CertificateRequest on the wire", cur_desc); return; }
        if (!W.cvC) { vf_stat("sig_clientauth_completed_without_certificateverify", 1); return; }   /* the client declined to authenticate: no signature algorithm in force for it */
        check_alg("client CertificateVerify", W.cvC, c->sigS, c->nsigS, W.creq, W.nCreq, "CertificateRequest", v13, C->kt, C->name);
        vf_statf(1, "sig_client_alg_%04x", W.cvC);
    }
    vf_stat("signature_negotiations_checked", 1);
}
static void roundtrip(mx_conn *kp);
/* ECDHE curve sets under (D)TLS <= 1.2.  Both sides restrict (or leave alone) sslSessOpts_t.ecFlags; only ECDHE suites are offered, so a completed full handshake has a ServerKeyExchange
   whose named curve is the group in force.  It must be enabled on both sides and be in the supported_groups list that was on the wire; disjoint sets must not complete. */
#define EC_ALL 0x1f
static uint32_t curve_flag(int id) { return id == 19 ? IS_SECP192R1 : id == 21 ? IS_SECP224R1 : id == 23 ? IS_SECP256R1 : id == 24 ? IS_SECP384R1 : id == 25 ? IS_SECP521R1 : 0; }
static const char *ec_str(uint32_t f) { static char b[4][48]; static int r; char *o = b[r++ & 3]; int p = 0; o[0] = 0; static const int ids[5] = { 19, 21, 23, 24, 25 }; for (int i = 0; i < 5; i++) if (f & (1u << i)) p += snprintf(o + p, 48 - p, "%s%d", p ? "," : "", ids[i]); return o; }
static void ec_oracle(const cfg_t *c, mx_conn *k, int cdone, int sdone)
{
    uint32_t eC = c->ecC ? c->ecC : EC_ALL, eS = c->ecS ? c->ecS : EC_ALL, common = eC & eS, offered = 0; int foreign = 0;
    const ident_t *S = &ident[c->idS]; uint32_t idf = S->kt == KT_P256 ? IS_SECP256R1 : S->kt == KT_P384 ? IS_SECP384R1 : S->kt == KT_P521 ? IS_SECP521R1 : 0;
    for (int i = 0; i < W.nGrp; i++) { uint32_t f = curve_flag(W.grp[i]); if (f) offered |= f; else foreign++; }
    vf_distinct("%s|%x|%x|%d|%x|%x|%d", cur_class, c->cmask, c->smask, c->idS, c->ecC, c->ecS, c->forceCurve);
    vf_statf(1, "ec_%s_%s", cur_class, cdone && sdone ? "complete" : "failed");
    if (W.v13) { vf_incon("curve-set case %s negotiated TLS 1.3", cur_desc); return; }
    if (!W.nCH || !W.chHasGrp) { vf_incon("curve-set case %s: no supported_groups extension in the ClientHello on the wire", cur_desc); return; }
    /* what the client puts on offer is what its configuration enables */
    if (offered & ~eC) report("group-offered-though-not-enabled", "client enables curves {%s}; its ClientHello offers {%s}", ec_str(eC), ec_str(offered));
    if (c->forceCurve) {
        /* rogue server: ServerKeyExchange on a curve of the server's own choosing.  Offered by the client = control (the mechanism yields a consistent handshake: must complete);
           not offered = the client must not complete */
        int ctl = (curve_flag(c->forceCurve) & eC) != 0;
        if (W.skeCurve != c->forceCurve) { vf_stat("rogue_curve_not_effective", 1); if (ctl || cdone) vf_incon("rogue-curve case %s: ServerKeyExchange curve %d on the wire, %d wanted", cur_desc, W.skeCurve, c->forceCurve); return; }
        if (ctl) { if (!(cdone && sdone)) vf_incon("rogue-curve control %s (curve offered by the client) did not complete", cur_desc); else { vf_stat("rogue_curve_controls_completed", 1); roundtrip(k); } return; }
        if (cdone) report("group-not-offered", "rogue server: ServerKeyExchange uses curve %d, the client enabled {%s} and offered {%s} - the client completed the handshake", W.skeCurve, ec_str(eC), algs_str(W.grp, W.nGrp));
        else vf_stat("rogue_curve_refused_by_client", 1);
        return;
    }
    if (!(cdone && sdone)) {
        /* completeness: a shared curve exists and nothing else stands in the way (RSA identity, or an ECDSA identity whose own curve both sides enabled) */
        if (common && (!idf || (idf & common))) report("no-handshake-despite-common-group", "client curves {%s}, server curves {%s}, server identity %s: a curve is shared but the handshake failed (client alert-in %d, server alert-in %d)", ec_str(eC), ec_str(eS), S->name, k->c.alertDesc, k->s.alertDesc);
        else vf_stat(common ? "ec_refused_identity_curve_not_shared" : "ec_refused_disjoint_sets", 1);
        return;
    }
    if (W.abbrev) { vf_incon("curve-set case %s completed with an abbreviated handshake", cur_desc); return; }
    if (!common) report("completed-without-common-group", "client curves {%s}, server curves {%s} share nothing: handshake completed (ServerKeyExchange curve %d)", ec_str(eC), ec_str(eS), W.skeCurve);
    if (!W.skeCurve) { vf_incon("curve-set case %s completed but no named-curve ServerKeyExchange was seen on the wire", cur_desc); return; }
    uint32_t f = curve_flag(W.skeCurve);
    if (!f || !(f & eS)) report("group-not-enabled-on-server", "ServerKeyExchange uses curve %d; the server enabled {%s}", W.skeCurve, ec_str(eS));
    if (!f || !(f & eC)) report("group-not-enabled-on-client", "ServerKeyExchange uses curve %d; the client enabled {%s}", W.skeCurve, ec_str(eC));
    if (!in_list(W.grp, W.nGrp, (uint16_t) W.skeCurve)) report("group-not-offered", "ServerKeyExchange uses curve %d; ClientHello.supported_groups on the wire was {%s}", W.skeCurve, algs_str(W.grp, W.nGrp));
    if (k->c.ssl->sec.peerCurveId && k->c.ssl->sec.peerCurveId != W.skeCurve) report("endpoints-disagree", "ServerKeyExchange on the wire names curve %d, the client recorded %d", W.skeCurve, (int) k->c.ssl->sec.peerCurveId);
    if (k->s.ssl->ecInfo.ecCurveId && k->s.ssl->ecInfo.ecCurveId != W.skeCurve) report("endpoints-disagree", "ServerKeyExchange on the wire names curve %d, the server selected %d", W.skeCurve, (int) k->s.ssl->ecInfo.ecCurveId);
    { psCipher16_t suc = 0, sus = 0; MX_ENTER(); matrixSslGetNegotiatedCiphersuite(k->c.ssl, &suc); matrixSslGetNegotiatedCiphersuite(k->s.ssl, &sus); MX_LEAVE();
      if (suc != sus || !in_list(c->su, c->nsu, suc)) report("suite-not-offered", "client reports suite %04x, server %04x; offered {%s}", suc, sus, algs_str(c->su, c->nsu)); }
    vf_statf(1, "ec_curve_in_force_%d", W.skeCurve);
    if (idf && !(idf & eC)) vf_stat("ec_completed_with_identity_curve_outside_client_set", 1);   /* observation, see the assumptions */
    roundtrip(k);
    vf_stat("curve_negotiations_checked", 1);
}
/* same keys on both ends: 64 bytes each way must arrive */
static void roundtrip(mx_conn *kp)
{
    { unsigned char p[64]; mx_payload(p, 64, 0x0c07, 0, 1); mx_send(&kp->c, p, 64); unsigned char *b; int n = mx_take(&kp->c, &b); if (n > 0) mx_feed(&kp->s, b, n); free(b);
      if (kp->s.gotlen != 64 || memcmp(kp->s.got, p, 64)) report("data-does-not-round-trip", "64 bytes client->server after completion: server got %zu", kp->s.gotlen);
      mx_payload(p, 64, 0x0c07, 1, 1); mx_send(&kp->s, p, 64); n = mx_take(&kp->s, &b); if (n > 0) mx_feed(&kp->c, b, n); free(b);
      if (kp->c.gotlen != 64 || memcmp(kp->c.got, p, 64)) report("data-does-not-round-trip", "64 bytes server->client after completion: client got %zu", kp->c.gotlen); }
}
static int pump(mx_conn *k, const case_t *cs)   /* returns whether a first server flight was seen */
{
    /* pump flight by flight with the tamper hook on the chosen hello of each direction */
    tamper_applied = 0; int done_t = 0; int shSeen = 0; int helloOrd[2] = { 0, 0 }; memset(&W, 0, sizeof W);
    for (int round = 0; round < 40; round++) {
        mx_ep *snd = (round & 1) ? &k->s : &k->c, *rcv = (round & 1) ? &k->c : &k->s;
        if (k->dtls && !snd->wantTake && snd->ssl->outlen == 0) { if (round > 6) break; continue; }
        unsigned char *b; int n = mx_take(snd, &b);
        if (n <= 0) { free(b); if (round > 3) break; continue; }
        wire_flight(&W, snd, round & 1, b, n, k->dtls);
        if (vf_case) { fprintf(stderr, "  flight %d %s:", round, snd->name); int o = 0; mx_rec r; while (mx_rec_at(b, n, o, k->dtls, &r)) { fprintf(stderr, " [%d/%d%s%d]", r.type, r.len, r.type == 22 ? " hs" : " ", r.type == 22 ? b[o + r.hdr] : 0); o += r.hdr + r.len; } fprintf(stderr, "\n"); }
        if (!done_t && cs->t.kind == 1 + (round & 1)) {
            if (!cs->t.which) { if (apply_tamper(&cs->t, &b, &n, k->dtls, 0)) done_t = 1; }
            else {   /* exactly the which-th hello of this direction; compatibility ChangeCipherSpec records in front of it are stepped over */
                int o = 0; mx_rec r; hello_t h; while (mx_rec_at(b, n, o, k->dtls, &r) && r.type == 20) o += r.hdr + r.len;
                if (mx_rec_at(b, n, o, k->dtls, &r) && parse_hello(b + o, r.hdr + r.len, k->dtls, &h) == 0 && h.isServer == (round & 1) && ++helloOrd[round & 1] == cs->t.which) { apply_tamper(&cs->t, &b, &n, k->dtls, o); done_t = 1; }
            }
        }
        if (!rcv->dead) {
            if (k->dtls) { int off = 0; mx_rec r; while (off < n && mx_rec_at(b, n, off, 1, &r)) { if (!rcv->dead) mx_feed(rcv, b + off, r.hdr + r.len); off += r.hdr + r.len; } }
            else mx_feed(rcv, b, n);
        }
        if ((round & 1) && !shSeen && b[0] == 22) { shSeen = 1; client_dead_after_sh = k->c.dead || (k->c.ssl->flags & SSL_FLAGS_ERROR) != 0; client_state_after_sh = k->c.ssl->hsState; }
        free(b);
    }
    return shSeen;
}
/* extended master secret (RFC 7627): one connection, or one that establishes a session (tolerant server) followed by the judged one that presents its session id / ticket
   to a server session sharing the cache and the ticket keys.  In force = extension in the ClientHello and in the ServerHello of the judged connection. */
static void run_ems_case(void *a_)
{
    case_t *cs = a_; cfg_t c = cs->c; mx_conn k; sslSessionId_t *sid; matrixSslNewSessionId(&sid, NULL); int rcs = 0, rcc = 0, E1 = -1;
    case_t plain = *cs; memset(&plain.t, 0, sizeof plain.t); cur_class = cs->cls; vf_stat("cases", 1); force_alg = 0;
    if (c.ems >= 2) {
        cfg_t c1 = c; c1.emsC = c.emsC1; c1.emsS = c.emsS1;
        open_pair(&k, &c1, sid, &rcs, &rcc);
        if (rcs < 0 || rcc < 0) { vf_incon("session creation refused (%s)", cur_desc); if (rcs >= 0) mx_ep_free(&k.s); if (rcc >= 0) mx_ep_free(&k.c); matrixSslDeleteSessionId(sid); return; }
        pump(&k, &plain);
        int done1 = matrixSslHandshakeIsComplete(k.c.ssl) && !k.c.dead && matrixSslHandshakeIsComplete(k.s.ssl) && !k.s.dead;
        E1 = W.chEms && W.shEms;
        if (!done1 || W.abbrev) { vf_incon("the session to be resumed could not be established (%s)", cur_desc); mx_ep_free(&k.c); mx_ep_free(&k.s); matrixSslDeleteSessionId(sid); return; }
        if (E1 != (c.emsC1 >= 0 && c.emsS1 >= 0)) report("ems-in-force-differs-from-configuration", "establishing connection: client %d server %d (-1 disabled, 0 enabled): extension in ClientHello %d, in ServerHello %d", c.emsC1, c.emsS1, W.chEms, W.shEms);
        roundtrip(&k);
        mx_ep_free(&k.c); mx_ep_free(&k.s);
    }
    open_pair(&k, &c, sid, &rcs, &rcc);
    if (rcs < 0 || rcc < 0) { vf_incon("session creation refused (%s)", cur_desc); if (rcs >= 0) mx_ep_free(&k.s); if (rcc >= 0) mx_ep_free(&k.c); matrixSslDeleteSessionId(sid); return; }
    pump(&k, &plain);
    int done = matrixSslHandshakeIsComplete(k.c.ssl) && !k.c.dead && matrixSslHandshakeIsComplete(k.s.ssl) && !k.s.dead;
    int ems = W.chEms && W.shEms, resumed = done && W.abbrev, bothOn = c.emsC >= 0 && c.emsS >= 0, mustFail = (c.emsS > 0 && c.emsC < 0) || (c.emsC > 0 && c.emsS < 0);
    vf_distinct("%s|%x|%x|%d|%d|%d|%d|%d|%d", cs->cls, c.cmask, c.smask, c.ems, c.emsC1, c.emsS1, c.emsC, c.emsS, c.ticket);
    vf_statf(1, "ems_%s_%s", c.ems == 1 ? "full" : c.ems == 2 ? "sessionid" : "ticket", !done ? "failed" : resumed ? (ems ? "resumed-with-ems" : "resumed-without-ems") : (ems ? "full-with-ems" : "full-without-ems"));
    if (c.ems >= 2 && !(c.ems == 2 ? W.chSid > 0 : W.chTicket > 0)) { vf_incon("the client did not present its %s (%s)", c.ems == 2 ? "session id" : "ticket", cur_desc); goto out; }
    if (c.ems >= 2 && c.emsC1 == 0 && c.emsS1 == 0 && c.emsC == 0 && c.emsS == 0 && !resumed) { vf_incon("resumption control did not resume (%s)", cur_desc); goto out; }
    if (!done) {
        if (c.ems == 1 && !mustFail) report("no-handshake-despite-common-version", "extended master secret client %d server %d (-1 disabled, 0 enabled, 1 required): the full handshake failed (client alert-in %d, server alert-in %d)", c.emsC, c.emsS, k.c.alertDesc, k.s.alertDesc);
        goto out;
    }
    { int fc = k.c.ssl->extFlags.extended_master_secret, fs = k.s.ssl->extFlags.extended_master_secret;
      if (fc != ems || fs != ems) report("endpoints-disagree", "extended master secret: on the wire %d, client state %d, server state %d", ems, fc, fs); }
    if (!ems && (c.emsS > 0 || c.emsC > 0)) report("ems-required-but-not-in-force", "%s requires the extended master secret; the %s handshake completed without it (session established with it: %d; ClientHello carries the extension: %d)", c.emsS > 0 ? "server" : "client", resumed ? "abbreviated" : "full", E1, W.chEms);
    if (ems && !bothOn) report("ems-in-force-although-disabled", "client %d server %d (-1 = disabled): the %s handshake completed with the extended master secret", c.emsC, c.emsS, resumed ? "abbreviated" : "full");
    if (!ems && bothOn) report("ems-enabled-on-both-sides-but-not-in-force", "both sides enable the extended master secret; the %s handshake completed without it (session established with it: %d)", resumed ? "abbreviated" : "full", E1);
    if (resumed && E1 >= 0 && ems != E1) report("ems-resumption-not-in-step", "session established %s the extended master secret was resumed %s it (RFC 7627 5.3)", E1 ? "with" : "without", ems ? "with" : "without");
    roundtrip(&k);
    vf_stat("ems_negotiations_checked", 1);
out:
    mx_ep_free(&k.c); mx_ep_free(&k.s); matrixSslDeleteSessionId(sid);
}
static void run_case(void *a_)
{
    case_t *cs = a_; cfg_t *c = &cs->c; mx_conn k; sslSessionId_t *sid; matrixSslNewSessionId(&sid, NULL); int rcs = 0, rcc = 0;
    cur_class = cs->cls; vf_stat("cases", 1);
    force_alg = c->force; force_role = c->forceRole;
    open_pair(&k, c, sid, &rcs, &rcc);
    force_curve = c->forceCurve;
    int common = c->cmask & c->smask; int expectV = vmask_max(common);
    if (rcs < 0 || rcc < 0) { vf_stat("session_creation_refused", 1); if (c->ec) vf_statf(1, "ec_session_refused_%s_%s_rc%d", rcs < 0 ? "server" : "client", ident[c->idS].name, rcs < 0 ? rcs : rcc); if (c->sig || c->hrr) vf_incon("session creation refused for a %s configuration (%s)", cs->cls, cur_desc); if (rcs >= 0) mx_ep_free(&k.s); if (rcc >= 0) mx_ep_free(&k.c); return; }
    int shSeen = pump(&k, cs);
    force_alg = 0; force_curve = 0;
    if (vf_case) fprintf(stderr, "  wire: v13=%d CH=%d HRR=%d SH=%d ske=%04x cvS=%04x cvC=%04x offered={%s} certreq=%d{%s} client.peerSigAlg=%04x\n", W.v13, W.nCH, W.nHRR, W.nSH, W.ske, W.cvS, W.cvC, algs_str(W.off, W.nOff), W.sawCreq, algs_str(W.creq, W.nCreq), k.c.ssl->peerSigAlg);
    int cdone = matrixSslHandshakeIsComplete(k.c.ssl) && !k.c.dead, sdone = matrixSslHandshakeIsComplete(k.s.ssl) && !k.s.dead;
    vf_statf(1, "outcome_%s", cdone && sdone ? "both-complete" : (cdone || sdone) ? "one-side-complete" : "failed");
    if (W.nHRR) vf_stat("handshakes_with_helloretryrequest", 1);
    if (cs->t.kind) {
        if (!tamper_applied) { vf_stat("tamper_not_applicable", 1); goto out; }
        /* a rewrite aimed at ClientHello2 / ServerHello of a HelloRetryRequest handshake presupposes that the HelloRetryRequest happened */
        if (cs->t.which && c->hrr && !(cs->t.kind == 1 && cs->t.which == 1) && W.nHRR < 1) { vf_incon("configuration %s did not go through HelloRetryRequest", cur_desc); goto out; }
        vf_statf(1, "rewrites_applied_%s", cs->cls);
        vf_distinct("%s|%x|%x|%d|%d|%d|%d|%d|%d|%d|%04x", cs->cls, c->cmask, c->smask, cs->t.kind, cs->t.field, cs->t.arg, cs->t.arg2, cs->t.which, c->hrr, c->ecdsa, c->nsu ? c->su[0] : 0);
        if (cdone && sdone) {
            /* both complete although a hello byte changed in flight */
            static const char *hn[2][3] = { { "ClientHello", "ClientHello1", "ClientHello2" }, { "ServerHello", "HelloRetryRequest", "ServerHello (after HelloRetryRequest)" } };
            report("tampered-hello-accepted", "%s %s (arg %d/%d): both endpoints completed the handshake (ClientHellos on the wire %d, HelloRetryRequests %d, group %u)", hn[cs->t.kind - 1][cs->t.which > 2 ? 0 : cs->t.which], fname[cs->t.field], cs->t.arg, cs->t.arg2, W.nCH, W.nHRR, k.s.ssl->tls13NegotiatedGroup);
        } else if (cdone || sdone) {
            /* one side believing the handshake done is possible only transiently (last flight lost); it must not deliver data */
            vf_stat("tampered_one_side_complete", 1);
        }
        if ((cs->t.field == F_SV_DROP13 || cs->t.field == F_SV_ONLY11) && cs->t.which < 2 && (c->cmask & c->smask & (1 << MX_TLS13)) && shSeen && !client_dead_after_sh)
            report("downgrade-sentinel-ignored", "ClientHello stripped of TLS 1.3: server answered with an older version and the client did not abort at ServerHello (hsState %d)", client_state_after_sh);
        goto out;
    }
    if (c->sig) { sig_oracle(c, &k, cdone && sdone); goto out; }
    if (c->ec) { ec_oracle(c, &k, cdone, sdone); goto out; }
    vf_distinct("%s|%d%d|%x|%x|%d|%04x|%d|%d|%d|%d|%d|%d|%s", cs->cls, c->ascC, c->ascS, c->cmask, c->smask, c->nsu, c->nsu ? c->su[0] : 0, c->nsdis, c->ngroupsC, c->ngroupsS, c->nsigC, c->emsC * 3 + c->emsS, c->scsv, c->nops ? strstr(cur_desc, " hist=") : "");
    /* ---- reference negotiation ---- */
    int mustFail = expectV < 0;
    if (c->scsv && vmask_max(c->cmask) < vmask_max(c->smask)) mustFail = 1;      /* RFC 7507: server supports a higher version than the client offers with the SCSV */
    /* with an explicit client suite list a version is only really on offer if the list holds a suite usable with it:
       the expected version is the highest common one for which such a suite exists */
    if (!mustFail && c->nsu) { int found = -1;
        for (int v = MX_NVER - 1; v >= 0 && found < 0; v--) { if (!(common & (1 << v))) continue;
            for (int i = 0; i < c->nsu; i++) { const mx_suite_t *s = mx_suite_by_id(c->su[i]); int dis = 0; for (int j = 0; j < c->nsdis; j++) if (c->sdis[j] == c->su[i]) dis = 1;
                if (s && !dis && mx_suite_ok_for(s, v) && (s->auth == MX_AUTH_PSK || s->tls13 || (s->auth == MX_AUTH_ECDSA) == (c->ecdsa != 0))) found = v; } }
        if (found < 0) mustFail = 2; else expectV = found; }
    if (!mustFail && expectV == MX_TLS13 && c->ngroupsC && c->ngroupsS) { int any = 0; for (int i = 0; i < c->ngroupsC; i++) for (int j = 0; j < c->ngroupsS; j++) if (c->groupsC[i] == c->groupsS[j]) any = 1; if (!any) mustFail = 3; }
    if (mustFail == 1 || mustFail < 0 || expectV < 0) { if (cdone && sdone) report(c->scsv ? "fallback-scsv-ignored" : "completed-without-common-version", "client versions 0x%x server versions 0x%x scsv=%d: handshake completed (negotiated %s)", c->cmask, c->smask, c->scsv, mx_vername[wire_to_ver(matrixSslGetNegotiatedVersion(k.c.ssl)) < 0 ? 0 : wire_to_ver(matrixSslGetNegotiatedVersion(k.c.ssl))]); goto out; }
    if (mustFail >= 2) { if (cdone && sdone) report(mustFail == 2 ? "completed-without-common-suite" : "completed-without-common-group", "handshake completed although the configurations share no usable %s", mustFail == 2 ? "cipher suite" : "key-exchange group"); goto out; }
    if (c->hrr && W.nHRR != 1) { vf_incon("configuration %s did not go through HelloRetryRequest (ClientHellos %d, HelloRetryRequests %d)", cur_desc, W.nCH, W.nHRR); goto out; }
    if (c->hrr && !(cdone && sdone)) { report("no-handshake-despite-common-group", "client groups and server groups share a group the client sent no key share for; after HelloRetryRequest the handshake failed (client alert-in %d, server alert-in %d)", k.c.alertDesc, k.s.alertDesc); goto out; }
    if (c->nops && !(cdone && sdone)) { report("no-handshake-despite-enabled-common-suite", "the client offers a suite that the history of enable/disable calls leaves enabled on the server, yet the handshake failed (client alert-in %d, server alert-in %d)", k.c.alertDesc, k.s.alertDesc); goto out; }
    if (!(cdone && sdone)) {
        /* completeness is asserted only for the plain configurations (default lists): the reference model does not predict every legal refusal of exotic list combinations */
        if (!c->nsu && !c->nsdis && !c->ngroupsC && !c->ngroupsS && !c->nsigC && !c->nsigS && c->emsC >= 0 && c->emsS >= 0) report("no-handshake-despite-common-version", "client versions 0x%x server versions 0x%x share %s but the handshake failed (client alert-in %d, server alert-in %d)", c->cmask, c->smask, mx_vername[expectV], k.c.alertDesc, k.s.alertDesc);
        else vf_stat("refused_nondefault_configuration", 1);
        goto out;
    }
    int vc = wire_to_ver(matrixSslGetNegotiatedVersion(k.c.ssl)), vs_ = wire_to_ver(matrixSslGetNegotiatedVersion(k.s.ssl));
    psCipher16_t suc = 0, sus = 0; MX_ENTER(); matrixSslGetNegotiatedCiphersuite(k.c.ssl, &suc); matrixSslGetNegotiatedCiphersuite(k.s.ssl, &sus); MX_LEAVE();
    if (vc != vs_ || suc != sus) report("endpoints-disagree", "client reports %s/%04x, server %s/%04x", mx_vername[vc < 0 ? 0 : vc], suc, mx_vername[vs_ < 0 ? 0 : vs_], sus);
    if (!(common & (1 << vc))) report("version-not-mutually-enabled", "negotiated %s, client set 0x%x server set 0x%x", mx_vername[vc < 0 ? 0 : vc], c->cmask, c->smask);
    else if (vc != expectV && !c->ascC && !c->ascS) report("not-highest-common-version",   /* "by default": an application that lists its versions lowest-first has stated another preference */ "negotiated %s but %s is enabled on both sides (client 0x%x server 0x%x)", mx_vername[vc], mx_vername[expectV], c->cmask, c->smask);
    if (c->nsu) { int in = 0; for (int i = 0; i < c->nsu; i++) if (c->su[i] == suc) in = 1; if (!in) report("suite-not-offered", "negotiated suite %04x was not in the client's list", suc); }
    for (int j = 0; j < c->nsdis; j++) if (c->sdis[j] == suc) report("suite-disabled-on-server", "negotiated suite %04x had been disabled on the server session", suc);
    { const mx_suite_t *s = mx_suite_by_id(suc); if (!s || !mx_suite_ok_for(s, vc)) report("suite-not-usable-with-version", "suite %04x negotiated with %s", suc, mx_vername[vc]); }
    if (vc == MX_TLS13) {
        uint16_t g = k.s.ssl->tls13NegotiatedGroup, gc = k.c.ssl->tls13NegotiatedGroup;
        if (g != gc) report("endpoints-disagree", "key-exchange group client %u server %u", gc, g);
        if (c->ngroupsC) { int in = 0; for (int i = 0; i < c->ngroupsC; i++) if (c->groupsC[i] == g) in = 1; if (!in && g) report("group-not-offered", "group %u not in the client's list", g); }
        if (c->ngroupsS) { int in = 0; for (int i = 0; i < c->ngroupsS; i++) if (c->groupsS[i] == g) in = 1; if (!in && g) report("group-not-enabled-on-server", "group %u not in the server's list", g); }
        if (c->hrr && (W.nCH != 2 || W.nSH != 1)) report("hello-count-after-helloretryrequest", "%d ClientHellos, %d HelloRetryRequests, %d ServerHellos on the wire", W.nCH, W.nHRR, W.nSH);
        uint16_t sa = k.c.ssl->sec.tls13PeerCvSigAlg;
        if (W.cvS && sa && W.cvS != sa) report("endpoints-disagree", "CertificateVerify on the wire carries 0x%04x, the client recorded 0x%04x", W.cvS, sa);
        if (c->nsigC && sa) { int in = 0; for (int i = 0; i < c->nsigC; i++) if (c->sigC[i] == sa) in = 1; if (!in) report("sigalg-not-offered", "server signed CertificateVerify with 0x%04x which the client did not offer", sa); }
    }
    /* hello-level fields of an honest run, read from the wire */
    if (W.nSH) {
        static const unsigned char dg[7] = "DOWNGRD"; int isSent = !memcmp(W.shTail, dg, 7) && W.shTail[7] <= 1;
        if (W.shSuite != suc) report("endpoints-disagree", "ServerHello on the wire selects %04x, the endpoints report %04x", W.shSuite, suc);
        if (W.shComp != 0 || W.chNcomp != 1 || W.chComp0 != 0) report("compression-not-null", "ClientHello offers %d compression methods (first %d), ServerHello selects %d", W.chNcomp, W.chComp0, W.shComp);
        int wantSh = k.dtls ? (vc == MX_DTLS10 ? 0xfeff : 0xfefd) : vc == MX_TLS11 ? 0x0302 : 0x0303;
        if (W.shLegacy != wantSh) report("serverhello-legacy-version", "negotiated %s but ServerHello.legacy_version is %04x", mx_vername[vc], W.shLegacy);
        int cmax = vmask_max(c->cmask), wantCh = k.dtls ? (cmax == MX_DTLS10 ? 0xfeff : 0xfefd) : cmax == MX_TLS11 ? 0x0302 : 0x0303;
        if (!c->ascC && !c->nsu && W.chLegacy != wantCh) report(   /* default suite list only: a list without TLS 1.3 suites makes a 1.3-enabled client write the hello of its highest usable version */"clienthello-legacy-version", "client's highest version is %s but ClientHello.legacy_version is %04x", mx_vername[cmax], W.chLegacy);
        /* RFC 8446 4.1.3: a 1.3-capable server that negotiates 1.2 / 1.1 marks its random; nobody else does */
        if (!k.dtls && (c->smask & (1 << MX_TLS13)) && vc < MX_TLS13) { if (!isSent || W.shTail[7] != (vc == MX_TLS12 ? 1 : 0)) report("downgrade-sentinel-missing", "TLS 1.3-capable server negotiated %s; ServerHello.random ends %02x%02x%02x%02x%02x%02x%02x%02x", mx_vername[vc], W.shTail[0], W.shTail[1], W.shTail[2], W.shTail[3], W.shTail[4], W.shTail[5], W.shTail[6], W.shTail[7]); else vf_stat("downgrade_sentinels_seen", 1); }
        else if (isSent && !(!k.dtls && vc == MX_TLS11 && vmask_max(c->smask) == MX_TLS12)) report("downgrade-sentinel-unjustified", "ServerHello.random carries the downgrade sentinel although %s is the server's highest version", mx_vername[vc]);
    }
    roundtrip(&k);
    vf_stat("negotiations_checked", 1);
out:
    mx_ep_free(&k.c); mx_ep_free(&k.s); matrixSslDeleteSessionId(sid);
}

static case_t *cases; static long ncases, capcases;
static void add_case(const cfg_t *c, const tamper_t *t, const char *cls) { if (ncases == capcases) { capcases = capcases ? capcases * 2 : 4096; cases = realloc(cases, capcases * sizeof *cases); } cases[ncases].c = *c; if (t) cases[ncases].t = *t; else memset(&cases[ncases].t, 0, sizeof(tamper_t)); cases[ncases].cls = cls; ncases++; }

int main(int argc, char **argv)
{
    vf_init(argc, argv); mx_global_init(); mx_keys_load(); ident_load();
    vf_rng g; vf_rng_init(&g, vf_seed, 7);
    cfg_t base; memset(&base, 0, sizeof base);
    /* 1. version subsets, exhaustive: 7x7 TLS and 3x3 DTLS, default suites */
    for (int cm = 1; cm < 8; cm++) for (int sm = 1; sm < 8; sm++) { cfg_t c = base; c.cmask = cm; c.smask = sm; add_case(&c, NULL, "tls-version-sets"); c.ecdsa = 1; if ((cm ^ sm) & 1) add_case(&c, NULL, "tls-version-sets");
        for (int ord = 1; ord < 4; ord++) { cfg_t d = base; d.cmask = cm; d.smask = sm; d.ascC = ord & 1; d.ascS = ord >> 1; add_case(&d, NULL, "tls-version-sets-listed-lowest-first"); } }
    for (int cm = 1; cm < 4; cm += 2) for (int sm = 1; sm < 4; sm += 2) { cfg_t c = base; c.cmask = cm << MX_DTLS10; c.smask = sm << MX_DTLS10; add_case(&c, NULL, "dtls-version-sets"); c.ecdsa = 1; add_case(&c, NULL, "dtls-version-sets"); }   /* {1.0} and {1.0,1.2}: the sets the API can express */
    /* 2. suites: every single suite on every version it fits, server with and without that suite disabled; random lists */
    for (int v = 0; v < MX_NVER; v++) for (int i = 0; i < MX_NSUITES; i++) { const mx_suite_t *s = &mx_suites[i]; if (!mx_suite_ok_for(s, v)) continue;
        cfg_t c = base; c.cmask = c.smask = v == MX_DTLS12 ? (3 << MX_DTLS10) : (1 << v); c.nsu = 1; c.su[0] = s->id; c.ecdsa = s->auth == MX_AUTH_ECDSA; add_case(&c, NULL, "single-suite");
        if (v == MX_TLS12 || v == MX_TLS13 || vf_thorough) { c.nsdis = 1; c.sdis[0] = s->id; add_case(&c, NULL, "suite-disabled-on-server"); } }
    for (int i = 0; i < (vf_thorough ? 1500 : 120); i++) { cfg_t c = base; c.cmask = 1 + vf_below(&g, 7); c.smask = 1 + vf_below(&g, 7); c.nsu = 1 + vf_below(&g, 6); c.ecdsa = vf_below(&g, 2);
        for (int j = 0; j < c.nsu; j++) c.su[j] = mx_suites[vf_below(&g, MX_NSUITES)].id; c.nsdis = vf_below(&g, 3); for (int j = 0; j < c.nsdis; j++) c.sdis[j] = c.su[vf_below(&g, c.nsu)]; add_case(&c, NULL, "suite-lists"); }
    /* 3. TLS 1.3 groups and signature algorithms; extended master secret */
    static const uint16_t grp[] = { 23, 24, 25, 29 };
    for (int a = 1; a < 16; a++) for (int b = 1; b < 16; b++) { if (!vf_thorough && ((a * 5 + b) % 4)) continue; cfg_t c = base; c.cmask = c.smask = 1 << MX_TLS13;
        for (int i = 0; i < 4; i++) { if (a & (1 << i)) c.groupsC[c.ngroupsC++] = grp[i]; if (b & (1 << i)) c.groupsS[c.ngroupsS++] = grp[3 - i]; } c.shares = 1; add_case(&c, NULL, "tls13-groups"); }
    static const uint16_t sigs[] = { 0x0401, 0x0804, 0x0501, 0x0805 };
    for (int a = 1; a < 16; a++) { cfg_t c = base; c.cmask = c.smask = 1 << MX_TLS13; for (int i = 0; i < 4; i++) if (a & (1 << i)) c.sigC[c.nsigC++] = sigs[i]; add_case(&c, NULL, "tls13-sigalgs"); }
    /* extended master secret: see 8. */
    /* 4. fallback SCSV */
    for (int cm = 1; cm < 8; cm++) for (int sm = 1; sm < 8; sm++) for (int ord = 0; ord < 4; ord++) { cfg_t c = base; c.cmask = cm; c.smask = sm; c.scsv = 1; c.ascC = ord & 1; c.ascS = ord >> 1; if (vmask_max(cm) == MX_TLS13) continue; add_case(&c, NULL, "fallback-scsv"); }
    /* 5. hello tampering: every field, on several configurations */
    int tcfg[][2] = { { 7, 7 }, { 2, 7 }, { 3, 3 }, { 4, 4 }, { 1, 1 }, { 1 << MX_DTLS12, 3 << MX_DTLS10 }, { 6, 6 } };
    for (int ci = 0; ci < 7; ci++) for (int kind = 1; kind <= 2; kind++) for (int f = 0; f < F_N; f++) {
        int reps = (f == F_EXT_REMOVE || f == F_EXT_DUP) ? 12 : f == F_EXT_EDIT ? (vf_thorough ? 200 : 40) : (f == F_RANDOM_TAIL) ? 8 : (f == F_SUITE_DROP) ? 6 : 2;
        for (int r = 0; r < reps; r++) { cfg_t c = base; c.cmask = tcfg[ci][0]; c.smask = tcfg[ci][1]; if (ci == 6) c.ecdsa = 1;
            tamper_t t = { kind, f, r, (int) vf_below(&g, 600) };
            if (f == F_LEGACY) t.arg = r ? 2 : 1; if (f == F_SUITE_INSERT) t.arg = r ? 0x0005 : 0x002f; if (f == F_SUITE_SET) t.arg = r ? 0x002f : 0x1301; if (f == F_EXT_EDIT) t.arg = r;
            add_case(&c, &t, kind == 1 ? "clienthello-rewrite" : "serverhello-rewrite"); } }
    /* 6. HelloRetryRequest handshakes: controls, then the whole rewrite grid on each of the four hellos */
    static const struct { int cm, sm, ngC, ngS; uint16_t gC[4], gS[4]; int ecdsa; uint16_t suite; } hrr[] = {
        { 4, 4, 3, 2, { 29, 24, 23 }, { 24, 23 }, 0, 0 },            /* x25519 share only; server enables secp384r1, secp256r1 */
        { 7, 7, 3, 2, { 29, 24, 23 }, { 24, 23 }, 0, 0 },            /* same with TLS 1.1-1.3 enabled on both sides (supported_versions rewrites bite) */
        { 4, 4, 2, 1, { 23, 24 }, { 24 }, 1, 0 },                     /* ECDSA server identity */
        { 4, 4, 3, 2, { 23, 25, 29 }, { 25, 29 }, 0, 0x1302 },        /* SHA-384 transcript */
        { 6, 6, 2, 2, { 24, 29 }, { 29, 23 }, 1, 0x1303 },
    };
    static const char *hcls[2][2] = { { "hrr-clienthello1-rewrite", "hrr-clienthello2-rewrite" }, { "hrr-helloretryrequest-rewrite", "hrr-serverhello-rewrite" } };
    for (int hi = 0; hi < (int) (sizeof hrr / sizeof hrr[0]) - (vf_thorough ? 0 : 1); hi++) {   /* the last configuration is for the thorough tier */
        cfg_t c = base; c.cmask = hrr[hi].cm; c.smask = hrr[hi].sm; c.ngroupsC = hrr[hi].ngC; c.ngroupsS = hrr[hi].ngS; memcpy(c.groupsC, hrr[hi].gC, sizeof c.groupsC); memcpy(c.groupsS, hrr[hi].gS, sizeof c.groupsS);
        c.shares = 1; c.ecdsa = hrr[hi].ecdsa; c.hrr = 1; if (hrr[hi].suite) { c.nsu = 1; c.su[0] = hrr[hi].suite; }
        add_case(&c, NULL, "tls13-hrr");
        for (int which = 1; which <= 2; which++) for (int kind = 1; kind <= 2; kind++) for (int f = 0; f < F_N; f++) {
            int reps = (f == F_EXT_REMOVE || f == F_EXT_DUP) ? 12 : f == F_EXT_EDIT ? (vf_thorough ? 200 : 24) : (f == F_RANDOM_TAIL) ? 4 : (f == F_SUITE_DROP) ? 4 : 2;
            for (int r = 0; r < reps; r++) { tamper_t t = { kind, f, r, (int) vf_below(&g, 600), which };
                if (f == F_LEGACY) t.arg = r ? 2 : 1; if (f == F_SUITE_INSERT) t.arg = r ? 0x0005 : 0x002f; if (f == F_SUITE_SET) t.arg = r ? 0x002f : (c.nsu && c.su[0] == 0x1301 ? 0x1302 : 0x1301); if (f == F_EXT_EDIT) t.arg = r;
                add_case(&c, &t, hcls[kind - 1][which - 1]); } }
    }
    /* 7. signature algorithms against restricted lists: every identity x {TLS 1.2, DTLS 1.2, TLS 1.3} x {server signs, client signs (client auth)} */
    static const uint16_t U[9] = { 0x0401, 0x0501, 0x0601, 0x0403, 0x0503, 0x0603, 0x0804, 0x0805, 0x0806 };   /* lists are drawn from the first 8; the control offers all 9 */
    static const int sver[3] = { MX_TLS12, MX_DTLS12, MX_TLS13 }; static const char *scls[2][3] = { { "tls12-sigalgs", "dtls12-sigalgs", "tls13-sigalgs-bykey" }, { "tls12-sigalgs-clientauth", "dtls12-sigalgs-clientauth", "tls13-sigalgs-clientauth" } };
    for (int id = 1; id < NIDENT; id++) for (int vi = 0; vi < 3; vi++) for (int role = 1; role <= 2; role++) {
        cfg_t c = base; int v13 = sver[vi] == MX_TLS13; c.sig = role; c.idS = id; c.idC = role == 2 ? id : 0; c.ecdsa = ident[id].kt != KT_RSA;
        c.cmask = c.smask = sver[vi] == MX_DTLS12 ? (3 << MX_DTLS10) : (1 << sver[vi]);
        if (!v13) { c.nsu = 2; c.su[0] = c.ecdsa ? 0xc02b : 0xc02f; c.su[1] = c.ecdsa ? 0xc009 : 0xc013; }   /* ECDHE only: ServerKeyExchange is signed */
        const char *cls = scls[role - 1][vi]; uint16_t lists[400][10]; int nl[400], n = 0;
        for (int i = 0; i < 9; i++) lists[n][i] = U[i]; nl[n++] = 9;                                                            /* control */
        if (vf_thorough) { for (int m = 1; m < 256; m++) { nl[n] = 0; for (int i = 0; i < 8; i++) if (m & (1 << i)) lists[n][nl[n]++] = U[i]; n++; } }
        else {
            for (int i = 0; i < 8; i++) { lists[n][0] = U[i]; nl[n++] = 1; }                                                     /* singletons */
            if (role == 1) for (int i = 0; i < 8; i++) { nl[n] = 0; for (int j = 0; j < 8; j++) if (j != i) lists[n][nl[n]++] = U[j]; n++; }     /* all but one */
            for (int i = 0; i < 8; i++) if (U[i] != ident[id].chainAlg) { lists[n][0] = ident[id].chainAlg; lists[n][1] = U[i]; nl[n++] = 2; }   /* the chain's algorithm (needed for the certificate to be presentable) + one */
            nl[n] = 0; for (int i = 0; i < 8; i++) if (!sig_usable(v13, ident[id].kt, U[i])) lists[n][nl[n]++] = U[i]; if (nl[n]) n++;   /* everything the key cannot sign */
            nl[n] = 0; lists[n][nl[n]++] = ident[id].chainAlg; for (int i = 0; i < 8; i++) if (!sig_usable(v13, ident[id].kt, U[i]) && U[i] != ident[id].chainAlg) lists[n][nl[n]++] = U[i]; n++;
        }
        for (int r = 0; r < (vf_thorough ? 40 : 5); r++) {   /* seeded subsets in seeded order */
            int m = 1 + vf_below(&g, 255); nl[n] = 0; for (int i = 0; i < 8; i++) if (m & (1 << i)) lists[n][nl[n]++] = U[i];
            for (int i = nl[n] - 1; i > 0; i--) { int j = vf_below(&g, i + 1); uint16_t x = lists[n][i]; lists[n][i] = lists[n][j]; lists[n][j] = x; } n++; }
        if (role == 2 && sver[vi] == MX_DTLS12 && !vf_thorough) n = 9;   /* DTLS client-auth variant: control + singletons in the quick tier */
        for (int i = 0; i < n; i++) { cfg_t d = c; if (role == 1) { d.nsigC = nl[i]; memcpy(d.sigC, lists[i], nl[i] * 2); } else { d.nsigS = nl[i]; memcpy(d.sigS, lists[i], nl[i] * 2); } add_case(&d, NULL, cls); }
        /* rogue signer: signs with an algorithm of its key type that the verifier left out (the rest of the universe, chain algorithm included, stays on offer) */
        for (int i = 0; i < 9; i++) { uint16_t f = U[i]; if (!sig_usable(v13, ident[id].kt, f) || f == ident[id].chainAlg || (!v13 && f >= 0x0800)) continue;
            cfg_t d = c; d.force = f; d.forceRole = role == 1 ? MX_SERVER : MX_CLIENT; uint16_t *l = role == 1 ? d.sigC : d.sigS; int k = 0; for (int j = 0; j < 9; j++) if (U[j] != f) l[k++] = U[j]; if (role == 1) d.nsigC = k; else d.nsigS = k;
            add_case(&d, NULL, role == 1 ? "rogue-signer-server" : "rogue-signer-client"); }
        if (!v13) { uint16_t f = c.ecdsa ? 0x0203 : 0x0201;   /* SHA-1, never in the universe */
            cfg_t d = c; d.force = f; d.forceRole = role == 1 ? MX_SERVER : MX_CLIENT; if (role == 1) { d.nsigC = 9; memcpy(d.sigC, U, 18); } else { d.nsigS = 9; memcpy(d.sigS, U, 18); }
            add_case(&d, NULL, role == 1 ? "rogue-signer-server" : "rogue-signer-client"); }
    }
    /* 8. extended master secret incl. the REQUIRED option, on full handshakes and on both kinds of resumption (the session comes from a tolerant server session sharing cache and ticket keys) */
    { static const int ev[4][2] = { { 1 << MX_TLS12, 1 << MX_TLS12 }, { 3 << MX_DTLS10, 3 << MX_DTLS10 }, { 6, 2 }, { 1 << MX_TLS11, 1 << MX_TLS11 } };   /* {6,2}: the 1.3-capable client's ClientHello is written by the TLS 1.3 encoder */
      static const int e1[2][2] = { { 0, 0 }, { -1, 0 } };   /* how the session was established: with EMS, without (the client left the extension out; a server has no switch to decline it - dev guide, "Extended Master Secret") */
      for (int vi = 0; vi < (vf_thorough ? 4 : 3); vi++) for (int mode = 1; mode <= 3; mode++) for (int a = 0; a < (mode == 1 ? 1 : 2); a++) for (int ec = -1; ec <= 1; ec++) for (int es = 0; es <= 1; es++) {
          cfg_t c = base; c.cmask = ev[vi][0]; c.smask = ev[vi][1]; c.nsu = 1; c.su[0] = 0x002f; c.ems = mode; c.ticket = mode == 3; c.emsC1 = e1[a][0]; c.emsS1 = e1[a][1]; c.emsC = ec; c.emsS = es;
          add_case(&c, NULL, mode == 1 ? "extended-master-secret" : mode == 2 ? "extended-master-secret-resumption-sessionid" : "extended-master-secret-resumption-ticket"); } }
    /* 9. histories of matrixSslSetCipherSuiteEnabledStatus calls on the server (session-level and process-wide): the reference model is a set */
    { static const struct { int cm, sm, ecdsa; uint16_t u[4]; } hu[] = {
          { 2, 2, 0, { 0x002f, 0xc02f, 0xc030, 0x009c } }, { 2, 2, 1, { 0xc02b, 0xc02c, 0xc009, 0xc023 } }, { 4, 4, 0, { 0x1301, 0x1302, 0x1303, 0x002f } },
          { 3 << MX_DTLS10, 3 << MX_DTLS10, 0, { 0xc02f, 0x002f, 0x003c, 0xc013 } }, { 1, 1, 0, { 0x002f, 0x0035, 0xc013, 0xc014 } } };
      /* a history = string of steps, 'a'..'d' disable suite 0..3, 'A'..'D' re-enable it */
      static const char *fixed[] = { "a", "ab", "aA", "aa", "abA", "abB", "aAa", "abc", "aaA", "bcd", "abcA", "abAc", "abAB", "abcB", "aAbA", "abAa", "abcd", "bacB", "cabC", "abBA" };
      char hist[3000][6]; int nh = 0;
      for (int i = 0; i < (int) (sizeof fixed / sizeof fixed[0]); i++) strcpy(hist[nh++], fixed[i]);
      if (vf_thorough) { static const char al[] = "abcABC"; for (int len = 1; len <= 3; len++) { int tot = 1; for (int i = 0; i < len; i++) tot *= 6; for (int m = 0; m < tot; m++) { int x = m; for (int i = 0; i < len; i++) { hist[nh][i] = al[x % 6]; x /= 6; } hist[nh][len] = 0; nh++; } } }
      int nfix = nh; for (int r = 0; r < (vf_thorough ? 400 : 8); r++) { int len = vf_thorough ? 4 : 2 + vf_below(&g, 3); for (int i = 0; i < len; i++) hist[nh][i] = "abcdABCD"[vf_below(&g, 8)]; hist[nh][len] = 0; nh++; }
      for (int ui = 0; ui < 5; ui++) for (int h = 0; h < nh; h++) for (int glob = 0; glob < 2; glob++) {
          if (glob && (hu[ui].cm >= (1 << MX_DTLS10) || !(h < 8 || (h >= nfix && ((h - nfix) & 1))))) continue;   /* not DTLS: the switch is process-wide, and the client (same process here) re-encodes its ClientHello after HelloVerifyRequest */   /* process-wide variant (undone by the exit of the forked child): the first eight histories and every other seeded one */
          if (!vf_thorough && ui >= 3 && h >= 12 && h < nfix) continue;
          cfg_t c = base; c.cmask = hu[ui].cm; c.smask = hu[ui].sm; c.ecdsa = hu[ui].ecdsa; int dis[4] = { 0, 0, 0, 0 };
          for (const char *q = hist[h]; *q && c.nops < 6; q++) { int en = *q < 'a', si = en ? *q - 'A' : *q - 'a'; c.ops[c.nops].id = hu[ui].u[si]; c.ops[c.nops].en = en; c.ops[c.nops].glob = glob; c.nops++; dis[si] = !en; }
          for (int i = 0; i < 4; i++) if (dis[i]) c.sdis[c.nsdis++] = hu[ui].u[i];
          const char *cls = glob ? "suite-enable-history-global" : "suite-enable-history";
          /* offer 1: exactly the disabled suites (must fail); offer 2: the disabled suites first, then the enabled ones (must complete with an enabled one); offer 3: each disabled suite alone */
          if (c.nsdis) { cfg_t d = c; for (int i = 0; i < 4; i++) if (dis[i]) d.su[d.nsu++] = hu[ui].u[i]; add_case(&d, NULL, cls); }
          if (c.nsdis < 4) { cfg_t d = c; for (int i = 0; i < 4; i++) if (dis[i]) d.su[d.nsu++] = hu[ui].u[i]; for (int i = 0; i < 4; i++) if (!dis[i]) d.su[d.nsu++] = hu[ui].u[i]; add_case(&d, NULL, cls); }
          if (c.nsdis > 1 && (vf_thorough || h < 12)) for (int i = 0; i < 4; i++) if (dis[i]) { cfg_t d = c; d.nsu = 1; d.su[0] = hu[ui].u[i]; add_case(&d, NULL, cls); }
      } }
    /* 10. ECDHE curve sets under (D)TLS <= 1.2 (sslSessOpts_t.ecFlags on both sides): every pair of non-empty subsets of {secp256r1, secp384r1, secp521r1} plus "option left alone" - so all
       singleton, disjoint and nested pairs - and pairs reaching into secp192r1 / secp224r1; thorough: every pair of subsets of the five compiled-in curves.  ECDHE_RSA with the RSA identity and
       ECDHE_ECDSA with the P-256 / P-384 / P-521 identities; TLS 1.2, TLS 1.1, DTLS 1.2 and a TLS 1.3-capable server that hands the TLS 1.2 hello to the legacy parser. */
    { static const struct { int cm, sm; const char *cls; } evv[] = {
          { 2, 2, "ecdhe-curve-sets" }, { 1, 1, "ecdhe-curve-sets" }, { 3 << MX_DTLS10, 3 << MX_DTLS10, "ecdhe-curve-sets-dtls" }, { 2, 7, "ecdhe-curve-sets" },
          { 3, 3, "ecdhe-curve-sets" }, { 1 << MX_DTLS10, 1 << MX_DTLS10, "ecdhe-curve-sets-dtls" }, { 1, 7, "ecdhe-curve-sets" } };
      static const uint32_t extra[][2] = { { 0x01, 0x01 }, { 0x01, 0x02 }, { 0x02, 0x0c }, { 0x03, 0x12 }, { 0x11, 0x06 }, { 0x02, 0x02 }, { 0x1c, 0x03 }, { 0x03, 0 }, { 0, 0x01 }, { 0x1f, 0x10 } };
      uint32_t pairs[1100][2]; int np = 0;
      if (vf_thorough) { for (uint32_t a = 0; a < 32; a++) for (uint32_t b = 0; b < 32; b++) { pairs[np][0] = a; pairs[np][1] = b; np++; } }
      else { for (uint32_t a = 0; a < 8; a++) for (uint32_t b = 0; b < 8; b++) { pairs[np][0] = a << 2; pairs[np][1] = b << 2; np++; }
             for (int i = 0; i < (int) (sizeof extra / sizeof extra[0]); i++) { pairs[np][0] = extra[i][0]; pairs[np][1] = extra[i][1]; np++; } }
      for (int vi = 0; vi < (vf_thorough ? 7 : 4); vi++) for (int id = 1; id <= 4; id++) for (int pi = 0; pi < np; pi++) {
          int ecdsa = ident[id].kt != KT_RSA;
          if (ecdsa && vi >= 3) continue;                                              /* ECDSA identities: TLS 1.2, TLS 1.1, DTLS 1.2 */
          if (!vf_thorough && ecdsa && vi > 0 && ((pi + id + vi) % 3)) continue;        /* quick: all pairs under TLS 1.2, a third of them per identity under TLS 1.1 / DTLS 1.2 */
          cfg_t c = base; c.cmask = evv[vi].cm; c.smask = evv[vi].sm; c.ec = 1; c.ecC = pairs[pi][0]; c.ecS = pairs[pi][1]; c.idS = id; c.ecdsa = ecdsa;
          if (c.cmask & ((1 << MX_TLS12) | (1 << MX_DTLS12))) c.su[c.nsu++] = ecdsa ? 0xc02b : 0xc02f;   /* a client without (D)TLS 1.2 refuses a list holding an AEAD suite */
          c.su[c.nsu++] = ecdsa ? 0xc009 : 0xc013;
          add_case(&c, NULL, evv[vi].cls); }
      /* rogue server (curve chooser overridden through --wrap): client sets x curve forced on the server; a forced curve inside the client's set is the control */
      static const struct { uint32_t ecC; int curve; } rg[] = { { 0x08, 23 }, { 0x08, 25 }, { 0x08, 19 }, { 0x04, 24 }, { 0x04, 25 }, { 0x0c, 25 }, { 0x0c, 21 }, { 0x10, 23 }, { 0x10, 24 }, { 0x14, 24 }, { 0x1e, 19 }, { 0x03, 23 },
                                                           { 0x0c, 24 }, { 0x14, 25 }, { 0, 24 }, { 0x18, 24 } };   /* the last four: controls */
      for (int vi = 0; vi < (vf_thorough ? 7 : 3); vi++) for (int id = 1; id <= (vf_thorough ? 4 : 2); id++) for (int ri = 0; ri < (int) (sizeof rg / sizeof rg[0]); ri++) {
          int ecdsa = ident[id].kt != KT_RSA; if (ecdsa && vi >= 3) continue;
          cfg_t c = base; c.cmask = evv[vi].cm; c.smask = evv[vi].sm; c.ec = 1; c.ecC = rg[ri].ecC; c.forceCurve = rg[ri].curve; c.idS = id; c.ecdsa = ecdsa;
          if (c.cmask & ((1 << MX_TLS12) | (1 << MX_DTLS12))) c.su[c.nsu++] = ecdsa ? 0xc02b : 0xc02f;
          c.su[c.nsu++] = ecdsa ? 0xc009 : 0xc013;
          add_case(&c, NULL, "rogue-curve-server"); } }
    for (long i = 0; i < ncases; i++) {
        if (!vf_mine(i)) continue;
        case_t *cs = &cases[i];
        snprintf(cur_desc, sizeof cur_desc, "case=%ld cls=%s c=0x%x s=0x%x nsu=%d su0=%04x dis=%d t=%d/%s/%d/%d/%d scsv=%d", i, cs->cls, cs->c.cmask, cs->c.smask, cs->c.nsu, cs->c.nsu ? cs->c.su[0] : 0, cs->c.nsdis, cs->t.kind, fname[cs->t.field], cs->t.arg, cs->t.arg2, cs->t.which, cs->c.scsv);
        if (cs->c.sig) snprintf(cur_desc + strlen(cur_desc), sizeof cur_desc - strlen(cur_desc), " idS=%s idC=%s sig%c={%s} force=%04x", ident[cs->c.idS].name, ident[cs->c.idC].name, cs->c.sig == 1 ? 'C' : 'S', cs->c.sig == 1 ? algs_str(cs->c.sigC, cs->c.nsigC) : algs_str(cs->c.sigS, cs->c.nsigS), cs->c.force);
        if (cs->c.ems) snprintf(cur_desc + strlen(cur_desc), sizeof cur_desc - strlen(cur_desc), " ems mode=%d established C%d/S%d judged C%d/S%d", cs->c.ems, cs->c.emsC1, cs->c.emsS1, cs->c.emsC, cs->c.emsS);
        if (cs->c.nops) { char *o = cur_desc + strlen(cur_desc); o += snprintf(o, 8, " hist="); for (int q = 0; q < cs->c.nops; q++) o += snprintf(o, 12, "%c%04x%s", cs->c.ops[q].en ? '+' : '-', cs->c.ops[q].id, cs->c.ops[q].glob ? "g" : ""); snprintf(o, 40, " offer=%s", algs_str(cs->c.su, cs->c.nsu)); }
        if (cs->c.ec) snprintf(cur_desc + strlen(cur_desc), sizeof cur_desc - strlen(cur_desc), " idS=%s ecC=0x%x ecS=0x%x forceCurve=%d", ident[cs->c.idS].name, cs->c.ecC, cs->c.ecS, cs->c.forceCurve);
        if (cs->c.hrr) snprintf(cur_desc + strlen(cur_desc), sizeof cur_desc - strlen(cur_desc), " hrr groupsC=%u.. groupsS=%u.. ecdsa=%d", cs->c.groupsC[0], cs->c.groupsS[0], cs->c.ecdsa);
        if (vf_case) { long want = -1; sscanf(vf_case, "case=%ld", &want); if (want != i) continue; }
        if (i % 211 == 0) vf_sample("%s", cur_desc);
        mx_entropy_seed(vf_seed * 7919 + i);
        vf_fork_case(cs->c.ems ? run_ems_case : run_case, cs, "c07", cur_desc, 120);
    }
    ident_free(); mx_keys_free(); matrixSslClose(); vf_flush();
    return 0;
}
