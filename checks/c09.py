"""C09 - credential and PKI parsers are memory-safe and total on arbitrary bytes.

Engine: libFuzzer (clang-14, ASan+UBSan+LSan, `fuzz` build variant) over one
target per parser entry point and flag combination (checks/c09_parsers.c), with
an ASN.1/PEM structure-aware custom mutator (checks/c09_mutator.c).  Oracles:
the sanitizers (ASan red zones behind the exact-size input, UBSan incl. fixed
array bounds inside objects), libFuzzer's timeout / rss watchdogs, and the
consistency walker the harness runs over every successfully parsed object
(memory of every pointer/length pair, string termination, list bounds,
attributeOrder[] of every parsed name against the stored values, closed value
sets of scalar members next to fixed-size arrays, and the name accessors /
one-line printers an application would call).

Corpus (corpus/c09/<group>): the repository's sample credentials, objects
minted with gen/certgen.h, regression inputs (reg-*), and the generated classes
of gen/c09_seedgen.c: long names (40-60 repeated OU / DC RDNs in subject,
issuer, CRL issuer and authorityKeyIdentifier authorityCertIssuer; boundary
cases with 32 / 33 / 34 stored attributes), GeneralizedTime in certificates and
CRLs, and edge-trunc-* inputs that end right behind a time value that is 1-3
characters short with every enclosing length consistent.

Phases
  1. replay: every committed seed of every target is executed once (libFuzzer
     "run these files" mode, restarted after a crashing seed) - complete and
     seed-independent.
  2. mutation: per target `-runs=N -seed=VERIF_SEED` from the seeds that
     survived phase 1 (quick N=15k, thorough N=1M); after a crash the key is
     recorded, the artifact kept, and the remaining budget is re-run with the
     next seed (bounded number of restarts).
  3. thorough only: the resulting corpora are replayed under valgrind
     memcheck on a standalone runner built from the same source against the
     `prod` variant (uninitialised reads are invisible to ASan).

--replay: the replay file's "replay" field is "<target>:<input path>"
("vg/<target>:<path>" for a memcheck finding).
"""
import glob
import hashlib
import json
import os
import re
import shutil
import subprocess
import time
from concurrent.futures import ThreadPoolExecutor

import vflib

PID = "C09"
CORPUS = os.environ.get("C09_CORPUS") or os.path.join(vflib.VERIF, "corpus", "c09")    # (override: development experiments only)
SRC = "checks/c09_parsers.c"
DEPS = ["checks/c09_mutator.c", "checks/c09_fixed.h"]

CERTS = ["cert_der", "cert_pem"]
PRIVS = ["rsa_priv", "ecc_priv", "ed25519_priv", "pkcs8", "key_pem"]
# target -> seed groups (directories under corpus/c09); a directory named like
# the target itself (regression inputs) is always added when it exists
GROUPS = {
    "x509_f0": ["cert_der"], "x509_f1": ["cert_der"], "x509_f2": ["cert_der"], "x509_f7": ["cert_der"],
    "certdata": CERTS, "certdata_z": CERTS, "certdata_f7_z": CERTS,
    "pemcertlist": ["cert_pem"], "pemcertlist_z": ["cert_pem"],
    "crl": ["crl"], "ocsp": ["ocsp"],
    "pkcs8": ["pkcs8"], "pkcs8_pw": ["pkcs8_pw"],
    "pkcs12": ["pkcs12"], "loadpkcs12": ["pkcs12"],
    "rsa_priv": ["rsa_priv"], "ecc_priv": ["ecc_priv"],
    "ed25519_priv": ["ed25519_priv"], "ed25519_pub": ["ed25519_pub"],
    "privkey_unknown": ["rsa_priv", "ecc_priv", "ed25519_priv", "pkcs8"],
    "pubkey_unknown": ["spki", "pubkey_pem", "rsa_pub"], "pubkey_unknown_z": ["spki", "pubkey_pem", "rsa_pub"],
    "rsa_pubmem": ["spki", "pubkey_pem"], "rsa_pubmem_z": ["spki", "pubkey_pem"],
    "spki": ["spki"], "rsa_pub": ["rsa_pub"], "ecc_pub": ["ecc_pub"], "dhparams": ["dhparams"],
    "pem": ["key_pem", "pubkey_pem", "dh_pem", "cert_pem"], "pem_z": ["key_pem", "pubkey_pem", "dh_pem", "cert_pem"],
    "pem_pw_z": ["key_pem", "pubkey_pem", "dh_pem"],
    "base64": ["base64"],
    "loadkeys_ca": CERTS, "loadkeys_ca_z": CERTS, "loadkeys_cert": CERTS, "loadkeys_cert_z": CERTS,
    "loadkeys_key": PRIVS, "loadkeys_key_z": PRIVS,
}
# slowest first so the pool drains evenly
ORDER_HINT = ["loadkeys_cert_z", "loadkeys_cert", "loadkeys_key_z", "loadkeys_key", "loadpkcs12", "pkcs12",
              "loadkeys_ca_z", "loadkeys_ca", "certdata_f7_z", "certdata_z", "certdata", "x509_f7", "ocsp", "crl"]

# budget divisors for the targets whose single execution is expensive (key-pair self test with real
# ECDSA/RSA operations, PBKDF2 / PKCS#12 key derivation): runs = budget // divisor
BUDGET_DIV = {"loadkeys_key": 6, "loadkeys_key_z": 6, "pkcs8_pw": 5, "loadkeys_cert": 4, "loadkeys_cert_z": 4,
              "loadpkcs12": 4, "pkcs12": 3, "loadkeys_ca": 2, "loadkeys_ca_z": 2}

ASAN_OPTS = ("detect_leaks=1:malloc_context_size=12:allocator_may_return_null=1:"
             "detect_stack_use_after_return=0:print_summary=1")
STAT_RE = re.compile(r"^stat::(\w+):\s+(\d+)", re.M)
COV_RE = re.compile(r"^#(\d+)\s+\S+\s+cov: (\d+) ft: (\d+) corp: (\d+)/(\S+)", re.M)
WALK_RE = re.compile(r"^C09-WALKER: (\S+)", re.M)
ART_RE = re.compile(r"Test unit written to (\S+)")
RUNNING_RE = re.compile(r"^Running: (.+)$", re.M)
RESULT_RE = re.compile(r"^C09-RESULT: (\w+) len=(\d+)", re.M)


def fenv(target, verbose=False, skip_empty=False):
    e = dict(os.environ)
    e["C09_TARGET"] = target
    e.pop("C09_SKIP_EMPTY", None)
    if skip_empty:
        e["C09_SKIP_EMPTY"] = "1"
    e["ASAN_OPTIONS"] = ASAN_OPTS
    e["UBSAN_OPTIONS"] = "print_stacktrace=1"
    e.pop("LSAN_OPTIONS", None)
    if verbose:
        e["C09_VERBOSE"] = "1"
    else:
        e.pop("C09_VERBOSE", None)
    return e


def dep_hash():
    h = hashlib.sha256()
    for d in DEPS:
        h.update(open(os.path.join(vflib.VERIF, d), "rb").read())
    return h.hexdigest()[:12]


def leak_keys(leak):
    """LeakSanitizer section -> keys. Only *direct* leaks are keyed (lsan:leak:<innermost library
    function of the allocation stack>): indirectly leaked blocks hang off a directly leaked root
    object and would otherwise give one key per allocation site of that object's members."""
    if not leak:
        return []
    direct, indirect = [], []
    for blk in re.split(r"\n\s*\n", leak):
        m = re.match(r"\s*(Direct|Indirect) leak of", blk)
        if not m:
            continue
        frames = [(f.group(2), f.group(3)) for f in (vflib.FRAME_RE.match(l) for l in blk.split("\n")) if f]
        fn = vflib._lib_func(frames) or (frames[0][0] if frames else "?")
        (direct if m.group(1) == "Direct" else indirect).append(("lsan:leak:" + fn, blk[:1800]))
    return direct or indirect or [("lsan:leak:?", leak[:1500])]


def crash_keys(target, text):
    """All violation keys in one libFuzzer process's stderr -> [(key, excerpt)]."""
    out = []
    for m in WALK_RE.finditer(text):
        out.append((m.group(1), text[max(0, m.start() - 200):m.start() + 1800]))
    if not out:
        # a walker abort also prints a 'deadly signal' report; do not key it twice
        li = text.find("ERROR: LeakSanitizer")
        head, leak = (text, "") if li < 0 else (text[:li], text[li:])
        # UBSan prints "<header>: note: nonnull attribute specified here" between the report and its stack
        head = "\n".join(l for l in head.split("\n") if ": note: " not in l)
        for k, ex in vflib.sanitizer_keys(head):
            out.append((k, ex))
        out += leak_keys(leak)
    m = re.search(r"ERROR: libFuzzer: timeout after", text)
    if m:
        out.append(("hang:" + target, text[m.start():m.start() + 2500]))
    m = re.search(r"ERROR: libFuzzer: out-of-memory", text)
    if m:
        out.append(("oom:" + target, text[m.start():m.start() + 2500]))
    if not out:
        m = re.search(r"ERROR: libFuzzer: (deadly signal|fuzz target exited|[a-z -]+)", text)
        if m:
            fr = [f for f in (vflib.FRAME_RE.match(l) for l in text[m.start():].split("\n")) if f]
            fn = vflib._lib_func([(f.group(2), f.group(3)) for f in fr]) or "?"
            out.append(("crash:%s:%s" % (m.group(1).replace(" ", "-"), fn), text[m.start():m.start() + 2500]))
    # de-duplicate, keep order
    seen, res = set(), []
    for k, ex in out:
        if k not in seen:
            seen.add(k)
            res.append((k, ex))
    return res


def hang_confirmed(binary, target, path, cwd):
    """libFuzzer's -timeout is wall-clock and so load-sensitive (other checks share the machine). A timeout
    only counts when re-running the input alone burns more than 10 s of *CPU* time."""
    if not path or not os.path.exists(path):
        return True
    import resource

    def lim():
        resource.setrlimit(resource.RLIMIT_CPU, (12, 13))
    try:
        pr = subprocess.Popen([binary, "-timeout=300", "-rss_limit_mb=4096", path], stdout=subprocess.DEVNULL, stderr=subprocess.DEVNULL,
                              env=fenv(target), cwd=cwd, preexec_fn=lim)
        _, status, ru = os.wait4(pr.pid, 0)
        pr.returncode = status
    except OSError:
        return True
    return (ru.ru_utime + ru.ru_stime) > 10.0


def filter_hangs(binary, target, keys, path, cwd, tr):
    out = []
    for k, ex in keys:
        if k.startswith("hang:") and not hang_confirmed(binary, target, path, cwd):
            tr.spurious_timeouts += 1
            continue
        out.append((k, ex))
    return out


class TargetRun:
    def __init__(self, name):
        self.name = name
        self.execs = 0
        self.cov = 0
        self.ft = 0
        self.corp = 0
        self.parsed = 0
        self.seeds = 0
        self.seed_crashes = 0
        self.restarts = 0
        self.wall = 0.0
        self.viol = []      # (key, excerpt, artifact path)
        self.incon = []
        self.samples = []
        self.blocked = None
        self.spurious_timeouts = 0


def seed_dirs(target):
    ds = [os.path.join(CORPUS, g) for g in GROUPS.get(target, [])]
    own = os.path.join(CORPUS, target)
    if os.path.isdir(own):
        ds.append(own)
    return [d for d in ds if os.path.isdir(d)]


def keep_artifact(target, key, path):
    """Copy a crashing input to /verif/replays so the replay file stays valid."""
    os.makedirs(os.path.join(vflib.VERIF, "replays"), exist_ok=True)
    if not path or not os.path.exists(path):
        return "%s:%s" % (target, path or "?")
    if path.startswith(CORPUS + os.sep):
        return "%s:%s" % (target, path)
    dst = os.path.join(vflib.VERIF, "replays", "C09-%s-%s.bin" % (target, hashlib.sha1(key.encode()).hexdigest()[:10]))
    try:
        shutil.copyfile(path, dst)
    except OSError:
        return "%s:%s" % (target, path)
    return "%s:%s" % (target, dst)


def run_files(binary, target, files, tr, cwd, want_samples=0, origin=None):
    """libFuzzer 'execute these files' mode; restart after each crashing file. Returns surviving files."""
    remaining = list(files)
    good = []
    n = 0
    while remaining:
        n += 1
        errp = os.path.join(cwd, "replay%d.err" % n)
        with open(errp, "w") as ef:
            try:
                p = subprocess.run([binary, "-timeout=10", "-rss_limit_mb=4096", "-artifact_prefix=%s/art/" % cwd] + remaining,
                                   stdout=subprocess.DEVNULL, stderr=ef, env=fenv(target, True), cwd=cwd, timeout=900)
                rc = p.returncode
            except subprocess.TimeoutExpired:
                tr.incon.append("%s: seed replay exceeded the wall-clock watchdog" % target)
                break
        text = open(errp, errors="replace").read()
        ran, results, pairs, cur = [], [], [], None
        for ln in text.split("\n"):
            m = RUNNING_RE.match(ln)
            if m:
                cur = m.group(1).strip()
                ran.append(cur)
                continue
            m = RESULT_RE.match(ln)
            if m:
                results.append(m.groups())
                if cur is not None:         # (libFuzzer's own initial empty run precedes the first file)
                    pairs.append((cur, m.groups()))
                    cur = None
        tr.execs += len(results)
        tr.parsed += sum(1 for r in results if r[0] == "parsed")
        for f, r in pairs:
            if len(tr.samples) < want_samples:
                src = (origin or {}).get(f, f)
                name = os.path.relpath(src, CORPUS) if src.startswith(CORPUS) else os.path.basename(src)
                tr.samples.append("%s <- %s (%s B): %s" % (target, name, r[1], r[0]))
        if rc == 0:
            good += remaining
            break
        bad = ran[-1].strip() if ran else remaining[0]
        keys = crash_keys(target, text)
        was_hang = bool(keys) and all(k.startswith("hang:") for k, _ in keys)
        keys = filter_hangs(binary, target, keys, bad, cwd, tr)
        if was_hang and not keys:
            # wall-clock timeout under load only: the seed is fine
            if bad in remaining:
                i = remaining.index(bad)
                good += remaining[:i + 1]
                remaining = remaining[i + 1:]
                continue
            break
        if not keys:
            tr.incon.append("%s: replay of %s exited with status %s without a report: %s" % (target, bad, rc, text[-600:]))
        for k, ex in keys:
            tr.viol.append((k, ex, (origin or {}).get(bad, bad)))
        tr.seed_crashes += 1
        if bad in remaining:
            i = remaining.index(bad)
            good += remaining[:i]
            remaining = remaining[i + 1:]
        else:
            break
    return good


def run_target(binary, target, budget, seed, outroot, max_restarts, watchdog, dictfile):
    tr = TargetRun(target)
    t0 = time.time()
    cwd = os.path.join(outroot, target)
    work, seeds, art = (os.path.join(cwd, d) for d in ("work", "seeds", "art"))
    for d in (work, seeds, art):
        os.makedirs(d)
    # scratch copy of the committed seeds (never write below /verif/corpus at run time)
    origin = {}
    for d in seed_dirs(target):
        for f in sorted(os.listdir(d)):
            src = os.path.join(d, f)
            if os.path.isfile(src):
                dst = os.path.join(seeds, os.path.basename(d) + "__" + f)
                shutil.copyfile(src, dst)
                origin[dst] = src
    # the empty input: libFuzzer would run it first in every process; here it is run exactly once
    empty = os.path.join(cwd, "empty-input")
    open(empty, "wb").close()
    origin[empty] = empty
    files = sorted(origin)
    tr.seeds = len(files)
    if not files:
        tr.incon.append("%s: no seed files" % target)
    # phase 1: complete seed replay
    good = run_files(binary, target, files, tr, cwd, want_samples=2, origin=origin)
    for f in files:
        if f not in good and f != empty:
            os.unlink(f)
    # phase 2: bounded mutation from the surviving seeds
    remaining = budget
    k = 0
    while remaining > 0 and k <= max_restarts:
        errp = os.path.join(cwd, "fuzz%d.err" % k)
        cmd = [binary, "-runs=%d" % remaining, "-seed=%d" % (seed + 7919 * k), "-max_len=65536", "-timeout=10",
               "-rss_limit_mb=4096", "-print_final_stats=1", "-artifact_prefix=%s/" % art, "-max_total_time=%d" % watchdog,
               "-reload=0"]
        if dictfile:
            cmd.append("-dict=" + dictfile)
        cmd += [work, seeds]
        with open(errp, "w") as ef:
            try:
                p = subprocess.run(cmd, stdout=subprocess.DEVNULL, stderr=ef, env=fenv(target, skip_empty=True), cwd=cwd, timeout=watchdog + 120)
                rc = p.returncode
            except subprocess.TimeoutExpired:
                tr.incon.append("%s: fuzz process exceeded the wall-clock watchdog (%ds)" % (target, watchdog + 120))
                break
        text = open(errp, errors="replace").read()
        st = dict((a, int(b)) for a, b in STAT_RE.findall(text))
        done = st.get("number_of_executed_units", 0)
        tr.execs += done
        covs = COV_RE.findall(text)
        if covs:
            tr.cov = max(tr.cov, max(int(c[1]) for c in covs))
            tr.ft = max(tr.ft, max(int(c[2]) for c in covs))
            tr.corp = max(tr.corp, int(covs[-1][3]))
        m = re.search(r"C09-STATS: target=\S+ runs=(\d+) parsed=(\d+)", text)
        if m:
            tr.parsed += int(m.group(2))
        if rc == 0:
            if "DONE" not in text and done < remaining:
                tr.incon.append("%s: libFuzzer stopped after %d of %d runs (watchdog -max_total_time=%d)" % (target, done, remaining, watchdog))
            break
        keys = crash_keys(target, text)
        am = ART_RE.search(text)
        apath = am.group(1) if am else None
        was_hang = bool(keys) and all(k.startswith("hang:") for k, _ in keys)
        keys = filter_hangs(binary, target, keys, apath, cwd, tr)
        if was_hang and not keys:
            remaining -= max(done, 1)
            k += 1
            continue
        if not keys:
            tr.incon.append("%s: fuzz process exited with status %s without a report: %s" % (target, rc, text[-600:]))
            break
        for key, ex in keys:
            tr.viol.append((key, ex, apath))
        remaining -= max(done, 1)
        k += 1
        tr.restarts += 1
    if remaining > 0 and k > max_restarts:
        tr.blocked = "%d of %d runs not executed: restart limit (%d) reached, last keys %s" % (
            remaining, budget, max_restarts, ",".join(sorted(set(v[0] for v in tr.viol[-3:]))))
    tr.wall = time.time() - t0
    return tr


# ------------------------------------------------------------- memcheck ---

VG_ERR_RE = re.compile(r"^==\d+== (Invalid (?:read|write) of size \d+|Conditional jump or move depends on uninitialised value\(s\)|"
                       r"Use of uninitialised value of size \d+|Syscall param \S+ (?:points to|contains) uninitialised byte\(s\)|"
                       r"Uninitialised byte\(s\) found during client check request|Unaddressable byte\(s\) found during client check request|"
                       r"Invalid free\(\) / delete / delete\[\] / realloc\(\)|Mismatched free\(\) / delete / delete \[\]|"
                       r"Source and destination overlap in \w+.*|Process terminating with default action of signal \d+.*|"
                       r"Argument '\w+' of function \w+ has a fishy.*)$")
VG_FRAME_RE = re.compile(r"^==\d+==\s+(?:at|by) 0x[0-9A-F]+: (\S+) \((?:in )?([^)]*)\)")


def vg_kind(msg):
    m = msg.lower()
    if "uninitialised" in m:
        return "uninit"
    if "invalid read" in m:
        return "invalid-read"
    if "invalid write" in m:
        return "invalid-write"
    if "unaddressable" in m:
        return "unaddressable"
    if "free" in m:
        return "invalid-free"
    if "overlap" in m:
        return "overlap"
    if "signal" in m:
        return "signal"
    return "other"


def vg_reports(text):
    """[(key, excerpt, file)] from a memcheck log interleaved with C09-FILE lines."""
    out = []
    cur = None
    lines = text.split("\n")
    i = 0
    while i < len(lines):
        ln = lines[i]
        if ln.startswith("C09-FILE: "):
            cur = ln[10:].strip()
        wm = WALK_RE.match(ln)
        if wm:
            out.append((wm.group(1), "\n".join(lines[max(0, i - 14):i + 1]), cur))
        m = VG_ERR_RE.match(ln)
        if m:
            j = i + 1
            frames = []
            while j < len(lines) and VG_FRAME_RE.match(lines[j]):
                fm = VG_FRAME_RE.match(lines[j])
                frames.append((fm.group(1), fm.group(2)))
                j += 1
            fn = None
            for f, path in frames:
                if ("verif-build" in path or vflib.SCRATCH in path) and any(d in path for d in vflib.LIBDIRS):
                    fn = f
                    break
            if fn is None:
                fn = frames[0][0] if frames else "?"
            if "client check request" in m.group(1):
                # reported by the walker itself as a C09-WALKER line naming the field
                i = j
                continue
            out.append(("memcheck:%s:%s" % (vg_kind(m.group(1)), fn), "\n".join(lines[i:min(j, i + 16)]), cur))
            i = j
            continue
        i += 1
    return out


def memcheck_phase(outroot, runs, res, limit_total=2000, per_proc=20):
    sa = vflib.compile_harness("prod", "c09sa", [SRC], extra_cflags=("-DC09_STANDALONE", "-DC09_DEP=" + dep_hash()))
    jobs = []
    per_target = max(8, limit_total // max(1, len(runs)))
    for tr in runs:
        cwd = os.path.join(outroot, tr.name)
        files = sorted(glob.glob(os.path.join(cwd, "seeds", "*"))) + sorted(glob.glob(os.path.join(cwd, "work", "*")))
        files = [f for f in files if os.path.isfile(f)][:per_target]
        for i in range(0, len(files), per_proc):
            jobs.append((tr.name, files[i:i + per_proc], os.path.join(cwd, "vg%d.log" % (i // per_proc))))

    def one(job):
        target, files, logp = job
        done = 0
        found = []
        rest = list(files)
        while rest:
            with open(logp, "w") as lf:
                try:
                    subprocess.run(["valgrind", "-q", "--error-exitcode=0", "--fullpath-after=", "--num-callers=24", "--leak-check=no",
                                    "--undef-value-errors=yes", sa, target] + rest, stdout=subprocess.DEVNULL, stderr=lf, timeout=1800,
                                   env=dict(os.environ, C09_TARGET=target))
                except subprocess.TimeoutExpired:
                    return target, done, found, "memcheck batch exceeded the wall-clock watchdog"
            text = open(logp, errors="replace").read()
            ranf = [l[10:].strip() for l in text.split("\n") if l.startswith("C09-FILE: ")]
            done += len(ranf)
            found += vg_reports(text)
            if "C09-DONE:" in text or not ranf:
                break
            # the process died inside ranf[-1]; continue behind it
            last = ranf[-1]
            rest = rest[rest.index(last) + 1:] if last in rest else []
        return target, done, found, None

    total = 0
    with ThreadPoolExecutor(max_workers=vflib.NCPU) as ex:
        for target, done, found, err in ex.map(one, jobs):
            total += done
            if err:
                res.incon.append("%s: %s" % (target, err))
            for key, exc, f in found:
                res.add_violation(key, exc, "vg/" + keep_artifact(target, key, f))
    res.add_stat("memcheck_files", total)
    return total


def replay_one(ctx, binary):
    rp = json.load(open(ctx.replay)) if os.path.exists(ctx.replay) and ctx.replay.endswith(".json") else {"replay": ctx.replay}
    spec = rp.get("replay") or ""
    res = vflib.Result(PID)
    if ":" not in spec:
        res.incon.append("replay spec must be <target>:<path>, got %r" % spec)
        return res, 0
    target, path = spec.split(":", 1)
    outdir = os.path.join(vflib.SCRATCH, ".out", "C09-replay-%d" % os.getpid())
    shutil.rmtree(outdir, ignore_errors=True)
    os.makedirs(os.path.join(outdir, "art"))
    res.extra["outdir"] = outdir
    if target.startswith("vg/"):
        target = target[3:]
        sa = vflib.compile_harness("prod", "c09sa", [SRC], extra_cflags=("-DC09_STANDALONE", "-DC09_DEP=" + dep_hash()))
        p = subprocess.run(["valgrind", "-q", "--error-exitcode=0", "--fullpath-after=", "--num-callers=24", "--leak-check=no", sa, target, path],
                           capture_output=True, text=True, errors="replace", timeout=900)
        if ctx.verbose:
            vflib.log(p.stderr[-6000:])
        for key, exc, f in vg_reports(p.stderr):
            res.add_violation(key, exc, spec)
        return res, 1
    tr = TargetRun(target)
    run_files(binary, target, [path], tr, outdir, want_samples=1)
    if ctx.verbose:
        vflib.log(open(os.path.join(outdir, "replay1.err"), errors="replace").read()[-6000:])
    for key, ex, f in tr.viol:
        res.add_violation(key, ex, spec)
    res.incon += tr.incon
    res.samples += tr.samples
    return res, tr.execs


LEVEL = "exploration"
RULE = ("evaluations = parser executions (committed seeds replayed once per target + libFuzzer stat::number_of_executed_units "
        "+ files replayed under memcheck); distinct_nontrivial = sum over targets of the final libFuzzer corpus size, i.e. inputs "
        "that each reached a coverage feature (edge or edge-hit-count bucket) no other kept input of that target reaches. "
        "Generators: committed seeds (samples, minted objects, long-name / GeneralizedTime / truncated-behind-a-short-time classes of "
        "gen/c09_seedgen.c, regression inputs) mutated by libFuzzer's byte mutations and by the TLV-tree mutator (content, tag, length "
        "forms and lies, delete / duplicate / transplant / wrap subtrees, special values, truncation inside a node, "
        "'end the input right behind node i shortened by 0..3 octets with all enclosing lengths consistent', "
        "'repeat a child of a constructed node 8..64 times'). Oracles: ASan (inputs in exact-size heap blocks), UBSan (incl. index "
        "out of bounds of fixed arrays inside objects), LSan, timeout, and the consistency walker over every returned object")
ASSUMPTIONS = [
    "default compile-time configuration of /repo (USE_CERT_POLICY_EXTENSIONS, USE_EXTRA_DN_ATTRIBUTES, BMPString DNs, RC2 are compiled out and not explored)",
    "inputs up to 65536 bytes; PKCS#12 / PKCS#8 / PEM decryption explored only under the fixed password 'secret'",
    "the *_z targets model the library's file loaders (buffer followed by an addressable NUL); all other targets give the parser an exact-size block",
    "exploration is sampling: absence of a report is not absence of a defect; hang = a single input taking more than 10 s",
    "certificate validity is judged against the wall clock by the library itself (validateDateRange); seeds expire in 2027+",
    "an over-read is visible only when the value read from is the LAST thing in the input (red zone behind the exact-size block); "
    "reads that stay inside the input but leave the current TLV are seen only through their effect on the returned object",
    "an intra-object overflow is visible to UBSan when the array has a declared size, otherwise only through the walker: pointers that "
    "cannot be application memory, lengths without a pointer, scalar members outside their closed value sets, attributeOrder[] "
    "inconsistent with the stored name values (an overflow that stays inside tail padding - the 33rd attributeOrder entry on LP64 - "
    "is invisible to the walker)",
    "the authorityKeyIdentifier name may legitimately be parsed more than once into the same struct (repeated extension): only the "
    "weak order invariants are asserted for it (valid ids, no gap, single attributes once and with a value, not more OU/DC entries "
    "than stored); subject, issuer and CRL issuer get the exact accounting",
]


def run(ctx):
    binary = vflib.compile_harness("fuzz", "c09fuzz", [SRC], cc="clang-14", extra_cflags=("-DC09_DEP=" + dep_hash(),))
    if ctx.replay:
        res, ev = replay_one(ctx, binary)
        return vflib.finish(PID, ctx.tier, ctx.seed, LEVEL, res, ctx.t0, RULE, ev, ev, 0, ASSUMPTIONS, keep_out=ctx.keep)

    avail = subprocess.run([binary], env=dict(os.environ, C09_TARGET="list"), capture_output=True, text=True).stdout.split()
    targets = [t for t in avail if t in GROUPS]
    missing = [t for t in GROUPS if t not in avail]
    targets.sort(key=lambda t: ORDER_HINT.index(t) if t in ORDER_HINT else len(ORDER_HINT))
    only = os.environ.get("C09_ONLY")
    if only:
        targets = [t for t in targets if t in only.split(",")]
    budget = int(os.environ.get("C09_RUNS") or (1000000 if ctx.thorough else 15000))
    max_restarts = int(os.environ.get("C09_RESTARTS") or (40 if ctx.thorough else 6))
    watchdog = 7200 if ctx.thorough else 100
    outroot = os.path.join(vflib.SCRATCH, ".out", "C09-%d" % os.getpid())
    shutil.rmtree(outroot, ignore_errors=True)
    os.makedirs(outroot)
    dictfile = os.path.join(CORPUS, "c09.dict")
    if not os.path.exists(dictfile):
        dictfile = None

    res = vflib.Result(PID)
    res.extra["outdir"] = outroot
    runs = []
    with ThreadPoolExecutor(max_workers=vflib.NCPU) as ex:
        futs = [ex.submit(run_target, binary, t, max(1000, budget // BUDGET_DIV.get(t, 1)), ctx.seed, outroot, max_restarts,
                          watchdog, dictfile) for t in targets]
        for f in futs:
            runs.append(f.result())

    per_target = {}
    blocked = {}
    for tr in runs:
        for key, excerpt, apath in tr.viol:
            res.add_violation(key, "[target %s] %s" % (tr.name, excerpt), keep_artifact(tr.name, key, apath))
        res.incon += tr.incon
        for s in tr.samples:
            if len(res.samples) < 12 and (len(res.samples) < 6 or tr.name.startswith(("ocsp", "crl", "pkcs", "dh", "pem_z", "load"))):
                res.samples.append(s)
        res.add_stat("executions", tr.execs)
        res.add_stat("parsed_ok", tr.parsed)
        res.add_stat("seed_files_replayed", tr.seeds)
        res.add_stat("seed_files_crashing", tr.seed_crashes)
        res.add_stat("restarts_after_crash", tr.restarts)
        res.add_stat("wallclock_timeouts_not_reproduced", tr.spurious_timeouts)
        per_target[tr.name] = {"execs": tr.execs, "parsed_ok": tr.parsed, "cov_edges": tr.cov, "features": tr.ft, "corpus_units": tr.corp,
                               "seeds": tr.seeds, "seed_crashes": tr.seed_crashes, "restarts": tr.restarts, "wall_s": round(tr.wall, 1),
                               "exec_per_s": int(tr.execs / tr.wall) if tr.wall > 0 else 0}
        if tr.blocked:
            blocked[tr.name] = tr.blocked
    if missing:
        res.incon.append("targets compiled out of this configuration: " + ",".join(missing))
    evaluations = sum(tr.execs for tr in runs)
    if ctx.thorough and not os.environ.get("C09_NO_MEMCHECK"):
        evaluations += memcheck_phase(outroot, runs, res)
    nontrivial = sum(tr.corp for tr in runs)
    digest = hashlib.sha256()
    for r, _, fs in sorted(os.walk(CORPUS)):
        for f in sorted(fs):
            digest.update(f.encode() + open(os.path.join(r, f), "rb").read())
    extra = {"per_target": per_target, "targets": len(runs), "runs_per_target": budget, "corpus_digest": digest.hexdigest()[:16],
             "exploration_blocked": blocked, "coverage_edges_sum": sum(tr.cov for tr in runs)}
    return vflib.finish(PID, ctx.tier, ctx.seed, LEVEL, res, ctx.t0, RULE, nontrivial, evaluations, 50 if not only else 1, ASSUMPTIONS,
                        extra_cov=extra, keep_out=ctx.keep)
