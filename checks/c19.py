import vflib
WRAPS = ("psGetEntropy", "gettimeofday", "time", "malloc", "calloc", "realloc")
def run(ctx):
    st = [dict(variant="asan", name="c19", sources=["checks/c19_allocfail.c", "harness/mx_wraps.c", "harness/mx_failpoint.c"], wraps=WRAPS,
               shards=vflib.NCPU, timeout=14400 if ctx.thorough else 1500)]
    rule = ("Each case = one whole scenario (load keys/CAs from PEM, create sessions with expected name, full/resumed/client-auth handshake per version, data both ways, closure, "
            "delete sessions, session id and keys) executed in a fork()ed child with the k-th allocation made inside library API calls failing (link-time --wrap of "
            "malloc/calloc/realloc). quick: the first occurrence of every distinct allocation site (return address) plus 120 seeded k per scenario plus 60 seeded double/triple "
            "faults (every k for the one 'window' scenario whose failpoint is armed only after the first handshake); thorough: every k of every scenario plus 3000 multi-fault runs "
            "per scenario. 35 scenarios: TLS 1.1/1.2/1.3 and DTLS 1.2, RSA and ECDSA identities, resumption by session id, TLS 1.2 ticket, TLS 1.3 ticket (NewSessionTicket "
            "written, parsed, redeemed) and PSK, client auth; a stale RFC 5077 ticket (uncounted priming connection, server ticket key rotated, replacement ticket; TLS 1.2 and "
            "DTLS 1.2); caller-supplied ClientHello extensions (server_name + unknown type in TLS 1.2 / DTLS 1.2 incl. HelloVerifyRequest, server_name + ALPN in TLS 1.3 incl. "
            "a HelloRetryRequest variant); x25519 key shares; certificates with subjectAltName otherName entries (minted PKI, harness/c19pki); 22 good-credential scenarios and "
            "13 must-fail ones: untrusted CA, wrong key, wrong name (10), a TLS 1.3 ticket obtained for server name A (SNI) and presented on a second connection for server name "
            "B, which must never complete (2: whole scenario / post-handshake window only), and a ClientHello rewritten on the wire to offer psk_ke only with a recomputed PSK "
            "binder (drives the server through the PSK-only key schedule; the client must not complete). distinct_nontrivial = distinct (scenario, fault ordinals) whose fault "
            "was actually reached.")
    return vflib.std_run(ctx, st, "fault_enumeration", rule,
        ["allocations inside libc (fopen, getaddrinfo) are not failed", "LeakSanitizer decides the no-leak clause at the end of each child"], min_nontrivial=500)
