import vflib
WRAPS = ("psGetEntropy", "gettimeofday", "time", "clock_gettime", "chooseSkeSigAlg", "chooseSigAlg", "tls13ChooseSigAlg", "getEccParamById")
def run(ctx):
    st = [dict(variant="asan", name="c07", sources=["checks/c07_negotiation.c", "harness/mx_wraps.c"], wraps=WRAPS, libs=["-lcrypto"], shards=vflib.NCPU, timeout=7200 if ctx.thorough else 1500)]
    rule = ("Each case = one pair of client/server configurations (all 7x7 TLS and 3x3 DTLS version subsets exhaustively; every single suite per version with the suite enabled or disabled on "
            "the server; seeded random suite lists; TLS 1.3 group and signature-algorithm subsets; fallback SCSV for every version-set pair) or one "
            "man-in-the-middle rewrite of one ClientHello/ServerHello field (legacy version, random tail, session id, suite drop/insert/swap/set, compression, each extension removed / "
            "duplicated / one byte edited, unknown extension appended, TLS 1.3 stripped from supported_versions) on 7 plain configurations and, for 4 (thorough: 5) TLS 1.3 configurations that go "
            "through HelloRetryRequest (client key share for a group the server does not enable; RSA and ECDSA identity, SHA-256 and SHA-384 transcript, 1.3-only and 1.1-1.3 version sets; the "
            "server always sends a cookie, the cookie-less variants are the ext-remove rewrites), the same grid on each of ClientHello1, HelloRetryRequest, ClientHello2 and ServerHello: an "
            "applied rewrite must not end in two completed endpoints. Signature algorithms: identities RSA-2048, P-256, P-384, P-521 (chains signed with SHA-256) and P-384/P-521 with "
            "SHA-384/SHA-512 chains, as server and (client-auth variant) as client, under TLS 1.2, DTLS 1.2 and TLS 1.3, against verifier lists drawn from {0401,0501,0601,0403,0503,0603,0804,0805}: "
            "control (all), singletons, all-but-one, chain algorithm + one, everything the key cannot use, seeded subsets in seeded order (thorough: all 255 subsets); the algorithm actually used "
            "is read from ServerKeyExchange / CertificateVerify on the wire (TLS 1.3 records opened with the sender's handshake traffic key) and the list actually offered from ClientHello / "
            "CertificateRequest: completion => algorithm in the verifier's configured list and in the list on the wire and usable with the signer's key type (TLS 1.3: the scheme of its curve / "
            "rsa_pss_rsae); no usable common algorithm => no completion; control lists must complete. Rogue signer: the signing endpoint's algorithm chooser is overridden (--wrap) to sign with an "
            "algorithm of its key type that the verifier left out (incl. SHA-1): the verifier must not complete. Every case runs in a fork()ed child and is judged by the reference negotiation "
            "function. Histories of matrixSslSetCipherSuiteEnabledStatus calls on the server (20 fixed ones of length 1-4 over 4 suites: disable, re-enable, duplicates, re-enable-then-disable-again, "
            "all-but-one, hole-then-refill, plus seeded ones; thorough: all 258 of length <= 3 over 3 suites and 400 seeded of length 4; session-level on TLS 1.2 RSA / TLS 1.2 ECDSA / TLS 1.3 / DTLS 1.2 / "
            "TLS 1.1 suite universes, process-wide (ssl == NULL, undone by the exit of the forked child) on the TLS ones), made after the ClientHello was encoded, against offers of exactly the "
            "disabled suites, the disabled suites followed by the enabled ones, and each disabled suite alone: reference model = a set; negotiated suite not in it, completion iff an enabled usable "
            "offered suite exists. Extended master secret with client disabled / enabled / REQUIRED x server enabled / REQUIRED on full handshakes, session-id and ticket resumption of a session "
            "established with or without it by a tolerant server session sharing cache and ticket keys (TLS 1.2, DTLS 1.2, 1.3-capable client against a 1.2 server; thorough also TLS 1.1): in force "
            "(extension in ClientHello and ServerHello on the wire, equal to both endpoints' state) iff both enabled it, a requiring side never completes without it, an abbreviated handshake is in "
            "step with the original session; controls must resume. Honest completed handshakes: ServerHello suite / legacy_version / null compression and the RFC 8446 downgrade sentinel in "
            "ServerHello.random (present exactly when a 1.3-capable server negotiates 1.2 / 1.1) read from the wire; rewrites of supported_versions to 'no 1.3' and to '1.1 only' must kill the "
            "client at the ServerHello. ECDHE curve sets under (D)TLS <= 1.2: client and server sslSessOpts_t.ecFlags drawn from every pair of subsets of {secp256r1, secp384r1, secp521r1} incl. 'option "
            "left alone' (all singleton, disjoint and nested pairs) plus pairs reaching into secp192r1 / secp224r1 (thorough: all 32x32 pairs of subsets of the five compiled-in curves), ECDHE_RSA with "
            "the RSA identity and ECDHE_ECDSA with the P-256 / P-384 / P-521 identities, TLS 1.2, TLS 1.1, DTLS 1.2 and a TLS 1.3-capable server handing a TLS 1.2 hello to the legacy parser (thorough "
            "also {1.1,1.2}, DTLS 1.0, TLS 1.1 against a 1.1-1.3 server): the named curve is read from ServerKeyExchange and the offer from ClientHello.supported_groups on the wire; completion => "
            "curve enabled on the server, enabled on the client, in the list on the wire, equal to what both endpoints recorded, data round trip; disjoint sets => no completion; a shared curve (and, "
            "for ECDSA identities, the identity's curve enabled on both sides) => completion; the ClientHello offers no curve the client did not enable. Rogue curve server: the curve look-up of the "
            "server's ClientHello parser is overridden (--wrap=getEccParamById) so that a correctly signed ServerKeyExchange uses a compiled-in curve the client did not offer (12 client-set / curve "
            "combinations x RSA and P-256 identity x TLS 1.2 / TLS 1.1 / DTLS 1.2): the client must not complete; forcing a curve the client did offer is the control and must complete. "
            "distinct_nontrivial = distinct configuration / rewrite / (identity, version, role, list, forced algorithm) tuples that were applicable and executed.")
    return vflib.std_run(ctx, st, "exploration", rule,
        ["completeness (must succeed) is asserted only for default lists, for HelloRetryRequest configurations that share a group, and for signature lists offering the whole universe; exotic list combinations may legally be refused",
         "(D)TLS 1.2 CertificateRequest carries the library's fixed list (SHA-1/256/384 x RSA/ECDSA) whatever matrixSslSessOptsSetSigAlgs says: a client whose chain needs SHA-512 legally declines; the CertificateVerify algorithm is checked against both the configured list and the list on the wire",
         "the signer's own matrixSslSessOptsSetSigAlgs list is a verification list (API documentation); it is not required to constrain what that endpoint signs with",
         "certificate-chain signature algorithms are not 'the signature algorithm in force': only ServerKeyExchange / CertificateVerify are judged",
         "HelloRetryRequest handshakes with PSK / early data in ClientHello1 are not in the rewrite grid (C04's keyless TLS 1.3 grid exercises HelloRetryRequest with PSK offers)",
         "a server has no switch to decline the extended master secret (dev guide: it always echoes the extension); extendedMasterSecret = -1 is a client option only",
         "process-wide suite switches are not exercised on DTLS: client and server share the process here and the client re-encodes its ClientHello after HelloVerifyRequest",
         "ClientHello.legacy_version is judged only with the default suite list (a list without TLS 1.3 suites makes a 1.3-enabled client write the hello of its highest usable version)",
         "after an EMS mismatch on resumption the library falls back to a full handshake where RFC 7627 5.3 says abort; only the parameters in force are judged",
         "sslSessOpts_t.ecFlags is the curve switch of (D)TLS <= 1.2 only (dev guide): curve-set cases keep the client at <= 1.2, where its ClientHello is written from ecFlags; a TLS 1.3-capable client writes supported_groups from matrixSslSessOptsSetKeyExGroups instead",
         "the curve of an ECDSA server identity is not 'the key-exchange group in force': a handshake whose ECDHE curve both sides enabled but whose certificate sits on a curve outside the client's set is counted (ec_completed_with_identity_curve_outside_client_set), not reported",
         "renegotiation is compiled out"], min_nontrivial=2000)
