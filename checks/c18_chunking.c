/* C18 - TLS behaviour depends on the bytes received, not on how they are chunked.
 *
 * Metamorphic monitor.  For each scenario a recording run (both endpoints, flight at a time)
 * yields each direction's byte stream plus, for every byte, how much output the receiving
 * endpoint had produced when that byte was delivered (causality bound).  Then each endpoint is
 * re-run ALONE, in a child fork()ed from the same parent snapshot (identical process-global
 * state, entropy pinned per endpoint, virtual clock), against the recorded peer stream under many
 * partitions of the input into receive calls and many partial-send patterns; a byte is never
 * delivered earlier, relative to the endpoint's own output, than in the recording.  The normalised
 * trace (event sequence, delivered plaintext, emitted bytes) must equal the reference trace. */
#include "mx.h"
#include <sys/mman.h>

typedef struct { const char *name; int ver; uint16_t suite; int clientAuth, resumed, ticket, bad; } scn_t;
enum { BAD_NONE = 0, BAD_CA, BAD_NAME };
static scn_t scns[80]; static int nscn;
static void add(const char *n, int v, uint16_t s, int ca, int res, int tk, int bad) { scns[nscn++] = (scn_t) { n, v, s, ca, res, tk, bad }; }
static void build_scenarios(void)
{
    add("rsa-cbc", MX_TLS11, 0x002f, 0, 0, 0, 0);
    add("ecdhe-rsa-gcm", MX_TLS12, 0xc02f, 0, 0, 0, 0);
    add("psk-cbc256", MX_TLS12, 0x00ae, 0, 0, 0, 0);
    add("rsa-gcm-clientauth", MX_TLS12, 0x009c, 1, 0, 0, 0);
    add("rsa-cbc-resumed", MX_TLS12, 0x003c, 0, 1, 0, 0);
    add("ecdhe-ecdsa-ticket", MX_TLS12, 0xc02b, 0, 1, 1, 0);
    add("aes128gcm", MX_TLS13, 0x1301, 0, 0, 0, 0);
    add("chacha-clientauth", MX_TLS13, 0x1303, 1, 0, 0, 0);
    add("aes256gcm-resumed", MX_TLS13, 0x1302, 0, 1, 0, 0);
    add("untrusted-ca", MX_TLS12, 0xc02f, 0, 0, 0, BAD_CA);
    add("untrusted-ca", MX_TLS13, 0x1301, 0, 0, 0, BAD_CA);
    add("wrong-name", MX_TLS12, 0x003c, 0, 0, 0, BAD_NAME);
    if (vf_thorough) for (int v = MX_TLS11; v <= MX_TLS13; v++) for (int i = 0; i < MX_NSUITES; i++) if (mx_suite_ok_for(&mx_suites[i], v)) add(mx_suites[i].name, v, mx_suites[i].id, (i % 3) == 1 && mx_suites[i].auth != MX_AUTH_PSK, (i % 4) == 2, 0, 0);
}

/* ---- endpoint driver with a fixed application policy ---- */
#define MAXEV 64
typedef struct {
    unsigned char out[120000]; int outlen;          /* everything the endpoint emitted */
    unsigned char got[120000]; int gotlen;          /* delivered plaintext */
    char ev[MAXEV][24]; int nev;
    int stuck, fed;
    int told, untold_at_quiescence; /* completion made known through a return code (HANDSHAKE_COMPLETE or APP_DATA) / not known although complete when the endpoint went idle */
    int hsc_send, hsc_recv; /* how many times matrixSslSentData / the receive path returned MATRIXSSL_HANDSHAKE_COMPLETE */
    int reqclose_on_send;   /* send-side outcome: kept as a flag because its position relative to receive-side events is decided by the caller's own call order */
} trace_t;
typedef struct {
    mx_ep e; trace_t *t; int role; int sentApp, sentClose; int expectPeerApp;
    int partial;      /* partial-send pattern: 0 = all at once, 1 = one byte at a time, 2 = n-1 then rest, 3 = seeded */
    vf_rng rng;
} drv_t;
static const int app_len[2][3] = { { 1, 700, 16384 }, { 33, 16384, 5000 } };   /* payloads each role submits on completion */
static int app_total(int role) { return app_len[role][0] + app_len[role][1] + app_len[role][2]; }

static void ev(trace_t *t, const char *fmt, ...) { if (t->nev < MAXEV) { va_list ap; va_start(ap, fmt); vsnprintf(t->ev[t->nev++], 24, fmt, ap); va_end(ap); } }
static void drv_policy(drv_t *d);
static void on_app(mx_ep *e, const unsigned char *pt, uint32 len) { drv_t *d = e->user; d->t->told = 1; if (d->t->gotlen + (int) len < (int) sizeof d->t->got) { memcpy(d->t->got + d->t->gotlen, pt, len); d->t->gotlen += len; } drv_policy(d); }
static void drv_policy(drv_t *d)
{
    mx_ep *e = &d->e;
    if (!d->sentApp && matrixSslHandshakeIsComplete(e->ssl) && !e->dead) {
        d->sentApp = 1; ev(d->t, "COMPLETE");
        for (int i = 0; i < 3; i++) { static unsigned char p[16400]; mx_payload(p, app_len[d->role][i], 0x0c18, d->role, i); int rc = mx_send(e, p, app_len[d->role][i]); if (rc <= 0) ev(d->t, "ENCFAIL%d", rc); }
    }
    if (d->sentApp && !d->sentClose && d->t->gotlen >= d->expectPeerApp && !e->dead) {
        d->sentClose = 1; int ol0 = e->ssl->outlen; MX_ENTER(); int crc = matrixSslEncodeClosureAlert(e->ssl); MX_LEAVE(); ev(d->t, "CLOSING"); if (crc < 0) ev(d->t, "CLOSEFAIL%d", crc);
        if (vf_verbose > 1) fprintf(stderr, "  [%s] closure alert rc=%d outlen %d -> %d bFlags=%x\n", e->name, crc, ol0, e->ssl->outlen, e->ssl->bFlags);
    }
}
static void drv_drain(drv_t *d)
{
    mx_ep *e = &d->e; trace_t *t = d->t;
    for (int guard = 0; guard < 200000; guard++) {
        unsigned char *ob; mx_actor = e->id; MX_ENTER(); int n = matrixSslGetOutdata(e->ssl, &ob); MX_LEAVE();
        if (n <= 0) break;
        int m = n;
        if (d->partial == 1) m = 1; else if (d->partial == 2) m = n > 1 ? n - 1 : 1; else if (d->partial == 3) m = 1 + (int) vf_below(&d->rng, n);
        if (t->outlen + m < (int) sizeof t->out) { memcpy(t->out + t->outlen, ob, m); t->outlen += m; }
        MX_ENTER(); int rc = matrixSslSentData(e->ssl, m); MX_LEAVE();
        if (vf_verbose > 1) fprintf(stderr, "  [%s] sent %d of %d -> rc %d (fed so far %d) len=%d\n", e->name, m, n, rc, t->fed, n);
        if (rc == MATRIXSSL_HANDSHAKE_COMPLETE) { e->hsDone = 1; t->hsc_send++; t->told = 1; }
        else if (rc == MATRIXSSL_REQUEST_CLOSE) { e->closeReq = 1; t->reqclose_on_send = 1; }
        else if (rc < 0) { ev(t, "SENTERR%d", rc); e->dead = 1; break; }
        drv_policy(d);
    }
}
static void drv_feed(drv_t *d, const unsigned char *b, int n, int coalesce)
{
    mx_ep *e = &d->e; trace_t *t = d->t; int off = 0;
    /* an application stops reading once the session failed; input presented after that is C15's subject, and whether any is
       left over depends on the chunking by construction */
    while (off < n && !e->dead && !(e->ssl->flags & SSL_FLAGS_ERROR)) {
        unsigned char *rb, *pt = NULL; uint32 ptl = 0; mx_actor = e->id;
        MX_ENTER(); int cap = coalesce ? matrixSslGetReadbufOfSize(e->ssl, n - off, &rb) : matrixSslGetReadbuf(e->ssl, &rb); MX_LEAVE();
        if (cap <= 0) { ev(t, "RBUFERR%d", cap); e->dead = 1; break; }
        int m = cap < n - off ? cap : n - off;
        memcpy(rb, b + off, m); off += m; t->fed += m;
        int alerts = e->nAlertIn;
        MX_ENTER(); int rc = matrixSslReceivedData(e->ssl, m, &pt, &ptl); MX_LEAVE();
        if (vf_verbose > 1) fprintf(stderr, "  [%s] fed %d -> rc %d (total fed %d)\n", e->name, m, rc, t->fed);
        { int hd = e->hsDone; e->hsDone = 0; rc = mx_process_rc(e, rc, pt, ptl); if (e->hsDone) { t->hsc_recv++; t->told = 1; } e->hsDone |= hd; }
        if (e->nAlertIn > alerts) ev(t, "ALERTIN%d.%d", e->alertLevel, e->alertDesc);
        if (rc < 0) ev(t, "RECVERR%d", rc);
        if (rc == MATRIXSSL_REQUEST_CLOSE) ev(t, "RECV-REQCLOSE");
        drv_policy(d);
    }
}
static int drv_open(drv_t *d, const scn_t *s, int role, sslSessionId_t *sid, trace_t *t)
{
    mx_cfg c = { .ver = s->ver, .suite = s->suite, .clientAuth = s->clientAuth, .useTicket = s->ticket, .noCallback = 1 };
    if (s->clientAuth) c.strictCb = 1;
    if (s->bad == BAD_CA) c.ckeys = mx_keys.srv_psk;     /* a key set without any CA */
    if (s->bad == BAD_NAME) c.expectedName = "wrong.example"; else if (mx_suite_by_id(s->suite)->auth != MX_AUTH_PSK && s->bad != BAD_CA) c.expectedName = "localhost";
    memset(d, 0, sizeof *d); d->t = t; d->role = role; memset(t, 0, sizeof *t);
    int rc = role == MX_SERVER ? mx_new_server(&d->e, &c) : mx_new_client(&d->e, &c, sid);
    d->e.user = d; d->e.on_app = on_app; d->expectPeerApp = app_total(!role);
    return rc;
}

/* ---- shared area for child -> parent results ---- */
typedef struct {
    int ok; int len[2];                       /* stream lengths: [0] client->server */
    unsigned char stream[2][120000]; int need[2][120000];
    trace_t ref[2];                           /* traces of both endpoints in the recording run */
    trace_t alone;                            /* trace of an alone run */
    int established;
} shared_t;
static shared_t *SH;

static void record_run(void *a_)
{
    const scn_t *s = a_; sslSessionId_t *sid; matrixSslNewSessionId(&sid, NULL);
    drv_t C, S; trace_t *tc = &SH->ref[0], *ts = &SH->ref[1];
    if (s->resumed) {   /* priming connection inside this child: identical in every child because entropy is pinned */
        mx_cfg c = { .ver = s->ver, .suite = s->suite, .useTicket = s->ticket }; mx_conn k;
        if (mx_conn_open(&k, &c, sid) == 0) { mx_conn_run(&k, NULL, NULL, 300); } mx_conn_close(&k);
    }
    if (drv_open(&S, s, MX_SERVER, NULL, ts) < 0 || drv_open(&C, s, MX_CLIENT, sid, tc) < 0) return;
    int posC = 0, posS = 0;   /* how much of each endpoint's output has been delivered to the other */
    for (int round = 0; round < 40; round++) {
        drv_drain(&C);
        if (tc->outlen > posC) { for (int i = posC; i < tc->outlen; i++) SH->need[0][i] = ts->outlen; drv_feed(&S, tc->out + posC, tc->outlen - posC, 0); posC = tc->outlen; }
        drv_drain(&S);
        if (ts->outlen > posS) { for (int i = posS; i < ts->outlen; i++) SH->need[1][i] = tc->outlen; drv_feed(&C, ts->out + posS, ts->outlen - posS, 0); posS = ts->outlen; }
        drv_drain(&C);
        if (tc->outlen == posC && ts->outlen == posS) break;
    }
    SH->len[0] = tc->outlen; SH->len[1] = ts->outlen; memcpy(SH->stream[0], tc->out, tc->outlen); memcpy(SH->stream[1], ts->out, ts->outlen);
    SH->established = C.sentApp && S.sentApp;
    SH->ok = 1;
}

/* chunkers */
enum { CH_FLIGHT = 0, CH_FIXED, CH_RECALIGN, CH_STRADDLE, CH_COALESCE, CH_RANDOM };
typedef struct { const scn_t *s; int role; int kind, arg, partial; } alone_arg;
static const char *chunk_class(const alone_arg *a)
{
    if (a->partial) return a->partial == 1 ? "partial-send-1" : a->partial == 2 ? "partial-send-n-1" : "partial-send-random";
    switch (a->kind) { case CH_FLIGHT: return "flight"; case CH_FIXED: return a->arg == 1 ? "byte-at-a-time" : a->arg == 5 ? "header-size" : a->arg < 10 ? "tiny-fixed" : "fixed"; case CH_RECALIGN: return "record-aligned";
                       case CH_STRADDLE: return "record-straddling"; case CH_COALESCE: return "coalesced"; default: return "random"; }
}
static void alone_run(void *a_)
{
    alone_arg *a = a_; const scn_t *s = a->s; sslSessionId_t *sid; matrixSslNewSessionId(&sid, NULL);
    drv_t D; trace_t *t = &SH->alone; int dirIn = a->role == MX_SERVER ? 0 : 1;
    const unsigned char *in = SH->stream[dirIn]; int inlen = SH->len[dirIn]; const int *need = SH->need[dirIn];
    if (s->resumed) { mx_cfg c = { .ver = s->ver, .suite = s->suite, .useTicket = s->ticket }; mx_conn k; if (mx_conn_open(&k, &c, sid) == 0) { mx_conn_run(&k, NULL, NULL, 300); } mx_conn_close(&k); }
    /* keep object creation order identical to the recording run (server first) so that entropy draws line up */
    drv_t other; trace_t ot;
    if (a->role == MX_SERVER) { if (drv_open(&D, s, MX_SERVER, NULL, t) < 0) return; }
    else { if (drv_open(&other, s, MX_SERVER, NULL, &ot) < 0) return; if (drv_open(&D, s, MX_CLIENT, sid, t) < 0) return; }
    D.partial = a->partial; vf_rng_init(&D.rng, vf_seed, a->arg * 7 + a->kind); vf_rng g; vf_rng_init(&g, vf_seed * 3 + 1, a->arg * 13 + a->kind);
    int pos = 0;
    for (int guard = 0; guard < 2000000; guard++) {
        drv_drain(&D);
        /* idle point: everything sent, waiting for input.  A completed handshake must have been made known by now */
        if (matrixSslHandshakeIsComplete(D.e.ssl) && !t->told && !D.e.dead) t->untold_at_quiescence = 1;
        if (pos >= inlen || D.e.dead || (D.e.ssl->flags & SSL_FLAGS_ERROR)) break;
        int lim = pos; while (lim < inlen && need[lim] <= t->outlen) lim++;
        if (lim == pos) { t->stuck = 1; break; }    /* the endpoint has emitted less than in the recording: next bytes may not be delivered yet */
        int n = lim - pos, coal = 0; mx_rec r;
        switch (a->kind) {
        case CH_FLIGHT: break;
        case CH_FIXED: if (n > a->arg) n = a->arg; break;
        case CH_RECALIGN: if (mx_rec_at(in, inlen, pos, 0, &r) && r.hdr + r.len <= n) n = r.hdr + r.len; break;
        case CH_STRADDLE: { /* split inside the header / around the boundary of the current record: arg selects the offset */
            if (mx_rec_at(in, inlen, pos, 0, &r)) { int full = r.hdr + r.len; int cut = a->arg <= 5 ? a->arg : a->arg == 6 ? full - 1 : full + 1; if (cut < 1) cut = 1; if (cut < n) n = cut; } break; }
        case CH_COALESCE: coal = 1; break;
        case CH_RANDOM: n = 1 + (int) vf_below(&g, n > 3000 ? 3000 : n); break;
        }
        drv_feed(&D, in + pos, n, coal); pos += n;
    }
    drv_drain(&D);
    SH->ok = 1;
}

static int run_child(void (*fn)(void *), void *arg, const char *desc)
{
    SH->ok = 0;
    int rc = vf_fork_case(fn, arg, "c18", desc, 300);
    return rc == 0 && SH->ok;
}
static void report(const scn_t *s, const alone_arg *a, const char *what, const char *desc, const char *fmt, ...)
{
    char key[200], msg[800]; va_list ap; va_start(ap, fmt); vsnprintf(msg, sizeof msg, fmt, ap); va_end(ap);
    snprintf(key, sizeof key, "c18:%s:%s:%s:%s", what, mx_vername[s->ver], a->role ? "server" : "client", chunk_class(a));
    vf_violation(key, desc, "%s | scenario=%s", msg, s->name);
}
static void evstr(const trace_t *t, char *o, size_t cap) { size_t n = 0; o[0] = 0; for (int i = 0; i < t->nev && n + 26 < cap; i++) n += snprintf(o + n, cap - n, "%s%s", i ? "," : "", t->ev[i]); }

int main(int argc, char **argv)
{
    vf_init(argc, argv); if (vf_flag("-vv")) vf_verbose = 2; mx_global_init(); mx_keys_load();
    SH = mmap(NULL, sizeof *SH, PROT_READ | PROT_WRITE, MAP_SHARED | MAP_ANONYMOUS, -1, 0);
    build_scenarios();
    long idx = 0; static trace_t ref;
    for (int si = 0; si < nscn; si++) {
        const scn_t *s = &scns[si]; char desc[200];
        if (vf_case) { int want = -1; sscanf(vf_case, "scn=%d", &want); if (want != si) continue; }
        mx_entropy_seed(vf_seed * 1009 + si);
        snprintf(desc, sizeof desc, "scn=%d record", si);
        if (!run_child(record_run, (void *) s, desc)) { vf_incon("recording run failed for %s/%s", mx_vername[s->ver], s->name); continue; }
        if (s->bad == BAD_NONE && !SH->established) { vf_incon("recording run of %s/%s did not establish", mx_vername[s->ver], s->name); continue; }
        if (vf_shard == 0) { vf_stat("scenarios", 1); vf_stat("stream_bytes", SH->len[0] + SH->len[1]); }
        for (int role = 0; role < 2; role++) {
            /* reference: the endpoint alone, flight at a time; must reproduce what it did in the recording */
            alone_arg ra = { s, role, CH_FLIGHT, 0, 0 };
            snprintf(desc, sizeof desc, "scn=%d role=%d kind=%d arg=%d partial=%d", si, role, ra.kind, ra.arg, ra.partial);
            if (vf_case && 0) ;
            if (!run_child(alone_run, &ra, desc)) { vf_incon("reference alone run failed %s/%s role %d", mx_vername[s->ver], s->name, role); continue; }
            memcpy(&ref, &SH->alone, sizeof ref);
            if (ref.outlen != SH->ref[role].outlen || memcmp(ref.out, SH->ref[role].out, ref.outlen)) { vf_incon("alone reference run of %s/%s role %d is not reproducible (%d vs %d output bytes): determinism not achieved", mx_vername[s->ver], s->name, role, ref.outlen, SH->ref[role].outlen); continue; }
            /* the variants */
            alone_arg v[200]; int nv = 0;
            static const int fx_q[] = { 1, 2, 3, 4, 5, 6, 7, 8, 9, 13, 16, 64, 511, 1000 };
            for (int i = 0; i < 14; i++) v[nv++] = (alone_arg) { s, role, CH_FIXED, fx_q[i], 0 };
            if (vf_thorough) for (int f = 10; f < 60; f++) v[nv++] = (alone_arg) { s, role, CH_FIXED, f, 0 };
            v[nv++] = (alone_arg) { s, role, CH_RECALIGN, 0, 0 };
            for (int c = 1; c <= 7; c++) v[nv++] = (alone_arg) { s, role, CH_STRADDLE, c, 0 };
            v[nv++] = (alone_arg) { s, role, CH_COALESCE, 0, 0 };
            for (int r = 0; r < (vf_thorough ? 40 : 6); r++) v[nv++] = (alone_arg) { s, role, CH_RANDOM, r, 0 };
            for (int p = 1; p <= 3; p++) { v[nv++] = (alone_arg) { s, role, CH_FLIGHT, 0, p }; v[nv++] = (alone_arg) { s, role, CH_FIXED, 7, p }; v[nv++] = (alone_arg) { s, role, CH_RANDOM, 50 + p, p }; }
            for (int vi = 0; vi < nv; vi++) {
                if (!vf_mine(idx++)) continue;
                alone_arg *a = &v[vi];
                snprintf(desc, sizeof desc, "scn=%d role=%d kind=%d arg=%d partial=%d", si, role, a->kind, a->arg, a->partial);
                if (vf_case && strcmp(vf_case, desc)) continue;
                vf_stat("cases", 1);
                if (!run_child(alone_run, a, desc)) continue;    /* crash/hang already recorded */
                trace_t *t = &SH->alone; char e1[700], e2[700]; evstr(&ref, e1, sizeof e1); evstr(t, e2, sizeof e2);
                vf_distinct("%d|%d|%d|%d|%d", si, role, a->kind, a->arg, a->partial);
                if (vi == 4 || vi == 16) vf_sample("%s/%s %s chunking=%s(%d) partial=%d: %d bytes in, %d out, events %s", mx_vername[s->ver], s->name, role ? "server" : "client", chunk_class(a), a->arg, a->partial, t->fed, t->outlen, e2);
                if (vf_verbose) { fprintf(stderr, "REF  events %s out=%d got=%d reqclose=%d\nTHIS events %s out=%d got=%d reqclose=%d stuck=%d\n", e1, ref.outlen, ref.gotlen, ref.reqclose_on_send, e2, t->outlen, t->gotlen, t->reqclose_on_send, t->stuck);
                    int d0 = 0; while (d0 < t->outlen && d0 < ref.outlen && t->out[d0] == ref.out[d0]) d0++; fprintf(stderr, "first diff at %d; this tail:", d0); for (int i = d0; i < t->outlen && i < d0 + 40; i++) fprintf(stderr, " %02x", t->out[i]); fprintf(stderr, "\n"); }
                if (strcmp(e1, e2)) report(s, a, "events-differ", desc, "events [%s] vs reference [%s]", e2, e1);
                /* Which call carries MATRIXSSL_HANDSHAKE_COMPLETE legitimately depends on coalescing (application data in the same
                   buffer implies it), so the counts are recorded only; but an endpoint that goes idle with a completed handshake
                   nobody was told about has lost the event. */
                else if (t->untold_at_quiescence) report(s, a, "completion-never-reported", desc, "handshake complete but neither HANDSHAKE_COMPLETE nor APP_DATA had been returned when the endpoint went idle (send-side notifications %d, receive-side %d)", t->hsc_send, t->hsc_recv);
                else if (t->gotlen != ref.gotlen || memcmp(t->got, ref.got, ref.gotlen)) report(s, a, "delivered-data-differs", desc, "delivered %d bytes vs reference %d", t->gotlen, ref.gotlen);
                else if (t->outlen != ref.outlen || memcmp(t->out, ref.out, ref.outlen)) { int d = 0; while (d < t->outlen && d < ref.outlen && t->out[d] == ref.out[d]) d++; report(s, a, "output-differs", desc, "emitted %d bytes vs reference %d, first difference at offset %d", t->outlen, ref.outlen, d); }
                else if (t->stuck) report(s, a, "output-differs", desc, "endpoint stopped emitting before the reference did (stuck at input offset %d)", t->fed);
                else { vf_stat("traces_equal", 1); if (t->hsc_recv + t->hsc_send != ref.hsc_recv + ref.hsc_send) vf_stat("completion_code_coalesced_with_appdata", 1); }
            }
        }
    }
    mx_keys_free(); matrixSslClose();
    vf_flush();
    return 0;
}
