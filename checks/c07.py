import vflib
WRAPS = ("psGetEntropy", "gettimeofday", "time", "clock_gettime", "chooseSkeSigAlg", "chooseSigAlg", "tls13ChooseSigAlg")
def run(ctx):
    st = [dict(variant="asan", name="c07", sources=["checks/c07_negotiation.c", "harness/mx_wraps.c"], wraps=WRAPS, libs=["-lcrypto"], shards=vflib.NCPU, timeout=7200 if ctx.thorough else 1500)]
    rule = ("Each case = one pair of client/server configurations (all 7x7 TLS and 3x3 DTLS version subsets exhaustively; every single suite per version with the suite enabled or disabled on "
            "the server; seeded random suite lists; TLS 1.3 group and signature-algorithm subsets; extended-master-secret on/off pairs; fallback SCSV for every version-set pair) or one "
            "man-in-the-middle rewrite of one ClientHello/ServerHello field (legacy version, random tail, session id, suite drop/insert/swap/set, compression, each extension removed / "
            "duplicated / one byte edited, unknown extension appended, TLS 1.3 stripped from supported_versions) on 7 configurations, executed in a fork()ed child and judged by the "
            "reference negotiation function. distinct_nontrivial = distinct configuration/tamper tuples that were applicable and executed.")
    return vflib.std_run(ctx, st, "exploration", rule,
        ["completeness (must succeed) is asserted only for default lists; exotic list combinations may legally be refused", "renegotiation is compiled out"], min_nontrivial=500)
