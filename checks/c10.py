import vflib
WRAPS = ("psGetEntropy", "gettimeofday", "time")


def run(ctx):
    st = [dict(variant="asan", name="c10", sources=["checks/c10_interop.c", "harness/mx_wraps.c"], wraps=WRAPS,
               libs=["-lssl", "-lcrypto"], shards=vflib.NCPU, timeout=7200 if ctx.thorough else 900)]
    rule = ("Each case = one configuration run in a forked child: the sanitizer build of MatrixSSL on one end, OpenSSL 3 on the other, "
            "over in-memory queues (TLS byte stream delivered in reads of 3/17/1399/4096/16389 bytes or whole flights; datagram queue for DTLS); both stacks "
            "use seeded randomness. Tuple = (role mx-client|mx-server, version TLS1.1/1.2/1.3/DTLS1.0/1.2, suite, server certificate type "
            "RSA-2048/3072, RSA-PSS, ECDSA P-256/384/521, Ed25519, first key share > final group (HelloRetryRequest when different) over P-256/384/521/X25519/ffdhe, "
            "client-auth certificate type, resumption mode none/session-id/RFC5077 ticket/TLS1.3 ticket PSK/TLS1.3 external PSK, extended master secret on/off, "
            "DTLS cookie on/off, payload plan). Oracle: both stacks complete; identical version/suite/(1.3) group/EMS that equal the pinned ones; tagged payloads "
            "of the planned sizes (1,100,16383,16384,16385,40000,200000 for TLS; 1,100,1000,1200 for DTLS) and bursts of 1..7-byte records round-trip bit-exact both ways, every second TLS 1.3 configuration makes both stacks pad application records to 1024-byte blocks, and every 7th (quick) / 4th (thorough) configuration also streams 300 one-record messages per direction (record sequence numbers cross a byte boundary under one key); "
            "after clean shutdown the second connection is resumed on both stacks' view and data round-trips again; a third connection offers the same resumption state to a peer that cannot use it (fresh OpenSSL context / MatrixSSL key set with other ticket keys and an emptied session cache) and must fall back to a full handshake that works. quick = every (role,version,suite) plus one-factor "
            "deviations per key-exchange family plus a few many-factor TLS 1.3 cases (seed-independent set); thorough = the full product. "
            "evaluations = configurations executed against OpenSSL; distinct_nontrivial = distinct configuration tuples that both stacks support and that completed all "
            "phases; configurations one stack cannot do are counted under not_mutually_supported_<why> and are neither passes nor violations.")

    def post(res):
        if ctx.replay:
            return
        # every resumption mode must actually have been exercised in both roles, otherwise the not-resumed clause was vacuous
        for k in ("resumed_sid_mx-client", "resumed_sid_mx-server", "resumed_ticket_mx-client", "resumed_ticket_mx-server",
                  "resumed_psk13_mx-client", "resumed_psk13_mx-server", "external_psk_handshakes_ok"):
            if res.stats.get(k, 0) == 0 and not res.viol:
                res.incon.append("resumption mode never exercised: " + k)

    return vflib.std_run(ctx, st, "exploration", rule,
        ["conformance = agreement with OpenSSL 3.0; a deviation shared with OpenSSL is invisible",
         "OpenSSL policy knobs opened: security level 0, exact protocol version, SSL_OP_LEGACY_SERVER_CONNECT for the OpenSSL client "
         "(this MatrixSSL build has renegotiation compiled out and sends no renegotiation_info)",
         "DTLS runs over a lossless in-order datagram queue; application datagrams are limited to what fits one record under the path MTU",
         "early data is not exercised"],
        min_nontrivial=3000 if ctx.thorough else 250, post=post)
